import Hub.Drv.Util
import Hub.Drv.C10
import Hub.Drv.C17
import Hub.Drv.C11
import Hub.Drv.C16
import Hub.Drv.C13
import Hub.Drv.C09
import Hub.Drv.Store
import Hub.Drv.C14
import Hub.Drv.C05
import Hub.Drv.C15
import Hub.Drv.C08
import Hub.Drv.C02
/-! Line-protocol driver: one JSON case per input line `{"id":n,"k":kind,"in":…}`, one JSON
result per output line `{"id":n,"m":model,"s":spec?,"nt":bool,"kf":class?}` or `{"id":n,"err":…}`. -/
open Lean Hub.Drv

def handlers : List (String → Json → Option (R Res)) :=
  [Hub.Drv.C10.handle, Hub.Drv.C17.handle, Hub.Drv.C11.handle, Hub.Drv.C16.handle, Hub.Drv.C13.handle, Hub.Drv.C09.handle, Hub.Drv.Store.handle, Hub.Drv.C14.handle, Hub.Drv.C05.handle, Hub.Drv.C15.handle, Hub.Drv.C08.handle, Hub.Drv.C02.handle]

def dispatch (k : String) (inp : Json) : R Res :=
  match handlers.findSome? (fun h => h k inp) with
  | some r => r
  | none => .error s!"unknown kind {k}"

def stepLine (line : String) : String :=
  match Json.parse line with
  | .error e => (Json.mkObj [("id", jInt (-1)), ("err", Json.str s!"parse: {e}")]).compress
  | .ok j =>
    let id := getNatD j "id" 0
    match (do let k ← getStr j "k"; let inp ← getObj j "in"; dispatch k inp : R Res) with
    | .ok r => (r.toJson id).compress
    | .error e => (Json.mkObj [("id", jNat id), ("err", Json.str e)]).compress

partial def loop (h : IO.FS.Stream) (out : IO.FS.Stream) : IO Unit := do
  let line ← h.getLine
  if line.isEmpty then return ()
  let l := line.trimAscii.toString
  if !l.isEmpty then out.putStrLn (stepLine l)
  loop h out

def main : IO Unit := do
  let out ← IO.getStdout
  loop (← IO.getStdin) out
  out.flush
