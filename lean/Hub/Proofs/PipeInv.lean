import Hub.Model.Pipeline
/-!
# Token safety of the detailed pipeline model (`Hub.Pipe`), DatasetSource without latest-only

The invariant of `Hub.Sync` restated for the model that is compared with the code: `Inv f g c` — for every id
changed below position `c` of the source feed `f`, the sink feed `g` holds, as its latest version of that id, a
source version at a position not before any of those changes. It is kept by source writes, by every delivered
page (with the sink's duplicate detection), and is what a stored token promises.
-/
namespace Hub.PipeInv
open Hub.Pipe

/-! ## the sink: latest version after a store -/

theorem latestV_append (g : Feed) (v : Ver) (id : Nat) :
    latestV (g ++ [v]) id = if v.id = id then some v else latestV g id := by
  unfold latestV
  simp only [List.reverse_append, List.reverse_cons, List.reverse_nil, List.nil_append, List.singleton_append, List.find?_cons]
  by_cases h : v.id = id
  · simp [h]
  · have : (v.id == id) = false := by simpa using h
    simp [this, h]

theorem latestV_store1 (g : Feed) (v : Ver) (id : Nat) :
    latestV (store1 g v) id = if v.id = id then some v else latestV g id := by
  unfold store1
  by_cases hd : latestV g v.id = some v
  · rw [if_pos hd]
    by_cases h : v.id = id
    · rw [if_pos h, ← h, hd]
    · rw [if_neg h]
  · rw [if_neg hd, latestV_append]

/-- the last element of a batch that carries the id. -/
def lastOf (b : List Ver) (id : Nat) : Option Ver := b.reverse.find? (fun v => v.id == id)

theorem lastOf_cons (v : Ver) (b : List Ver) (id : Nat) :
    lastOf (v :: b) id = match lastOf b id with | some w => some w | none => if v.id = id then some v else none := by
  unfold lastOf
  simp only [List.reverse_cons, List.find?_append]
  cases h : List.find? (fun v => v.id == id) b.reverse with
  | some w => simp
  | none =>
    by_cases hv : v.id = id
    · simp [hv]
    · have : (v.id == id) = false := by simpa using hv
      simp [this, hv]

theorem latestV_storeBatch : ∀ (b : List Ver) (g : Feed) (id : Nat),
    latestV (storeBatch g b) id = match lastOf b id with | some w => some w | none => latestV g id
  | [], g, id => by simp [storeBatch, lastOf]
  | v :: b, g, id => by
    have ih := latestV_storeBatch b (store1 g v) id
    have : storeBatch g (v :: b) = storeBatch (store1 g v) b := by simp [storeBatch]
    rw [this, ih, lastOf_cons]
    cases h : lastOf b id with
    | some w => rfl
    | none =>
      simp only
      rw [latestV_store1]
      by_cases hv : v.id = id <;> simp [hv]

/-! ## occurrences in the source feed -/

def Occ (f : Feed) (id p : Nat) : Prop := ∃ v, f[p]? = some v ∧ v.id = id

/-- for every id changed below `c`, the sink's latest version of it is a source version at a position not before
any change of the id below `c`. -/
def Inv (f g : Feed) (c : Nat) : Prop :=
  ∀ id, (∃ p, p < c ∧ Occ f id p) →
    ∃ q v, f[q]? = some v ∧ v.id = id ∧ (∀ p, p < c → Occ f id p → p ≤ q) ∧ latestV g id = some v

theorem inv_zero (f g : Feed) : Inv f g 0 := by
  intro id ⟨p, hp, _⟩; omega

theorem inv_mono {f g : Feed} {c c' : Nat} (h : Inv f g c) (hc : c' ≤ c) : Inv f g c' := by
  intro id ⟨p, hp, ho⟩
  obtain ⟨q, v, h1, h2, h3, h4⟩ := h id ⟨p, by omega, ho⟩
  exact ⟨q, v, h1, h2, fun p' hp' ho' => h3 p' (by omega) ho', h4⟩

/-- a source write (an append) does not disturb the invariant at any position of the old feed. -/
theorem inv_write {f g : Feed} {c : Nat} (h : Inv f g c) (hc : c ≤ f.length) (w : List Ver) : Inv (f ++ w) g c := by
  intro id ⟨p, hp, v0, hv0, hid0⟩
  have hpf : p < f.length := by omega
  have hget : ∀ p', p' < f.length → (f ++ w)[p']? = f[p']? := fun p' hp' => List.getElem?_append_left hp'
  obtain ⟨q, v, h1, h2, h3, h4⟩ := h id ⟨p, hp, v0, by rw [← hget p hpf]; exact hv0, hid0⟩
  have hq : q < f.length := by
    rcases Nat.lt_or_ge q f.length with h | h
    · exact h
    · rw [List.getElem?_eq_none h] at h1; cases h1
  refine ⟨q, v, by rw [hget q hq]; exact h1, h2, ?_, h4⟩
  intro p' hp' ⟨v', hv', hid'⟩
  exact h3 p' hp' ⟨v', by rw [← hget p' (by omega)]; exact hv', hid'⟩

theorem lastOf_some_mem {b : List Ver} {id : Nat} {w : Ver} (h : lastOf b id = some w) :
    ∃ i : Nat, b[i]? = some w ∧ w.id = id ∧ ∀ (j : Nat) (v : Ver), b[j]? = some v → v.id = id → j ≤ i := by
  induction b with
  | nil => simp [lastOf] at h
  | cons v b ih =>
    rw [lastOf_cons] at h
    cases hb : lastOf b id with
    | some w' =>
      rw [hb] at h
      simp only [Option.some.injEq] at h
      subst h
      obtain ⟨i, h1, h2, h3⟩ := ih hb
      refine ⟨i + 1, by simpa using h1, h2, ?_⟩
      intro j x hj hx
      cases j with
      | zero => omega
      | succ j => have := h3 j x (by simpa using hj) hx; omega
    | none =>
      rw [hb] at h
      simp only at h
      by_cases hv : v.id = id
      · rw [if_pos hv] at h
        simp only [Option.some.injEq] at h
        subst h
        refine ⟨0, rfl, hv, ?_⟩
        intro j x hj hx
        cases j with
        | zero => omega
        | succ j =>
          exfalso
          -- x ∈ b with that id, but lastOf b id = none
          have hx' : x ∈ b.reverse := List.mem_reverse.2 (List.mem_of_getElem? (by simpa using hj))
          unfold lastOf at hb
          have := List.find?_eq_none.1 hb x hx'
          simp [hx] at this
      · rw [if_neg hv] at h; cases h

theorem lastOf_none {b : List Ver} {id : Nat} (h : lastOf b id = none) : ∀ (j : Nat) (v : Ver), b[j]? = some v → v.id ≠ id := by
  intro j v hj hv
  unfold lastOf at h
  have := List.find?_eq_none.1 h v (List.mem_reverse.2 (List.mem_of_getElem? hj))
  simp [hv] at this

/-- **a delivered page keeps the invariant and moves it to the end of the page** (with the sink's write-time
duplicate detection): `page` = the source versions at positions `[cur, cur + page.length)`. -/
theorem inv_deliver {f g : Feed} {cur : Nat} (h : Inv f g cur) (page : List Ver)
    (hpage : ∀ i, i < page.length → f[cur + i]? = page[i]?) :
    Inv f (storeBatch g page) (cur + page.length) := by
  intro id ⟨p, hp, ho⟩
  rw [latestV_storeBatch]
  cases hl : lastOf page id with
  | some w =>
    obtain ⟨i, h1, h2, h3⟩ := lastOf_some_mem hl
    have hi : i < page.length := by
      rcases Nat.lt_or_ge i page.length with h | h
      · exact h
      · rw [List.getElem?_eq_none h] at h1; cases h1
    refine ⟨cur + i, w, by rw [hpage i hi]; exact h1, h2, ?_, rfl⟩
    intro p' hp' ⟨v', hv', hid'⟩
    rcases Nat.lt_or_ge p' cur with hlt | hge
    · omega
    · have hj : p' - cur < page.length := by omega
      have : page[p' - cur]? = some v' := by rw [← hpage (p' - cur) hj]; rw [← hv']; congr 1; omega
      have := h3 (p' - cur) v' this hid'
      omega
  | none =>
    -- the id does not occur in the page: all its occurrences below the new position are below `cur`
    have hbelow : ∀ p', p' < cur + page.length → Occ f id p' → p' < cur := by
      intro p' hp' ⟨v', hv', hid'⟩
      rcases Nat.lt_or_ge p' cur with hlt | hge
      · exact hlt
      · exfalso
        have hj : p' - cur < page.length := by omega
        have : page[p' - cur]? = some v' := by rw [← hpage (p' - cur) hj]; rw [← hv']; congr 1; omega
        exact lastOf_none hl _ _ this hid'
    obtain ⟨q, v, h1, h2, h3, h4⟩ := h id ⟨p, hbelow p hp ho, ho⟩
    exact ⟨q, v, h1, h2, fun p' hp' ho' => h3 p' (hbelow p' hp' ho') ho', h4⟩

/-- at the end of the feed the invariant is convergence: the sink's latest version of every source id is the
source's latest version. -/
theorem converged_of_inv {f g : Feed} (h : Inv f g f.length) (id : Nat) (hocc : ∃ p, Occ f id p) :
    latestV g id = latestV f id := by
  obtain ⟨p, v0, hv0, hid0⟩ := hocc
  have hp : p < f.length := by
    rcases Nat.lt_or_ge p f.length with h | h
    · exact h
    · rw [List.getElem?_eq_none h] at hv0; cases hv0
  obtain ⟨q, v, h1, h2, h3, h4⟩ := h id ⟨p, hp, v0, hv0, hid0⟩
  rw [h4]
  -- `latestV f id` is the last element of `f` with the id, i.e. `lastOf f id`
  have hlast : latestV f id = lastOf f id := rfl
  rw [hlast]
  cases hl : lastOf f id with
  | none => exact absurd hid0 (lastOf_none hl p v0 hv0)
  | some w =>
    obtain ⟨i, i1, i2, i3⟩ := lastOf_some_mem hl
    have hi : i < f.length := by
      rcases Nat.lt_or_ge i f.length with h | h
      · exact h
      · rw [List.getElem?_eq_none h] at i1; cases i1
    have hqi : q ≤ i := i3 q v h1 h2
    have hiq : i ≤ q := h3 i hi ⟨w, i1, i2⟩
    have : q = i := Nat.le_antisymm hqi hiq
    subst this
    rw [h1] at i1; exact i1

/-! ## `readPage` without latest-only is a slice of the feed -/

open Hub.Store in
/-- the change-log entries of a feed from position `n` on. -/
def enumFrom : Nat → Feed → List (Nat × (Nat × Ver))
  | _, [] => []
  | n, v :: vs => (n, (n, v)) :: enumFrom (n + 1) vs

theorem zipIdx_map_enum : ∀ (f : Feed) (n : Nat), (f.zipIdx n).map (fun p => (p.2, (p.2, p.1))) = enumFrom n f
  | [], _ => rfl
  | v :: vs, n => by simp [List.zipIdx_cons, enumFrom, zipIdx_map_enum vs (n + 1)]

theorem filter_enum_ge : ∀ (f : Feed) (n since : Nat), since ≤ n →
    (enumFrom n f).filter (fun y => decide (since ≤ y.1)) = enumFrom n f
  | [], _, _, _ => rfl
  | v :: vs, n, since, h => by
    simp only [enumFrom, List.filter_cons, h, decide_true, if_true]
    rw [filter_enum_ge vs (n + 1) since (by omega)]

theorem filter_enum_lt : ∀ (f : Feed) (n since : Nat), n ≤ since →
    (enumFrom n f).filter (fun y => decide (since ≤ y.1)) = enumFrom since (f.drop (since - n))
  | [], n, since, _ => by simp [enumFrom]
  | v :: vs, n, since, h => by
    by_cases heq : since = n
    · subst heq
      simp only [Nat.sub_self, List.drop_zero]
      exact filter_enum_ge (v :: vs) since since (Nat.le_refl _)
    · have hlt : n < since := by omega
      have hnle : ¬ since ≤ n := by omega
      simp only [enumFrom, List.filter_cons, hnle, decide_false, Bool.false_eq_true, if_false]
      rw [filter_enum_lt vs (n + 1) since (by omega)]
      have : since - n = (since - (n + 1)) + 1 := by omega
      rw [this, List.drop_succ_cons]

open Hub.Store in
/-- the scan over consecutive entries that are all emitted: it takes entries until `limit` are collected. -/
theorem scanG_all (limit : Nat) (hl : 0 < limit) : ∀ (f : Feed) (n : Nat) (acc : List Ver) (last : Option Nat), acc.length < limit →
    let r := scanG (fun (k : Nat × Ver) => some k.2) limit (enumFrom n f) acc last
    let taken := f.take (limit - acc.length)
    r.1 = acc ++ taken ∧ r.2.1 = (if taken.isEmpty then last else some (n + taken.length - 1))
  | [], n, acc, last, _ => by simp [enumFrom, scanG]
  | v :: vs, n, acc, last, hacc => by
    simp only [enumFrom, scanG]
    by_cases hfull : (acc ++ [v]).length = limit
    · have h1 : limit - acc.length = 1 := by simp at hfull; omega
      simp [hl, hfull, h1]
    · have hne : ¬ (limit > 0 ∧ (acc ++ [v]).length = limit) := fun h => hfull h.2
      rw [if_neg hne]
      have hacc' : (acc ++ [v]).length < limit := by simp at hfull ⊢; omega
      have ih := scanG_all limit hl vs (n + 1) (acc ++ [v]) (some n) hacc'
      simp only at ih
      obtain ⟨i1, i2⟩ := ih
      have hk : limit - acc.length = (limit - (acc ++ [v]).length) + 1 := by simp; omega
      refine ⟨?_, ?_⟩
      · rw [i1, hk, List.take_succ_cons]; simp
      · rw [i2, hk, List.take_succ_cons]
        simp only [List.isEmpty_cons, Bool.false_eq_true, if_false, List.length_cons]
        by_cases he : (List.take (limit - (acc ++ [v]).length) vs).isEmpty = true
        · have : List.take (limit - (acc ++ [v]).length) vs = [] := by simpa using he
          simp [this]
        · simp only [he, Bool.false_eq_true, if_false]
          congr 1; omega

/-- `ProcessChanges(since, batch, latestOnly = false)`: the next `batch` versions from position `since`, and the
position after them (or `since` itself when nothing is found). -/
theorem readPage_slice (f : Feed) (since batch : Nat) (hb : 0 < batch) :
    readPage f since batch false = ((f.drop since).take batch, since + ((f.drop since).take batch).length) := by
  unfold readPage Hub.Store.pageG Hub.Store.fromPos
  have hz := zipIdx_map_enum f 0
  simp only [Bool.not_false, Bool.true_or, if_true] at hz ⊢
  rw [hz, filter_enum_lt f 0 since (Nat.zero_le _)]
  simp only [Nat.sub_zero]
  have h := scanG_all batch hb (f.drop since) since [] none (by simpa using hb)
  simp only [List.length_nil, Nat.sub_zero, List.nil_append] at h
  obtain ⟨h1, h2⟩ := h
  rw [h1, h2]
  by_cases he : (List.take batch (List.drop since f)).isEmpty = true
  · have : List.take batch (List.drop since f) = [] := by simpa using he
    simp [this]
  · simp only [he, Bool.false_eq_true, if_false]
    have hpos : 0 < (List.take batch (List.drop since f)).length := by
      cases hh : List.take batch (List.drop since f) with
      | nil => simp [hh] at he
      | cons a as => simp
    refine Prod.ext rfl ?_
    simp only
    omega

/-! ## the run loop keeps the invariant, whatever the faults -/

/-- the position a token stands for (`""` = 0). -/
def pos (t : Tok) : Nat := match t with | [some n] => n | _ => 0

/-- invariant of a run in progress over source feed `f`: stored token ≤ cursor ≤ end of feed, the sink is up to date
with the cursor, and (for a full sync in progress) every id delivered since the start has been marked seen. -/
structure RunInv (fs : Bool) (f : Feed) (rs : RS) : Prop where
  tokLe : pos rs.tok ≤ pos rs.cur
  curLe : pos rs.cur ≤ f.length
  inv : Inv f rs.sink.feed (pos rs.cur)
  started : fs = true → rs.sink.started = true
  seen : fs = true → ∀ p v, p < pos rs.cur → f[p]? = some v → v.id ∈ rs.sink.seen

theorem slice_get (f : Feed) (cur b : Nat) (i : Nat) (hi : i < ((f.drop cur).take b).length) :
    f[cur + i]? = ((f.drop cur).take b)[i]? := by
  rw [List.getElem?_take]
  have : i < b := by simp only [List.length_take, List.length_drop] at hi; omega
  simp [this, List.getElem?_drop]

theorem slice_len (f : Feed) (cur b : Nat) (h : cur ≤ f.length) : cur + ((f.drop cur).take b).length ≤ f.length := by
  simp only [List.length_take, List.length_drop]; omega

theorem procEnt_inv (fs : Bool) (f : Feed) (flt : Faults) (persistNow : Bool) (b : Nat) (rs : RS) (h : RunInv fs f rs) :
    RunInv fs f (procEnt flt persistNow ((f.drop (pos rs.cur)).take b)
      [some (pos rs.cur + ((f.drop (pos rs.cur)).take b).length)] rs).1 := by
  generalize hpage : (f.drop (pos rs.cur)).take b = page
  have hlen : pos rs.cur + page.length ≤ f.length := by rw [← hpage]; exact slice_len f (pos rs.cur) b h.curLe
  have hget : ∀ i, i < page.length → f[pos rs.cur + i]? = page[i]? := by
    intro i hi; subst hpage; exact slice_get f (pos rs.cur) b i hi
  unfold procEnt
  by_cases hc : cancelled flt rs.accepted = true
  · simp only [hc, if_true]; exact h
  · simp only [hc, Bool.false_eq_true, if_false]
    by_cases he : page.isEmpty = true
    · have hpe : page = [] := by simpa using he
      simp only [he, if_true]
      have hcur : pos [some (pos rs.cur + page.length)] = pos rs.cur := by simp [pos, hpe]
      refine ⟨?_, ?_, ?_, h.started, ?_⟩
      · show pos (if persistNow = true then [some (pos rs.cur + page.length)] else rs.tok) ≤ pos [some (pos rs.cur + page.length)]
        rw [hcur]
        cases persistNow
        · simpa using h.tokLe
        · simp [hcur]
      · show pos [some (pos rs.cur + page.length)] ≤ f.length
        rw [hcur]; exact h.curLe
      · show Inv f rs.sink.feed (pos [some (pos rs.cur + page.length)])
        rw [hcur]; exact h.inv
      · show fs = true → ∀ p v, p < pos [some (pos rs.cur + page.length)] → f[p]? = some v → v.id ∈ rs.sink.seen
        rw [hcur]; exact h.seen
    · simp only [he, Bool.false_eq_true, if_false]
      by_cases hf : flt.failAt = some rs.calls
      · simp only [hf, if_true]
        exact ⟨h.tokLe, h.curLe, h.inv, h.started, h.seen⟩
      · simp only [hf, if_false]
        have hdel : Inv f (storeBatch rs.sink.feed page) (pos rs.cur + page.length) := inv_deliver h.inv page hget
        have hst' : fs = true → (rs.sink.process page).started = true := fun hfs => by
          simp only [Sink.process]; exact h.started hfs
        have hseen' : fs = true → ∀ p v, p < pos rs.cur + page.length → f[p]? = some v →
            v.id ∈ (rs.sink.process page).seen := by
          intro hfs p v hp hv
          have hst := h.started hfs
          simp only [Sink.process, hst, if_true]
          rcases Nat.lt_or_ge p (pos rs.cur) with hlt | hge
          · exact List.mem_append_left _ (h.seen hfs p v hlt hv)
          · apply List.mem_append_right
            have hi : p - pos rs.cur < page.length := by omega
            have : page[p - pos rs.cur]? = some v := by
              rw [← hget (p - pos rs.cur) hi, ← hv]; congr 1; omega
            exact List.mem_map.2 ⟨v, List.mem_of_getElem? this, rfl⟩
        have hnew : pos [some (pos rs.cur + page.length)] = pos rs.cur + page.length := rfl
        by_cases hd : flt.dieAfter = some (rs.accepted + 1)
        · simp only [hd, if_true]
          refine ⟨h.tokLe, h.curLe, ?_, hst', ?_⟩
          · show Inv f (rs.sink.process page).feed (pos rs.cur)
            exact inv_mono hdel (by omega)
          · show fs = true → ∀ p v, p < pos rs.cur → f[p]? = some v → v.id ∈ (rs.sink.process page).seen
            intro hfs p v hp hv
            exact hseen' hfs p v (by omega) hv
        · simp only [hd, if_false]
          refine ⟨?_, ?_, ?_, hst', ?_⟩
          · show pos (if persistNow = true then [some (pos rs.cur + page.length)] else rs.tok) ≤ pos [some (pos rs.cur + page.length)]
            rw [hnew]
            cases persistNow
            · have := h.tokLe; simp only [Bool.false_eq_true, if_false]; omega
            · simp [hnew]
          · show pos [some (pos rs.cur + page.length)] ≤ f.length
            rw [hnew]; exact hlen
          · show Inv f (rs.sink.process page).feed (pos [some (pos rs.cur + page.length)])
            rw [hnew]; exact hdel
          · show fs = true → ∀ p v, p < pos [some (pos rs.cur + page.length)] → f[p]? = some v →
                v.id ∈ (rs.sink.process page).seen
            rw [hnew]; exact hseen'

/-- the closure says `stop` only for an empty page, and then the cursor (and, when it stores per page, the token)
stands at the position it was asked from. -/
theorem procEnt_stop (flt : Faults) (persistNow : Bool) (page : List Ver) (tn : Tok) (rs rs' : RS)
    (h : procEnt flt persistNow page tn rs = (rs', .stop)) :
    page = [] ∧ rs'.cur = tn ∧ (persistNow = true → rs'.tok = tn) ∧ rs'.sink = rs.sink := by
  unfold procEnt at h
  by_cases hc : cancelled flt rs.accepted = true
  · simp [hc] at h
  · simp only [hc, Bool.false_eq_true, if_false] at h
    by_cases he : page.isEmpty = true
    · simp only [he, if_true, Prod.mk.injEq, and_true] at h
      subst h
      exact ⟨by simpa using he, rfl, fun hp => by simp [hp], rfl⟩
    · simp only [he, Bool.false_eq_true, if_false] at h
      by_cases hf : flt.failAt = some rs.calls
      · simp [hf] at h
      · simp only [hf, if_false] at h
        by_cases hd : flt.dieAfter = some (rs.accepted + 1)
        · simp [hd] at h
        · simp [hd] at h

theorem loopDS_succ (src : Feed) (b : Nat) (lo : Bool) (flt : Faults) (p : Bool) (fuel : Nat) (rs : RS) :
    loopDS src b lo flt p (fuel + 1) rs =
      (match procEnt flt p (readPage src (pos rs.cur) b lo).1 [some (readPage src (pos rs.cur) b lo).2] rs with
       | (rs', .cont) => loopDS src b lo flt p fuel rs'
       | r => r) := rfl

theorem loopDS_inv (fs : Bool) (f : Feed) (b : Nat) (hb : 0 < b) (flt : Faults) (persistNow : Bool) :
    ∀ (fuel : Nat) (rs : RS), RunInv fs f rs →
      RunInv fs f (loopDS f b false flt persistNow fuel rs).1
      ∧ ((loopDS f b false flt persistNow fuel rs).2 = .stop →
          pos (loopDS f b false flt persistNow fuel rs).1.cur = f.length
          ∧ (persistNow = true → (loopDS f b false flt persistNow fuel rs).1.tok = (loopDS f b false flt persistNow fuel rs).1.cur))
  | 0, rs, h => ⟨h, fun hs => by simp [loopDS] at hs⟩
  | fuel + 1, rs, h => by
    rw [loopDS_succ, readPage_slice f (pos rs.cur) b hb]
    have hp := procEnt_inv fs f flt persistNow b rs h
    cases hr : procEnt flt persistNow ((f.drop (pos rs.cur)).take b) [some (pos rs.cur + ((f.drop (pos rs.cur)).take b).length)] rs with
    | mk rs' out =>
      rw [hr] at hp
      cases out with
      | cont => exact loopDS_inv fs f b hb flt persistNow fuel rs' hp
      | stop =>
        refine ⟨hp, fun _ => ?_⟩
        obtain ⟨h1, h2, h3, _⟩ := procEnt_stop flt persistNow _ _ rs rs' hr
        have hend : f.length ≤ pos rs.cur := by
          have hdrop : f.drop (pos rs.cur) = [] := by
            cases hd : f.drop (pos rs.cur) with
            | nil => rfl
            | cons x xs =>
              rw [hd] at h1
              obtain ⟨b', rfl⟩ : ∃ b', b = b' + 1 := ⟨b - 1, by omega⟩
              simp [List.take_succ_cons] at h1
          exact List.drop_eq_nil_iff.1 hdrop
        refine ⟨?_, fun hpn => by show rs'.tok = rs'.cur; rw [h3 hpn, h2]⟩
        show pos rs'.cur = f.length
        rw [h2, h1]
        have hz : pos [some (pos rs.cur + ([] : List Ver).length)] = pos rs.cur := rfl
        rw [hz]
        exact Nat.le_antisymm h.curLe hend
      | err => exact ⟨hp, fun hs => by cases hs⟩
      | died => exact ⟨hp, fun hs => by cases hs⟩

/-! ## whole runs and histories -/

/-- a job over one dataset source, reading all versions (no latest-only), batch size `b`. -/
def cfg1 (b : Nat) : Cfg := { union := false, latestOnly := false, batch := b }

/-- **token safety** of a job state over source feed `f`: the stored token does not point beyond the feed, and for
every id changed below it the sink holds a source version at least as new as the last of those changes. -/
structure Safe (f : Feed) (s : St) : Prop where
  srcs : s.srcs = [f]
  tokLe : pos s.tok ≤ f.length
  inv : Inv f s.sink.feed (pos s.tok)

theorem store1_append (f : Feed) (v : Ver) : ∃ w, store1 f v = f ++ w := by
  unfold store1; split
  · exact ⟨[], by simp⟩
  · exact ⟨[v], rfl⟩

theorem storeBatch_append : ∀ (b : List Ver) (f : Feed), ∃ w, storeBatch f b = f ++ w
  | [], f => ⟨[], by simp [storeBatch]⟩
  | v :: b, f => by
    obtain ⟨w1, h1⟩ := store1_append f v
    obtain ⟨w2, h2⟩ := storeBatch_append b (store1 f v)
    refine ⟨w1 ++ w2, ?_⟩
    have : storeBatch f (v :: b) = storeBatch (store1 f v) b := by simp [storeBatch]
    rw [this, h2, h1, List.append_assoc]

theorem inv_congr {f g g' : Feed} {c : Nat} (h : Inv f g c)
    (hg : ∀ id, (∃ p, Occ f id p) → latestV g' id = latestV g id) : Inv f g' c := by
  intro id ⟨p, hp, ho⟩
  obtain ⟨q, v, h1, h2, h3, h4⟩ := h id ⟨p, hp, ho⟩
  exact ⟨q, v, h1, h2, h3, by rw [hg id ⟨p, ho⟩]; exact h4⟩

theorem lastOf_none_of_forall {b : List Ver} {id : Nat} (h : ∀ w ∈ b, w.id ≠ id) : lastOf b id = none := by
  unfold lastOf
  apply List.find?_eq_none.2
  intro w hw
  have := h w (List.mem_reverse.1 hw)
  simpa using this

/-- `CompleteFullSync` after a full sync that read the whole feed deletes nothing the source knows: every source id
was written (seen) since the start. -/
theorem complete_inv {f : Feed} {rs : RS} (h : RunInv true f rs) (hend : pos rs.cur = f.length) (sk : Sink)
    (hc : rs.sink.complete = some sk) : Inv f sk.feed f.length := by
  unfold Sink.complete at hc
  have hst := h.started rfl
  simp only [hst, Bool.not_true, Bool.false_eq_true, if_false, Option.some.injEq] at hc
  subst hc
  have hinv : Inv f rs.sink.feed f.length := hend ▸ h.inv
  apply inv_congr hinv
  intro id ⟨p, v, hv, hid⟩
  rw [latestV_storeBatch]
  have hp : p < f.length := by
    rcases Nat.lt_or_ge p f.length with h | h
    · exact h
    · rw [List.getElem?_eq_none h] at hv; cases hv
  have hseen : id ∈ rs.sink.seen := hid ▸ h.seen rfl p v (by omega) hv
  rw [lastOf_none_of_forall]
  intro w hw
  obtain ⟨x, hx, rfl⟩ := List.mem_map.1 hw
  have := (List.mem_filter.1 hx).2
  simp only [Bool.and_eq_true, Bool.not_eq_true', List.contains_eq_mem, decide_eq_false_iff_not] at this
  intro heq
  have hx : x.id = id := heq
  exact this.2 (hx ▸ hseen)

theorem readAll_cfg1 (b : Nat) (f : Feed) (flt : Faults) (p : Bool) (rs : RS) :
    readAll (cfg1 b) [f] flt p rs = loopDS f b false flt p (fuelOf [f]) rs := rfl

theorem mkSafe (f : Feed) (sink : Sink) (tok : Tok) (h1 : pos tok ≤ f.length) (h2 : Inv f sink.feed (pos tok)) :
    Safe f { srcs := [f], sink := sink, tok := tok } := ⟨rfl, h1, h2⟩

/-- **a run keeps token safety, whatever happens to it** — sink rejection at any call, kill after any batch, death
between the sink write and the token store, incremental or full sync (which clears the stored token when it starts) —
and a run that ends `ok` leaves the token at the end of the feed. -/
theorem runJob_safe (b : Nat) (hb : 0 < b) (full : Bool) (flt : Faults) (s : St) (f : Feed) (h : Safe f s) :
    Safe f (runJob true (cfg1 b) full flt s).1
    ∧ ((runJob true (cfg1 b) full flt s).2 = .ok → pos (runJob true (cfg1 b) full flt s).1.tok = f.length) := by
  have hsrcs := h.srcs
  obtain ⟨srcs, sink, tok⟩ := s
  simp only at hsrcs
  subst hsrcs
  unfold runJob
  cases full with
  | false =>
    simp only [Bool.not_false, if_true, readAll_cfg1]
    have h0 : RunInv false f { sink := sink, tok := tok, cur := tok } :=
      ⟨Nat.le_refl _, h.tokLe, h.inv, (fun hh => by cases hh), (fun hh => by cases hh)⟩
    obtain ⟨hr, hstop⟩ := loopDS_inv false f b hb flt true (fuelOf [f]) _ h0
    cases hl : loopDS f b false flt true (fuelOf [f]) { sink := sink, tok := tok, cur := tok } with
    | mk rs out =>
      rw [hl] at hr hstop
      refine ⟨mkSafe f rs.sink rs.tok (Nat.le_trans hr.tokLe hr.curLe) (inv_mono hr.inv hr.tokLe), ?_⟩
      intro hok
      cases out with
      | stop =>
        obtain ⟨h1, h2⟩ := hstop rfl
        show pos rs.tok = f.length
        rw [h2 rfl]; exact h1
      | cont => cases hok
      | err => cases hok
      | died => cases hok
  | true =>
    simp only [Bool.not_true, Bool.false_eq_true, if_false, if_true, readAll_cfg1]
    have h0 : RunInv true f { sink := sink.start, tok := [], cur := [] } :=
      ⟨Nat.le_refl _, Nat.zero_le _, inv_zero f _, (fun _ => rfl), (fun _ p v hp _ => by simp [pos] at hp)⟩
    obtain ⟨hr, hstop⟩ := loopDS_inv true f b hb flt false (fuelOf [f]) _ h0
    cases hl : loopDS f b false flt false (fuelOf [f]) { sink := sink.start, tok := [], cur := [] } with
    | mk rs out =>
      rw [hl] at hr hstop
      have hbase := mkSafe f rs.sink rs.tok (Nat.le_trans hr.tokLe hr.curLe) (inv_mono hr.inv hr.tokLe)
      cases out with
      | stop =>
        obtain ⟨h1, _⟩ := hstop rfl
        dsimp only
        cases hcmp : rs.sink.complete with
        | none => exact ⟨hbase, fun hh => by cases hh⟩
        | some sk =>
          have hi := complete_inv hr h1 sk hcmp
          exact ⟨mkSafe f sk rs.cur (by rw [h1]; exact Nat.le_refl _) (by rw [h1]; exact hi), fun _ => h1⟩
      | cont => exact ⟨hbase, fun hh => by cases hh⟩
      | err => exact ⟨hbase, fun hh => by cases hh⟩
      | died => exact ⟨hbase, fun hh => by cases hh⟩

/-- a source write keeps token safety (the feed only grows). -/
theorem writeSrc_safe (s : St) (f : Feed) (h : Safe f s) (w : List Ver) : ∃ f', Safe f' (writeSrc s 0 w) := by
  obtain ⟨w', hw⟩ := storeBatch_append w f
  refine ⟨f ++ w', ?_, ?_, ?_⟩
  · simp [writeSrc, h.srcs, hw]
  · show pos s.tok ≤ (f ++ w').length
    have := h.tokLe; simp only [List.length_append]; omega
  · show Inv (f ++ w') s.sink.feed (pos s.tok)
    exact inv_write h.inv h.tokLe w'

/-- events of a job's life: somebody writes to the source, or the job runs (incremental or full sync, with any fault). -/
inductive Ev where
  | write (w : List Ver)
  | run (full : Bool) (flt : Faults)

def stepEv (b : Nat) (s : St) : Ev → St
  | .write w => writeSrc s 0 w
  | .run full flt => (runJob true (cfg1 b) full flt s).1

theorem history_safe (b : Nat) (hb : 0 < b) : ∀ (evs : List Ev) (s : St) (f : Feed), Safe f s →
    ∃ f', Safe f' (evs.foldl (stepEv b) s)
  | [], s, f, h => ⟨f, h⟩
  | .write w :: evs, s, f, h => by
    obtain ⟨f', h'⟩ := writeSrc_safe s f h w
    exact history_safe b hb evs _ f' h'
  | .run full flt :: evs, s, f, h =>
    history_safe b hb evs _ f (runJob_safe b hb full flt s f h).1

end Hub.PipeInv
