import Hub.Model.IdTxn
/-! Invariant of the shared identifier transaction under every interleaving of writers, rejections and crashes. -/
namespace Hub.IdTxn

theorem mem_modW {ws : List W} {w : Nat} {f : W → W} {y : W} (h : y ∈ modW ws w f) :
    y ∈ ws ∨ ∃ x, ws[w]? = some x ∧ y = f x := by
  induction ws generalizing w with
  | nil => simp [modW] at h
  | cons x xs ih =>
    cases w with
    | zero =>
      simp only [modW, List.mem_cons] at h
      rcases h with h | h
      · exact .inr ⟨x, by simp, h⟩
      · exact .inl (List.mem_cons_of_mem _ h)
    | succ n =>
      simp only [modW, List.mem_cons] at h
      rcases h with h | h
      · exact .inl (by simp [h])
      · rcases ih h with h | ⟨x', hx, hy⟩
        · exact .inl (List.mem_cons_of_mem _ h)
        · exact .inr ⟨x', by simpa using hx, hy⟩

theorem lookup_some_mem {l : List (Uri × Nat)} {u : Uri} {i : Nat} (h : l.lookup u = some i) : (u, i) ∈ l := by
  induction l with
  | nil => simp [List.lookup] at h
  | cons p l ih =>
    obtain ⟨a, b⟩ := p
    by_cases hu : u = a
    · subst hu
      simp [List.lookup] at h
      simp [h]
    · have : (u == a) = false := by simpa using hu
      simp only [List.lookup, this] at h
      exact List.mem_cons_of_mem _ (ih h)

theorem lookup_none_mem {l : List (Uri × Nat)} {u : Uri} (h : l.lookup u = none) : ∀ q ∈ l, q.1 ≠ u := by
  induction l with
  | nil => simp
  | cons p l ih =>
    obtain ⟨a, b⟩ := p
    by_cases hu : u = a
    · subst hu; simp [List.lookup] at h
    · have : (u == a) = false := by simpa using hu
      simp only [List.lookup, this] at h
      intro q hq
      rcases List.mem_cons.1 hq with rfl | hq
      · exact fun h' => hu h'.symm
      · exact ih h q hq

structure Inv (s : St) : Prop where
  filling : ∀ x ∈ s.ws, x.pc = .filling → ∀ p ∈ x.mine, p ∈ s.pending ∨ p ∈ s.durable
  safe : ∀ x ∈ s.ws, (x.pc = .idsCommitted ∨ x.pc = .acked) → ∀ p ∈ x.mine, p ∈ s.durable
  below : ∀ p ∈ s.pending ++ s.durable, p.2 < s.next
  func : ∀ p ∈ s.pending ++ s.durable, ∀ q ∈ s.pending ++ s.durable, p.1 = q.1 → p.2 = q.2
  inj : ∀ p ∈ s.pending ++ s.durable, ∀ q ∈ s.pending ++ s.durable, p.2 = q.2 → p.1 = q.1

theorem inv_init : Inv {} := by
  constructor <;> simp

theorem pcOf_eq {s : St} {w : Nat} {c : Pc} (h : pcOf s w = some c) : ∃ x, s.ws[w]? = some x ∧ x.pc = c := by
  unfold pcOf at h
  cases hx : s.ws[w]? with
  | none => simp [hx] at h
  | some x => exact ⟨x, rfl, by simpa [hx] using h⟩

theorem getElem?_mem' {l : List W} {w : Nat} {x : W} (h : l[w]? = some x) : x ∈ l := List.mem_of_getElem? h

theorem inv_step (s : St) (st : Step) (h : Inv s) : Inv (step false s st) := by
  cases st with
  | start =>
    simp only [step]
    refine ⟨?_, ?_, h.below, h.func, h.inj⟩
    · intro x hx hp p hpm
      rcases List.mem_append.1 hx with hx | hx
      · exact h.filling x hx hp p hpm
      · simp at hx; subst hx; simp at hpm
    · intro x hx hp p hpm
      rcases List.mem_append.1 hx with hx | hx
      · exact h.safe x hx hp p hpm
      · simp at hx; subst hx; simp at hpm
  | assign w u =>
    simp only [step]
    by_cases hpc : pcOf s w = some .filling
    · simp only [hpc, ne_eq, not_true_eq_false, if_false]
      obtain ⟨x0, hx0, hx0pc⟩ := pcOf_eq hpc
      have hx0m := getElem?_mem' hx0
      cases hl : s.lookup u with
      | some i =>
        have hmem : (u, i) ∈ s.pending ++ s.durable := lookup_some_mem hl
        refine ⟨?_, ?_, h.below, h.func, h.inj⟩
        · intro x hx hp p hpm
          rcases mem_modW hx with hx | ⟨x', hx', rfl⟩
          · exact h.filling x hx hp p hpm
          · have : x' = x0 := by rw [hx0] at hx'; exact (Option.some.inj hx').symm
            subst this
            rcases List.mem_cons.1 hpm with rfl | hpm
            · exact List.mem_append.1 hmem
            · exact h.filling x' hx0m hx0pc p hpm
        · intro x hx hp p hpm
          rcases mem_modW hx with hx | ⟨x', hx', rfl⟩
          · exact h.safe x hx hp p hpm
          · have : x' = x0 := by rw [hx0] at hx'; exact (Option.some.inj hx').symm
            subst this
            simp [hx0pc] at hp
      | none =>
        have hnone := lookup_none_mem hl
        refine ⟨?_, ?_, ?_, ?_, ?_⟩
        · intro x hx hp p hpm
          rcases mem_modW hx with hx | ⟨x', hx', rfl⟩
          · rcases h.filling x hx hp p hpm with h1 | h1
            · exact .inl (List.mem_cons_of_mem _ h1)
            · exact .inr h1
          · have : x' = x0 := by rw [hx0] at hx'; exact (Option.some.inj hx').symm
            subst this
            rcases List.mem_cons.1 hpm with rfl | hpm
            · exact .inl (by simp)
            · rcases h.filling x' hx0m hx0pc p hpm with h1 | h1
              · exact .inl (List.mem_cons_of_mem _ h1)
              · exact .inr h1
        · intro x hx hp p hpm
          rcases mem_modW hx with hx | ⟨x', hx', rfl⟩
          · exact h.safe x hx hp p hpm
          · have : x' = x0 := by rw [hx0] at hx'; exact (Option.some.inj hx').symm
            subst this
            simp [hx0pc] at hp
        · intro p hp
          simp only [List.cons_append, List.mem_cons] at hp
          rcases hp with rfl | hp
          · simp
          · exact Nat.lt_succ_of_lt (h.below p hp)
        · intro p hp q hq hpq
          simp only [List.cons_append, List.mem_cons] at hp hq
          rcases hp with rfl | hp <;> rcases hq with rfl | hq
          · rfl
          · exact absurd hpq.symm (hnone q hq)
          · exact absurd hpq (hnone p hp)
          · exact h.func p hp q hq hpq
        · intro p hp q hq hpq
          simp only [List.cons_append, List.mem_cons] at hp hq
          rcases hp with rfl | hp <;> rcases hq with rfl | hq
          · rfl
          · have := h.below q hq; simp at hpq; omega
          · have := h.below p hp; simp at hpq; omega
          · exact h.inj p hp q hq hpq
    · simp only [hpc, ne_eq, not_false_eq_true, if_true]; exact h
  | commitIds w =>
    simp only [step]
    by_cases hpc : pcOf s w = some .filling
    · simp only [hpc, ne_eq, not_true_eq_false, if_false]
      obtain ⟨x0, hx0, hx0pc⟩ := pcOf_eq hpc
      have hx0m := getElem?_mem' hx0
      refine ⟨?_, ?_, ?_, ?_, ?_⟩
      · intro x hx hp p hpm
        rcases mem_modW hx with hx | ⟨x', hx', rfl⟩
        · exact .inr (List.mem_append.2 (h.filling x hx hp p hpm))
        · simp at hp
      · intro x hx hp p hpm
        rcases mem_modW hx with hx | ⟨x', hx', rfl⟩
        · exact List.mem_append_right _ (h.safe x hx hp p hpm)
        · have : x' = x0 := by rw [hx0] at hx'; exact (Option.some.inj hx').symm
          subst this
          exact List.mem_append.2 (h.filling x' hx0m hx0pc p hpm)
      · simpa using h.below
      · simpa using h.func
      · simpa using h.inj
    · simp only [hpc, ne_eq, not_false_eq_true, if_true]; exact h
  | commitData w =>
    simp only [step]
    by_cases hpc : pcOf s w = some .idsCommitted
    · simp only [hpc, ne_eq, not_true_eq_false, if_false]
      obtain ⟨x0, hx0, hx0pc⟩ := pcOf_eq hpc
      have hx0m := getElem?_mem' hx0
      refine ⟨?_, ?_, h.below, h.func, h.inj⟩
      · intro x hx hp p hpm
        rcases mem_modW hx with hx | ⟨x', hx', rfl⟩
        · exact h.filling x hx hp p hpm
        · simp at hp
      · intro x hx hp p hpm
        rcases mem_modW hx with hx | ⟨x', hx', rfl⟩
        · exact h.safe x hx hp p hpm
        · have : x' = x0 := by rw [hx0] at hx'; exact (Option.some.inj hx').symm
          subst this
          exact h.safe x' hx0m (.inl hx0pc) p hpm
    · simp only [hpc, ne_eq, not_false_eq_true, if_true]; exact h
  | reject w =>
    simp only [step]
    by_cases hpc : pcOf s w = some .filling
    · simp only [hpc, ne_eq, not_true_eq_false, if_false, Bool.false_eq_true]
      refine ⟨?_, ?_, h.below, h.func, h.inj⟩
      · intro x hx hp p hpm
        rcases mem_modW hx with hx | ⟨x', hx', rfl⟩
        · exact h.filling x hx hp p hpm
        · simp at hp
      · intro x hx hp p hpm
        rcases mem_modW hx with hx | ⟨x', hx', rfl⟩
        · exact h.safe x hx hp p hpm
        · simp at hp
    · simp only [hpc, ne_eq, not_false_eq_true, if_true]; exact h
  | crash k =>
    simp only [step]
    refine ⟨?_, ?_, ?_, ?_, ?_⟩
    · intro x hx hp p hpm
      obtain ⟨y, hy, rfl⟩ := List.mem_map.1 hx
      by_cases hya : y.pc = .acked
      · simp [hya] at hp
      · simp [hya] at hp
    · intro x hx hp p hpm
      obtain ⟨y, hy, rfl⟩ := List.mem_map.1 hx
      by_cases hya : y.pc = .acked
      · simp only [hya, if_true] at hpm
        exact h.safe y hy (.inr hya) p hpm
      · simp [hya] at hp
    · intro p hp
      have := h.below p (List.mem_append_right _ (by simpa using hp))
      simp only []; omega
    · intro p hp q hq
      exact h.func p (List.mem_append_right _ (by simpa using hp)) q (List.mem_append_right _ (by simpa using hq))
    · intro p hp q hq
      exact h.inj p (List.mem_append_right _ (by simpa using hp)) q (List.mem_append_right _ (by simpa using hq))

theorem inv_run (l : List Step) (s : St) (h : Inv s) : Inv (run false s l) := by
  induction l generalizing s with
  | nil => exact h
  | cons st l ih => exact ih _ (inv_step s st h)

end Hub.IdTxn
