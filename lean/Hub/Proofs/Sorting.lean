import Hub.Model.Store
/-! `sortBy` (insertion sort) leaves an already sorted list unchanged. -/
namespace Hub.Sorting
open Hub.Store

variable {α : Type}

theorem insertBy_last (lt : α → α → Bool) (x : α) :
    ∀ (acc : List α), (∀ y ∈ acc, lt x y = false) → insertBy lt x acc = acc ++ [x]
  | [], _ => rfl
  | y :: ys, h => by
    have hy : lt x y = false := h y (by simp)
    simp only [insertBy, hy, Bool.false_eq_true, if_false, List.cons_append]
    rw [insertBy_last lt x ys (fun z hz => h z (List.mem_cons_of_mem _ hz))]

theorem foldl_insert_sorted (lt : α → α → Bool) :
    ∀ (l acc : List α), (∀ x ∈ l, ∀ y ∈ acc, lt x y = false) → l.Pairwise (fun a b => lt b a = false) →
      l.foldl (fun acc x => insertBy lt x acc) acc = acc ++ l
  | [], acc, _, _ => by simp
  | x :: xs, acc, h, hp => by
    simp only [List.foldl_cons]
    rw [insertBy_last lt x acc (fun y hy => h x (by simp) y hy)]
    rw [foldl_insert_sorted lt xs (acc ++ [x])]
    · simp
    · intro z hz y hy
      rcases List.mem_append.1 hy with hy | hy
      · exact h z (List.mem_cons_of_mem _ hz) y hy
      · simp only [List.mem_singleton] at hy; subst hy
        exact (List.pairwise_cons.1 hp).1 z hz
    · exact (List.pairwise_cons.1 hp).2

/-- sorting a list in which no later element is smaller than an earlier one returns it unchanged. -/
theorem sortBy_sorted (lt : α → α → Bool) (l : List α) (h : l.Pairwise (fun a b => lt b a = false)) :
    sortBy lt l = l := by
  unfold sortBy
  rw [foldl_insert_sorted lt l [] (by simp) h]; simp

end Hub.Sorting
