import Hub.Proofs.StoreInv
import Hub.Proofs.Frame
/-!
# A multi-dataset transaction refines its per-dataset batches

`ExecuteTransaction` lets every dataset's write loop read the snapshot taken *before* the transaction
(`execTxn` passes `db`, not the accumulated state, as the read snapshot). With one part per dataset — the request is a
map from dataset name to entities — what a part reads of the snapshot (`stored` of its own dataset) has not been
touched by the parts before it, so the transaction is the sequence of its batches at one commit time.
-/
namespace Hub.TxnRefine
open Hub.Store Hub.StoreInv

theorem writeOne_congr (snap snap' : DB) (ds t : Nat) (nw : List Nat) (h : ∀ rid, snap.stored ds rid = snap'.stored ds rid)
    (st : DB × List (Nat × Ent)) (x : Nat × Ent) : writeOne snap ds t nw st x = writeOne snap' ds t nw st x := by
  have hp : prevOf snap ds st.2 x.2.rid = prevOf snap' ds st.2 x.2.rid := by
    unfold prevOf; split <;> simp_all
  unfold writeOne
  rw [hp]

theorem writeFrom_congr (snap snap' : DB) (ds t : Nat) (nw : List Nat) (h : ∀ rid, snap.stored ds rid = snap'.stored ds rid) :
    ∀ (xs : List Ent) (i : Nat) (st : DB × List (Nat × Ent)),
      writeFrom snap ds t nw i xs st = writeFrom snap' ds t nw i xs st
  | [], _, _ => by simp [writeFrom]
  | e :: xs, i, st => by
    unfold writeFrom
    rw [writeOne_congr snap snap' ds t nw h, writeFrom_congr snap snap' ds t nw h xs]

theorem specOne_vers_other (S : Spec) (ds t : Nat) (x : Nat × Ent) (d j : Nat) (h : d ≠ ds) :
    (specOne ds t S x).vers d j = S.vers d j := by
  unfold specOne
  split <;> simp [specAppend, specCount_vers, h]

theorem specFrom_vers_other (ds t : Nat) (d j : Nat) (h : d ≠ ds) : ∀ (xs : List Ent) (i : Nat) (S : Spec),
    (specFrom ds t i xs S).vers d j = S.vers d j
  | [], _, _ => by simp [specFrom]
  | e :: xs, i, S => by
    unfold specFrom
    rw [specFrom_vers_other ds t d j h xs, specOne_vers_other S ds t (i, e) d j h]

/-- the per-dataset batches of a transaction, one after the other, all at commit time `t`. -/
def batches (db : DB) (t : Nat) (parts : List (Nat × List Ent)) : DB := parts.foldl (fun acc p => storeBatch acc p.1 t p.2) db
def specTxn (t : Nat) (parts : List (Nat × List Ent)) (S : Spec) : Spec := parts.foldl (fun S p => specFrom p.1 t 0 p.2 S) S

theorem txn_refines (db : DB) (S : Spec) (hI : Inv db S) (t : Nat) (parts : List (Nat × List Ent))
    (hd : (parts.map (·.1)).Nodup) (hfresh : ∀ p ∈ parts, ∀ v ∈ db.versions, v.1.ds = p.1 → v.1.t < t) :
    execTxn db t parts = batches db t parts ∧ Inv (execTxn db t parts) (specTxn t parts S) := by
  unfold execTxn batches specTxn
  suffices g : ∀ (ps : List (Nat × List Ent)) (acc : DB) (S' : Spec), Inv acc S' →
      (∀ p ∈ ps, ∀ rid, S'.vers p.1 rid = S.vers p.1 rid) → (ps.map (·.1)).Nodup →
      (∀ p ∈ ps, ∀ v ∈ acc.versions, v.1.ds = p.1 → v.1.t < t) →
      ps.foldl (fun acc p => (writeFrom db p.1 t [] 0 p.2 (acc, [])).1) acc = ps.foldl (fun acc p => storeBatch acc p.1 t p.2) acc
      ∧ Inv (ps.foldl (fun acc p => (writeFrom db p.1 t [] 0 p.2 (acc, [])).1) acc) (ps.foldl (fun S p => specFrom p.1 t 0 p.2 S) S') from
    g parts db S hI (fun _ _ _ => rfl) hd hfresh
  intro ps
  induction ps with
  | nil => intro acc S' hA _ _ _; exact ⟨rfl, hA⟩
  | cons p ps ih =>
    intro acc S' hA hS hn hf
    have hn' := List.nodup_cons.1 (by simpa using hn : (p.1 :: ps.map (·.1)).Nodup)
    have hstored : ∀ rid, db.stored p.1 rid = acc.stored p.1 rid := by
      intro rid
      rw [stored_eq_last hI.v, stored_eq_last hA.v, hS p (List.mem_cons_self ..)]
    have heq : (writeFrom db p.1 t [] 0 p.2 (acc, [])).1 = storeBatch acc p.1 t p.2 := by
      unfold storeBatch
      rw [writeFrom_congr db acc p.1 t [] hstored]
    simp only [List.foldl_cons]
    rw [heq]
    have hA' : Inv (storeBatch acc p.1 t p.2) (specFrom p.1 t 0 p.2 S') :=
      inv_storeBatch hA p.1 t (fun v hv hds => hf p (List.mem_cons_self ..) v hv hds) p.2
    apply ih _ _ hA'
    · intro q hq rid
      have hne : q.1 ≠ p.1 := by
        intro he
        exact hn'.1 (he ▸ List.mem_map_of_mem (f := (·.1)) hq)
      rw [specFrom_vers_other p.1 t q.1 rid hne, hS q (List.mem_cons_of_mem _ hq)]
    · exact hn'.2
    · intro q hq v hv hds
      obtain ⟨_, ⟨new, hvs, hnw⟩, _⟩ := Hub.Frame.writeFrom_frame acc p.1 t [] p.2 0 (acc, [])
      have hvs' : (storeBatch acc p.1 t p.2).versions = acc.versions ++ new := hvs
      rw [hvs'] at hv
      rcases List.mem_append.1 hv with hv | hv
      · exact hf q (List.mem_cons_of_mem _ hq) v hv hds
      · have hne : q.1 ≠ p.1 := by
          intro he
          exact hn'.1 (he ▸ List.mem_map_of_mem (f := (·.1)) hq)
        exact absurd ((hnw v hv).2 ▸ hds).symm hne

theorem batches_versions (t : Nat) : ∀ (parts : List (Nat × List Ent)) (db : DB),
    ∃ new, (batches db t parts).versions = db.versions ++ new ∧ ∀ v ∈ new, v.1.t = t
  | [], db => ⟨[], by simp [batches], by simp⟩
  | p :: ps, db => by
    obtain ⟨_, ⟨n1, hv1, hn1⟩, _⟩ := Hub.Frame.writeFrom_frame db p.1 t [] p.2 0 (db, [])
    have hv1' : (storeBatch db p.1 t p.2).versions = db.versions ++ n1 := hv1
    obtain ⟨n2, hv2, hn2⟩ := batches_versions t ps (storeBatch db p.1 t p.2)
    refine ⟨n1 ++ n2, ?_, ?_⟩
    · have : batches db t (p :: ps) = batches (storeBatch db p.1 t p.2) t ps := by simp [batches]
      rw [this, hv2, hv1', List.append_assoc]
    · intro v hv
      rcases List.mem_append.1 hv with hv | hv
      · exact (hn1 v hv).1
      · exact hn2 v hv

/-- histories of transactions `(commit time, [(dataset, entities)])`; a plain batch is a transaction with one part. -/
def runTxns (h : List (Nat × List (Nat × List Ent))) (db : DB) : DB := h.foldl (fun db w => execTxn db w.1 w.2) db
def specTxns (h : List (Nat × List (Nat × List Ent))) (S : Spec) : Spec := h.foldl (fun S w => specTxn w.1 w.2 S) S

theorem txns_refine : ∀ (h : List (Nat × List (Nat × List Ent))) (db : DB) (S : Spec), Inv db S →
    (∀ v ∈ db.versions, ∀ w ∈ h, v.1.t < w.1) → h.Pairwise (fun a b => a.1 < b.1) →
    (∀ w ∈ h, (w.2.map (·.1)).Nodup) → Inv (runTxns h db) (specTxns h S)
  | [], _, _, hI, _, _, _ => hI
  | w :: ws, db, S, hI, hb, hp, hd => by
    have hw := List.pairwise_cons.1 hp
    have hfresh : ∀ p ∈ w.2, ∀ v ∈ db.versions, v.1.ds = p.1 → v.1.t < w.1 :=
      fun _ _ v hv _ => hb v hv w (List.mem_cons_self ..)
    obtain ⟨heq, hI'⟩ := txn_refines db S hI w.1 w.2 (hd w (List.mem_cons_self ..)) hfresh
    simp only [runTxns, specTxns, List.foldl_cons]
    apply txns_refine ws _ _ hI'
    · intro v hv w' hw'
      obtain ⟨new, hvs, hn⟩ := batches_versions w.1 w.2 db
      rw [heq, hvs] at hv
      rcases List.mem_append.1 hv with hv | hv
      · exact hb v hv w' (List.mem_cons_of_mem _ hw')
      · rw [hn v hv]; exact hw.1 w' hw'
    · exact hw.2
    · exact fun w' hw' => hd w' (List.mem_cons_of_mem _ hw')

end Hub.TxnRefine
