import Hub.Proofs.RefIdx
/-!
# The reference index of one (dataset, entity) over every history of versions

`Hub.RefIdx.step` is the one-write invariant. Here it is lifted to every history: the versions of an entity in a
dataset are written one after the other with non-decreasing commit times; the predecessor is "in the same batch" exactly when
it carries the same commit time (two batches never share one: the time is taken under the dataset lock after a sleep).
-/
namespace Hub.RefIdx

/-- is the predecessor of `v` in the same batch? -/
def sameBatch (prev : Option Ver) (v : Ver) : Bool := match prev with | some p => p.t == v.t | none => false

/-- write the versions `ws` after the versions `vs` whose keys are `ks`. -/
def writeAll : List Ver → List Ver → List Key → List Key
  | [], _, ks => ks
  | v :: ws, vs, ks => writeAll ws (vs ++ [v]) (writeRefs ks vs.getLast? (sameBatch vs.getLast? v) v)

structure HInv (vs : List Ver) (ks : List Key) : Prop where
  live : ∀ r at_, liveAt ks r at_ ↔ specLive vs r at_
  kt : ∀ k ∈ ks, ∃ p, vs.getLast? = some p ∧ k.t ≤ p.t
  vt : ∀ u ∈ vs, ∃ p, vs.getLast? = some p ∧ u.t ≤ p.t

theorem hinv_step (vs : List Ver) (ks : List Key) (v : Ver) (h : HInv vs ks) (hle : ∀ p, vs.getLast? = some p → p.t ≤ v.t) :
    HInv (vs ++ [v]) (writeRefs ks vs.getLast? (sameBatch vs.getLast? v) v) := by
  have hkt : ∀ k ∈ ks, k.t ≤ v.t := by
    intro k hk; obtain ⟨p, hp, hkp⟩ := h.kt k hk; exact Nat.le_trans hkp (hle p hp)
  have hvt : ∀ u ∈ vs, u.t ≤ v.t := by
    intro u hu; obtain ⟨p, hp, hup⟩ := h.vt u hu; exact Nat.le_trans hup (hle p hp)
  have hfresh : sameBatch vs.getLast? v = false → ∀ k ∈ ks, k.t < v.t := by
    intro hb k hk
    obtain ⟨p, hp, hkp⟩ := h.kt k hk
    have := hle p hp
    rw [hp] at hb
    simp only [sameBatch, beq_eq_false_iff_ne, ne_eq] at hb
    omega
  refine ⟨fun r at_ => step vs ks v _ h.live hkt hvt hfresh r at_, ?_, ?_⟩
  · intro k hk
    refine ⟨v, by simp, ?_⟩
    rw [mem_writeRefs] at hk
    split at hk
    · rcases hk with hk | hk
      · exact hkt k hk
      · omega
    · rcases hk with (hk | hk) | hk
      · omega
      · exact hkt k hk.1
      · omega
  · intro u hu
    refine ⟨v, by simp, ?_⟩
    rcases List.mem_append.1 hu with hu | hu
    · exact hvt u hu
    · simp at hu; subst hu; exact Nat.le_refl _

theorem hinv_writeAll : ∀ (ws vs : List Ver) (ks : List Key), HInv vs ks →
    (vs ++ ws).Pairwise (fun a b => a.t ≤ b.t) → HInv (vs ++ ws) (writeAll ws vs ks)
  | [], vs, ks, h, _ => by simpa [writeAll] using h
  | v :: ws, vs, ks, h, hp => by
    have hle : ∀ p, vs.getLast? = some p → p.t ≤ v.t := by
      intro p hpl
      have hmem : p ∈ vs := List.mem_of_getLast? hpl
      exact (List.pairwise_append.1 hp).2.2 p hmem v (List.mem_cons_self ..)
    have h' := hinv_step vs ks v h hle
    have := hinv_writeAll ws (vs ++ [v]) _ h' (by simpa using hp)
    simpa [writeAll] using this

theorem hinv_empty : HInv [] [] :=
  ⟨fun r at_ => by simp [liveAt, specLive, lastLE], by simp, by simp⟩

end Hub.RefIdx
