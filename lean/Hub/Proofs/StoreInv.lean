import Hub.Model.Store
/-!
# Refinement of the write path to the version-history specification

Spec (L0): for every (dataset, id) the list of accepted versions, for every dataset the feed (keys
in acceptance order) and the duplicate-free list of ids ever stored. `writeOne` (the Go loop body)
refines `specOne` for every batch: repeated ids, delete/un-delete, any length.
-/
namespace Hub.StoreInv
open Hub.Store

structure SVer where
  t : Nat
  seq : Nat
  e : Ent
  deriving DecidableEq, Repr

structure Spec where
  vers : Nat → Nat → List SVer := fun _ _ => []     -- dataset → id → accepted versions, oldest first
  feed : Nat → List VKey := fun _ => []              -- dataset → version keys in acceptance order
  ids : Nat → List Nat := fun _ => []                -- dataset → distinct ids, first-seen order

def lastEnt (vs : List SVer) : Option Ent := vs.getLast?.map (·.e)

/-- an id new to the dataset is counted once. -/
def specCount (ds : Nat) (S : Spec) (rid : Nat) : Spec :=
  if S.vers ds rid = [] then { S with ids := fun d => if d = ds then S.ids ds ++ [rid] else S.ids d } else S

/-- one accepted version: appended to the entity's history and to the dataset's feed. -/
def specAppend (ds t i : Nat) (S : Spec) (e : Ent) : Spec :=
  { S with
    vers := fun d j => if d = ds ∧ j = e.rid then S.vers ds e.rid ++ [⟨t, i, e⟩] else S.vers d j,
    feed := fun d => if d = ds then S.feed ds ++ [⟨e.rid, ds, t, i⟩] else S.feed d }

/-- the specification of one batch element: an element identical to the version it would replace
adds nothing, any other adds exactly one version and one feed entry. -/
def specOne (ds t : Nat) (S : Spec) (x : Nat × Ent) : Spec :=
  let S1 := specCount ds S x.2.rid
  if lastEnt (S.vers ds x.2.rid) = some x.2 then S1 else specAppend ds t x.1 S1 x.2

def specFrom (ds t : Nat) : Nat → List Ent → Spec → Spec
  | _, [], S => S
  | i, e :: xs, S => specFrom ds t (i + 1) xs (specOne ds t S (i, e))

def versOf (db : DB) (ds id : Nat) : List (VKey × Ent) :=
  db.versions.filter fun v => decide (v.1.ds = ds ∧ v.1.rid = id)

def feedOf (db : DB) (ds : Nat) : List (Nat × VKey) :=
  (db.changes.filter fun c => decide (c.1 = ds)).map (·.2)

/-- versions, latest pointers. -/
structure InvV (db : DB) (S : Spec) : Prop where
  vers : ∀ ds id, (versOf db ds id).map (fun v => (⟨v.1.t, v.1.seq, v.2⟩ : SVer)) = S.vers ds id
  nodup : (db.versions.map (·.1)).Nodup
  lat : ∀ ds id, db.latestOf ds id = (versOf db ds id).getLast?.map (·.1)
  latNodup : (db.latest.map (·.1)).Nodup
  ridOk : ∀ ds id, ∀ v ∈ S.vers ds id, v.e.rid = id

/-- change log. -/
structure InvF (db : DB) (S : Spec) : Prop where
  feed : ∀ ds, (feedOf db ds).map (·.2) = S.feed ds
  inc : ∀ ds, (feedOf db ds).Pairwise (fun a b => a.1 < b.1)
  bound : ∀ ds, ∀ c ∈ feedOf db ds, c.1 < db.posOf ds

/-- the items counter. -/
structure InvC (db : DB) (S : Spec) : Prop where
  items : ∀ ds, db.itemsOf ds = (S.ids ds).length
  nodup : ∀ ds, (S.ids ds).Nodup
  mem : ∀ ds id, id ∈ S.ids ds ↔ S.vers ds id ≠ []

structure Inv (db : DB) (S : Spec) : Prop where
  v : InvV db S
  f : InvF db S
  c : InvC db S

/-! ### association-list helpers -/

theorem lookup_of_mem_nodup {κ β} [BEq κ] [LawfulBEq κ] :
    ∀ (l : List (κ × β)), (l.map (·.1)).Nodup → ∀ {k : κ} {c : β}, (k, c) ∈ l → l.lookup k = some c
  | [], _, _, _, hm => by simp at hm
  | (ek, ec) :: es, h, k, c, hm => by
    simp only [List.map_cons, List.nodup_cons] at h
    rcases List.mem_cons.1 hm with heq | hm'
    · cases heq; simp [List.lookup]
    · have hne : k ≠ ek := by
        intro heq; apply h.1; rw [← heq]
        exact List.mem_map.2 ⟨(k, c), hm', rfl⟩
      simp only [List.lookup]
      have : (k == ek) = false := by simpa using hne
      rw [this]; exact lookup_of_mem_nodup es h.2 hm'

theorem lookup_setAssoc_self {κ β} [BEq κ] [LawfulBEq κ] (k : κ) (v : β) :
    ∀ l : List (κ × β), (setAssoc k v l).lookup k = some v
  | [] => by simp [setAssoc, List.lookup]
  | (k', v') :: rest => by
    simp only [setAssoc]
    by_cases h : k' = k
    · subst h; simp [List.lookup]
    · have h1 : (k' == k) = false := by simpa using h
      have h2 : (k == k') = false := by simpa using fun e => h e.symm
      simp [h1, List.lookup, h2, lookup_setAssoc_self k v rest]

theorem lookup_setAssoc_ne {κ β} [BEq κ] [LawfulBEq κ] (k k2 : κ) (v : β) (hne : k2 ≠ k) :
    ∀ l : List (κ × β), (setAssoc k v l).lookup k2 = l.lookup k2
  | [] => by
    have : (k2 == k) = false := by simpa using hne
    simp [setAssoc, List.lookup, this]
  | (k', v') :: rest => by
    simp only [setAssoc]
    by_cases h : k' = k
    · subst h
      have : (k2 == k') = false := by simpa using hne
      simp [List.lookup, this]
    · have h1 : (k' == k) = false := by simpa using h
      simp only [h1, Bool.false_eq_true, if_false, List.lookup]
      rw [lookup_setAssoc_ne k k2 v hne rest]

theorem mem_keys_setAssoc {κ β} [BEq κ] [LawfulBEq κ] (k : κ) (v : β) :
    ∀ (l : List (κ × β)) (x : κ), x ∈ (setAssoc k v l).map (·.1) ↔ x = k ∨ x ∈ l.map (·.1)
  | [], x => by simp [setAssoc]
  | (k', v') :: rest, x => by
    simp only [setAssoc]
    by_cases h : k' = k
    · subst h; simp
    · have h1 : (k' == k) = false := by simpa using h
      simp only [h1, Bool.false_eq_true, if_false, List.map_cons, List.mem_cons, mem_keys_setAssoc k v rest x]
      constructor
      · rintro (h2 | h2 | h2)
        · exact Or.inr (Or.inl h2)
        · exact Or.inl h2
        · exact Or.inr (Or.inr h2)
      · rintro (h2 | h2 | h2)
        · exact Or.inr (Or.inl h2)
        · exact Or.inl h2
        · exact Or.inr (Or.inr h2)

theorem setAssoc_keys_nodup {κ β} [BEq κ] [LawfulBEq κ] (k : κ) (v : β) :
    ∀ (l : List (κ × β)), (l.map (·.1)).Nodup → ((setAssoc k v l).map (·.1)).Nodup
  | [], _ => by simp [setAssoc]
  | (k', v') :: rest, h => by
    simp only [List.map_cons, List.nodup_cons] at h
    simp only [setAssoc]
    by_cases hk : k' = k
    · subst hk; simpa using h
    · have h1 : (k' == k) = false := by simpa using hk
      simp only [h1, Bool.false_eq_true, if_false, List.map_cons, List.nodup_cons]
      refine ⟨?_, setAssoc_keys_nodup k v rest h.2⟩
      intro hm
      rcases (mem_keys_setAssoc k v rest k').1 hm with hm | hm
      · exact hk hm
      · exact h.1 hm

/-- what the write path reads as "previous stored version" is the spec's last version. -/
theorem stored_eq_last {db : DB} {S : Spec} (inv : InvV db S) (ds id : Nat) :
    db.stored ds id = lastEnt (S.vers ds id) := by
  unfold DB.stored lastEnt
  rw [inv.lat ds id, ← inv.vers ds id, List.getLast?_map]
  cases h : (versOf db ds id).getLast? with
  | none => simp
  | some v =>
    simp only [Option.map_some, Option.bind_some]
    have hm : v ∈ db.versions := (List.mem_filter.1 (List.mem_of_getLast? h)).1
    exact lookup_of_mem_nodup db.versions inv.nodup (k := v.1) (c := v.2) hm

theorem lastEnt_none {vs : List SVer} : lastEnt vs = none ↔ vs = [] := by
  unfold lastEnt
  cases hv : vs.getLast? with
  | none => simp [List.getLast?_eq_none_iff.1 hv]
  | some v =>
    simp only [Option.map_some, reduceCtorEq, false_iff]
    intro h0; rw [h0] at hv; simp at hv

/-! ### countNew / specCount -/

theorem countNew_versions (db : DB) (ds : Nat) (p : Option Ent) : (countNew db ds p).versions = db.versions := by
  unfold countNew; split <;> rfl
theorem countNew_changes (db : DB) (ds : Nat) (p : Option Ent) : (countNew db ds p).changes = db.changes := by
  unfold countNew; split <;> rfl
theorem countNew_latest (db : DB) (ds : Nat) (p : Option Ent) : (countNew db ds p).latest = db.latest := by
  unfold countNew; split <;> rfl
theorem countNew_nextPos (db : DB) (ds : Nat) (p : Option Ent) : (countNew db ds p).nextPos = db.nextPos := by
  unfold countNew; split <;> rfl

theorem specCount_vers (ds : Nat) (S : Spec) (rid : Nat) : (specCount ds S rid).vers = S.vers := by
  unfold specCount; split <;> rfl
theorem specCount_feed (ds : Nat) (S : Spec) (rid : Nat) : (specCount ds S rid).feed = S.feed := by
  unfold specCount; split <;> rfl

theorem count_invV {db : DB} {S : Spec} (h : InvV db S) (ds : Nat) (p : Option Ent) (rid : Nat) :
    InvV (countNew db ds p) (specCount ds S rid) := by
  refine ⟨?_, ?_, ?_, ?_, ?_⟩
  · intro d j; simp only [versOf, countNew_versions, specCount_vers]; exact h.vers d j
  · rw [countNew_versions]; exact h.nodup
  · intro d j; simp only [DB.latestOf, versOf, countNew_versions, countNew_latest]; exact h.lat d j
  · rw [countNew_latest]; exact h.latNodup
  · rw [specCount_vers]; exact h.ridOk

theorem count_invF {db : DB} {S : Spec} (h : InvF db S) (ds : Nat) (p : Option Ent) (rid : Nat) :
    InvF (countNew db ds p) (specCount ds S rid) := by
  refine ⟨?_, ?_, ?_⟩
  · intro d; simp only [feedOf, countNew_changes, specCount_feed]; exact h.feed d
  · intro d; simp only [feedOf, countNew_changes]; exact h.inc d
  · intro d c hc; simp only [feedOf, countNew_changes] at hc
    simp only [DB.posOf, countNew_nextPos]; exact h.bound d c hc

theorem itemsOf_set (db : DB) (ds n d : Nat) :
    ({ db with items := setAssoc ds n db.items } : DB).itemsOf d = if d = ds then n else db.itemsOf d := by
  unfold DB.itemsOf
  by_cases h : d = ds
  · subst h; simp [lookup_setAssoc_self]
  · simp [h, lookup_setAssoc_ne ds d n h]

/-- the counter is bumped exactly when the spec records a new id — *before* the version is appended,
so `mem` is stated against the versions after the append (`hafter`). -/
theorem count_invC {db : DB} {S : Spec} (h : InvC db S) (ds : Nat) (p : Option Ent) (rid : Nat)
    (hp : p = lastEnt (S.vers ds rid)) :
    (∀ d, (countNew db ds p).itemsOf d = ((specCount ds S rid).ids d).length)
    ∧ (∀ d, ((specCount ds S rid).ids d).Nodup)
    ∧ (∀ d id, id ∈ (specCount ds S rid).ids d ↔ (S.vers d id ≠ [] ∨ (d = ds ∧ id = rid ∧ S.vers ds rid = []))) := by
  unfold countNew specCount
  by_cases hfirst : S.vers ds rid = []
  · have hn : p.isNone = true := by rw [hp, hfirst]; rfl
    have hnot : rid ∉ S.ids ds := fun hin => ((h.mem ds rid).1 hin) hfirst
    simp only [hn, if_true, hfirst]
    refine ⟨?_, ?_, ?_⟩
    · intro d
      rw [itemsOf_set]
      by_cases hd : d = ds
      · subst hd; simp [h.items]
      · simp [hd, h.items]
    · intro d
      by_cases hd : d = ds
      · subst hd
        simp only [if_true]
        rw [List.nodup_append]
        refine ⟨h.nodup d, by simp, ?_⟩
        intro a ha b hb
        simp only [List.mem_singleton] at hb; subst hb
        intro hab; subst hab; exact hnot ha
      · simp [hd, h.nodup]
    · intro d id
      by_cases hd : d = ds
      · subst hd
        simp only [if_true, List.mem_append, List.mem_singleton, true_and, and_true]
        rw [h.mem]
      · simp [hd, h.mem]
  · have hn : p.isNone = false := by
      rw [hp]
      cases hl : lastEnt (S.vers ds rid) with
      | none => exact absurd (lastEnt_none.1 hl) hfirst
      | some _ => rfl
    simp only [hn, Bool.false_eq_true, if_false, hfirst]
    refine ⟨h.items, h.nodup, ?_⟩
    intro d id
    rw [h.mem]
    constructor
    · exact Or.inl
    · rintro (h1 | ⟨_, _, h3⟩)
      · exact h1
      · exact h3.elim

/-! ### appendVersion / specAppend -/

theorem versOf_append (db : DB) (k : VKey) (e : Ent) (ds id : Nat) :
    (db.versions ++ [(k, e)]).filter (fun v => decide (v.1.ds = ds ∧ v.1.rid = id))
      = versOf db ds id ++ (if k.ds = ds ∧ k.rid = id then [(k, e)] else []) := by
  unfold versOf
  rw [List.filter_append]
  congr 1
  by_cases hk : k.ds = ds ∧ k.rid = id <;> simp [List.filter, hk]

theorem append_invV {db : DB} {S : Spec} (h : InvV db S) (ds t i : Nat) (e : Ent) (prev : Option Ent) (ib : Bool) (nw : Bool)
    (hfresh : (⟨e.rid, ds, t, i⟩ : VKey) ∉ db.versions.map (·.1)) :
    InvV (appendVersion db ds t i e prev ib nw) (specAppend ds t i S e) := by
  refine ⟨?_, ?_, ?_, ?_, ?_⟩
  · intro d j
    simp only [versOf, appendVersion, specAppend]
    rw [versOf_append, List.map_append, h.vers d j]
    by_cases hk : ds = d ∧ e.rid = j
    · obtain ⟨rfl, rfl⟩ := hk; simp
    · have hk' : ¬ (d = ds ∧ j = e.rid) := fun ⟨a, b⟩ => hk ⟨a.symm, b.symm⟩
      simp [hk, hk']
  · simp only [appendVersion, List.map_append, List.map_cons, List.map_nil]
    rw [List.nodup_append]
    refine ⟨h.nodup, by simp, ?_⟩
    intro a ha b hb
    simp only [List.mem_singleton] at hb
    subst hb; intro hab; subst hab; exact hfresh ha
  · intro d j
    simp only [DB.latestOf, versOf, appendVersion]
    rw [versOf_append]
    by_cases hk : ds = d ∧ e.rid = j
    · obtain ⟨rfl, rfl⟩ := hk; simp [lookup_setAssoc_self]
    · have hne2 : (d, j) ≠ (ds, e.rid) := by
        simp only [ne_eq, Prod.mk.injEq]
        exact fun ⟨a, b⟩ => hk ⟨a.symm, b.symm⟩
      rw [lookup_setAssoc_ne _ _ _ hne2]
      simp only [hk, if_false, List.append_nil]
      exact h.lat d j
  · simp only [appendVersion]
    exact setAssoc_keys_nodup _ _ _ h.latNodup
  · intro d j v hv
    simp only [specAppend] at hv
    by_cases hk : d = ds ∧ j = e.rid
    · simp only [hk, and_self, if_true] at hv
      rcases List.mem_append.1 hv with hv | hv
      · rw [hk.2]; exact h.ridOk ds e.rid v hv
      · simp at hv; rw [hv]; exact hk.2.symm
    · simp only [hk, if_false] at hv; exact h.ridOk d j v hv

theorem feedOf_append (db : DB) (d pos : Nat) (k : VKey) (ds : Nat) :
    ((db.changes ++ [(d, pos, k)]).filter (fun c => decide (c.1 = ds))).map (·.2)
      = feedOf db ds ++ (if d = ds then [(pos, k)] else []) := by
  unfold feedOf
  rw [List.filter_append, List.map_append]
  congr 1
  by_cases hk : d = ds <;> simp [List.filter, hk]

theorem append_invF {db : DB} {S : Spec} (h : InvF db S) (ds t i : Nat) (e : Ent) (prev : Option Ent) (ib : Bool) (nw : Bool) :
    InvF (appendVersion db ds t i e prev ib nw) (specAppend ds t i S e) := by
  have hpos : ∀ d, (appendVersion db ds t i e prev ib nw).posOf d = if d = ds then db.posOf ds + 1 else db.posOf d := by
    intro d
    simp only [appendVersion, DB.posOf]
    by_cases hd : d = ds
    · subst hd; simp [lookup_setAssoc_self]
    · simp [hd, lookup_setAssoc_ne ds d _ hd]
  refine ⟨?_, ?_, ?_⟩
  · intro d
    simp only [feedOf, appendVersion, specAppend]
    rw [feedOf_append, List.map_append, h.feed d]
    by_cases hd : ds = d
    · subst hd; simp
    · have hd' : ¬ d = ds := fun a => hd a.symm
      simp [hd, hd']
  · intro d
    simp only [feedOf, appendVersion]
    rw [feedOf_append]
    by_cases hd : ds = d
    · subst hd
      simp only [if_true]
      rw [List.pairwise_append]
      refine ⟨h.inc ds, by simp, ?_⟩
      intro a ha b hb
      simp only [List.mem_singleton] at hb; subst hb
      exact h.bound ds a ha
    · simp only [hd, if_false, List.append_nil]; exact h.inc d
  · intro d c hc
    rw [hpos]
    simp only [feedOf, appendVersion] at hc
    rw [feedOf_append] at hc
    by_cases hd : ds = d
    · subst hd
      simp only [if_true, List.mem_append, List.mem_singleton] at hc ⊢
      rcases hc with hc | rfl
      · have := h.bound ds c hc; omega
      · simp
    · have hd' : ¬ d = ds := fun a => hd a.symm
      simp only [hd, if_false, List.append_nil] at hc
      simp only [hd', if_false]
      exact h.bound d c hc

theorem appendVersion_itemsOf (db : DB) (ds t i : Nat) (e : Ent) (prev : Option Ent) (ib : Bool) (nw : Bool) (d : Nat) :
    (appendVersion db ds t i e prev ib nw).itemsOf d = db.itemsOf d := rfl

/-! ### the loop -/

structure LoopInv (snap : DB) (S0 : Spec) (ds t i : Nat) (db : DB) (loc : List (Nat × Ent)) (S : Spec) : Prop where
  inv : Inv db S
  locSome : ∀ id p, loc.lookup id = some p → lastEnt (S.vers ds id) = some p
  locNone : ∀ id, loc.lookup id = none → S.vers ds id = S0.vers ds id
  bound : ∀ v ∈ db.versions, v.1.ds = ds → v.1.t < t ∨ (v.1.t = t ∧ v.1.seq < i)

theorem prev_eq_last {snap : DB} {S0 : Spec} (hsnap : Inv snap S0) {ds t i : Nat}
    {db : DB} {loc : List (Nat × Ent)} {S : Spec} (h : LoopInv snap S0 ds t i db loc S) (rid : Nat) :
    prevOf snap ds loc rid = lastEnt (S.vers ds rid) := by
  unfold prevOf
  cases hl : loc.lookup rid with
  | some p => simp [h.locSome rid p hl]
  | none => simp only []; rw [stored_eq_last hsnap.v, h.locNone rid hl]

theorem step_ok {snap : DB} {S0 : Spec} (hsnap : Inv snap S0) {ds t i : Nat} (nw : List Nat)
    {db : DB} {loc : List (Nat × Ent)} {S : Spec}
    (h : LoopInv snap S0 ds t i db loc S) (e : Ent) :
    LoopInv snap S0 ds t (i + 1) (writeOne snap ds t nw (db, loc) (i, e)).1
      (writeOne snap ds t nw (db, loc) (i, e)).2 (specOne ds t S (i, e)) := by
  have hprev := prev_eq_last hsnap h e.rid
  have hC := count_invC h.inv.c ds (prevOf snap ds loc e.rid) e.rid hprev
  have hV := count_invV h.inv.v ds (prevOf snap ds loc e.rid) e.rid
  have hF := count_invF h.inv.f ds (prevOf snap ds loc e.rid) e.rid
  by_cases heq : prevOf snap ds loc e.rid = some e
  · -- identical to the version it would replace: skipped
    have heq' : lastEnt (S.vers ds e.rid) = some e := hprev ▸ heq
    have hw : writeOne snap ds t nw (db, loc) (i, e) = (countNew db ds (prevOf snap ds loc e.rid), loc) := by
      simp only [writeOne, heq, if_true]
    have hs : specOne ds t S (i, e) = specCount ds S e.rid := by
      simp only [specOne, heq', if_true]
    rw [hw, hs]
    have hne : S.vers ds e.rid ≠ [] := by
      intro h0; rw [h0] at heq'; simp [lastEnt] at heq'
    refine ⟨⟨hV, hF, ⟨hC.1, hC.2.1, ?_⟩⟩, ?_, ?_, ?_⟩
    · intro d id
      rw [hC.2.2 d id, specCount_vers]
      constructor
      · rintro (h1 | ⟨_, _, h3⟩)
        · exact h1
        · exact absurd h3 hne
      · exact Or.inl
    · rw [specCount_vers]; exact h.locSome
    · rw [specCount_vers]; exact h.locNone
    · intro v hv hd
      simp only [countNew_versions] at hv
      rcases h.bound v hv hd with hlt | ⟨h1, h2⟩
      · exact Or.inl hlt
      · exact Or.inr ⟨h1, Nat.lt_succ_of_lt h2⟩
  · have heq' : ¬ lastEnt (S.vers ds e.rid) = some e := fun hc => heq (hprev ▸ hc)
    have hw : writeOne snap ds t nw (db, loc) (i, e)
        = (appendVersion (countNew db ds (prevOf snap ds loc e.rid)) ds t i e (prevOf snap ds loc e.rid) (loc.lookup e.rid).isSome (nw.contains e.rid),
           (e.rid, e) :: loc) := by
      simp only [writeOne, heq, if_false]
    have hs : specOne ds t S (i, e) = specAppend ds t i (specCount ds S e.rid) e := by
      simp only [specOne, heq', if_false]
    rw [hw, hs]
    have hfresh : (⟨e.rid, ds, t, i⟩ : VKey) ∉ (countNew db ds (prevOf snap ds loc e.rid)).versions.map (·.1) := by
      rw [countNew_versions]
      intro hm
      obtain ⟨v, hv, hk⟩ := List.mem_map.1 hm
      have hd : v.1.ds = ds := by rw [hk]
      rcases h.bound v hv hd with hlt | ⟨_, h2⟩
      · rw [hk] at hlt; exact Nat.lt_irrefl _ hlt
      · rw [hk] at h2; exact Nat.lt_irrefl _ h2
    refine ⟨⟨append_invV hV ds t i e _ _ _ hfresh, append_invF hF ds t i e _ _ _, ⟨?_, ?_, ?_⟩⟩, ?_, ?_, ?_⟩
    · intro d; rw [appendVersion_itemsOf]; exact hC.1 d
    · exact hC.2.1
    · intro d id
      show id ∈ (specCount ds S e.rid).ids d ↔ _
      rw [hC.2.2 d id]
      simp only [specAppend, specCount_vers]
      by_cases hk : d = ds ∧ id = e.rid
      · obtain ⟨rfl, rfl⟩ := hk
        simp only [and_self, if_true, ne_eq, List.append_eq_nil_iff, List.cons_ne_self, and_false,
          not_false_eq_true, iff_true]
        by_cases h0 : S.vers d e.rid = []
        · exact Or.inr ⟨trivial, trivial, h0⟩
        · exact Or.inl h0
      · simp only [hk, if_false]
        constructor
        · rintro (h1 | ⟨a, b, _⟩)
          · exact h1
          · exact absurd ⟨a, b⟩ hk
        · exact Or.inl
    · -- locSome
      intro j p hl
      simp only [List.lookup] at hl
      simp only [specAppend, specCount_vers]
      by_cases hj : j = e.rid
      · subst hj
        simp only [beq_self_eq_true] at hl
        cases hl
        simp [lastEnt]
      · have : (j == e.rid) = false := by simpa using hj
        rw [this] at hl
        have := h.locSome j p hl
        simpa [hj] using this
    · -- locNone
      intro j hl
      simp only [List.lookup] at hl
      simp only [specAppend, specCount_vers]
      by_cases hj : j = e.rid
      · subst hj; simp at hl
      · have : (j == e.rid) = false := by simpa using hj
        rw [this] at hl
        have := h.locNone j hl
        simpa [hj] using this
    · -- bound
      intro v hv hd
      simp only [appendVersion, countNew_versions, List.mem_append, List.mem_singleton] at hv
      rcases hv with hv | rfl
      · rcases h.bound v hv hd with hlt | ⟨h1, h2⟩
        · exact Or.inl hlt
        · exact Or.inr ⟨h1, Nat.lt_succ_of_lt h2⟩
      · exact Or.inr ⟨rfl, Nat.lt_succ_self _⟩

theorem loop_ok {snap : DB} {S0 : Spec} (hsnap : Inv snap S0) (ds t : Nat) (nw : List Nat) :
    ∀ (xs : List Ent) (i : Nat) (db : DB) (loc : List (Nat × Ent)) (S : Spec),
      LoopInv snap S0 ds t i db loc S →
      Inv (writeFrom snap ds t nw i xs (db, loc)).1 (specFrom ds t i xs S)
  | [], _, _, _, _, h => h.inv
  | e :: xs, i, db, loc, S, h => by
    unfold writeFrom specFrom
    exact loop_ok hsnap ds t nw xs (i + 1) _ _ _ (step_ok hsnap nw h e)

/-- Refinement: a batch committed at a time later than every version already in the dataset keeps
the invariant, for every batch (any length, repeated ids, delete/un-delete). -/
theorem inv_storeBatch {db : DB} {S : Spec} (h : Inv db S) (ds t : Nat)
    (hfresh : ∀ v ∈ db.versions, v.1.ds = ds → v.1.t < t) (b : List Ent) (nw : List Nat := []) :
    Inv (storeBatch db ds t b nw) (specFrom ds t 0 b S) :=
  loop_ok h ds t nw b 0 db [] S
    ⟨h, by intro id p hl; simp at hl, by intro id _; rfl, fun v hv hd => Or.inl (hfresh v hv hd)⟩

theorem inv_empty : Inv {} {} := by
  refine ⟨⟨by intro d j; rfl, by simp, by intro d j; rfl, by simp, by intro d j v hv; simp at hv⟩,
          ⟨by intro d; rfl, by intro d; simp [feedOf], by intro d c hc; simp [feedOf] at hc⟩,
          ⟨by intro d; rfl, by intro d; simp, by intro d id; simp⟩⟩

end Hub.StoreInv
