import Hub.Model.Store
import Hub.Proofs.SortPerm
import Hub.Proofs.ListPaging
import Hub.Proofs.StoreInv
/-!
# Entity lookup: the per-dataset partials (`GetEntityAtPointInTimeWithInternalID`)

The scan walks the versions of one entity in key order (dataset, time, batch position) and keeps the last
element of every run of equal dataset. Over the sorted list of visible versions this is, per dataset, the
newest version recorded at or before the instant; deleted ones are dropped afterwards.
-/
namespace Hub.Lookup
open Hub.Store

theorem lt_iff (a b : VKey) : a.lt b = true ↔
    a.rid < b.rid ∨ (a.rid = b.rid ∧ (a.ds < b.ds ∨ (a.ds = b.ds ∧ (a.t < b.t ∨ (a.t = b.t ∧ a.seq < b.seq))))) := by
  simp [VKey.lt]

theorem lt_trans (a b c : VKey) (h1 : a.lt b = true) (h2 : b.lt c = true) : a.lt c = true := by
  rw [lt_iff] at *; omega

theorem lt_asymm (a b : VKey) (h : a.lt b = true) : b.lt a = false := by
  cases hb : b.lt a with
  | false => rfl
  | true => rw [lt_iff] at h hb; omega

theorem lt_irrefl (a : VKey) : a.lt a = false := by
  cases h : a.lt a with
  | false => rfl
  | true => rw [lt_iff] at h; omega

/-- sorted by key, all of one entity. -/
def Sorted (rid : Nat) (L : List (VKey × Ent)) : Prop :=
  L.Pairwise (fun a b => b.1.lt a.1 = false) ∧ ∀ p ∈ L, p.1.rid = rid

theorem sorted_tail {rid : Nat} {x : VKey × Ent} {L : List (VKey × Ent)} (h : Sorted rid (x :: L)) : Sorted rid L :=
  ⟨(List.pairwise_cons.1 h.1).2, fun p hp => h.2 p (List.mem_cons_of_mem _ hp)⟩

/-- in a sorted list of one entity the dataset never decreases. -/
theorem ds_mono {rid : Nat} {x : VKey × Ent} {L : List (VKey × Ent)} (h : Sorted rid (x :: L)) :
    ∀ q ∈ L, x.1.ds ≤ q.1.ds := by
  intro q hq
  have h1 := (List.pairwise_cons.1 h.1).1 q hq
  have hx := h.2 x List.mem_cons_self
  have hqr := h.2 q (List.mem_cons_of_mem _ hq)
  cases hlt : decide (q.1.ds < x.1.ds) with
  | false => simpa using hlt
  | true =>
    have : q.1.lt x.1 = true := by rw [lt_iff]; have := of_decide_eq_true hlt; omega
    rw [h1] at this; cases this

theorem mem_lastPerDs : ∀ (L : List (VKey × Ent)) (p : VKey × Ent), p ∈ lastPerDs L → p ∈ L
  | [], p, h => by simp [lastPerDs] at h
  | [x], p, h => by simpa [lastPerDs] using h
  | x :: y :: rest, p, h => by
    unfold lastPerDs at h
    by_cases hd : (x.1.ds == y.1.ds) = true
    · rw [if_pos hd] at h
      exact List.mem_cons_of_mem _ (mem_lastPerDs (y :: rest) p h)
    · rw [if_neg hd] at h
      rcases List.mem_cons.1 h with rfl | h
      · exact List.mem_cons_self
      · exact List.mem_cons_of_mem _ (mem_lastPerDs (y :: rest) p h)

/-- soundness: what the scan keeps is the newest visible version of its dataset. -/
theorem lastPerDs_newest (rid : Nat) : ∀ (L : List (VKey × Ent)), Sorted rid L →
    ∀ p ∈ lastPerDs L, ∀ q ∈ L, q.1.ds = p.1.ds → p.1.lt q.1 = false
  | [], _, p, hp, _, _, _ => by simp [lastPerDs] at hp
  | [x], _, p, hp, q, hq, _ => by
    simp [lastPerDs] at hp; simp at hq; subst hp; subst hq; exact lt_irrefl _
  | x :: y :: rest, hs, p, hp, q, hq, hds => by
    unfold lastPerDs at hp
    have hst := sorted_tail hs
    by_cases hd : (x.1.ds == y.1.ds) = true
    · rw [if_pos hd] at hp
      rcases List.mem_cons.1 hq with rfl | hq
      · -- q = x precedes p in the sorted list
        have hpm := mem_lastPerDs _ p hp
        cases hlt : p.1.lt q.1 with
        | false => rfl
        | true =>
          have := (List.pairwise_cons.1 hs.1).1 p hpm
          rw [hlt] at this; cases this
      · exact lastPerDs_newest rid (y :: rest) hst p hp q hq hds
    · rw [if_neg hd] at hp
      have hne : x.1.ds ≠ y.1.ds := by simpa using hd
      have hxy := ds_mono hs y List.mem_cons_self
      rcases List.mem_cons.1 hp with hpx | hp'
      · subst hpx
        rcases List.mem_cons.1 hq with hqx | hq'
        · subst hqx; exact lt_irrefl _
        · -- every later element lies in a later dataset
          have := ds_mono hst
          have hyq : y.1.ds ≤ q.1.ds := by
            rcases List.mem_cons.1 hq' with hqy | hq''
            · subst hqy; exact Nat.le_refl _
            · exact this q hq''
          omega
      · rcases List.mem_cons.1 hq with hqx | hq'
        · subst hqx
          have hpm := mem_lastPerDs _ p hp'
          cases hlt : p.1.lt q.1 with
          | false => rfl
          | true =>
            have := (List.pairwise_cons.1 hs.1).1 p hpm
            rw [hlt] at this; cases this
        · exact lastPerDs_newest rid (y :: rest) hst p hp' q hq' hds

/-- completeness: every dataset with a visible version is represented. -/
theorem lastPerDs_complete : ∀ (L : List (VKey × Ent)) (q : VKey × Ent), q ∈ L → ∃ p ∈ lastPerDs L, p.1.ds = q.1.ds
  | [], q, h => by simp at h
  | [x], q, h => by simp at h; subst h; exact ⟨q, by simp [lastPerDs], rfl⟩
  | x :: y :: rest, q, h => by
    unfold lastPerDs
    by_cases hd : (x.1.ds == y.1.ds) = true
    · rw [if_pos hd]
      rcases List.mem_cons.1 h with rfl | h
      · obtain ⟨p, hp, hpd⟩ := lastPerDs_complete (y :: rest) y List.mem_cons_self
        exact ⟨p, hp, by rw [hpd]; exact (by simpa using hd : q.1.ds = y.1.ds).symm⟩
      · exact lastPerDs_complete (y :: rest) q h
    · rw [if_neg hd]
      rcases List.mem_cons.1 h with rfl | h
      · exact ⟨q, List.mem_cons_self, rfl⟩
      · obtain ⟨p, hp, hpd⟩ := lastPerDs_complete (y :: rest) q h
        exact ⟨p, List.mem_cons_of_mem _ hp, hpd⟩

theorem visible_sorted (db : DB) (rid at_ : Nat) (scope : List Nat) : Sorted rid (visibleVersions db rid at_ scope) := by
  constructor
  · unfold visibleVersions
    exact Hub.ListPaging.sortBy_sorted' (fun (a b : VKey × Ent) => a.1.lt b.1)
      (fun a b c h1 h2 => lt_trans _ _ _ h1 h2) (fun a b h => lt_asymm _ _ h) _
  · intro p hp
    unfold visibleVersions at hp
    have := (Hub.SortPerm.mem_sortBy _ _ p).1 hp
    have := (List.mem_filter.1 this).2
    simp only [Bool.and_eq_true, beq_iff_eq] at this
    exact this.1.1.1

theorem mem_visible (db : DB) (rid at_ : Nat) (scope : List Nat) (p : VKey × Ent) :
    p ∈ visibleVersions db rid at_ scope ↔
      p ∈ db.versions ∧ p.1.rid = rid ∧ p.1.t ≤ at_ ∧ p.1.ds ∉ db.deletedDs ∧ (scope = [] ∨ p.1.ds ∈ scope) := by
  unfold visibleVersions
  rw [Hub.SortPerm.mem_sortBy, List.mem_filter]
  simp only [Bool.and_eq_true, beq_iff_eq, decide_eq_true_eq, Bool.not_eq_true', Bool.or_eq_true, List.isEmpty_iff,
    List.contains_eq_mem, decide_eq_false_iff_not]
  constructor
  · rintro ⟨h1, ⟨⟨h2, h3⟩, h4⟩, h5⟩; exact ⟨h1, h2, h3, h4, h5⟩
  · rintro ⟨h1, h2, h3, h4, h5⟩; exact ⟨h1, ⟨⟨h2, h3⟩, h4⟩, h5⟩

end Hub.Lookup

namespace Hub.Lookup
open Hub.Store

theorem lt_total (a b : VKey) (h1 : a.lt b = false) (h2 : b.lt a = false) : a = b := by
  have n1 : ¬ (a.lt b = true) := by simp [h1]
  have n2 : ¬ (b.lt a = true) := by simp [h2]
  rw [lt_iff] at n1 n2
  cases a; cases b
  simp only [VKey.mk.injEq] at *
  omega

/-- with unique version keys, membership in the visible versions is decided by the key. -/
theorem visible_key_unique (db : DB) (hk : (db.versions.map (·.1)).Nodup) (rid at_ : Nat) (scope : List Nat)
    (p q : VKey × Ent) (hp : p ∈ visibleVersions db rid at_ scope) (hq : q ∈ visibleVersions db rid at_ scope)
    (h : p.1 = q.1) : p = q := by
  have hp' := ((mem_visible db rid at_ scope p).1 hp).1
  have hq' := ((mem_visible db rid at_ scope q).1 hq).1
  have := Hub.StoreInv.lookup_of_mem_nodup db.versions hk (k := p.1) (c := p.2) hp'
  have h2 := Hub.StoreInv.lookup_of_mem_nodup db.versions hk (k := q.1) (c := q.2) hq'
  rw [h] at this
  rw [this] at h2
  exact Prod.ext h (Option.some.inj h2)

end Hub.Lookup
