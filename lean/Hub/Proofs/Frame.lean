import Hub.Model.Store
/-! Frame lemmas: a batch committed at time `t` only adds version keys with time `t` and only adds
or removes reference keys with time `t`. -/
namespace Hub.Frame
open Hub.Store

theorem refSet_frame (rs : List RefKey) (k : RefKey) (t : Nat) (hk : k.t = t) :
    (refSet rs k).filter (fun r => decide (r.t ≠ t)) = rs.filter (fun r => decide (r.t ≠ t)) := by
  unfold refSet
  split
  · rfl
  · rw [List.filter_append]; simp [hk]

theorem refDel_frame (rs : List RefKey) (k : RefKey) (t : Nat) (hk : k.t = t) :
    (refDel rs k).filter (fun r => decide (r.t ≠ t)) = rs.filter (fun r => decide (r.t ≠ t)) := by
  unfold refDel
  rw [List.filter_filter]
  apply List.filter_congr
  intro r _
  by_cases hr : r.t = t
  · simp [hr]
  · have : r ≠ k := fun e => hr (e ▸ hk)
    simp [hr, this]

theorem foldl_frame {α : Type} (f : List RefKey → α → List RefKey) (t : Nat)
    (hf : ∀ rs a, (f rs a).filter (fun r => decide (r.t ≠ t)) = rs.filter (fun r => decide (r.t ≠ t))) :
    ∀ (l : List α) (rs : List RefKey),
      (l.foldl f rs).filter (fun r => decide (r.t ≠ t)) = rs.filter (fun r => decide (r.t ≠ t))
  | [], _ => rfl
  | a :: l, rs => by rw [List.foldl_cons, foldl_frame f t hf l, hf]

theorem writeRefs_frame (rs : List RefKey) (ds t : Nat) (prev : Option Ent) (ib : Bool) (nw : Bool) (e : Ent) :
    (writeRefs rs ds t prev ib nw e).filter (fun r => decide (r.t ≠ t)) = rs.filter (fun r => decide (r.t ≠ t)) := by
  unfold writeRefs
  cases prev with
  | none =>
    simp only
    split
    · split
      · exact foldl_frame _ t (fun rs r => refSet_frame rs _ t rfl) _ _
      · rfl
    · exact foldl_frame _ t (fun rs r => refSet_frame rs _ t rfl) _ _
  | some p =>
    simp only
    split
    · exact foldl_frame _ t (fun rs r => refSet_frame rs _ t rfl) _ _
    · rw [foldl_frame _ t (fun rs r => refSet_frame rs _ t rfl)]
      apply foldl_frame
      intro rs r
      split
      · rw [refDel_frame _ _ t rfl, refSet_frame _ _ t rfl]
      · exact refSet_frame _ _ t rfl

/-- what one loop iteration does to the keys of other times: nothing. -/
theorem writeOne_frame (snap : DB) (ds t : Nat) (nw : List Nat) (st : DB × List (Nat × Ent)) (x : Nat × Ent) :
    (writeOne snap ds t nw st x).1.refs.filter (fun r => decide (r.t ≠ t)) = st.1.refs.filter (fun r => decide (r.t ≠ t))
    ∧ (∃ new, (writeOne snap ds t nw st x).1.versions = st.1.versions ++ new ∧ ∀ v ∈ new, v.1.t = t ∧ v.1.ds = ds)
    ∧ (writeOne snap ds t nw st x).1.deletedDs = st.1.deletedDs := by
  unfold writeOne
  simp only
  have hc : ∀ p, (countNew st.1 ds p).refs = st.1.refs ∧ (countNew st.1 ds p).versions = st.1.versions
      ∧ (countNew st.1 ds p).deletedDs = st.1.deletedDs := by
    intro p; unfold countNew; split <;> simp
  split
  · exact ⟨by rw [(hc _).1], ⟨[], by simp [(hc _).2.1], by simp⟩, (hc _).2.2⟩
  · refine ⟨?_, ⟨[(⟨x.2.rid, ds, t, x.1⟩, x.2)], ?_, ?_⟩, ?_⟩
    · simp only [appendVersion]; rw [writeRefs_frame, (hc _).1]
    · simp [appendVersion, (hc _).2.1]
    · intro v hv; simp at hv; subst hv; exact ⟨rfl, rfl⟩
    · simp [appendVersion, (hc _).2.2]

theorem writeFrom_frame (snap : DB) (ds t : Nat) (nw : List Nat) :
    ∀ (xs : List Ent) (i : Nat) (st : DB × List (Nat × Ent)),
      (writeFrom snap ds t nw i xs st).1.refs.filter (fun r => decide (r.t ≠ t)) = st.1.refs.filter (fun r => decide (r.t ≠ t))
      ∧ (∃ new, (writeFrom snap ds t nw i xs st).1.versions = st.1.versions ++ new ∧ ∀ v ∈ new, v.1.t = t ∧ v.1.ds = ds)
      ∧ (writeFrom snap ds t nw i xs st).1.deletedDs = st.1.deletedDs
  | [], _, st => ⟨rfl, ⟨[], by simp [writeFrom], by simp⟩, rfl⟩
  | e :: xs, i, st => by
    unfold writeFrom
    obtain ⟨h1, ⟨n1, hv1, hn1⟩, hd1⟩ := writeOne_frame snap ds t nw st (i, e)
    obtain ⟨h2, ⟨n2, hv2, hn2⟩, hd2⟩ := writeFrom_frame snap ds t nw xs (i + 1) (writeOne snap ds t nw st (i, e))
    refine ⟨by rw [h2, h1], ⟨n1 ++ n2, by rw [hv2, hv1, List.append_assoc], ?_⟩, by rw [hd2, hd1]⟩
    intro v hv
    rcases List.mem_append.1 hv with hv | hv
    · exact hn1 v hv
    · exact hn2 v hv

end Hub.Frame
