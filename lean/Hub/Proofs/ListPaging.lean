import Hub.Model.Store
import Hub.Proofs.SortPerm
/-!
# Paging of the dataset listing (`MapEntitiesRaw` with a key-based continuation)

`listPage` seeks to the continuation key (the rid of the last entity of the previous page) and steps over it;
over a listing whose rids strictly increase this is a window, and following the tokens tiles the listing.
-/
namespace Hub.ListPaging
open Hub.Store

/-! ## insertion sort sorts (for an asymmetric, transitive order) -/

variable {α : Type}

theorem insertBy_sorted (lt : α → α → Bool)
    (htr : ∀ a b c, lt a b = true → lt b c = true → lt a c = true) (has : ∀ a b, lt a b = true → lt b a = false)
    (x : α) : ∀ (acc : List α), acc.Pairwise (fun a b => lt b a = false) → (insertBy lt x acc).Pairwise (fun a b => lt b a = false)
  | [], _ => by simp [insertBy]
  | y :: ys, h => by
    unfold insertBy
    have hy := List.pairwise_cons.1 h
    by_cases hlt : lt x y = true
    · rw [if_pos hlt]
      refine List.pairwise_cons.2 ⟨?_, h⟩
      intro z hz
      rcases List.mem_cons.1 hz with rfl | hz
      · exact has _ _ hlt
      · have hzy := hy.1 z hz
        cases hzx : lt z x with
        | false => rfl
        | true => have := htr _ _ _ hzx hlt; rw [hzy] at this; cases this
    · rw [if_neg hlt]
      have ih := insertBy_sorted lt htr has x ys hy.2
      refine List.pairwise_cons.2 ⟨?_, ih⟩
      intro z hz
      have hz' := (Hub.SortPerm.insertBy_perm lt x ys).mem_iff.1 hz
      rcases List.mem_cons.1 hz' with rfl | hz'
      · simpa using hlt
      · exact hy.1 z hz'

theorem sortBy_sorted' (lt : α → α → Bool)
    (htr : ∀ a b c, lt a b = true → lt b c = true → lt a c = true) (has : ∀ a b, lt a b = true → lt b a = false)
    (l : List α) : (sortBy lt l).Pairwise (fun a b => lt b a = false) := by
  unfold sortBy
  have : ∀ (l acc : List α), acc.Pairwise (fun a b => lt b a = false) →
      (l.foldl (fun acc x => insertBy lt x acc) acc).Pairwise (fun a b => lt b a = false) := by
    intro l
    induction l with
    | nil => intro acc h; exact h
    | cons x xs ih => intro acc h; exact ih _ (insertBy_sorted lt htr has x acc h)
  exact this l [] List.Pairwise.nil

/-! ## a listing with strictly increasing rids -/

abbrev Row := Nat × Ent

/-- rids strictly increase along the listing. -/
def Incr (L : List Row) : Prop := L.Pairwise (fun a b => a.1 < b.1)

/-- `Seek(from)` then step over the key itself. -/
def afterRid (r : Nat) (L : List Row) : List Row :=
  (L.dropWhile (fun p => p.1 < r)).dropWhile (fun p => p.1 == r)

theorem afterRid_all_gt (r : Nat) : ∀ (L : List Row), (∀ p ∈ L, r < p.1) → afterRid r L = L
  | [], _ => rfl
  | p :: L, h => by
    have hp := h p List.mem_cons_self
    unfold afterRid
    have h1 : (decide (p.1 < r)) = false := by simp; omega
    have h2 : (p.1 == r) = false := by simp; omega
    simp [List.dropWhile_cons, h1, h2]

theorem afterRid_getElem : ∀ (L : List Row), Incr L → ∀ (i : Nat) (h : i < L.length), afterRid (L[i]).1 L = L.drop (i + 1)
  | [], _, i, h => by simp at h
  | p :: L, hinc, 0, _ => by
    have hp := List.pairwise_cons.1 hinc
    have hrest : L.dropWhile (fun q => q.1 == p.1) = L := by
      cases L with
      | nil => rfl
      | cons q L' =>
        have hq := hp.1 q List.mem_cons_self
        have h2 : (q.1 == p.1) = false := by simp; omega
        simp [List.dropWhile_cons, h2]
    unfold afterRid
    simp only [List.getElem_cons_zero, List.dropWhile_cons, Nat.lt_irrefl, decide_false, Bool.false_eq_true, if_false,
      BEq.rfl, if_true, List.drop_succ_cons, List.drop_zero]
    exact hrest
  | p :: L, hinc, i + 1, h => by
    have hp := List.pairwise_cons.1 hinc
    have hi : i < L.length := by simpa using h
    have hlt : p.1 < (L[i]).1 := hp.1 _ (List.getElem_mem hi)
    simp only [List.getElem_cons_succ, List.drop_succ_cons]
    have ih := afterRid_getElem L hp.2 i hi
    unfold afterRid at ih ⊢
    have h1 : decide (p.1 < (L[i]).1) = true := by simpa using hlt
    simp only [List.dropWhile_cons, h1, if_true]
    exact ih

/-- the reader: follow the tokens through a list of page sizes (`0` = everything). -/
def pages (db : DB) (ds : Nat) : Option Nat → List Nat → List (List Ent)
  | _, [] => []
  | tok, c :: cs => let r := listPage db ds tok c; r.1 :: pages db ds r.2 cs

/-- a page is a window of the listing: from the token of the `i`-th row (or none) it returns the next `count` rows. -/
theorem listPage_window (db : DB) (ds : Nat) (hinc : Incr (listAll db ds)) (i count : Nat) (hi : i ≤ (listAll db ds).length) :
    let L := listAll db ds
    let tok : Option Nat := if i = 0 then none else (L[i - 1]?).map (·.1)
    let W := if count = 0 then L.drop i else (L.drop i).take count
    listPage db ds tok count = (W.map (·.2), if W = [] then tok else (L[i + W.length - 1]?).map (·.1)) := by
  intro L tok W
  have hiL : i ≤ L.length := hi
  have hrest : (match tok with | none => L | some r => afterRid r L) = L.drop i := by
    by_cases h0 : i = 0
    · simp [tok, h0]
    · have hlt : i - 1 < L.length := by omega
      simp only [tok, h0, if_false, List.getElem?_eq_getElem hlt, Option.map_some]
      rw [afterRid_getElem L hinc (i - 1) hlt]
      congr 1; omega
  unfold listPage
  show (((if count = 0 then (match tok with | none => L | some r => afterRid r L)
            else (match tok with | none => L | some r => afterRid r L).take count)).map (fun (p : Row) => p.2),
        match (if count = 0 then (match tok with | none => L | some r => afterRid r L)
            else (match tok with | none => L | some r => afterRid r L).take count).getLast? with
        | some (p : Row) => some p.1 | none => tok) = _
  rw [hrest]
  refine Prod.ext rfl ?_
  show (match W.getLast? with | some (p : Row) => some p.1 | none => tok) = _
  by_cases hW : W = []
  · simp [hW]
  · rw [if_neg hW]
    have hsub : ∀ j, j < W.length → W[j]? = L[i + j]? := by
      intro j hj
      simp only [W]
      by_cases hc : count = 0
      · simp [hc, List.getElem?_drop]
      · simp only [hc, if_false, List.getElem?_take]
        have : j < count := by
          simp only [W, hc, if_false, List.length_take] at hj; omega
        simp [this, List.getElem?_drop]
    have hpos : 0 < W.length := List.length_pos_iff.2 hW
    rw [List.getLast?_eq_getElem?, hsub (W.length - 1) (by omega)]
    have : i + (W.length - 1) = i + W.length - 1 := by omega
    rw [this]
    have hWlen : W.length ≤ L.length - i := by
      simp only [W]
      by_cases hc : count = 0
      · simp [hc]
      · simp only [hc, if_false, List.length_take, List.length_drop]; omega
    obtain ⟨x, hx⟩ : ∃ x, L[i + W.length - 1]? = some x :=
      ⟨L[i + W.length - 1]'(by omega), List.getElem?_eq_getElem (by omega)⟩
    rw [hx]
    rfl

/-- the token a reader holds after the first `i` rows. -/
def tokAt (L : List Row) (i : Nat) : Option Nat := if i = 0 then none else (L[i - 1]?).map (·.1)

/-- **following the tokens tiles the listing**: for every list of page sizes (each ≥ 1) followed by a final
unlimited read, the pages put together are exactly the rows of the listing from where the reader stood —
every entity once, none missing, in key order. -/
theorem pages_tile (db : DB) (ds : Nat) (hinc : Incr (listAll db ds)) :
    ∀ (cs : List Nat) (i : Nat), i ≤ (listAll db ds).length → (∀ c ∈ cs, 0 < c) →
      (pages db ds (tokAt (listAll db ds) i) (cs ++ [0])).flatten = ((listAll db ds).drop i).map (·.2)
  | [], i, hi, _ => by
    have hw := listPage_window db ds hinc i 0 hi
    simp only [if_true] at hw
    simp only [List.nil_append, pages, tokAt, hw, List.flatten_cons, List.flatten_nil, List.append_nil]
  | c :: cs, i, hi, hc => by
    have hcpos : 0 < c := hc c List.mem_cons_self
    have hc0 : c ≠ 0 := by omega
    have hw := listPage_window db ds hinc i c hi
    simp only [hc0, if_false] at hw
    simp only [List.cons_append, pages, tokAt] at hw ⊢
    rw [hw]
    simp only [List.flatten_cons]
    generalize hW : List.take c (List.drop i (listAll db ds)) = W at hw ⊢
    have hWlen : i + W.length ≤ (listAll db ds).length := by
      rw [← hW]; simp only [List.length_take, List.length_drop]; omega
    have hnext : (if W = [] then (if i = 0 then none else ((listAll db ds)[i - 1]?).map (·.1))
        else ((listAll db ds)[i + W.length - 1]?).map (·.1)) = tokAt (listAll db ds) (i + W.length) := by
      by_cases hWe : W = []
      · simp [hWe, tokAt]
      · have : i + W.length ≠ 0 := by
          have := List.length_pos_iff.2 hWe; omega
        simp [hWe, tokAt, this]
    rw [hnext, pages_tile db ds hinc cs (i + W.length) hWlen (fun c' hc' => hc c' (List.mem_cons_of_mem _ hc'))]
    rw [← hW, ← List.map_append]
    congr 1
    have : List.drop (i + (List.take c (List.drop i (listAll db ds))).length) (listAll db ds)
        = List.drop (List.take c (List.drop i (listAll db ds))).length (List.drop i (listAll db ds)) := by
      rw [List.drop_drop]
    rw [this]
    have hl : (List.take c (List.drop i (listAll db ds))).length = min c (List.drop i (listAll db ds)).length := List.length_take
    rcases Nat.le_total c (List.drop i (listAll db ds)).length with h | h
    · rw [hl, Nat.min_eq_left h, List.take_append_drop]
    · rw [hl, Nat.min_eq_right h, List.take_of_length_le h, List.drop_length, List.append_nil]

end Hub.ListPaging
