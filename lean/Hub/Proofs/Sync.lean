import Hub.Model.Sync
/-! Helper lemmas for C08: the sink/cursor invariant of the synchronisation model and its preservation. -/
namespace Hub.Sync

theorem getA_setA_same (k v : Nat) : ∀ s, getA k (setA k v s) = some v
  | [] => by simp [setA, getA]
  | (k', v') :: r => by
    by_cases h : k' = k
    · simp [setA, getA, h]
    · simp [setA, getA, h, getA_setA_same k v r]

theorem getA_setA_other (k v k2 : Nat) (hk : k2 ≠ k) : ∀ s, getA k2 (setA k v s) = getA k2 s
  | [] => by simp [setA, getA, Ne.symm hk]
  | (k', v') :: r => by
    by_cases h : k' = k
    · subst h; simp [setA, getA, Ne.symm hk]
    · by_cases h2 : k' = k2
      · subst h2; simp [setA, getA, hk]
      · simp [setA, getA, h, h2, getA_setA_other k v k2 hk r]

theorem latest_snoc (l : List Ent) (e : Ent) (id : Nat) :
    latest (l ++ [e]) id = if e.1 = id then some e.2 else latest l id := by
  simp [latest, List.foldl_append]

theorem rev_ind {α : Type} {P : List α → Prop} (h0 : P []) (hs : ∀ l x, P l → P (l ++ [x])) : ∀ l, P l := by
  have : ∀ r : List α, P r.reverse := by
    intro r; induction r with
    | nil => simpa using h0
    | cons x xs ih => rw [List.reverse_cons]; exact hs _ _ ih
  intro l; simpa using this l.reverse

/-- `latest` is the content at the last position that mentions the id. -/
theorem latest_char (id : Nat) : ∀ (l : List Ent),
    (∀ v, latest l id = some v ↔ ∃ q : Nat, l[q]? = some (id, v) ∧ ∀ (p : Nat) (v' : Nat), l[p]? = some (id, v') → p ≤ q)
    ∧ (latest l id = none ↔ ∀ (p : Nat) (v' : Nat), l[p]? ≠ some (id, v')) := by
  apply rev_ind
  · simp [latest]
  · intro l e ih
    obtain ⟨ih1, ih2⟩ := ih
    have hget : ∀ (p : Nat) (x : Ent), (l ++ [e])[p]? = some x ↔ (l[p]? = some x ∨ (p = l.length ∧ x = e)) := by
      intro p x
      rcases Nat.lt_trichotomy p l.length with h | h | h
      · rw [List.getElem?_append_left h]
        constructor
        · exact Or.inl
        · rintro (h' | ⟨h', _⟩)
          · exact h'
          · omega
      · subst h
        have hx : (l ++ [e])[l.length]? = some e := by simp
        rw [hx]
        constructor
        · intro h'; cases h'; exact Or.inr ⟨rfl, rfl⟩
        · rintro (h' | ⟨_, h'⟩)
          · rw [List.getElem?_eq_none (Nat.le_refl _)] at h'; cases h'
          · rw [h']
      · have h1 : (l ++ [e])[p]? = none := List.getElem?_eq_none (by simp; omega)
        have h2 : l[p]? = none := List.getElem?_eq_none (by omega)
        rw [h1, h2]; constructor
        · intro h'; cases h'
        · rintro (h' | ⟨h', _⟩)
          · cases h'
          · omega
    rw [latest_snoc]
    by_cases he : e.1 = id
    · simp only [he, if_true]
      refine ⟨?_, ?_⟩
      · intro v
        constructor
        · intro hv
          cases hv
          refine ⟨l.length, (hget _ _).2 (Or.inr ⟨rfl, by rw [← he]⟩), ?_⟩
          intro p v' hp
          rcases (hget _ _).1 hp with h' | ⟨h', _⟩
          · have : p < l.length := by
              rcases Nat.lt_or_ge p l.length with h | h
              · exact h
              · rw [List.getElem?_eq_none h] at h'; cases h'
            omega
          · omega
        · rintro ⟨q, hq, hmax⟩
          have hl := hmax l.length e.2 ((hget _ _).2 (Or.inr ⟨rfl, by rw [← he]⟩))
          rcases (hget _ _).1 hq with h' | ⟨_, h'⟩
          · have : q < l.length := by
              rcases Nat.lt_or_ge q l.length with h | h
              · exact h
              · rw [List.getElem?_eq_none h] at h'; cases h'
            omega
          · rw [← h']
      · constructor
        · intro h; cases h
        · intro h; exact absurd ((hget l.length (id, e.2)).2 (Or.inr ⟨rfl, by rw [← he]⟩)) (h _ _)
    · simp only [he, if_false]
      have hne : ∀ v', (id, v') ≠ e := by intro v' h; apply he; rw [← h]
      refine ⟨?_, ?_⟩
      · intro v
        rw [ih1 v]
        constructor
        · rintro ⟨q, hq, hmax⟩
          refine ⟨q, (hget _ _).2 (Or.inl hq), ?_⟩
          intro p v' hp
          rcases (hget _ _).1 hp with h' | ⟨_, h'⟩
          · exact hmax p v' h'
          · exact absurd h' (hne v')
        · rintro ⟨q, hq, hmax⟩
          rcases (hget _ _).1 hq with h' | ⟨_, h'⟩
          · exact ⟨q, h', fun p v' hp => hmax p v' ((hget _ _).2 (Or.inl hp))⟩
          · exact absurd h' (hne v)
      · rw [ih2]
        constructor
        · intro h p v' hp
          rcases (hget _ _).1 hp with h' | ⟨_, h'⟩
          · exact h p v' h'
          · exact hne v' h'
        · intro h p v' hp
          exact h p v' ((hget _ _).2 (Or.inl hp))

/-- the sink relative to a feed position `c`: every version the sink holds is a real change of that id
at a position not before any change of the id below `c`; every id changed below `c` is in the sink. -/
structure Inv (src : List Ent) (sink : List (Nat × Nat)) (c : Nat) : Prop where
  real : ∀ id v, getA id sink = some v →
    ∃ q : Nat, src[q]? = some (id, v) ∧ ∀ (p : Nat) (v' : Nat), p < c → src[p]? = some (id, v') → p ≤ q
  present : ∀ id (p : Nat) (v' : Nat), p < c → src[p]? = some (id, v') → getA id sink ≠ none

theorem inv_mono {src sink c c'} (h : Inv src sink c) (hc : c' ≤ c) : Inv src sink c' where
  real := by
    intro id v hv
    obtain ⟨q, hq, hmax⟩ := h.real id v hv
    exact ⟨q, hq, fun p v' hp => hmax p v' (by omega)⟩
  present := fun id p v' hp => h.present id p v' (by omega)

theorem inv_write {src sink c} (h : Inv src sink c) (hc : c ≤ src.length) (e : Ent) : Inv (src ++ [e]) sink c where
  real := by
    intro id v hv
    obtain ⟨q, hq, hmax⟩ := h.real id v hv
    have hql : q < src.length := by
      rcases Nat.lt_or_ge q src.length with h' | h'
      · exact h'
      · rw [List.getElem?_eq_none h'] at hq; cases hq
    refine ⟨q, by rw [List.getElem?_append_left hql]; exact hq, ?_⟩
    intro p v' hp hpv
    rw [List.getElem?_append_left (by omega)] at hpv
    exact hmax p v' hp hpv
  present := by
    intro id p v' hp hpv
    rw [List.getElem?_append_left (by omega)] at hpv
    exact h.present id p v' hp hpv

/-- the sink accepts the change at position `c`. -/
theorem inv_deliver_one {src sink c} (h : Inv src sink c) (e : Ent) (he : src[c]? = some e) :
    Inv src (setA e.1 e.2 sink) (c + 1) where
  real := by
    intro id v hv
    by_cases hid : id = e.1
    · subst hid
      rw [getA_setA_same] at hv
      cases hv
      refine ⟨c, he, ?_⟩
      intro p v' hp _; omega
    · rw [getA_setA_other _ _ _ hid] at hv
      obtain ⟨q, hq, hmax⟩ := h.real id v hv
      refine ⟨q, hq, ?_⟩
      intro p v' hp hpv
      by_cases hpc : p = c
      · subst hpc; rw [he] at hpv; cases hpv; exact absurd rfl hid
      · exact hmax p v' (by omega) hpv
  present := by
    intro id p v' hp hpv
    by_cases hid : id = e.1
    · subst hid; rw [getA_setA_same]; simp
    · rw [getA_setA_other _ _ _ hid]
      by_cases hpc : p = c
      · subst hpc; rw [he] at hpv; cases hpv; exact absurd rfl hid
      · exact h.present id p v' (by omega) hpv

/-- the sink accepts a page of any size read at position `c`. -/
theorem inv_deliver {src : List Ent} : ∀ (b : Nat) (sink : List (Nat × Nat)) (c : Nat), Inv src sink c →
    Inv src (applyAll ((src.drop c).take b) sink) (c + ((src.drop c).take b).length)
  | 0, sink, c, h => by simpa [applyAll] using h
  | b + 1, sink, c, h => by
    cases hd : src.drop c with
    | nil => simpa [applyAll, hd] using h
    | cons e rest =>
      have he : src[c]? = some e := by
        have := List.getElem?_drop (xs := src) (i := c) (j := 0)
        rw [hd] at this; simpa using this.symm
      have hrest : rest = src.drop (c + 1) := by
        have := List.drop_drop (i := 1) (j := c) (l := src)
        rw [hd] at this; simpa [Nat.add_comm] using this
      have h1 := inv_deliver_one h e he
      have h2 := inv_deliver b _ (c + 1) h1
      simp only [List.take_succ_cons, applyAll, List.foldl_cons, List.length_cons]
      rw [hrest]
      have : c + (((src.drop (c + 1)).take b).length + 1) = c + 1 + ((src.drop (c + 1)).take b).length := by omega
      rw [this]
      exact h2

/-- the whole state: the sink is consistent with the run's cursor, the persisted token is never
ahead of the cursor, and the cursor is a position of the feed. -/
structure Good (s : St) : Prop where
  inv : Inv s.src s.sink s.cur
  tokLe : s.tok ≤ s.cur
  curLe : s.cur ≤ s.src.length

theorem good_init : Good {} where
  inv := ⟨by intro id v h; simp [getA] at h, by intro id p v' hp; exact absurd hp (Nat.not_lt_zero _)⟩
  tokLe := Nat.le_refl _
  curLe := Nat.le_refl _

/-- full syncs that reset the persisted token when they start. -/
def Step.fixed : Step → Bool
  | .startFull r => r
  | _ => true

theorem good_step (s : St) (st : Step) (h : Good s) (hf : st.fixed = true) : Good (step s st) := by
  cases st with
  | write e =>
    exact ⟨inv_write h.inv h.curLe e, h.tokLe, by simp [step]; have := h.curLe; omega⟩
  | deliver b =>
    refine ⟨inv_deliver b s.sink s.cur h.inv, ?_, ?_⟩
    · simp only [step]; have := h.tokLe; omega
    · simp only [step, List.length_take, List.length_drop]; have := h.curLe; omega
  | persist => exact ⟨h.inv, Nat.le_refl _, h.curLe⟩
  | abort => exact ⟨inv_mono h.inv h.tokLe, Nat.le_refl _, by simp only [step]; have := h.tokLe; have := h.curLe; omega⟩
  | startFull r =>
    simp only [Step.fixed] at hf
    subst hf
    exact ⟨inv_mono h.inv (Nat.zero_le _), Nat.le_refl _, Nat.zero_le _⟩

theorem good_run : ∀ (l : List Step) (s : St), Good s → (∀ st ∈ l, st.fixed = true) → Good (run s l)
  | [], s, h, _ => h
  | st :: l, s, h, hf => good_run l (step s st) (good_step s st h (hf st (by simp))) (fun x hx => hf x (List.mem_cons_of_mem _ hx))

/-- a consistent sink whose cursor is at the end of the feed shows exactly the latest versions. -/
theorem converged_of_inv {src sink} (h : Inv src sink src.length) (id : Nat) : getA id sink = latest src id := by
  obtain ⟨h1, h2⟩ := latest_char id src
  cases hs : getA id sink with
  | some v =>
    obtain ⟨q, hq, hmax⟩ := h.real id v hs
    refine ((h1 v).2 ⟨q, hq, ?_⟩).symm
    intro p v' hp
    have hpl : p < src.length := by
      rcases Nat.lt_or_ge p src.length with h' | h'
      · exact h'
      · rw [List.getElem?_eq_none h'] at hp; cases hp
    exact hmax p v' hpl hp
  | none =>
    refine (h2.2 ?_).symm
    intro p v' hp
    have hpl : p < src.length := by
      rcases Nat.lt_or_ge p src.length with h' | h'
      · exact h'
      · rw [List.getElem?_eq_none h'] at hp; cases hp
    exact h.present id p v' hpl hp hs

end Hub.Sync
