import Hub.Model.Store
import Hub.Proofs.SortPerm
/-!
# The outgoing scan, unpaged: what `GetRelatedAtTime` (outgoing branch) returns

For `limit = 0` and no continuation the reverse scan with its `seen` / `added` sets returns the pair
(predicate, target) exactly when, for some in-scope dataset, the NEWEST reference key of
(source, predicate, target, dataset) recorded at or before `at` is not a tombstone — and returns it once.
Together with the index invariant (`Hub.C03.index_step`: newest key live ⇔ the latest version ≤ at is live
and carries the reference) this is "outgoing query = graph implied by the latest versions".
-/
namespace Hub.OutScan
open Hub.Store

/-! ## `lexLt` is a strict order; insertion sort sorts -/

theorem lexLt_irrefl : ∀ l : List Nat, lexLt l l = false
  | [] => rfl
  | a :: as => by simp [lexLt, lexLt_irrefl as]

theorem lexLt_trans : ∀ (a b c : List Nat), lexLt a b = true → lexLt b c = true → lexLt a c = true
  | [], [], _, h, _ => by simp [lexLt] at h
  | [], _ :: _, [], _, h => by simp [lexLt] at h
  | [], _ :: _, _ :: _, _, _ => by simp [lexLt]
  | _ :: _, [], _, h, _ => by simp [lexLt] at h
  | _ :: _, _ :: _, [], _, h => by simp [lexLt] at h
  | x :: xs, y :: ys, z :: zs, h1, h2 => by
    simp only [lexLt, Bool.or_eq_true, decide_eq_true_eq, Bool.and_eq_true, beq_iff_eq] at h1 h2 ⊢
    rcases h1 with h1 | ⟨h1, h1'⟩ <;> rcases h2 with h2 | ⟨h2, h2'⟩
    · left; omega
    · left; omega
    · left; omega
    · right; exact ⟨by omega, lexLt_trans xs ys zs h1' h2'⟩

theorem lexLt_asymm (a b : List Nat) (h : lexLt a b = true) : lexLt b a = false := by
  cases hb : lexLt b a with
  | false => rfl
  | true => have := lexLt_trans a b a h hb; rw [lexLt_irrefl] at this; cases this

/-- descending by `outFields`: no later key is larger than an earlier one. -/
def Desc (l : List RefKey) : Prop := l.Pairwise (fun a b => lexLt a.outFields b.outFields = false)

def olt (a b : RefKey) : Bool := lexLt b.outFields a.outFields

theorem insertBy_desc (x : RefKey) : ∀ (acc : List RefKey), Desc acc → Desc (insertBy olt x acc)
  | [], _ => by simp [insertBy, Desc]
  | y :: ys, h => by
    unfold insertBy
    have hy := List.pairwise_cons.1 h
    by_cases hlt : olt x y = true
    · rw [if_pos hlt]
      refine List.pairwise_cons.2 ⟨?_, h⟩
      intro z hz
      -- x before y before the rest: x.out > y.out ≥ z.out
      have hxy : lexLt y.outFields x.outFields = true := hlt
      rcases List.mem_cons.1 hz with rfl | hz
      · exact lexLt_asymm _ _ hxy
      · have hyz := hy.1 z hz
        cases hxz : lexLt x.outFields z.outFields with
        | false => rfl
        | true => have := lexLt_trans _ _ _ hxy hxz; rw [hyz] at this; cases this
    · rw [if_neg hlt]
      have ih := insertBy_desc x ys hy.2
      refine List.pairwise_cons.2 ⟨?_, ih⟩
      intro z hz
      have hz' := (Hub.SortPerm.insertBy_perm olt x ys).mem_iff.1 hz
      rcases List.mem_cons.1 hz' with rfl | hz'
      · simpa [olt] using hlt
      · exact hy.1 z hz'

theorem foldl_insert_desc : ∀ (l acc : List RefKey), Desc acc → Desc (l.foldl (fun acc x => insertBy olt x acc) acc)
  | [], _, h => h
  | x :: xs, acc, h => foldl_insert_desc xs _ (insertBy_desc x acc h)

theorem sortBy_desc (l : List RefKey) : Desc (sortBy (fun a b => lexLt b.outFields a.outFields) l) := by
  unfold sortBy
  exact foldl_insert_desc l [] List.Pairwise.nil

/-! ## the scan -/

abbrev triple (k : RefKey) : Nat × Nat × Nat := (k.pred, k.tgt, k.ds)
abbrev pair (k : RefKey) : Nat × Nat := (k.pred, k.tgt)

def predOK (pred p : Nat) : Prop := ¬ (pred > 0 ∧ pred ≠ p)

instance (pred p : Nat) : Decidable (predOK pred p) := by unfold predOK; infer_instance

/-- the keys the scan of `relatedOut` iterates: of this source, recorded ≤ at, in scope. -/
def scanned (db : DB) (src at_ : Nat) (scope : List Nat) : List RefKey :=
  ((db.refs.filter (fun r => decide (r.t ≤ at_))).filter (fun r => inScope db scope r.ds)).filter (·.src == src)

/-- the state stays "running, start key reached" in an unpaged scan. -/
def Running (s : OutSt) : Prop := s.stopped = false ∧ s.reached = true

theorem outStep_running (db : DB) (scope : List Nat) (pred at_ : Nat) (s : OutSt) (k : RefKey) (h : Running s) :
    Running (outStep db scope pred at_ 0 none s k) := by
  obtain ⟨h1, h2⟩ := h
  unfold outStep
  simp only [h1, Bool.false_eq_true, if_false]
  split
  · exact ⟨h1, h2⟩
  split
  · exact ⟨h1, h2⟩
  split
  · exact ⟨h1, h2⟩
  split
  · exact ⟨h1, h2⟩
  · simp only [h2, ne_eq, not_true_eq_false, false_and, if_false, Bool.not_eq_true']
    by_cases hd : k.del = true
    · simp [hd, Running, h1, h2]
    · simp [hd, Running, h1, h2]

/-- what one step does to `seen`, `added` and `results` in an unpaged scan over scanned keys. -/
theorem outStep_unpaged (db : DB) (scope : List Nat) (pred at_ : Nat) (s : OutSt) (k : RefKey) (h : Running s)
    (hs : inScope db scope k.ds = true) (ht : k.t ≤ at_) :
    let s' := outStep db scope pred at_ 0 none s k
    if ¬ predOK pred k.pred ∨ triple k ∈ s.seen ∨ pair k ∈ s.added then
      s'.seen = s.seen ∧ s'.added = s.added ∧ s'.results = s.results
    else if k.del then s'.seen = triple k :: s.seen ∧ s'.added = s.added ∧ s'.results = s.results
    else s'.seen = triple k :: s.seen ∧ s'.added = pair k :: s.added ∧ s'.results = s.results ++ [⟨k.pred, k.tgt, k.ds, k.t⟩] := by
  obtain ⟨h1, h2⟩ := h
  intro s'
  have hgt : ¬ (k.t > at_) := by omega
  by_cases hp : predOK pred k.pred
  · by_cases hc : triple k ∈ s.seen ∨ pair k ∈ s.added
    · rw [if_pos (Or.inr hc)]
      have hpp : ¬ (pred > 0 ∧ pred ≠ k.pred) := hp
      have hc' : (k.pred, k.tgt, k.ds) ∈ s.seen ∨ (k.pred, k.tgt) ∈ s.added := hc
      simp [s', outStep, h1, hs, hgt, hpp, hc']
    · have hne : ¬ (¬ predOK pred k.pred ∨ triple k ∈ s.seen ∨ pair k ∈ s.added) := by
        rintro (h | h)
        · exact h hp
        · exact hc h
      rw [if_neg hne]
      have hpp : ¬ (pred > 0 ∧ pred ≠ k.pred) := hp
      have hc' : ¬ ((k.pred, k.tgt, k.ds) ∈ s.seen ∨ (k.pred, k.tgt) ∈ s.added) := hc
      by_cases hd : k.del = true
      · rw [if_pos hd]
        simp [s', outStep, h1, h2, hs, hgt, hc', hpp, hd]
      · rw [if_neg hd]
        have hd' : k.del = false := by simpa using hd
        simp [s', outStep, h1, h2, hs, hgt, hc', hpp, hd']
  · rw [if_pos (Or.inl hp)]
    have hpp : pred > 0 ∧ pred ≠ k.pred := by
      unfold predOK at hp; exact Classical.not_not.1 hp
    simp [s', outStep, h1, hs, hgt, hpp]

/-- the unpaged scan over a list of keys, from a state. -/
def scan (db : DB) (scope : List Nat) (pred at_ : Nat) (s : OutSt) (K : List RefKey) : OutSt :=
  K.foldl (outStep db scope pred at_ 0 none) s

/-- the first key of a (predicate, target, dataset) triple in scan order. -/
def firstOf (K : List RefKey) (p t ds : Nat) : Option RefKey := K.find? (fun k => triple k == (p, t, ds))

theorem firstOf_cons (k0 : RefKey) (K : List RefKey) (p t ds : Nat) :
    firstOf (k0 :: K) p t ds = if triple k0 = (p, t, ds) then some k0 else firstOf K p t ds := by
  unfold firstOf
  rw [List.find?_cons]
  by_cases h : triple k0 = (p, t, ds)
  · simp [h]
  · have : (triple k0 == (p, t, ds)) = false := by simpa using h
    simp [this, h]

/-- **what ends up in `added`**: a pair is added by the scan of `K` iff it was there before, or the
predicate passes the filter and for some dataset the FIRST key of (pair, dataset) in scan order is live and
that triple had not been seen before. -/
theorem scan_added (db : DB) (scope : List Nat) (pred at_ : Nat) :
    ∀ (K : List RefKey) (s : OutSt), Running s → (∀ k ∈ K, inScope db scope k.ds = true ∧ k.t ≤ at_) →
      ∀ pr : Nat × Nat, pr ∈ (scan db scope pred at_ s K).added ↔
        pr ∈ s.added ∨ (predOK pred pr.1 ∧ ∃ ds k, firstOf K pr.1 pr.2 ds = some k ∧ k.del = false ∧ (pr.1, pr.2, ds) ∉ s.seen)
  | [], s, _, _, pr => by simp [scan, firstOf]
  | k0 :: rest, s, hr, hK, pr => by
    have hk0 := hK k0 List.mem_cons_self
    have hrest : ∀ k ∈ rest, inScope db scope k.ds = true ∧ k.t ≤ at_ := fun k hk => hK k (List.mem_cons_of_mem _ hk)
    have hstep := outStep_unpaged db scope pred at_ s k0 hr hk0.1 hk0.2
    have hr' := outStep_running db scope pred at_ s k0 hr
    have ih := scan_added db scope pred at_ rest (outStep db scope pred at_ 0 none s k0) hr' hrest pr
    have hscan : scan db scope pred at_ s (k0 :: rest) = scan db scope pred at_ (outStep db scope pred at_ 0 none s k0) rest := by
      simp [scan]
    rw [hscan, ih]
    simp only at hstep
    by_cases hskip : ¬ predOK pred k0.pred ∨ triple k0 ∈ s.seen ∨ pair k0 ∈ s.added
    · -- the key is skipped: nothing changes
      rw [if_pos hskip] at hstep
      obtain ⟨e1, e2, _⟩ := hstep
      rw [e1, e2]
      constructor
      · rintro (h | ⟨hp, ds, k, hf, hd, hns⟩)
        · exact Or.inl h
        · by_cases hq : triple k0 = (pr.1, pr.2, ds)
          · rcases hskip with h | h | h
            · exact absurd (by have := congrArg (·.1) hq; simp at this; rw [this]; exact hp) h
            · exact absurd (hq ▸ h) hns
            · left
              have h1 : k0.pred = pr.1 := by have := congrArg (·.1) hq; simpa using this
              have h2 : k0.tgt = pr.2 := by have := congrArg (·.2.1) hq; simpa using this
              have : pair k0 = pr := by cases pr; simp_all
              exact this ▸ h
          · right; refine ⟨hp, ds, k, ?_, hd, hns⟩
            rw [firstOf_cons, if_neg hq]; exact hf
      · rintro (h | ⟨hp, ds, k, hf, hd, hns⟩)
        · exact Or.inl h
        · rw [firstOf_cons] at hf
          by_cases hq : triple k0 = (pr.1, pr.2, ds)
          · rcases hskip with h | h | h
            · exact absurd (by have := congrArg (·.1) hq; simp at this; rw [this]; exact hp) h
            · exact absurd (hq ▸ h) hns
            · left
              have h1 : k0.pred = pr.1 := by have := congrArg (·.1) hq; simpa using this
              have h2 : k0.tgt = pr.2 := by have := congrArg (·.2.1) hq; simpa using this
              have : pair k0 = pr := by cases pr; simp_all
              exact this ▸ h
          · rw [if_neg hq] at hf
            exact Or.inr ⟨hp, ds, k, hf, hd, hns⟩
    · rw [if_neg hskip] at hstep
      have hpk : predOK pred k0.pred := by
        by_cases h : predOK pred k0.pred
        · exact h
        · exact absurd (Or.inl h) hskip
      have hns0 : triple k0 ∉ s.seen := fun h => hskip (Or.inr (Or.inl h))
      by_cases hdel : k0.del = true
      · -- a tombstone: the triple is marked seen
        rw [if_pos hdel] at hstep
        obtain ⟨e1, e2, _⟩ := hstep
        rw [e1, e2]
        constructor
        · rintro (h | ⟨hp, ds, k, hf, hd, hns⟩)
          · exact Or.inl h
          · have hq : triple k0 ≠ (pr.1, pr.2, ds) := fun hq => hns (hq ▸ List.mem_cons_self)
            refine Or.inr ⟨hp, ds, k, ?_, hd, fun h => hns (List.mem_cons_of_mem _ h)⟩
            rw [firstOf_cons, if_neg hq]; exact hf
        · rintro (h | ⟨hp, ds, k, hf, hd, hns⟩)
          · exact Or.inl h
          · rw [firstOf_cons] at hf
            by_cases hq : triple k0 = (pr.1, pr.2, ds)
            · rw [if_pos hq] at hf; cases hf; rw [hdel] at hd; cases hd
            · rw [if_neg hq] at hf
              refine Or.inr ⟨hp, ds, k, hf, hd, ?_⟩
              intro h
              rcases List.mem_cons.1 h with h | h
              · exact hq h.symm
              · exact hns h
      · -- a live key: the pair is added
        rw [if_neg hdel] at hstep
        have hdel' : k0.del = false := by simpa using hdel
        obtain ⟨e1, e2, _⟩ := hstep
        rw [e1, e2]
        constructor
        · rintro (h | ⟨hp, ds, k, hf, hd, hns⟩)
          · rcases List.mem_cons.1 h with h | h
            · right
              subst h
              refine ⟨hpk, k0.ds, k0, ?_, hdel', hns0⟩
              rw [firstOf_cons, if_pos rfl]
            · exact Or.inl h
          · have hq : triple k0 ≠ (pr.1, pr.2, ds) := fun hq => hns (hq ▸ List.mem_cons_self)
            refine Or.inr ⟨hp, ds, k, ?_, hd, fun h => hns (List.mem_cons_of_mem _ h)⟩
            rw [firstOf_cons, if_neg hq]; exact hf
        · rintro (h | ⟨hp, ds, k, hf, hd, hns⟩)
          · exact Or.inl (List.mem_cons_of_mem _ h)
          · rw [firstOf_cons] at hf
            by_cases hq : triple k0 = (pr.1, pr.2, ds)
            · left
              have h1 : k0.pred = pr.1 := by have := congrArg (·.1) hq; simpa using this
              have h2 : k0.tgt = pr.2 := by have := congrArg (·.2.1) hq; simpa using this
              have : pair k0 = pr := by cases pr; simp_all
              rw [← this]; exact List.mem_cons_self
            · rw [if_neg hq] at hf
              refine Or.inr ⟨hp, ds, k, hf, hd, ?_⟩
              intro h
              rcases List.mem_cons.1 h with h | h
              · exact hq h.symm
              · exact hns h

theorem scan_running (db : DB) (scope : List Nat) (pred at_ : Nat) :
    ∀ (K : List RefKey) (s : OutSt), Running s → Running (scan db scope pred at_ s K)
  | [], _, h => h
  | k0 :: rest, s, h => by
    have : scan db scope pred at_ s (k0 :: rest) = scan db scope pred at_ (outStep db scope pred at_ 0 none s k0) rest := by simp [scan]
    rw [this]
    exact scan_running db scope pred at_ rest _ (outStep_running db scope pred at_ s k0 h)

/-- results and `added` stay in step in an unpaged scan, and no pair is returned twice. -/
def InStep (s : OutSt) : Prop :=
  (∀ pr : Nat × Nat, pr ∈ s.added ↔ ∃ r ∈ s.results, (r.pred, r.other) = pr) ∧ (s.results.map fun r => (r.pred, r.other)).Nodup

theorem scan_instep (db : DB) (scope : List Nat) (pred at_ : Nat) :
    ∀ (K : List RefKey) (s : OutSt), Running s → (∀ k ∈ K, inScope db scope k.ds = true ∧ k.t ≤ at_) → InStep s →
      InStep (scan db scope pred at_ s K)
  | [], s, _, _, h => by simpa [scan] using h
  | k0 :: rest, s, hr, hK, hin => by
    have hk0 := hK k0 List.mem_cons_self
    have hrest : ∀ k ∈ rest, inScope db scope k.ds = true ∧ k.t ≤ at_ := fun k hk => hK k (List.mem_cons_of_mem _ hk)
    have hstep := outStep_unpaged db scope pred at_ s k0 hr hk0.1 hk0.2
    have hr' := outStep_running db scope pred at_ s k0 hr
    have hscan : scan db scope pred at_ s (k0 :: rest) = scan db scope pred at_ (outStep db scope pred at_ 0 none s k0) rest := by
      simp [scan]
    rw [hscan]
    apply scan_instep db scope pred at_ rest _ hr' hrest
    simp only at hstep
    obtain ⟨hin1, hin2⟩ := hin
    by_cases hskip : ¬ predOK pred k0.pred ∨ triple k0 ∈ s.seen ∨ pair k0 ∈ s.added
    · rw [if_pos hskip] at hstep
      obtain ⟨_, e2, e3⟩ := hstep
      exact ⟨by rw [e2, e3]; exact hin1, by rw [e3]; exact hin2⟩
    · rw [if_neg hskip] at hstep
      by_cases hdel : k0.del = true
      · rw [if_pos hdel] at hstep
        obtain ⟨_, e2, e3⟩ := hstep
        exact ⟨by rw [e2, e3]; exact hin1, by rw [e3]; exact hin2⟩
      · rw [if_neg hdel] at hstep
        obtain ⟨_, e2, e3⟩ := hstep
        have hna : pair k0 ∉ s.added := fun h => hskip (Or.inr (Or.inr h))
        refine ⟨?_, ?_⟩
        · intro pr
          rw [e2, e3]
          constructor
          · intro h
            rcases List.mem_cons.1 h with h | h
            · exact ⟨_, List.mem_append_right _ (List.mem_singleton.2 rfl), h.symm⟩
            · obtain ⟨r, hr1, hr2⟩ := (hin1 pr).1 h
              exact ⟨r, List.mem_append_left _ hr1, hr2⟩
          · rintro ⟨r, hr1, hr2⟩
            rcases List.mem_append.1 hr1 with hr1 | hr1
            · exact List.mem_cons_of_mem _ ((hin1 pr).2 ⟨r, hr1, hr2⟩)
            · have := List.mem_singleton.1 hr1
              subst this
              rw [← hr2]; exact List.mem_cons_self
        · rw [e3, List.map_append, List.nodup_append]
          refine ⟨hin2, by simp, ?_⟩
          intro a ha b hb hab
          simp only [List.map_cons, List.map_nil, List.mem_singleton] at hb
          subst hb; subst hab
          obtain ⟨r, hr1, hr2⟩ := List.mem_map.1 ha
          exact hna ((hin1 _).2 ⟨r, hr1, hr2⟩)

/-! ## the first key of a triple in a descending list is its newest one -/

/-- order of the keys of one reference: time, then the deleted bit (a tombstone wins at equal time). -/
def rank (k : RefKey) : Nat := 2 * k.t + (if k.del then 1 else 0)

theorem rank_le_of_not_lexLt (a b : RefKey) (hs : a.src = b.src) (ht : triple a = triple b)
    (h : lexLt a.outFields b.outFields = false) : rank b ≤ rank a := by
  have h1 : a.pred = b.pred := by have := congrArg (·.1) ht; simpa using this
  have h2 : a.tgt = b.tgt := by have := congrArg (·.2.1) ht; simpa using this
  have h3 : a.ds = b.ds := by have := congrArg (·.2.2) ht; simpa using this
  unfold rank
  simp only [RefKey.outFields, lexLt, hs, h1, h2, h3, Nat.lt_irrefl, decide_false, BEq.rfl, Bool.true_and, Bool.false_or,
    Bool.or_eq_false_iff, decide_eq_false_iff_not, Nat.not_lt, Bool.and_eq_false_iff, beq_eq_false_iff_ne, ne_eq, Bool.or_false] at h
  obtain ⟨hlt, hrest⟩ := h
  rcases Nat.lt_or_ge b.t a.t with hc | hc
  · cases a.del <;> cases b.del <;> simp <;> omega
  · have heq : a.t = b.t := by omega
    rcases hrest with hne | hd
    · exact absurd heq hne
    · cases ha : a.del <;> cases hb : b.del <;> simp_all <;> omega

theorem firstOf_mem {K : List RefKey} {p t ds : Nat} {k : RefKey} (h : firstOf K p t ds = some k) :
    k ∈ K ∧ triple k = (p, t, ds) := by
  unfold firstOf at h
  exact ⟨List.mem_of_find?_eq_some h, by simpa using List.find?_some h⟩

/-- in a descending list the first key of a triple has the greatest rank among the keys of that triple. -/
theorem firstOf_max : ∀ (K : List RefKey), Desc K → (∀ a ∈ K, ∀ b ∈ K, a.src = b.src) →
    ∀ (p t ds : Nat) (k : RefKey), firstOf K p t ds = some k → ∀ k' ∈ K, triple k' = (p, t, ds) → rank k' ≤ rank k
  | [], _, _, p, t, ds, k, h, _, _, _ => by simp [firstOf] at h
  | k0 :: rest, hd, hsrc, p, t, ds, k, h, k', hk', ht' => by
    rw [firstOf_cons] at h
    have hd' := List.pairwise_cons.1 hd
    by_cases hq : triple k0 = (p, t, ds)
    · rw [if_pos hq] at h; cases h
      rcases List.mem_cons.1 hk' with rfl | hk'
      · exact Nat.le_refl _
      · exact rank_le_of_not_lexLt k0 k' (hsrc _ List.mem_cons_self _ (List.mem_cons_of_mem _ hk')) (hq.trans ht'.symm) (hd'.1 k' hk')
    · rw [if_neg hq] at h
      rcases List.mem_cons.1 hk' with rfl | hk'
      · exact absurd ht' hq
      · exact firstOf_max rest hd'.2 (fun a ha b hb => hsrc a (List.mem_cons_of_mem _ ha) b (List.mem_cons_of_mem _ hb)) p t ds k h k' hk' ht'

theorem firstOf_isSome_of_mem : ∀ (K : List RefKey) (p t ds : Nat) (k' : RefKey), k' ∈ K → triple k' = (p, t, ds) →
    ∃ k, firstOf K p t ds = some k
  | k0 :: rest, p, t, ds, k', hk', ht' => by
    rw [firstOf_cons]
    by_cases hq : triple k0 = (p, t, ds)
    · exact ⟨k0, by rw [if_pos hq]⟩
    · rw [if_neg hq]
      rcases List.mem_cons.1 hk' with rfl | hk'
      · exact absurd ht' hq
      · exact firstOf_isSome_of_mem rest p t ds k' hk' ht'

theorem eq_of_rank_eq (a b : RefKey) (hs : a.src = b.src) (ht : triple a = triple b) (hr : rank a = rank b) : a = b := by
  have h1 : a.pred = b.pred := by have := congrArg (·.1) ht; simpa using this
  have h2 : a.tgt = b.tgt := by have := congrArg (·.2.1) ht; simpa using this
  have h3 : a.ds = b.ds := by have := congrArg (·.2.2) ht; simpa using this
  unfold rank at hr
  cases a; cases b
  simp only [RefKey.mk.injEq] at *
  refine ⟨hs, ?_, h1, h2, ?_, h3⟩
  · rename_i ta _ _ da _ _ tb _ _ db _
    cases da <;> cases db <;> simp at hr <;> omega
  · rename_i ta _ _ da _ _ tb _ _ db _
    cases da <;> cases db <;> simp at hr ⊢ <;> omega

/-- the newest key of (source, predicate, target, dataset) recorded ≤ at exists and is not a tombstone. -/
def NewestLive (db : DB) (src at_ : Nat) (p t ds : Nat) : Prop :=
  ∃ k ∈ db.refs, k.src = src ∧ triple k = (p, t, ds) ∧ k.t ≤ at_ ∧ k.del = false ∧
    ∀ k' ∈ db.refs, k'.src = src → triple k' = (p, t, ds) → k'.t ≤ at_ → rank k' ≤ rank k

theorem mem_scanned {db : DB} {src at_ : Nat} {scope : List Nat} {k : RefKey} :
    k ∈ scanned db src at_ scope ↔ k ∈ db.refs ∧ k.t ≤ at_ ∧ inScope db scope k.ds = true ∧ k.src = src := by
  unfold scanned
  simp only [List.mem_filter, decide_eq_true_eq, beq_iff_eq]
  constructor
  · rintro ⟨⟨⟨h1, h2⟩, h3⟩, h4⟩; exact ⟨h1, h2, h3, h4⟩
  · rintro ⟨h1, h2, h3, h4⟩; exact ⟨⟨⟨h1, h2⟩, h3⟩, h4⟩

/-- **the unpaged outgoing query** (T-C03-2, scan side): `GetRelatedAtTime(src, pred, at, limit = 0, scope)` returns the
pair (p, target) — exactly once — iff `p` passes the predicate filter and for some in-scope dataset the newest
reference key of (src, p, target, dataset) recorded at or before `at` is not a tombstone. -/
theorem relatedOut_unpaged (db : DB) (src pred at_ : Nat) (scope : List Nat) :
    let res := (relatedOut db src pred at_ 0 scope none).1
    (∀ p t, (∃ r ∈ res, r.pred = p ∧ r.other = t) ↔
        predOK pred p ∧ ∃ ds, inScope db scope ds = true ∧ NewestLive db src at_ p t ds)
    ∧ (res.map fun r => (r.pred, r.other)).Nodup
    ∧ (relatedOut db src pred at_ 0 scope none).2 = none := by
  intro res
  let K := sortBy (fun a b => lexLt b.outFields a.outFields) (scanned db src at_ scope)
  have hKmem : ∀ k, k ∈ K ↔ k ∈ scanned db src at_ scope := fun k => Hub.SortPerm.mem_sortBy _ _ k
  have hK : ∀ k ∈ K, inScope db scope k.ds = true ∧ k.t ≤ at_ := by
    intro k hk; have := mem_scanned.1 ((hKmem k).1 hk); exact ⟨this.2.2.1, this.2.1⟩
  have hsrc : ∀ a ∈ K, ∀ b ∈ K, a.src = b.src := by
    intro a ha b hb
    rw [(mem_scanned.1 ((hKmem a).1 ha)).2.2.2, (mem_scanned.1 ((hKmem b).1 hb)).2.2.2]
  have hdesc : Desc K := sortBy_desc _
  let s0 : OutSt := { reached := true }
  have hrun : Running s0 := ⟨rfl, rfl⟩
  have hres : res = (scan db scope pred at_ s0 K).results := rfl
  have hin := scan_instep db scope pred at_ K s0 hrun hK ⟨by simp [s0], by simp [s0]⟩
  have hadd := scan_added db scope pred at_ K s0 hrun hK
  refine ⟨?_, by rw [hres]; exact hin.2, ?_⟩
  · intro p t
    rw [hres]
    have h1 : (∃ r ∈ (scan db scope pred at_ s0 K).results, r.pred = p ∧ r.other = t) ↔ (p, t) ∈ (scan db scope pred at_ s0 K).added := by
      rw [hin.1 (p, t)]
      constructor
      · rintro ⟨r, hr, h1, h2⟩; exact ⟨r, hr, by rw [h1, h2]⟩
      · rintro ⟨r, hr, h⟩; exact ⟨r, hr, by have := congrArg (·.1) h; simpa using this, by have := congrArg (·.2) h; simpa using this⟩
    rw [h1, hadd (p, t)]
    simp only [s0, List.not_mem_nil, false_or, not_false_eq_true, and_true]
    constructor
    · rintro ⟨hp, ds, k, hf, hd⟩
      obtain ⟨hkK, hkt⟩ := firstOf_mem hf
      have hks := mem_scanned.1 ((hKmem k).1 hkK)
      have hds : k.ds = ds := by have := congrArg (·.2.2) hkt; simpa using this
      refine ⟨hp, ds, hds ▸ hks.2.2.1, k, hks.1, hks.2.2.2, hkt, hks.2.1, hd, ?_⟩
      intro k' hk' hs' ht' hle'
      have hk'K : k' ∈ K := (hKmem k').2 (mem_scanned.2 ⟨hk', hle', by
        have : k'.ds = ds := by have := congrArg (·.2.2) ht'; simpa using this
        rw [this, ← hds]; exact hks.2.2.1, hs'⟩)
      exact firstOf_max K hdesc hsrc p t ds k hf k' hk'K ht'
    · rintro ⟨hp, ds, hsc, k, hk, hs, hkt, hle, hd, hmax⟩
      have hds : k.ds = ds := by have := congrArg (·.2.2) hkt; simpa using this
      have hkK : k ∈ K := (hKmem k).2 (mem_scanned.2 ⟨hk, hle, hds ▸ hsc, hs⟩)
      obtain ⟨k1, hf⟩ := firstOf_isSome_of_mem K p t ds k hkK hkt
      obtain ⟨hk1K, hk1t⟩ := firstOf_mem hf
      have hk1s := mem_scanned.1 ((hKmem k1).1 hk1K)
      have hr1 : rank k ≤ rank k1 := firstOf_max K hdesc hsrc p t ds k1 hf k hkK hkt
      have hr2 : rank k1 ≤ rank k := hmax k1 hk1s.1 hk1s.2.2.2 hk1t hk1s.2.1
      have : k1 = k := eq_of_rank_eq k1 k (hk1s.2.2.2.trans hs.symm) (hk1t.trans hkt.symm) (Nat.le_antisymm hr2 hr1)
      exact ⟨hp, ds, k1, hf, this ▸ hd⟩
  · show (if (scan db scope pred at_ s0 K).stopped then _ else none) = none
    have : Running (scan db scope pred at_ s0 K) := scan_running db scope pred at_ K s0 hrun
    simp [this.1]

end Hub.OutScan
