import Hub.Model.Store
import Hub.Proofs.SortPerm
/-!
# The outgoing scan, unpaged: what `GetRelatedAtTime` (outgoing branch) returns

For `limit = 0` and no continuation the reverse scan with its `seen` / `added` sets returns the pair
(predicate, target) exactly when, for some in-scope dataset, the NEWEST reference key of
(source, predicate, target, dataset) recorded at or before `at` is not a tombstone — and returns it once.
Together with the index invariant (`Hub.C03.index_step`: newest key live ⇔ the latest version ≤ at is live
and carries the reference) this is "outgoing query = graph implied by the latest versions".
-/
namespace Hub.OutScan
open Hub.Store

/-! ## `lexLt` is a strict order; insertion sort sorts -/

theorem lexLt_irrefl : ∀ l : List Nat, lexLt l l = false
  | [] => rfl
  | a :: as => by simp [lexLt, lexLt_irrefl as]

theorem lexLt_trans : ∀ (a b c : List Nat), lexLt a b = true → lexLt b c = true → lexLt a c = true
  | [], [], _, h, _ => by simp [lexLt] at h
  | [], _ :: _, [], _, h => by simp [lexLt] at h
  | [], _ :: _, _ :: _, _, _ => by simp [lexLt]
  | _ :: _, [], _, h, _ => by simp [lexLt] at h
  | _ :: _, _ :: _, [], _, h => by simp [lexLt] at h
  | x :: xs, y :: ys, z :: zs, h1, h2 => by
    simp only [lexLt, Bool.or_eq_true, decide_eq_true_eq, Bool.and_eq_true, beq_iff_eq] at h1 h2 ⊢
    rcases h1 with h1 | ⟨h1, h1'⟩ <;> rcases h2 with h2 | ⟨h2, h2'⟩
    · left; omega
    · left; omega
    · left; omega
    · right; exact ⟨by omega, lexLt_trans xs ys zs h1' h2'⟩

theorem lexLt_asymm (a b : List Nat) (h : lexLt a b = true) : lexLt b a = false := by
  cases hb : lexLt b a with
  | false => rfl
  | true => have := lexLt_trans a b a h hb; rw [lexLt_irrefl] at this; cases this

/-- descending by `outFields`: no later key is larger than an earlier one. -/
def Desc (l : List RefKey) : Prop := l.Pairwise (fun a b => lexLt a.outFields b.outFields = false)

def olt (a b : RefKey) : Bool := lexLt b.outFields a.outFields

theorem insertBy_desc (x : RefKey) : ∀ (acc : List RefKey), Desc acc → Desc (insertBy olt x acc)
  | [], _ => by simp [insertBy, Desc]
  | y :: ys, h => by
    unfold insertBy
    have hy := List.pairwise_cons.1 h
    by_cases hlt : olt x y = true
    · rw [if_pos hlt]
      refine List.pairwise_cons.2 ⟨?_, h⟩
      intro z hz
      -- x before y before the rest: x.out > y.out ≥ z.out
      have hxy : lexLt y.outFields x.outFields = true := hlt
      rcases List.mem_cons.1 hz with rfl | hz
      · exact lexLt_asymm _ _ hxy
      · have hyz := hy.1 z hz
        cases hxz : lexLt x.outFields z.outFields with
        | false => rfl
        | true => have := lexLt_trans _ _ _ hxy hxz; rw [hyz] at this; cases this
    · rw [if_neg hlt]
      have ih := insertBy_desc x ys hy.2
      refine List.pairwise_cons.2 ⟨?_, ih⟩
      intro z hz
      have hz' := (Hub.SortPerm.insertBy_perm olt x ys).mem_iff.1 hz
      rcases List.mem_cons.1 hz' with rfl | hz'
      · simpa [olt] using hlt
      · exact hy.1 z hz'

theorem foldl_insert_desc : ∀ (l acc : List RefKey), Desc acc → Desc (l.foldl (fun acc x => insertBy olt x acc) acc)
  | [], _, h => h
  | x :: xs, acc, h => foldl_insert_desc xs _ (insertBy_desc x acc h)

theorem sortBy_desc (l : List RefKey) : Desc (sortBy (fun a b => lexLt b.outFields a.outFields) l) := by
  unfold sortBy
  exact foldl_insert_desc l [] List.Pairwise.nil

/-! ## the scan -/

abbrev triple (k : RefKey) : Nat × Nat × Nat := (k.pred, k.tgt, k.ds)
abbrev pair (k : RefKey) : Nat × Nat := (k.pred, k.tgt)

def predOK (pred p : Nat) : Prop := ¬ (pred > 0 ∧ pred ≠ p)

instance (pred p : Nat) : Decidable (predOK pred p) := by unfold predOK; infer_instance

/-- the keys the scan of `relatedOut` iterates: of this source, recorded ≤ at, in scope. -/
def scanned (db : DB) (src at_ : Nat) (scope : List Nat) : List RefKey :=
  ((db.refs.filter (fun r => decide (r.t ≤ at_))).filter (fun r => inScope db scope r.ds)).filter (·.src == src)

/-- the state stays "running, start key reached" in an unpaged scan. -/
def Running (s : OutSt) : Prop := s.stopped = false ∧ s.reached = true

theorem outStep_running (db : DB) (scope : List Nat) (pred at_ : Nat) (s : OutSt) (k : RefKey) (h : Running s) :
    Running (outStep db scope pred at_ 0 none s k) := by
  obtain ⟨h1, h2⟩ := h
  unfold outStep
  simp only [h1, Bool.false_eq_true, if_false]
  split
  · exact ⟨h1, h2⟩
  split
  · exact ⟨h1, h2⟩
  split
  · exact ⟨h1, h2⟩
  split
  · exact ⟨h1, h2⟩
  · simp only [h2, ne_eq, not_true_eq_false, false_and, if_false, Bool.not_eq_true']
    by_cases hd : k.del = true
    · simp [hd, Running, h1, h2]
    · simp [hd, Running, h1, h2]

/-- what one step does to `seen`, `added` and `results` in an unpaged scan over scanned keys. -/
theorem outStep_unpaged (db : DB) (scope : List Nat) (pred at_ : Nat) (s : OutSt) (k : RefKey) (h : Running s)
    (hs : inScope db scope k.ds = true) (ht : k.t ≤ at_) :
    let s' := outStep db scope pred at_ 0 none s k
    if ¬ predOK pred k.pred ∨ triple k ∈ s.seen ∨ pair k ∈ s.added then
      s'.seen = s.seen ∧ s'.added = s.added ∧ s'.results = s.results
    else if k.del then s'.seen = triple k :: s.seen ∧ s'.added = s.added ∧ s'.results = s.results
    else s'.seen = triple k :: s.seen ∧ s'.added = pair k :: s.added ∧ s'.results = s.results ++ [⟨k.pred, k.tgt, k.ds, k.t⟩] := by
  obtain ⟨h1, h2⟩ := h
  intro s'
  have hgt : ¬ (k.t > at_) := by omega
  by_cases hp : predOK pred k.pred
  · by_cases hc : triple k ∈ s.seen ∨ pair k ∈ s.added
    · rw [if_pos (Or.inr hc)]
      have hpp : ¬ (pred > 0 ∧ pred ≠ k.pred) := hp
      have hc' : (k.pred, k.tgt, k.ds) ∈ s.seen ∨ (k.pred, k.tgt) ∈ s.added := hc
      simp [s', outStep, h1, hs, hgt, hpp, hc']
    · have hne : ¬ (¬ predOK pred k.pred ∨ triple k ∈ s.seen ∨ pair k ∈ s.added) := by
        rintro (h | h)
        · exact h hp
        · exact hc h
      rw [if_neg hne]
      have hpp : ¬ (pred > 0 ∧ pred ≠ k.pred) := hp
      have hc' : ¬ ((k.pred, k.tgt, k.ds) ∈ s.seen ∨ (k.pred, k.tgt) ∈ s.added) := hc
      by_cases hd : k.del = true
      · rw [if_pos hd]
        simp [s', outStep, h1, h2, hs, hgt, hc', hpp, hd]
      · rw [if_neg hd]
        have hd' : k.del = false := by simpa using hd
        simp [s', outStep, h1, h2, hs, hgt, hc', hpp, hd']
  · rw [if_pos (Or.inl hp)]
    have hpp : pred > 0 ∧ pred ≠ k.pred := by
      unfold predOK at hp; exact Classical.not_not.1 hp
    simp [s', outStep, h1, hs, hgt, hpp]

/-- the unpaged scan over a list of keys, from a state. -/
def scan (db : DB) (scope : List Nat) (pred at_ : Nat) (s : OutSt) (K : List RefKey) : OutSt :=
  K.foldl (outStep db scope pred at_ 0 none) s

/-- the first key of a (predicate, target, dataset) triple in scan order. -/
def firstOf (K : List RefKey) (p t ds : Nat) : Option RefKey := K.find? (fun k => triple k == (p, t, ds))

theorem firstOf_cons (k0 : RefKey) (K : List RefKey) (p t ds : Nat) :
    firstOf (k0 :: K) p t ds = if triple k0 = (p, t, ds) then some k0 else firstOf K p t ds := by
  unfold firstOf
  rw [List.find?_cons]
  by_cases h : triple k0 = (p, t, ds)
  · simp [h]
  · have : (triple k0 == (p, t, ds)) = false := by simpa using h
    simp [this, h]

/-- **what ends up in `added`**: a pair is added by the scan of `K` iff it was there before, or the
predicate passes the filter and for some dataset the FIRST key of (pair, dataset) in scan order is live and
that triple had not been seen before. -/
theorem scan_added (db : DB) (scope : List Nat) (pred at_ : Nat) :
    ∀ (K : List RefKey) (s : OutSt), Running s → (∀ k ∈ K, inScope db scope k.ds = true ∧ k.t ≤ at_) →
      ∀ pr : Nat × Nat, pr ∈ (scan db scope pred at_ s K).added ↔
        pr ∈ s.added ∨ (predOK pred pr.1 ∧ ∃ ds k, firstOf K pr.1 pr.2 ds = some k ∧ k.del = false ∧ (pr.1, pr.2, ds) ∉ s.seen)
  | [], s, _, _, pr => by simp [scan, firstOf]
  | k0 :: rest, s, hr, hK, pr => by
    have hk0 := hK k0 List.mem_cons_self
    have hrest : ∀ k ∈ rest, inScope db scope k.ds = true ∧ k.t ≤ at_ := fun k hk => hK k (List.mem_cons_of_mem _ hk)
    have hstep := outStep_unpaged db scope pred at_ s k0 hr hk0.1 hk0.2
    have hr' := outStep_running db scope pred at_ s k0 hr
    have ih := scan_added db scope pred at_ rest (outStep db scope pred at_ 0 none s k0) hr' hrest pr
    have hscan : scan db scope pred at_ s (k0 :: rest) = scan db scope pred at_ (outStep db scope pred at_ 0 none s k0) rest := by
      simp [scan]
    rw [hscan, ih]
    simp only at hstep
    by_cases hskip : ¬ predOK pred k0.pred ∨ triple k0 ∈ s.seen ∨ pair k0 ∈ s.added
    · -- the key is skipped: nothing changes
      rw [if_pos hskip] at hstep
      obtain ⟨e1, e2, _⟩ := hstep
      rw [e1, e2]
      constructor
      · rintro (h | ⟨hp, ds, k, hf, hd, hns⟩)
        · exact Or.inl h
        · by_cases hq : triple k0 = (pr.1, pr.2, ds)
          · rcases hskip with h | h | h
            · exact absurd (by have := congrArg (·.1) hq; simp at this; rw [this]; exact hp) h
            · exact absurd (hq ▸ h) hns
            · left
              have h1 : k0.pred = pr.1 := by have := congrArg (·.1) hq; simpa using this
              have h2 : k0.tgt = pr.2 := by have := congrArg (·.2.1) hq; simpa using this
              have : pair k0 = pr := by cases pr; simp_all
              exact this ▸ h
          · right; refine ⟨hp, ds, k, ?_, hd, hns⟩
            rw [firstOf_cons, if_neg hq]; exact hf
      · rintro (h | ⟨hp, ds, k, hf, hd, hns⟩)
        · exact Or.inl h
        · rw [firstOf_cons] at hf
          by_cases hq : triple k0 = (pr.1, pr.2, ds)
          · rcases hskip with h | h | h
            · exact absurd (by have := congrArg (·.1) hq; simp at this; rw [this]; exact hp) h
            · exact absurd (hq ▸ h) hns
            · left
              have h1 : k0.pred = pr.1 := by have := congrArg (·.1) hq; simpa using this
              have h2 : k0.tgt = pr.2 := by have := congrArg (·.2.1) hq; simpa using this
              have : pair k0 = pr := by cases pr; simp_all
              exact this ▸ h
          · rw [if_neg hq] at hf
            exact Or.inr ⟨hp, ds, k, hf, hd, hns⟩
    · rw [if_neg hskip] at hstep
      have hpk : predOK pred k0.pred := by
        by_cases h : predOK pred k0.pred
        · exact h
        · exact absurd (Or.inl h) hskip
      have hns0 : triple k0 ∉ s.seen := fun h => hskip (Or.inr (Or.inl h))
      by_cases hdel : k0.del = true
      · -- a tombstone: the triple is marked seen
        rw [if_pos hdel] at hstep
        obtain ⟨e1, e2, _⟩ := hstep
        rw [e1, e2]
        constructor
        · rintro (h | ⟨hp, ds, k, hf, hd, hns⟩)
          · exact Or.inl h
          · have hq : triple k0 ≠ (pr.1, pr.2, ds) := fun hq => hns (hq ▸ List.mem_cons_self)
            refine Or.inr ⟨hp, ds, k, ?_, hd, fun h => hns (List.mem_cons_of_mem _ h)⟩
            rw [firstOf_cons, if_neg hq]; exact hf
        · rintro (h | ⟨hp, ds, k, hf, hd, hns⟩)
          · exact Or.inl h
          · rw [firstOf_cons] at hf
            by_cases hq : triple k0 = (pr.1, pr.2, ds)
            · rw [if_pos hq] at hf; cases hf; rw [hdel] at hd; cases hd
            · rw [if_neg hq] at hf
              refine Or.inr ⟨hp, ds, k, hf, hd, ?_⟩
              intro h
              rcases List.mem_cons.1 h with h | h
              · exact hq h.symm
              · exact hns h
      · -- a live key: the pair is added
        rw [if_neg hdel] at hstep
        have hdel' : k0.del = false := by simpa using hdel
        obtain ⟨e1, e2, _⟩ := hstep
        rw [e1, e2]
        constructor
        · rintro (h | ⟨hp, ds, k, hf, hd, hns⟩)
          · rcases List.mem_cons.1 h with h | h
            · right
              subst h
              refine ⟨hpk, k0.ds, k0, ?_, hdel', hns0⟩
              rw [firstOf_cons, if_pos rfl]
            · exact Or.inl h
          · have hq : triple k0 ≠ (pr.1, pr.2, ds) := fun hq => hns (hq ▸ List.mem_cons_self)
            refine Or.inr ⟨hp, ds, k, ?_, hd, fun h => hns (List.mem_cons_of_mem _ h)⟩
            rw [firstOf_cons, if_neg hq]; exact hf
        · rintro (h | ⟨hp, ds, k, hf, hd, hns⟩)
          · exact Or.inl (List.mem_cons_of_mem _ h)
          · rw [firstOf_cons] at hf
            by_cases hq : triple k0 = (pr.1, pr.2, ds)
            · left
              have h1 : k0.pred = pr.1 := by have := congrArg (·.1) hq; simpa using this
              have h2 : k0.tgt = pr.2 := by have := congrArg (·.2.1) hq; simpa using this
              have : pair k0 = pr := by cases pr; simp_all
              rw [← this]; exact List.mem_cons_self
            · rw [if_neg hq] at hf
              refine Or.inr ⟨hp, ds, k, hf, hd, ?_⟩
              intro h
              rcases List.mem_cons.1 h with h | h
              · exact hq h.symm
              · exact hns h

theorem scan_running (db : DB) (scope : List Nat) (pred at_ : Nat) :
    ∀ (K : List RefKey) (s : OutSt), Running s → Running (scan db scope pred at_ s K)
  | [], _, h => h
  | k0 :: rest, s, h => by
    have : scan db scope pred at_ s (k0 :: rest) = scan db scope pred at_ (outStep db scope pred at_ 0 none s k0) rest := by simp [scan]
    rw [this]
    exact scan_running db scope pred at_ rest _ (outStep_running db scope pred at_ s k0 h)

/-- results and `added` stay in step in an unpaged scan, and no pair is returned twice. -/
def InStep (s : OutSt) : Prop :=
  (∀ pr : Nat × Nat, pr ∈ s.added ↔ ∃ r ∈ s.results, (r.pred, r.other) = pr) ∧ (s.results.map fun r => (r.pred, r.other)).Nodup

theorem scan_instep (db : DB) (scope : List Nat) (pred at_ : Nat) :
    ∀ (K : List RefKey) (s : OutSt), Running s → (∀ k ∈ K, inScope db scope k.ds = true ∧ k.t ≤ at_) → InStep s →
      InStep (scan db scope pred at_ s K)
  | [], s, _, _, h => by simpa [scan] using h
  | k0 :: rest, s, hr, hK, hin => by
    have hk0 := hK k0 List.mem_cons_self
    have hrest : ∀ k ∈ rest, inScope db scope k.ds = true ∧ k.t ≤ at_ := fun k hk => hK k (List.mem_cons_of_mem _ hk)
    have hstep := outStep_unpaged db scope pred at_ s k0 hr hk0.1 hk0.2
    have hr' := outStep_running db scope pred at_ s k0 hr
    have hscan : scan db scope pred at_ s (k0 :: rest) = scan db scope pred at_ (outStep db scope pred at_ 0 none s k0) rest := by
      simp [scan]
    rw [hscan]
    apply scan_instep db scope pred at_ rest _ hr' hrest
    simp only at hstep
    obtain ⟨hin1, hin2⟩ := hin
    by_cases hskip : ¬ predOK pred k0.pred ∨ triple k0 ∈ s.seen ∨ pair k0 ∈ s.added
    · rw [if_pos hskip] at hstep
      obtain ⟨_, e2, e3⟩ := hstep
      exact ⟨by rw [e2, e3]; exact hin1, by rw [e3]; exact hin2⟩
    · rw [if_neg hskip] at hstep
      by_cases hdel : k0.del = true
      · rw [if_pos hdel] at hstep
        obtain ⟨_, e2, e3⟩ := hstep
        exact ⟨by rw [e2, e3]; exact hin1, by rw [e3]; exact hin2⟩
      · rw [if_neg hdel] at hstep
        obtain ⟨_, e2, e3⟩ := hstep
        have hna : pair k0 ∉ s.added := fun h => hskip (Or.inr (Or.inr h))
        refine ⟨?_, ?_⟩
        · intro pr
          rw [e2, e3]
          constructor
          · intro h
            rcases List.mem_cons.1 h with h | h
            · exact ⟨_, List.mem_append_right _ (List.mem_singleton.2 rfl), h.symm⟩
            · obtain ⟨r, hr1, hr2⟩ := (hin1 pr).1 h
              exact ⟨r, List.mem_append_left _ hr1, hr2⟩
          · rintro ⟨r, hr1, hr2⟩
            rcases List.mem_append.1 hr1 with hr1 | hr1
            · exact List.mem_cons_of_mem _ ((hin1 pr).2 ⟨r, hr1, hr2⟩)
            · have := List.mem_singleton.1 hr1
              subst this
              rw [← hr2]; exact List.mem_cons_self
        · rw [e3, List.map_append, List.nodup_append]
          refine ⟨hin2, by simp, ?_⟩
          intro a ha b hb hab
          simp only [List.map_cons, List.map_nil, List.mem_singleton] at hb
          subst hb; subst hab
          obtain ⟨r, hr1, hr2⟩ := List.mem_map.1 ha
          exact hna ((hin1 _).2 ⟨r, hr1, hr2⟩)

/-! ## the first key of a triple in a descending list is its newest one -/

/-- order of the keys of one reference: time, then the deleted bit (a tombstone wins at equal time). -/
def rank (k : RefKey) : Nat := 2 * k.t + (if k.del then 1 else 0)

theorem rank_le_of_not_lexLt (a b : RefKey) (hs : a.src = b.src) (ht : triple a = triple b)
    (h : lexLt a.outFields b.outFields = false) : rank b ≤ rank a := by
  have h1 : a.pred = b.pred := by have := congrArg (·.1) ht; simpa using this
  have h2 : a.tgt = b.tgt := by have := congrArg (·.2.1) ht; simpa using this
  have h3 : a.ds = b.ds := by have := congrArg (·.2.2) ht; simpa using this
  unfold rank
  simp only [RefKey.outFields, lexLt, hs, h1, h2, h3, Nat.lt_irrefl, decide_false, BEq.rfl, Bool.true_and, Bool.false_or,
    Bool.or_eq_false_iff, decide_eq_false_iff_not, Nat.not_lt, Bool.and_eq_false_iff, beq_eq_false_iff_ne, ne_eq, Bool.or_false] at h
  obtain ⟨hlt, hrest⟩ := h
  rcases Nat.lt_or_ge b.t a.t with hc | hc
  · cases a.del <;> cases b.del <;> simp <;> omega
  · have heq : a.t = b.t := by omega
    rcases hrest with hne | hd
    · exact absurd heq hne
    · cases ha : a.del <;> cases hb : b.del <;> simp_all <;> omega

theorem firstOf_mem {K : List RefKey} {p t ds : Nat} {k : RefKey} (h : firstOf K p t ds = some k) :
    k ∈ K ∧ triple k = (p, t, ds) := by
  unfold firstOf at h
  exact ⟨List.mem_of_find?_eq_some h, by simpa using List.find?_some h⟩

/-- in a descending list the first key of a triple has the greatest rank among the keys of that triple. -/
theorem firstOf_max : ∀ (K : List RefKey), Desc K → (∀ a ∈ K, ∀ b ∈ K, a.src = b.src) →
    ∀ (p t ds : Nat) (k : RefKey), firstOf K p t ds = some k → ∀ k' ∈ K, triple k' = (p, t, ds) → rank k' ≤ rank k
  | [], _, _, p, t, ds, k, h, _, _, _ => by simp [firstOf] at h
  | k0 :: rest, hd, hsrc, p, t, ds, k, h, k', hk', ht' => by
    rw [firstOf_cons] at h
    have hd' := List.pairwise_cons.1 hd
    by_cases hq : triple k0 = (p, t, ds)
    · rw [if_pos hq] at h; cases h
      rcases List.mem_cons.1 hk' with rfl | hk'
      · exact Nat.le_refl _
      · exact rank_le_of_not_lexLt k0 k' (hsrc _ List.mem_cons_self _ (List.mem_cons_of_mem _ hk')) (hq.trans ht'.symm) (hd'.1 k' hk')
    · rw [if_neg hq] at h
      rcases List.mem_cons.1 hk' with rfl | hk'
      · exact absurd ht' hq
      · exact firstOf_max rest hd'.2 (fun a ha b hb => hsrc a (List.mem_cons_of_mem _ ha) b (List.mem_cons_of_mem _ hb)) p t ds k h k' hk' ht'

theorem firstOf_isSome_of_mem : ∀ (K : List RefKey) (p t ds : Nat) (k' : RefKey), k' ∈ K → triple k' = (p, t, ds) →
    ∃ k, firstOf K p t ds = some k
  | k0 :: rest, p, t, ds, k', hk', ht' => by
    rw [firstOf_cons]
    by_cases hq : triple k0 = (p, t, ds)
    · exact ⟨k0, by rw [if_pos hq]⟩
    · rw [if_neg hq]
      rcases List.mem_cons.1 hk' with rfl | hk'
      · exact absurd ht' hq
      · exact firstOf_isSome_of_mem rest p t ds k' hk' ht'

theorem eq_of_rank_eq (a b : RefKey) (hs : a.src = b.src) (ht : triple a = triple b) (hr : rank a = rank b) : a = b := by
  have h1 : a.pred = b.pred := by have := congrArg (·.1) ht; simpa using this
  have h2 : a.tgt = b.tgt := by have := congrArg (·.2.1) ht; simpa using this
  have h3 : a.ds = b.ds := by have := congrArg (·.2.2) ht; simpa using this
  unfold rank at hr
  cases a; cases b
  simp only [RefKey.mk.injEq] at *
  refine ⟨hs, ?_, h1, h2, ?_, h3⟩
  · rename_i ta _ _ da _ _ tb _ _ db _
    cases da <;> cases db <;> simp at hr <;> omega
  · rename_i ta _ _ da _ _ tb _ _ db _
    cases da <;> cases db <;> simp at hr ⊢ <;> omega

/-- the newest key of (source, predicate, target, dataset) recorded ≤ at exists and is not a tombstone. -/
def NewestLive (db : DB) (src at_ : Nat) (p t ds : Nat) : Prop :=
  ∃ k ∈ db.refs, k.src = src ∧ triple k = (p, t, ds) ∧ k.t ≤ at_ ∧ k.del = false ∧
    ∀ k' ∈ db.refs, k'.src = src → triple k' = (p, t, ds) → k'.t ≤ at_ → rank k' ≤ rank k

theorem mem_scanned {db : DB} {src at_ : Nat} {scope : List Nat} {k : RefKey} :
    k ∈ scanned db src at_ scope ↔ k ∈ db.refs ∧ k.t ≤ at_ ∧ inScope db scope k.ds = true ∧ k.src = src := by
  unfold scanned
  simp only [List.mem_filter, decide_eq_true_eq, beq_iff_eq]
  constructor
  · rintro ⟨⟨⟨h1, h2⟩, h3⟩, h4⟩; exact ⟨h1, h2, h3, h4⟩
  · rintro ⟨h1, h2, h3, h4⟩; exact ⟨⟨⟨h1, h2⟩, h3⟩, h4⟩

/-- **the unpaged outgoing query** (T-C03-2, scan side): `GetRelatedAtTime(src, pred, at, limit = 0, scope)` returns the
pair (p, target) — exactly once — iff `p` passes the predicate filter and for some in-scope dataset the newest
reference key of (src, p, target, dataset) recorded at or before `at` is not a tombstone. -/
theorem relatedOut_unpaged (db : DB) (src pred at_ : Nat) (scope : List Nat) :
    let res := (relatedOut db src pred at_ 0 scope none).1
    (∀ p t, (∃ r ∈ res, r.pred = p ∧ r.other = t) ↔
        predOK pred p ∧ ∃ ds, inScope db scope ds = true ∧ NewestLive db src at_ p t ds)
    ∧ (res.map fun r => (r.pred, r.other)).Nodup
    ∧ (relatedOut db src pred at_ 0 scope none).2 = none := by
  intro res
  let K := sortBy (fun a b => lexLt b.outFields a.outFields) (scanned db src at_ scope)
  have hKmem : ∀ k, k ∈ K ↔ k ∈ scanned db src at_ scope := fun k => Hub.SortPerm.mem_sortBy _ _ k
  have hK : ∀ k ∈ K, inScope db scope k.ds = true ∧ k.t ≤ at_ := by
    intro k hk; have := mem_scanned.1 ((hKmem k).1 hk); exact ⟨this.2.2.1, this.2.1⟩
  have hsrc : ∀ a ∈ K, ∀ b ∈ K, a.src = b.src := by
    intro a ha b hb
    rw [(mem_scanned.1 ((hKmem a).1 ha)).2.2.2, (mem_scanned.1 ((hKmem b).1 hb)).2.2.2]
  have hdesc : Desc K := sortBy_desc _
  let s0 : OutSt := { reached := true }
  have hrun : Running s0 := ⟨rfl, rfl⟩
  have hres : res = (scan db scope pred at_ s0 K).results := rfl
  have hin := scan_instep db scope pred at_ K s0 hrun hK ⟨by simp [s0], by simp [s0]⟩
  have hadd := scan_added db scope pred at_ K s0 hrun hK
  refine ⟨?_, by rw [hres]; exact hin.2, ?_⟩
  · intro p t
    rw [hres]
    have h1 : (∃ r ∈ (scan db scope pred at_ s0 K).results, r.pred = p ∧ r.other = t) ↔ (p, t) ∈ (scan db scope pred at_ s0 K).added := by
      rw [hin.1 (p, t)]
      constructor
      · rintro ⟨r, hr, h1, h2⟩; exact ⟨r, hr, by rw [h1, h2]⟩
      · rintro ⟨r, hr, h⟩; exact ⟨r, hr, by have := congrArg (·.1) h; simpa using this, by have := congrArg (·.2) h; simpa using this⟩
    rw [h1, hadd (p, t)]
    simp only [s0, List.not_mem_nil, false_or, not_false_eq_true, and_true]
    constructor
    · rintro ⟨hp, ds, k, hf, hd⟩
      obtain ⟨hkK, hkt⟩ := firstOf_mem hf
      have hks := mem_scanned.1 ((hKmem k).1 hkK)
      have hds : k.ds = ds := by have := congrArg (·.2.2) hkt; simpa using this
      refine ⟨hp, ds, hds ▸ hks.2.2.1, k, hks.1, hks.2.2.2, hkt, hks.2.1, hd, ?_⟩
      intro k' hk' hs' ht' hle'
      have hk'K : k' ∈ K := (hKmem k').2 (mem_scanned.2 ⟨hk', hle', by
        have : k'.ds = ds := by have := congrArg (·.2.2) ht'; simpa using this
        rw [this, ← hds]; exact hks.2.2.1, hs'⟩)
      exact firstOf_max K hdesc hsrc p t ds k hf k' hk'K ht'
    · rintro ⟨hp, ds, hsc, k, hk, hs, hkt, hle, hd, hmax⟩
      have hds : k.ds = ds := by have := congrArg (·.2.2) hkt; simpa using this
      have hkK : k ∈ K := (hKmem k).2 (mem_scanned.2 ⟨hk, hle, hds ▸ hsc, hs⟩)
      obtain ⟨k1, hf⟩ := firstOf_isSome_of_mem K p t ds k hkK hkt
      obtain ⟨hk1K, hk1t⟩ := firstOf_mem hf
      have hk1s := mem_scanned.1 ((hKmem k1).1 hk1K)
      have hr1 : rank k ≤ rank k1 := firstOf_max K hdesc hsrc p t ds k1 hf k hkK hkt
      have hr2 : rank k1 ≤ rank k := hmax k1 hk1s.1 hk1s.2.2.2 hk1t hk1s.2.1
      have : k1 = k := eq_of_rank_eq k1 k (hk1s.2.2.2.trans hs.symm) (hk1t.trans hkt.symm) (Nat.le_antisymm hr2 hr1)
      exact ⟨hp, ds, k1, hf, this ▸ hd⟩
  · show (if (scan db scope pred at_ s0 K).stopped then _ else none) = none
    have : Running (scan db scope pred at_ s0 K) := scan_running db scope pred at_ K s0 hrun
    simp [this.1]

end Hub.OutScan

namespace Hub.OutScan
open Hub.Store

/-! ## paging: a page is a window of the unpaged result

The scan of a page (limit `n`, continuation key `sk`) makes the same `seen` / `added` decisions as the unpaged
scan — while it fast-forwards to `sk` it marks live pairs as added without returning them — so the keys that
produce a result are the same; the page returns those that come after `sk`, at most `n` of them, and stops
with the key of its last result as continuation when another one follows. -/

/-- does key `k` produce a result in state (seen, added)? -/
def adds (pred : Nat) (seen : List (Nat × Nat × Nat)) (added : List (Nat × Nat)) (k : RefKey) : Bool :=
  decide (predOK pred k.pred) && !seen.contains (triple k) && !added.contains (pair k) && !k.del

/-- the general step on scanned keys, by cases (any limit, any start key, state not stopped). -/
theorem outStep_cases (db : DB) (scope : List Nat) (pred at_ limit : Nat) (sk : Option RefKey) (s : OutSt) (k : RefKey)
    (hst : s.stopped = false) (hs : inScope db scope k.ds = true) (ht : k.t ≤ at_) :
    let s' := outStep db scope pred at_ limit sk s k
    let reach := s.reached || decide (sk = some k)
    if ¬ predOK pred k.pred ∨ triple k ∈ s.seen ∨ pair k ∈ s.added then
      s'.seen = s.seen ∧ s'.added = s.added ∧ s'.results = s.results ∧ s'.stopped = false ∧ s'.cont = s.cont ∧ s'.reached = s.reached
    else if k.del then
      s'.seen = triple k :: s.seen ∧ s'.added = s.added ∧ s'.results = s.results ∧ s'.stopped = false ∧ s'.cont = s.cont ∧ s'.reached = reach
    else if s.reached = false then
      s'.seen = triple k :: s.seen ∧ s'.added = pair k :: s.added ∧ s'.results = s.results ∧ s'.stopped = false ∧ s'.cont = s.cont ∧ s'.reached = reach
    else if limit ≠ 0 ∧ s.results.length ≥ limit then
      s'.stopped = true ∧ s'.results = s.results ∧ s'.cont = s.cont
    else
      s'.seen = triple k :: s.seen ∧ s'.added = pair k :: s.added ∧ s'.results = s.results ++ [⟨k.pred, k.tgt, k.ds, k.t⟩]
        ∧ s'.stopped = false ∧ s'.cont = some k ∧ s'.reached = true := by
  intro s' reach
  have hgt : ¬ (k.t > at_) := by omega
  by_cases hp : predOK pred k.pred
  · have hpp : ¬ (pred > 0 ∧ pred ≠ k.pred) := hp
    by_cases hc : triple k ∈ s.seen ∨ pair k ∈ s.added
    · rw [if_pos (Or.inr hc)]
      have hc' : (k.pred, k.tgt, k.ds) ∈ s.seen ∨ (k.pred, k.tgt) ∈ s.added := hc
      simp [s', outStep, hst, hs, hgt, hpp, hc']
    · have hne : ¬ (¬ predOK pred k.pred ∨ triple k ∈ s.seen ∨ pair k ∈ s.added) := by
        rintro (h | h)
        · exact h hp
        · exact hc h
      rw [if_neg hne]
      have hc' : ¬ ((k.pred, k.tgt, k.ds) ∈ s.seen ∨ (k.pred, k.tgt) ∈ s.added) := hc
      by_cases hd : k.del = true
      · rw [if_pos hd]
        cases hr : s.reached <;> by_cases hk : sk = some k <;> simp [s', reach, outStep, hst, hs, hgt, hc', hpp, hd, hr, hk]
      · rw [if_neg hd]
        have hd' : k.del = false := by simpa using hd
        by_cases hr : s.reached = false
        · rw [if_pos hr]
          by_cases hk : sk = some k <;> simp [s', reach, outStep, hst, hs, hgt, hc', hpp, hd', hr, hk]
        · rw [if_neg hr]
          have hr' : s.reached = true := by simpa using hr
          by_cases hl : limit ≠ 0 ∧ s.results.length ≥ limit
          · rw [if_pos hl]
            simp [s', outStep, hst, hs, hgt, hc', hpp, hd', hr', hl.1, hl.2]
          · rw [if_neg hl]
            have hl' : ¬ (¬ limit = 0 ∧ limit ≤ s.results.length) := by simpa using hl
            simp [s', outStep, hst, hs, hgt, hc', hpp, hd', hr', hl']
  · rw [if_pos (Or.inl hp)]
    have hpp : pred > 0 ∧ pred ≠ k.pred := by
      unfold predOK at hp; exact Classical.not_not.1 hp
    simp [s', outStep, hst, hs, hgt, hpp]

/-- the keys that produce a result, in scan order, from bookkeeping state (seen, added). -/
def resKeys (pred : Nat) : List (Nat × Nat × Nat) → List (Nat × Nat) → List RefKey → List RefKey
  | _, _, [] => []
  | seen, added, k :: K =>
    if ¬ predOK pred k.pred ∨ triple k ∈ seen ∨ pair k ∈ added then resKeys pred seen added K
    else if k.del then resKeys pred (triple k :: seen) added K
    else k :: resKeys pred (triple k :: seen) (pair k :: added) K

def toRes (k : RefKey) : QRes := ⟨k.pred, k.tgt, k.ds, k.t⟩

/-- the scan with any limit and start key, over a list of keys. -/
def scanL (db : DB) (scope : List Nat) (pred at_ limit : Nat) (sk : Option RefKey) (s : OutSt) (K : List RefKey) : OutSt :=
  K.foldl (outStep db scope pred at_ limit sk) s

theorem scanL_cons (db : DB) (scope : List Nat) (pred at_ limit : Nat) (sk : Option RefKey) (s : OutSt) (k : RefKey) (K : List RefKey) :
    scanL db scope pred at_ limit sk s (k :: K) = scanL db scope pred at_ limit sk (outStep db scope pred at_ limit sk s k) K := by
  simp [scanL]

theorem scanL_stopped (db : DB) (scope : List Nat) (pred at_ limit : Nat) (sk : Option RefKey) :
    ∀ (K : List RefKey) (s : OutSt), s.stopped = true → scanL db scope pred at_ limit sk s K = s
  | [], _, _ => rfl
  | k :: K, s, h => by
    rw [scanL_cons]
    have : outStep db scope pred at_ limit sk s k = s := by simp [outStep, h]
    rw [this]; exact scanL_stopped db scope pred at_ limit sk K s h

/-- keys of `resKeys` carry pairs that were not added before, pairwise distinct. -/
theorem resKeys_pairs (pred : Nat) : ∀ (K : List RefKey) (seen : List (Nat × Nat × Nat)) (added : List (Nat × Nat)),
    (∀ k ∈ resKeys pred seen added K, pair k ∉ added) ∧ ((resKeys pred seen added K).map pair).Nodup
  | [], _, _ => by simp [resKeys]
  | k :: K, seen, added => by
    unfold resKeys
    split
    · exact resKeys_pairs pred K seen added
    · split
      · exact resKeys_pairs pred K (triple k :: seen) added
      · rename_i hskip _
        obtain ⟨i1, i2⟩ := resKeys_pairs pred K (triple k :: seen) (pair k :: added)
        refine ⟨?_, ?_⟩
        · intro x hx
          rcases List.mem_cons.1 hx with rfl | hx
          · exact fun h => hskip (Or.inr (Or.inr h))
          · exact fun h => i1 x hx (List.mem_cons_of_mem _ h)
        · simp only [List.map_cons, List.nodup_cons]
          refine ⟨?_, i2⟩
          intro hm
          obtain ⟨x, hx, hxp⟩ := List.mem_map.1 hm
          exact i1 x hx (by rw [hxp]; exact List.mem_cons_self)

/-- **phase 2** — the start key has been reached: the scan returns the next result keys until the limit is hit. -/
theorem scanL_reached (db : DB) (scope : List Nat) (pred at_ limit : Nat) (sk : Option RefKey) :
    ∀ (K : List RefKey) (s : OutSt), s.stopped = false → s.reached = true → (∀ k ∈ K, inScope db scope k.ds = true ∧ k.t ≤ at_) →
      (limit = 0 ∨ s.results.length ≤ limit) →
      let R := resKeys pred s.seen s.added K
      let m := if limit = 0 then R.length else limit - s.results.length
      let s' := scanL db scope pred at_ limit sk s K
      s'.results = s.results ++ (R.take m).map toRes
      ∧ (s'.stopped = true ↔ limit ≠ 0 ∧ m < R.length)
      ∧ s'.cont = (match (R.take m).getLast? with | some k => some k | none => s.cont)
  | [], s, hst, _, _, _ => by simp [scanL, resKeys, hst]
  | k :: K, s, hst, hre, hK, hlim => by
    have hk := hK k List.mem_cons_self
    have hrest : ∀ x ∈ K, inScope db scope x.ds = true ∧ x.t ≤ at_ := fun x hx => hK x (List.mem_cons_of_mem _ hx)
    have hc := outStep_cases db scope pred at_ limit sk s k hst hk.1 hk.2
    simp only at hc
    rw [scanL_cons]
    by_cases hskip : ¬ predOK pred k.pred ∨ triple k ∈ s.seen ∨ pair k ∈ s.added
    · rw [if_pos hskip] at hc
      obtain ⟨e1, e2, e3, e4, e5, e6⟩ := hc
      have ih := scanL_reached db scope pred at_ limit sk K _ e4 (e6.trans hre) hrest (by rw [e3]; exact hlim)
      simp only [e1, e2, e3, e5] at ih
      simp only [resKeys, if_pos hskip]
      exact ih
    · rw [if_neg hskip] at hc
      by_cases hd : k.del = true
      · rw [if_pos hd] at hc
        obtain ⟨e1, e2, e3, e4, e5, e6⟩ := hc
        have hre' : (outStep db scope pred at_ limit sk s k).reached = true := by rw [e6, hre]; rfl
        have ih := scanL_reached db scope pred at_ limit sk K _ e4 hre' hrest (by rw [e3]; exact hlim)
        simp only [e1, e2, e3, e5] at ih
        simp only [resKeys, if_neg hskip, if_pos hd]
        exact ih
      · rw [if_neg hd] at hc
        have hnr : ¬ (s.reached = false) := by simp [hre]
        rw [if_neg hnr] at hc
        simp only [resKeys, if_neg hskip, if_neg hd]
        by_cases hl : limit ≠ 0 ∧ s.results.length ≥ limit
        · -- the limit is reached: this key would be one result too many
          rw [if_pos hl] at hc
          obtain ⟨e1, e2, e3⟩ := hc
          rw [scanL_stopped db scope pred at_ limit sk K _ e1]
          have hm : limit - s.results.length = 0 := by omega
          have hl0 : ¬ limit = 0 := hl.1
          simp only [hl0, if_false, hm, List.take_zero, List.map_nil, List.append_nil, List.getLast?_nil]
          refine ⟨e2, ?_, e3⟩
          simp [e1, hl0]
        · rw [if_neg hl] at hc
          obtain ⟨e1, e2, e3, e4, e5, e6⟩ := hc
          have hlim' : limit = 0 ∨ (s.results ++ [toRes k]).length ≤ limit := by
            by_cases h0 : limit = 0
            · exact Or.inl h0
            · right
              simp only [List.length_append, List.length_singleton]
              have : ¬ limit ≤ s.results.length := fun hh => hl ⟨h0, hh⟩
              omega
          have e3' : (outStep db scope pred at_ limit sk s k).results = s.results ++ [toRes k] := e3
          have ih := scanL_reached db scope pred at_ limit sk K _ e4 e6 hrest (by rw [e3']; exact hlim')
          simp only [e1, e2, e3', e5] at ih
          obtain ⟨i1, i2, i3⟩ := ih
          by_cases h0 : limit = 0
          · simp only [h0, if_true, List.length_cons, List.take_succ_cons, List.map_cons] at i1 i2 i3 ⊢
            refine ⟨by rw [i1]; simp, by simpa using i2, ?_⟩
            rw [i3]
            cases hR : (resKeys pred (triple k :: s.seen) (pair k :: s.added) K) with
            | nil => simp
            | cons x xs =>
              obtain ⟨y, hy⟩ : ∃ y, (k :: x :: xs).getLast? = some y := ⟨_, List.getLast?_eq_some_getLast (List.cons_ne_nil _ _)⟩
              obtain ⟨z, hz⟩ : ∃ z, (x :: xs).getLast? = some z := ⟨_, List.getLast?_eq_some_getLast (List.cons_ne_nil _ _)⟩
              have : y = z := by
                rw [List.getLast?_cons_cons] at hy; rw [hz] at hy; exact (Option.some.inj hy).symm
              simp [hy, hz, this]
          · have hlt : s.results.length < limit := by
              have : ¬ limit ≤ s.results.length := fun hh => hl ⟨h0, hh⟩
              omega
            simp only [h0, if_false, List.length_append, List.length_singleton, List.length_cons, List.length_nil, Nat.zero_add] at i1 i2 i3 ⊢
            have hm : limit - s.results.length = (limit - (s.results.length + 1)) + 1 := by omega
            rw [hm, List.take_succ_cons, List.map_cons]
            refine ⟨by rw [i1]; simp, ?_, ?_⟩
            · rw [i2]; constructor
              · rintro ⟨_, h⟩; exact ⟨h0, by omega⟩
              · rintro ⟨_, h⟩; exact ⟨h0, by omega⟩
            · rw [i3]
              cases hT : (List.take (limit - (s.results.length + 1)) (resKeys pred (triple k :: s.seen) (pair k :: s.added) K)) with
              | nil => simp
              | cons x xs =>
                obtain ⟨y, hy⟩ : ∃ y, (k :: x :: xs).getLast? = some y := ⟨_, List.getLast?_eq_some_getLast (List.cons_ne_nil _ _)⟩
                obtain ⟨z, hz⟩ : ∃ z, (x :: xs).getLast? = some z := ⟨_, List.getLast?_eq_some_getLast (List.cons_ne_nil _ _)⟩
                have : y = z := by
                  rw [List.getLast?_cons_cons] at hy; rw [hz] at hy; exact (Option.some.inj hy).symm
                simp [hy, hz, this]

/-- what follows a key in a list of result keys. -/
def afterKey (ks : RefKey) (R : List RefKey) : List RefKey := (R.dropWhile (fun k => k != ks)).drop 1

theorem afterKey_cons_ne (ks k : RefKey) (R : List RefKey) (h : k ≠ ks) : afterKey ks (k :: R) = afterKey ks R := by
  unfold afterKey
  have : (k != ks) = true := by simpa using h
  simp [List.dropWhile_cons, this]

theorem afterKey_cons_self (ks : RefKey) (R : List RefKey) : afterKey ks (ks :: R) = R := by
  unfold afterKey
  simp [List.dropWhile_cons]

theorem resKeys_live (pred : Nat) : ∀ (K : List RefKey) (seen : List (Nat × Nat × Nat)) (added : List (Nat × Nat)),
    ∀ k ∈ resKeys pred seen added K, k.del = false
  | [], _, _, k, h => by simp [resKeys] at h
  | k0 :: K, seen, added, k, h => by
    unfold resKeys at h
    split at h
    · exact resKeys_live pred K _ _ k h
    · split at h
      · exact resKeys_live pred K _ _ k h
      · rename_i hd
        rcases List.mem_cons.1 h with rfl | h
        · simpa using hd
        · exact resKeys_live pred K _ _ k h

/-- **phase 1 + 2** — a page that starts after the continuation key `ks` (one of the result keys): the scan makes the
same `seen` / `added` decisions while it fast-forwards, then returns the result keys after `ks` until the limit. -/
theorem scanL_from (db : DB) (scope : List Nat) (pred at_ limit : Nat) (ks : RefKey) :
    ∀ (K : List RefKey) (s : OutSt), s.stopped = false → s.reached = false → (∀ k ∈ K, inScope db scope k.ds = true ∧ k.t ≤ at_) →
      (limit = 0 ∨ s.results.length ≤ limit) → ks ∈ resKeys pred s.seen s.added K →
      let A := afterKey ks (resKeys pred s.seen s.added K)
      let m := if limit = 0 then A.length else limit - s.results.length
      let s' := scanL db scope pred at_ limit (some ks) s K
      s'.results = s.results ++ (A.take m).map toRes
      ∧ (s'.stopped = true ↔ limit ≠ 0 ∧ m < A.length)
      ∧ s'.cont = (match (A.take m).getLast? with | some k => some k | none => s.cont)
  | [], s, _, _, _, _, hin => by simp [resKeys] at hin
  | k :: K, s, hst, hre, hK, hlim, hin => by
    have hk := hK k List.mem_cons_self
    have hrest : ∀ x ∈ K, inScope db scope x.ds = true ∧ x.t ≤ at_ := fun x hx => hK x (List.mem_cons_of_mem _ hx)
    have hc := outStep_cases db scope pred at_ limit (some ks) s k hst hk.1 hk.2
    simp only at hc
    rw [scanL_cons]
    by_cases hskip : ¬ predOK pred k.pred ∨ triple k ∈ s.seen ∨ pair k ∈ s.added
    · rw [if_pos hskip] at hc
      obtain ⟨e1, e2, e3, e4, e5, e6⟩ := hc
      simp only [resKeys, if_pos hskip] at hin ⊢
      have ih := scanL_from db scope pred at_ limit ks K _ e4 (e6.trans hre) hrest (by rw [e3]; exact hlim) (by rw [e1, e2]; exact hin)
      simp only [e1, e2, e3, e5] at ih
      exact ih
    · rw [if_neg hskip] at hc
      by_cases hd : k.del = true
      · rw [if_pos hd] at hc
        obtain ⟨e1, e2, e3, e4, e5, e6⟩ := hc
        simp only [resKeys, if_neg hskip, if_pos hd] at hin ⊢
        have hne : some ks ≠ some k := by
          intro h; cases h
          have := resKeys_live pred K _ _ ks hin
          rw [this] at hd; cases hd
        have hre' : (outStep db scope pred at_ limit (some ks) s k).reached = false := by
          rw [e6, hre]; simp [hne]
        have ih := scanL_from db scope pred at_ limit ks K _ e4 hre' hrest (by rw [e3]; exact hlim) (by rw [e1, e2]; exact hin)
        simp only [e1, e2, e3, e5] at ih
        exact ih
      · rw [if_neg hd] at hc
        rw [if_pos hre] at hc
        obtain ⟨e1, e2, e3, e4, e5, e6⟩ := hc
        simp only [resKeys, if_neg hskip, if_neg hd] at hin ⊢
        by_cases hks : k = ks
        · -- the continuation key itself: from here on results are returned
          subst hks
          rw [afterKey_cons_self]
          have hre' : (outStep db scope pred at_ limit (some k) s k).reached = true := by rw [e6, hre]; simp
          have p2 := scanL_reached db scope pred at_ limit (some k) K _ e4 hre' hrest (by rw [e3]; exact hlim)
          simp only [e1, e2, e3, e5] at p2
          exact p2
        · rw [afterKey_cons_ne ks k _ hks]
          have hin' : ks ∈ resKeys pred (triple k :: s.seen) (pair k :: s.added) K := by
            rcases List.mem_cons.1 hin with h | h
            · exact absurd h.symm hks
            · exact h
          have hne : ¬ (some ks = some k) := by intro h; cases h; exact hks rfl
          have hre' : (outStep db scope pred at_ limit (some ks) s k).reached = false := by rw [e6, hre]; simp [hne]
          have ih := scanL_from db scope pred at_ limit ks K _ e4 hre' hrest (by rw [e3]; exact hlim) (by rw [e1, e2]; exact hin')
          simp only [e1, e2, e3, e5] at ih
          exact ih

/-- the result keys of the query (unpaged bookkeeping from the empty state over the sorted scanned keys). -/
def resultKeys (db : DB) (src pred at_ : Nat) (scope : List Nat) : List RefKey :=
  resKeys pred [] [] (sortBy (fun a b => lexLt b.outFields a.outFields) (scanned db src at_ scope))

/-- **a page of the outgoing query is a window of the unpaged result** (T-C03-3): with limit `n` the first page
returns the first `n` result keys; a page continued from the key of the last result of the previous page returns
the next `n`; the continuation is the key of the page's last result exactly when more results follow
(`n = 0`: everything, no continuation). -/
theorem relatedOut_page (db : DB) (src pred at_ n : Nat) (scope : List Nat) (sk : Option RefKey)
    (hsk : ∀ ks, sk = some ks → ks ∈ resultKeys db src pred at_ scope) :
    let R := resultKeys db src pred at_ scope
    let A := match sk with | none => R | some ks => afterKey ks R
    let m := if n = 0 then A.length else n
    relatedOut db src pred at_ n scope sk =
      ((A.take m).map toRes, if n ≠ 0 ∧ m < A.length then (A.take m).getLast? else none) := by
  intro R A m
  let K := sortBy (fun a b => lexLt b.outFields a.outFields) (scanned db src at_ scope)
  have hK : ∀ k ∈ K, inScope db scope k.ds = true ∧ k.t ≤ at_ := by
    intro k hk
    have := mem_scanned.1 ((Hub.SortPerm.mem_sortBy _ _ k).1 hk); exact ⟨this.2.2.1, this.2.1⟩
  show ((scanL db scope pred at_ n sk { reached := sk.isNone } K).results,
        if (scanL db scope pred at_ n sk { reached := sk.isNone } K).stopped then (scanL db scope pred at_ n sk { reached := sk.isNone } K).cont else none) = _
  cases sk with
  | none =>
    have p2 := scanL_reached db scope pred at_ n none K { reached := true } rfl rfl hK (by simp)
    simp only [List.length_nil, Nat.sub_zero, List.nil_append] at p2
    obtain ⟨r1, r2, r3⟩ := p2
    have hm : m = (if n = 0 then R.length else n) := rfl
    simp only [Option.isNone_none]
    rw [r1]
    refine Prod.ext rfl ?_
    simp only
    by_cases hstop : n ≠ 0 ∧ m < R.length
    · rw [if_pos hstop, if_pos (r2.2 hstop), r3]
      cases hl : (List.take m R).getLast? with
      | some k =>
        have hl' : (List.take (if n = 0 then (resKeys pred [] [] K).length else n) (resKeys pred [] [] K)).getLast? = some k := hl
        rw [hl']
      | none =>
        exfalso
        have : List.take m R = [] := List.getLast?_eq_none_iff.1 hl
        have hlen := congrArg List.length this
        simp only [List.length_take, List.length_nil] at hlen
        have : 0 < n := Nat.pos_of_ne_zero hstop.1
        simp only [hm, if_neg hstop.1] at hlen hstop
        omega
    · rw [if_neg hstop]
      have : ¬ ((scanL db scope pred at_ n none { reached := true } K).stopped = true) := fun h => hstop (r2.1 h)
      simp [this]
  | some ks =>
    have hin := hsk ks rfl
    have p := scanL_from db scope pred at_ n ks K { reached := false } rfl rfl hK (by simp) hin
    simp only [List.length_nil, Nat.sub_zero, List.nil_append] at p
    obtain ⟨r1, r2, r3⟩ := p
    have hm : m = (if n = 0 then (afterKey ks R).length else n) := rfl
    simp only [Option.isNone_some]
    rw [r1]
    refine Prod.ext rfl ?_
    simp only
    by_cases hstop : n ≠ 0 ∧ m < (afterKey ks R).length
    · rw [if_pos hstop, if_pos (r2.2 hstop), r3]
      cases hl : (List.take m (afterKey ks R)).getLast? with
      | some k =>
        have hl' : (List.take (if n = 0 then (afterKey ks (resKeys pred [] [] K)).length else n) (afterKey ks (resKeys pred [] [] K))).getLast? = some k := hl
        rw [hl']
      | none =>
        exfalso
        have : List.take m (afterKey ks R) = [] := List.getLast?_eq_none_iff.1 hl
        have hlen := congrArg List.length this
        simp only [List.length_take, List.length_nil] at hlen
        have : 0 < n := Nat.pos_of_ne_zero hstop.1
        simp only [hm, if_neg hstop.1] at hlen hstop
        omega
    · rw [if_neg hstop]
      have : ¬ ((scanL db scope pred at_ n (some ks) { reached := false } K).stopped = true) := fun h => hstop (r2.1 h)
      simp [this]

/-! ## following the continuations tiles the unpaged result -/

theorem afterKey_getElem : ∀ (R : List RefKey), R.Nodup → ∀ (i : Nat) (h : i < R.length), afterKey R[i] R = R.drop (i + 1)
  | [], _, i, h => by simp at h
  | x :: R, hnd, 0, _ => by simp [afterKey_cons_self]
  | x :: R, hnd, i + 1, h => by
    have hnd' := List.nodup_cons.1 hnd
    have hi : i < R.length := by simpa using h
    have hne : x ≠ R[i] := fun e => hnd'.1 (e ▸ List.getElem_mem hi)
    simp only [List.getElem_cons_succ, List.drop_succ_cons]
    rw [afterKey_cons_ne _ _ _ hne]
    exact afterKey_getElem R hnd'.2 i hi

theorem nodup_of_map_nodup {α β : Type} (f : α → β) : ∀ (l : List α), (l.map f).Nodup → l.Nodup
  | [], _ => List.nodup_nil
  | x :: xs, h => by
    simp only [List.map_cons, List.nodup_cons] at h ⊢
    exact ⟨fun hx => h.1 (List.mem_map.2 ⟨x, hx, rfl⟩), nodup_of_map_nodup f xs h.2⟩

theorem resultKeys_nodup (db : DB) (src pred at_ : Nat) (scope : List Nat) : (resultKeys db src pred at_ scope).Nodup :=
  nodup_of_map_nodup pair _ (resKeys_pairs pred _ [] []).2

/-- the query followed through its continuations (at most `fuel` pages). -/
def allPages (db : DB) (src pred at_ n : Nat) (scope : List Nat) : Nat → Option RefKey → List QRes
  | 0, _ => []
  | fuel + 1, sk =>
    let r := relatedOut db src pred at_ n scope sk
    r.1 ++ (match r.2 with | some k => allPages db src pred at_ n scope fuel (some k) | none => [])

theorem allPages_tile (db : DB) (src pred at_ n : Nat) (scope : List Nat) (hn : 0 < n) :
    let R := resultKeys db src pred at_ scope
    ∀ (fuel i : Nat), i ≤ R.length → R.length - i < fuel →
      allPages db src pred at_ n scope fuel (if i = 0 then none else R[i - 1]?) = (R.drop i).map toRes := by
  intro R fuel
  induction fuel with
  | zero => intro i _ h; omega
  | succ fuel ih =>
    intro i hi hf
    have hnd := resultKeys_nodup db src pred at_ scope
    -- what the page starting here returns
    have hA : (match (if i = 0 then none else R[i - 1]?) with | none => R | some ks => afterKey ks R) = R.drop i := by
      by_cases h0 : i = 0
      · simp [h0]
      · have hlt : i - 1 < R.length := by omega
        simp only [h0, if_false, List.getElem?_eq_getElem hlt]
        rw [afterKey_getElem R hnd (i - 1) hlt]
        congr 1; omega
    have hsk : ∀ ks, (if i = 0 then none else R[i - 1]?) = some ks → ks ∈ R := by
      intro ks h
      by_cases h0 : i = 0
      · simp [h0] at h
      · simp only [h0, if_false] at h
        exact List.mem_of_getElem? h
    have hp := relatedOut_page db src pred at_ n scope _ hsk
    simp only at hp
    rw [hA] at hp
    have hn0 : n ≠ 0 := by omega
    simp only [hn0, if_false, ne_eq, not_false_eq_true, true_and] at hp
    unfold allPages
    simp only [hp]
    by_cases hmore : n < (R.drop i).length
    · -- more results follow: the continuation is the key of the page's last result
      rw [if_pos hmore]
      have hlen : (R.drop i).length = R.length - i := List.length_drop
      have hlast : (List.take n (R.drop i)).getLast? = R[i + n - 1]? := by
        rw [List.getLast?_eq_getElem?, List.length_take, Nat.min_eq_left (Nat.le_of_lt hmore), List.getElem?_take]
        have : n - 1 < n := by omega
        simp only [this, if_true, List.getElem?_drop]
        congr 1; omega
      have hsome : ∃ k, R[i + n - 1]? = some k := ⟨R[i + n - 1]'(by omega), List.getElem?_eq_getElem (by omega)⟩
      obtain ⟨k, hk⟩ := hsome
      rw [hlast, hk]
      simp only
      have ih' := ih (i + n) (by omega) (by omega)
      have hne : i + n ≠ 0 := by omega
      simp only [hne, if_false, hk] at ih'
      rw [ih', ← List.map_append]
      congr 1
      rw [← List.drop_drop, List.take_append_drop]
    · rw [if_neg hmore]
      simp only [List.append_nil]
      rw [List.take_of_length_le (by omega)]

/-- **T-C03-3: paging returns the same result, nothing missing and nothing twice.** For every limit `n ≥ 1`, following
the continuation tokens of the outgoing query and concatenating the pages gives exactly the list the unpaged query
returns (whose pairs are pairwise distinct, `relatedOut_unpaged`). -/
theorem pages_eq_unpaged (db : DB) (src pred at_ n : Nat) (scope : List Nat) (hn : 0 < n) :
    allPages db src pred at_ n scope ((resultKeys db src pred at_ scope).length + 1) none
      = (relatedOut db src pred at_ 0 scope none).1 := by
  have h := allPages_tile db src pred at_ n scope hn ((resultKeys db src pred at_ scope).length + 1) 0 (Nat.zero_le _) (by omega)
  simp only [if_true, List.drop_zero] at h
  rw [h]
  have hp := relatedOut_page db src pred at_ 0 scope none (by intro ks h; cases h)
  simp only [if_true, List.take_length] at hp
  rw [hp]

end Hub.OutScan
