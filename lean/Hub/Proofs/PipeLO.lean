import Hub.Proofs.PipeInv
/-!
# Latest-only reads (`ProcessChanges(since, batch, latestOnly = true)`) and token safety

A latest-only page looks at consecutive positions from `since`, emits those versions that are the newest of their id
in the whole feed *at the time of the read*, stops after `batch` emissions, and returns the position after the last
key it looked at. The invariant is weaker than for full reads: below the cursor, an id is either up to date in the
sink or has a newer occurrence at or above the cursor (which a later page will deliver).
-/
namespace Hub.PipeLO
open Hub.Pipe Hub.PipeInv
open Hub.Store

/-- what `readPage … true` emits for a key. -/
def emitLO (f : Feed) (k : Nat × Ver) : Option Ver := if isLatestAt f k.1 k.2 then some k.2 else none

/-- the emissions of a scan over the `k` positions from `since`. -/
def loPage (f : Feed) (since k : Nat) : List Ver :=
  (enumFrom since ((f.drop since).take k)).filterMap (fun e => emitLO f e.2)

theorem scanG_spec (emit : Nat × Ver → Option Ver) (limit : Nat) : ∀ (f : Feed) (n : Nat) (acc : List Ver) (last : Option Nat),
    ∃ k, k ≤ f.length ∧
      (scanG emit limit (enumFrom n f) acc last).1 = acc ++ (enumFrom n (f.take k)).filterMap (fun e => emit e.2) ∧
      (scanG emit limit (enumFrom n f) acc last).2.1 = (if k = 0 then last else some (n + k - 1)) ∧
      (k = f.length ∨ (0 < limit ∧ (scanG emit limit (enumFrom n f) acc last).1.length = limit))
  | [], n, acc, last => ⟨0, by simp [enumFrom, scanG]⟩
  | v :: vs, n, acc, last => by
    simp only [enumFrom, scanG]
    cases he : emit (n, v) with
    | none =>
      obtain ⟨k, hk, h1, h2, h3⟩ := scanG_spec emit limit vs (n + 1) acc (some n)
      refine ⟨k + 1, by simp; omega, ?_, ?_, ?_⟩
      · simp only [List.take_succ_cons, enumFrom, List.filterMap_cons, he]; exact h1
      · rw [h2]; by_cases hk0 : k = 0
        · simp [hk0]
        · simp only [hk0, if_false, Nat.add_eq_zero_iff, Nat.one_ne_zero, and_false]; congr 1; omega
      · rcases h3 with h3 | h3
        · exact .inl (by simp [h3])
        · exact .inr h3
    | some e =>
      simp only []
      by_cases hfull : limit > 0 ∧ (acc ++ [e]).length = limit
      · rw [if_pos hfull]
        refine ⟨1, by simp, ?_, by simp, .inr ⟨hfull.1, hfull.2⟩⟩
        simp [enumFrom, he]
      · rw [if_neg hfull]
        obtain ⟨k, hk, h1, h2, h3⟩ := scanG_spec emit limit vs (n + 1) (acc ++ [e]) (some n)
        refine ⟨k + 1, by simp; omega, ?_, ?_, ?_⟩
        · simp only [List.take_succ_cons, enumFrom, List.filterMap_cons, he]; rw [h1]; simp
        · rw [h2]; by_cases hk0 : k = 0
          · simp [hk0]
          · simp only [hk0, if_false, Nat.add_eq_zero_iff, Nat.one_ne_zero, and_false]; congr 1; omega
        · rcases h3 with h3 | h3
          · exact .inl (by simp [h3])
          · exact .inr h3

/-- **a latest-only page**: for some number `k` of positions looked at, the page is `loPage f since k`, the token is
`since + k`, and the scan either reached the end of the feed or stopped because `batch` versions were emitted. -/
theorem readPage_lo (f : Feed) (since batch : Nat) :
    ∃ k, k ≤ (f.drop since).length ∧ readPage f since batch true = (loPage f since k, since + k)
      ∧ (k = (f.drop since).length ∨ (0 < batch ∧ (loPage f since k).length = batch)) := by
  unfold readPage Hub.Store.pageG Hub.Store.fromPos
  have hz := zipIdx_map_enum f 0
  simp only [Bool.not_true, Bool.false_or]
  rw [hz, filter_enum_lt f 0 since (Nat.zero_le _)]
  simp only [Nat.sub_zero]
  obtain ⟨k, hk, h1, h2, h3⟩ := scanG_spec (fun (k : Nat × Ver) => if isLatestAt f k.1 k.2 = true then some k.2 else none) batch (f.drop since) since [] none
  refine ⟨k, hk, ?_, ?_⟩
  · refine Prod.ext ?_ ?_
    · simp only [h1, List.nil_append, loPage, emitLO]
    · simp only [h2]
      by_cases hk0 : k = 0
      · simp [hk0]
      · simp only [hk0, if_false]; omega
  · rcases h3 with h3 | h3
    · exact .inl h3
    · refine .inr ⟨h3.1, ?_⟩
      have := h3.2
      rw [h1] at this
      simpa [loPage, emitLO] using this

theorem mem_enumFrom : ∀ (f : Feed) (n : Nat) (e : Nat × (Nat × Ver)), e ∈ enumFrom n f ↔ ∃ i, f[i]? = some e.2.2 ∧ e.1 = n + i ∧ e.2.1 = n + i
  | [], n, e => by simp [enumFrom]
  | v :: vs, n, e => by
    simp only [enumFrom, List.mem_cons, mem_enumFrom vs (n + 1) e]
    constructor
    · rintro (rfl | ⟨i, h1, h2, h3⟩)
      · exact ⟨0, by simp⟩
      · exact ⟨i + 1, by simpa using h1, by omega, by omega⟩
    · rintro ⟨i, h1, h2, h3⟩
      cases i with
      | zero =>
        left
        simp at h1
        obtain ⟨a, b, c⟩ := e
        simp only at h1 h2 h3 ⊢
        subst h1; simp [h2, h3]
      | succ j => exact .inr ⟨j, by simpa using h1, by omega, by omega⟩

/-- membership in a latest-only page: a position of the window whose version is the newest of its id. -/
theorem mem_loPage (f : Feed) (since k : Nat) (v : Ver) :
    v ∈ loPage f since k ↔ ∃ p, since ≤ p ∧ p < since + k ∧ f[p]? = some v ∧ isLatestAt f p v = true := by
  simp only [loPage, List.mem_filterMap, emitLO]
  constructor
  · rintro ⟨e, he, hv⟩
    obtain ⟨i, h1, h2, h3⟩ := (mem_enumFrom _ _ e).1 he
    by_cases hl : isLatestAt f e.2.1 e.2.2 = true
    · simp only [hl, if_true, Option.some.injEq] at hv
      have hi : i < k := by
        rcases Nat.lt_or_ge i k with h | h
        · exact h
        · rw [List.getElem?_take_eq_none h] at h1; cases h1
      rw [List.getElem?_take_of_lt hi, List.getElem?_drop] at h1
      exact ⟨since + i, by omega, by omega, by rw [h1, hv], by rw [← h3, ← hv]; exact hl⟩
    · simp [hl] at hv
  · rintro ⟨p, h1, h2, h3, h4⟩
    refine ⟨(p, (p, v)), ?_, by simp [h4]⟩
    refine (mem_enumFrom _ _ _).2 ⟨p - since, ?_, by simp; omega, by simp; omega⟩
    rw [List.getElem?_take_of_lt (by omega), List.getElem?_drop]
    simp only
    rw [← h3]; congr 1; omega


/-! ## the invariant for latest-only reads -/

/-- below the cursor `c`, an id is either still to come (it has an occurrence at or above `c`) or up to date in the
sink: the sink's latest version of it is the newest version of the source. -/
def InvLO (f g : Feed) (c : Nat) : Prop :=
  ∀ id, (∃ p, p < c ∧ Occ f id p) →
    (∃ p, c ≤ p ∧ Occ f id p) ∨ (∃ q v, f[q]? = some v ∧ v.id = id ∧ isLatestAt f q v = true ∧ latestV g id = some v)

theorem invLO_zero (f g : Feed) : InvLO f g 0 := by
  intro id ⟨p, hp, _⟩; omega

theorem later_of_not_latest {f : Feed} {p : Nat} {v : Ver} (h : isLatestAt f p v = false) : ∃ p2, p < p2 ∧ Occ f v.id p2 := by
  unfold isLatestAt at h
  have : (f.drop (p + 1)).any (fun w => w.id == v.id) = true := by simpa using h
  obtain ⟨w, hw, hid⟩ := List.any_eq_true.1 this
  obtain ⟨j, hj⟩ := List.getElem?_of_mem hw
  rw [List.getElem?_drop] at hj
  exact ⟨p + 1 + j, by omega, w, hj, by simpa using hid⟩

theorem no_later_of_latest {f : Feed} {p : Nat} {v : Ver} (h : isLatestAt f p v = true) : ∀ p2, p < p2 → ¬ Occ f v.id p2 := by
  intro p2 hp ⟨w, hw, hid⟩
  unfold isLatestAt at h
  have hall : (f.drop (p + 1)).any (fun w => w.id == v.id) = false := by simpa using h
  have hm : w ∈ f.drop (p + 1) := by
    apply List.mem_of_getElem? (i := p2 - (p + 1))
    rw [List.getElem?_drop, ← hw]; congr 1; omega
  have := List.any_eq_false.1 hall w hm
  simp [hid] at this

/-- an occurrence in the window [_, c) with nothing at or above `c` has a newest occurrence in the window. -/
theorem exists_latest_from {f : Feed} {id c : Nat} (hno : ¬ ∃ p, c ≤ p ∧ Occ f id p) :
    ∀ (n p : Nat), c - p = n → p < c → Occ f id p → ∃ q v, p ≤ q ∧ q < c ∧ f[q]? = some v ∧ v.id = id ∧ isLatestAt f q v = true := by
  intro n
  induction n using Nat.strongRecOn with
  | _ n ih =>
    intro p hn hp ⟨v, hv, hid⟩
    cases hl : isLatestAt f p v with
    | true => exact ⟨p, v, Nat.le_refl _, hp, hv, hid, hl⟩
    | false =>
      obtain ⟨p2, hp2, ho2⟩ := later_of_not_latest hl
      rw [hid] at ho2
      have hp2c : p2 < c := by
        rcases Nat.lt_or_ge p2 c with h | h
        · exact h
        · exact absurd ⟨p2, h, ho2⟩ hno
      obtain ⟨q, w, h1, h2, h3, h4, h5⟩ := ih (c - p2) (by omega) p2 rfl hp2c ho2
      exact ⟨q, w, by omega, h2, h3, h4, h5⟩

/-- **a delivered latest-only page keeps the invariant at the position after the keys it looked at.** -/
theorem invLO_deliver {f g : Feed} {cur : Nat} (h : InvLO f g cur) (k : Nat) :
    InvLO f (storeBatch g (loPage f cur k)) (cur + k) := by
  intro id ⟨p, hp, ho⟩
  by_cases hx : ∃ p2, cur + k ≤ p2 ∧ Occ f id p2
  · exact .inl hx
  · right
    rw [latestV_storeBatch]
    -- an occurrence inside the window would have its newest occurrence in the window, hence in the page
    have inwin : ∀ p', cur ≤ p' → p' < cur + k → Occ f id p' → ∃ w, w ∈ loPage f cur k ∧ w.id = id := by
      intro p' h1 h2 ho'
      obtain ⟨q, w, hq1, hq2, hq3, hq4, hq5⟩ := exists_latest_from hx (cur + k - p') p' rfl h2 ho'
      exact ⟨w, (mem_loPage f cur k w).2 ⟨q, by omega, hq2, hq3, hq5⟩, hq4⟩
    cases hl : lastOf (loPage f cur k) id with
    | some w =>
      obtain ⟨i, h1, h2, _⟩ := lastOf_some_mem hl
      obtain ⟨q, _, _, hq3, hq4⟩ := (mem_loPage f cur k w).1 (List.mem_of_getElem? h1)
      exact ⟨q, w, hq3, h2, hq4, rfl⟩
    | none =>
      have none_in : ∀ p', cur ≤ p' → p' < cur + k → ¬ Occ f id p' := by
        intro p' h1 h2 ho'
        obtain ⟨w, hw, hwid⟩ := inwin p' h1 h2 ho'
        obtain ⟨j, hj⟩ := List.getElem?_of_mem hw
        exact lastOf_none hl j w hj hwid
      have hpc : p < cur := by
        rcases Nat.lt_or_ge p cur with h' | h'
        · exact h'
        · exact absurd ho (none_in p h' hp)
      rcases h id ⟨p, hpc, ho⟩ with ⟨p2, hp2, ho2⟩ | ⟨q, v, h1, h2, h3, h4⟩
      · exfalso
        rcases Nat.lt_or_ge p2 (cur + k) with h' | h'
        · exact none_in p2 hp2 h' ho2
        · exact hx ⟨p2, h', ho2⟩
      · exact ⟨q, v, h1, h2, h3, h4⟩

/-- a source write (an append) keeps the invariant at every position of the old feed: an id that was up to date and is
written again now has an occurrence above the cursor. -/
theorem invLO_write {f g : Feed} {c : Nat} (h : InvLO f g c) (hc : c ≤ f.length) (w : List Ver) : InvLO (f ++ w) g c := by
  intro id ⟨p, hp, v0, hv0, hid0⟩
  have hget : ∀ p', p' < f.length → (f ++ w)[p']? = f[p']? := fun p' hp' => List.getElem?_append_left hp'
  rcases h id ⟨p, hp, v0, by rw [← hget p (by omega)]; exact hv0, hid0⟩ with ⟨p2, hp2, v2, hv2, hid2⟩ | ⟨q, v, h1, h2, h3, h4⟩
  · have : p2 < f.length := by
      rcases Nat.lt_or_ge p2 f.length with h' | h'
      · exact h'
      · rw [List.getElem?_eq_none h'] at hv2; cases hv2
    exact .inl ⟨p2, hp2, v2, by rw [hget p2 this]; exact hv2, hid2⟩
  · have hq : q < f.length := by
      rcases Nat.lt_or_ge q f.length with h' | h'
      · exact h'
      · rw [List.getElem?_eq_none h'] at h1; cases h1
    by_cases hw : w.any (fun x => x.id == id) = true
    · obtain ⟨x, hx, hxid⟩ := List.any_eq_true.1 hw
      obtain ⟨j, hj⟩ := List.getElem?_of_mem hx
      have hjl : j < w.length := by
        rcases Nat.lt_or_ge j w.length with h' | h'
        · exact h'
        · rw [List.getElem?_eq_none h'] at hj; cases hj
      refine .inl ⟨f.length + j, by omega, x, ?_, by simpa using hxid⟩
      rw [List.getElem?_append_right (by omega)]
      rw [← hj]; congr 1; omega
    · refine .inr ⟨q, v, by rw [hget q hq]; exact h1, h2, ?_, h4⟩
      unfold isLatestAt at h3 ⊢
      have hd : (f ++ w).drop (q + 1) = f.drop (q + 1) ++ w := by
        rw [List.drop_append_of_le_length (by omega)]
      rw [hd, List.any_append]
      have hw' : w.any (fun x => x.id == v.id) = false := by rw [h2]; simpa using hw
      simp only [hw', Bool.or_false]
      exact h3

theorem latestV_of_latest {f : Feed} {q : Nat} {v : Ver} (h1 : f[q]? = some v) (h3 : isLatestAt f q v = true) :
    latestV f v.id = some v := by
  have hq : q < f.length := by
    rcases Nat.lt_or_ge q f.length with h' | h'
    · exact h'
    · rw [List.getElem?_eq_none h'] at h1; cases h1
  have hsplit : f = f.take q ++ v :: f.drop (q + 1) := by
    have h0 : f[q] = v := by
      have := List.getElem?_eq_getElem hq
      rw [this] at h1; exact Option.some.inj h1
    rw [← h0]
    exact (List.take_append_drop q f).symm.trans (by rw [List.drop_eq_getElem_cons hq])
  unfold isLatestAt at h3
  have hall : (f.drop (q + 1)).any (fun w => w.id == v.id) = false := by simpa using h3
  unfold latestV
  rw [hsplit]
  simp only [List.reverse_append, List.reverse_cons, List.find?_append, List.append_assoc]
  have hnone : List.find? (fun w => w.id == v.id) (List.drop (q + 1) (List.take q f ++ v :: List.drop (q + 1) f)).reverse = none ∨ True := .inr trivial
  have hfind : List.find? (fun w => w.id == v.id) (f.drop (q + 1)).reverse = none := by
    rw [List.find?_eq_none]
    intro x hx
    have := List.any_eq_false.1 hall x (List.mem_reverse.1 hx)
    simpa using this
  simp [hfind]

/-- **an empty page means convergence**: when a latest-only read from the cursor finds nothing, every id of the source
is up to date in the sink. -/
theorem converged_of_empty {f g : Feed} {cur batch : Nat} (hb : 0 < batch) (hc : cur ≤ f.length) (h : InvLO f g cur)
    (hempty : (readPage f cur batch true).1 = []) : ∀ id, (∃ p, Occ f id p) → latestV g id = latestV f id := by
  obtain ⟨k, hk, hrp, hend⟩ := readPage_lo f cur batch
  rw [hrp] at hempty
  simp only at hempty
  have hk' : k = (f.drop cur).length := by
    rcases hend with h' | ⟨_, h'⟩
    · exact h'
    · rw [hempty] at h'; simp at h'; omega
  have hlen : cur + k = f.length := by rw [hk', List.length_drop]; omega
  have hinv := invLO_deliver h k
  rw [hempty] at hinv
  simp only [Hub.Pipe.storeBatch, List.foldl_nil] at hinv
  intro id ⟨p, v0, hv0, hid0⟩
  have hp : p < f.length := by
    rcases Nat.lt_or_ge p f.length with h' | h'
    · exact h'
    · rw [List.getElem?_eq_none h'] at hv0; cases hv0
  rcases hinv id ⟨p, by omega, v0, hv0, hid0⟩ with ⟨p2, hp2, v2, hv2, _⟩ | ⟨q, v, h1, h2, h3, h4⟩
  · exfalso
    rw [List.getElem?_eq_none (by omega)] at hv2; cases hv2
  · rw [h4, ← h2, latestV_of_latest h1 h3]

/-- **token safety of one latest-only page** (the step of the run loop): reading from a cursor at which the invariant
holds, delivering the page to the sink and moving the cursor to the returned token keeps the invariant; the token never
moves backwards nor past the end of the feed. -/
theorem lo_page_step (f g : Feed) (cur batch : Nat) (hc : cur ≤ f.length) (h : InvLO f g cur) :
    let r := readPage f cur batch true
    InvLO f (storeBatch g r.1) r.2 ∧ cur ≤ r.2 ∧ r.2 ≤ f.length := by
  obtain ⟨k, hk, hrp, _⟩ := readPage_lo f cur batch
  simp only [hrp]
  refine ⟨invLO_deliver h k, by omega, ?_⟩
  rw [List.length_drop] at hk; omega


/-! ## the run loop of an incremental job over a latest-only source, whatever the faults -/

theorem invLO_mono {f g : Feed} {c c' : Nat} (h : InvLO f g c) (hc : c' ≤ c) : InvLO f g c' := by
  intro id ⟨p, hp, ho⟩
  rcases h id ⟨p, by omega, ho⟩ with ⟨p2, hp2, ho2⟩ | h2
  · exact .inl ⟨p2, by omega, ho2⟩
  · exact .inr h2

structure RunInvLO (f : Feed) (rs : RS) : Prop where
  tokLe : pos rs.tok ≤ pos rs.cur
  curLe : pos rs.cur ≤ f.length
  inv : InvLO f rs.sink.feed (pos rs.cur)

theorem pos_single (n : Nat) : pos [some n] = n := rfl

theorem procEnt_invLO (f : Feed) (flt : Faults) (persistNow : Bool) (k : Nat) (rs : RS) (h : RunInvLO f rs)
    (hk : pos rs.cur + k ≤ f.length) :
    RunInvLO f (procEnt flt persistNow (loPage f (pos rs.cur) k) [some (pos rs.cur + k)] rs).1 := by
  have hdel := invLO_deliver h.inv k
  unfold procEnt
  by_cases hc : cancelled flt rs.accepted = true
  · simp only [hc, if_true]; exact h
  · simp only [hc, Bool.false_eq_true, if_false]
    by_cases he : (loPage f (pos rs.cur) k).isEmpty = true
    · have hpe : loPage f (pos rs.cur) k = [] := by simpa using he
      simp only [he, if_true]
      rw [hpe] at hdel
      simp only [Hub.Pipe.storeBatch, List.foldl_nil] at hdel
      refine ⟨?_, by show pos [some (pos rs.cur + k)] ≤ f.length; rw [pos_single]; exact hk,
        by show InvLO f rs.sink.feed (pos [some (pos rs.cur + k)]); rw [pos_single]; exact hdel⟩
      show pos (if persistNow = true then [some (pos rs.cur + k)] else rs.tok) ≤ pos [some (pos rs.cur + k)]
      rw [pos_single]
      cases persistNow
      · simp only [Bool.false_eq_true, if_false]; have := h.tokLe; omega
      · simp only [if_true]; rw [pos_single]; omega
    · simp only [he, Bool.false_eq_true, if_false]
      by_cases hf : flt.failAt = some rs.calls
      · simp only [hf, if_true]; exact ⟨h.tokLe, h.curLe, h.inv⟩
      · simp only [hf, if_false]
        by_cases hd : flt.dieAfter = some (rs.accepted + 1)
        · simp only [hd, if_true]
          exact ⟨h.tokLe, h.curLe, by
            show InvLO f (rs.sink.process (loPage f (pos rs.cur) k)).feed (pos rs.cur)
            exact invLO_mono hdel (by omega)⟩
        · simp only [hd, if_false]
          refine ⟨?_, by show pos [some (pos rs.cur + k)] ≤ f.length; rw [pos_single]; exact hk, by
            show InvLO f (rs.sink.process (loPage f (pos rs.cur) k)).feed (pos [some (pos rs.cur + k)])
            rw [pos_single]; exact hdel⟩
          show pos (if persistNow = true then [some (pos rs.cur + k)] else rs.tok) ≤ pos [some (pos rs.cur + k)]
          rw [pos_single]
          cases persistNow
          · simp only [Bool.false_eq_true, if_false]; have := h.tokLe; omega
          · simp only [if_true]; rw [pos_single]; omega

/-- the read loop of `DatasetSource` with latest-only: every state it passes through is token safe, and when it ends
normally (an empty page) the sink has converged to the source and the stored token is the cursor. -/
theorem loopDS_invLO (f : Feed) (b : Nat) (hb : 0 < b) (flt : Faults) (persistNow : Bool) :
    ∀ (fuel : Nat) (rs : RS), RunInvLO f rs →
      RunInvLO f (loopDS f b true flt persistNow fuel rs).1
      ∧ ((loopDS f b true flt persistNow fuel rs).2 = .stop →
          (∀ id, (∃ p, Occ f id p) → latestV (loopDS f b true flt persistNow fuel rs).1.sink.feed id = latestV f id)
          ∧ (persistNow = true → (loopDS f b true flt persistNow fuel rs).1.tok = (loopDS f b true flt persistNow fuel rs).1.cur))
  | 0, rs, h => ⟨h, fun hs => by simp [loopDS] at hs⟩
  | fuel + 1, rs, h => by
    rw [loopDS_succ]
    obtain ⟨k, hk, hrp, _⟩ := readPage_lo f (pos rs.cur) b
    have hkl : pos rs.cur + k ≤ f.length := by rw [List.length_drop] at hk; have := h.curLe; omega
    have hempty : (readPage f (pos rs.cur) b true).1 = loPage f (pos rs.cur) k := by rw [hrp]
    rw [hrp]
    simp only
    have hp := procEnt_invLO f flt persistNow k rs h hkl
    cases hr : procEnt flt persistNow (loPage f (pos rs.cur) k) [some (pos rs.cur + k)] rs with
    | mk rs' out =>
      rw [hr] at hp
      cases out with
      | cont => exact loopDS_invLO f b hb flt persistNow fuel rs' hp
      | stop =>
        refine ⟨hp, fun _ => ?_⟩
        obtain ⟨h1, h2, h3, h4⟩ := procEnt_stop flt persistNow _ _ rs rs' hr
        refine ⟨?_, fun hpn => by show rs'.tok = rs'.cur; rw [h3 hpn, h2]⟩
        show ∀ id, (∃ p, Occ f id p) → latestV rs'.sink.feed id = latestV f id
        rw [h4]
        exact converged_of_empty hb h.curLe h.inv (by rw [hempty, h1])
      | err => exact ⟨hp, fun hs => by cases hs⟩
      | died => exact ⟨hp, fun hs => by cases hs⟩

/-- an incremental job over one dataset source read latest-only, batch size `b`. -/
def cfgLO (b : Nat) : Cfg := { union := false, latestOnly := true, batch := b }

structure SafeLO (f : Feed) (s : St) : Prop where
  srcs : s.srcs = [f]
  tokLe : pos s.tok ≤ f.length
  inv : InvLO f s.sink.feed (pos s.tok)

theorem readAll_cfgLO (b : Nat) (f : Feed) (flt : Faults) (p : Bool) (rs : RS) :
    readAll (cfgLO b) [f] flt p rs = loopDS f b true flt p (fuelOf [f]) rs := rfl

/-- **an incremental run over a latest-only source keeps token safety whatever happens to it**, and a run that ends
`ok` has made the sink's latest view equal to the source's. -/
theorem runJob_safeLO (b : Nat) (hb : 0 < b) (flt : Faults) (s : St) (f : Feed) (h : SafeLO f s) :
    SafeLO f (runJob true (cfgLO b) false flt s).1
    ∧ ((runJob true (cfgLO b) false flt s).2 = .ok →
        ∀ id, (∃ p, Occ f id p) → latestV (runJob true (cfgLO b) false flt s).1.sink.feed id = latestV f id) := by
  have hsrcs := h.srcs
  obtain ⟨srcs, sink, tok⟩ := s
  simp only at hsrcs
  subst hsrcs
  unfold runJob
  simp only [Bool.not_false, if_true, readAll_cfgLO]
  have h0 : RunInvLO f { sink := sink, tok := tok, cur := tok } := ⟨Nat.le_refl _, h.tokLe, h.inv⟩
  obtain ⟨hr, hstop⟩ := loopDS_invLO f b hb flt true (fuelOf [f]) _ h0
  cases hl : loopDS f b true flt true (fuelOf [f]) { sink := sink, tok := tok, cur := tok } with
  | mk rs out =>
    rw [hl] at hr hstop
    refine ⟨⟨rfl, Nat.le_trans hr.tokLe hr.curLe, invLO_mono hr.inv hr.tokLe⟩, ?_⟩
    intro hok
    cases out with
    | stop => exact (hstop rfl).1
    | cont => cases hok
    | err => cases hok
    | died => cases hok

theorem writeSrc_safeLO (s : St) (f : Feed) (h : SafeLO f s) (w : List Ver) : ∃ f', SafeLO f' (writeSrc s 0 w) := by
  obtain ⟨w', hw⟩ := storeBatch_append w f
  refine ⟨f ++ w', ?_, ?_, ?_⟩
  · simp [writeSrc, h.srcs, hw]
  · show pos s.tok ≤ (f ++ w').length
    have := h.tokLe; simp only [List.length_append]; omega
  · show InvLO (f ++ w') s.sink.feed (pos s.tok)
    exact invLO_write h.inv h.tokLe w'

inductive EvLO where
  | write (w : List Ver)
  | run (flt : Faults)

def stepEvLO (b : Nat) (s : St) : EvLO → St
  | .write w => writeSrc s 0 w
  | .run flt => (runJob true (cfgLO b) false flt s).1

/-- every history of source writes and incremental latest-only runs (with any faults) keeps the job token safe. -/
theorem history_safeLO (b : Nat) (hb : 0 < b) : ∀ (evs : List EvLO) (s : St) (f : Feed), SafeLO f s →
    ∃ f', SafeLO f' (evs.foldl (stepEvLO b) s)
  | [], s, f, h => ⟨f, h⟩
  | .write w :: evs, s, f, h => by
    obtain ⟨f', h'⟩ := writeSrc_safeLO s f h w
    exact history_safeLO b hb evs _ f' h'
  | .run flt :: evs, s, f, h =>
    history_safeLO b hb evs _ f (runJob_safeLO b hb flt s f h).1

end Hub.PipeLO
