import Hub.Model.Backup
/-! Helper lemmas for C20 (backup model): soundness/fullness of the backup file and the restore theorem. -/
namespace Hub.Backup

def Sound (f : Dump) (l : Log) : Prop := ∀ v e, (v, e) ∈ f → l[v]? = some e
def Full (f : Dump) (l : Log) : Prop := ∀ v e, l[v]? = some e → isNewest l v e = true → (v, e) ∈ f

theorem stateOf_snoc (l : Log) (x : Entry) (k : Nat) :
    stateOf (l ++ [x]) k = if x.1 == k then x.2 else stateOf l k := by
  unfold stateOf
  rw [List.reverse_append]
  simp only [List.reverse_cons, List.reverse_nil, List.nil_append, List.singleton_append, List.find?_cons]
  by_cases hx : (x.1 == k) = true
  · simp [hx]
  · simp [hx]

theorem rev_ind {α : Type} {P : List α → Prop} (h0 : P []) (hs : ∀ l x, P l → P (l ++ [x])) : ∀ l, P l := by
  have : ∀ r : List α, P r.reverse := by
    intro r; induction r with
    | nil => simpa using h0
    | cons x xs ih => rw [List.reverse_cons]; exact hs _ _ ih
  intro l; simpa using this l.reverse

theorem stateOf_none (l : Log) (k : Nat) (h : ∀ e ∈ l, e.1 ≠ k) : stateOf l k = none := by
  unfold stateOf
  have : l.reverse.find? (·.1 == k) = none := by
    apply List.find?_eq_none.2
    intro e he; have := h e (List.mem_reverse.1 he); simpa using this
  rw [this]

theorem newest_exists (k : Nat) : ∀ (l : Log), (∃ e ∈ l, e.1 = k) →
    ∃ v e, l[v]? = some e ∧ e.1 = k ∧ isNewest l v e = true ∧ stateOf l k = e.2 := by
  apply rev_ind
  · intro ⟨e, he, _⟩; simp at he
  · intro l x ih hex
    by_cases hx : x.1 = k
    · refine ⟨l.length, x, by simp, hx, by simp [isNewest], ?_⟩
      rw [stateOf_snoc]; simp [hx]
    · have hex' : ∃ e ∈ l, e.1 = k := by
        obtain ⟨e, he, hk⟩ := hex
        rcases List.mem_append.1 he with h | h
        · exact ⟨e, h, hk⟩
        · simp at h; subst h; exact absurd hk hx
      obtain ⟨v, e, hv, hk, hn, hs⟩ := ih hex'
      have hvl : v < l.length := by
        rcases Nat.lt_or_ge v l.length with h | h
        · exact h
        · rw [List.getElem?_eq_none h] at hv; cases hv
      refine ⟨v, e, ?_, hk, ?_, ?_⟩
      · rw [List.getElem?_append_left hvl]; exact hv
      · unfold isNewest at *
        rw [List.drop_append_of_le_length (by omega)]
        simp only [List.any_append, List.any_cons, List.any_nil, Bool.or_false, Bool.not_or, Bool.and_eq_true]
        refine ⟨hn, ?_⟩
        simp [hk, hx]
      · rw [stateOf_snoc]; simp [hx, hs]

def pick (best : Option (Nat × Entry)) (x : Nat × Entry) : Option (Nat × Entry) :=
  match best with
  | none => some x
  | some b => if b.1 ≤ x.1 then some x else some b

theorem loadOf_eq (f : Dump) (k : Nat) :
    loadOf f k = match (f.filter (·.2.1 == k)).foldl pick none with | some b => b.2.2 | none => none := rfl

theorem foldl_pick : ∀ (es : List (Nat × Entry)) (init : Option (Nat × Entry)),
    (∀ b, es.foldl pick init = some b →
        ((b ∈ es ∨ init = some b) ∧ (∀ x ∈ es, x.1 ≤ b.1) ∧ (∀ i, init = some i → i.1 ≤ b.1)))
    ∧ (es.foldl pick init = none → es = [] ∧ init = none)
  | [], init => by
    refine ⟨?_, fun h => ⟨rfl, h⟩⟩
    intro b hb
    refine ⟨Or.inr hb, ⟨fun x hx => by simp at hx, ?_⟩⟩
    intro i hi
    have hb' : init = some b := hb
    rw [hb'] at hi; cases hi; exact Nat.le_refl _
  | x :: xs, init => by
    simp only [List.foldl_cons]
    obtain ⟨h1, h2⟩ := foldl_pick xs (pick init x)
    have hp : pick init x = some x ∨ (∃ i, init = some i ∧ pick init x = some i ∧ x.1 < i.1) := by
      unfold pick; cases init with
      | none => simp
      | some i => by_cases h : i.1 ≤ x.1 <;> simp [h]; omega
    have hpx : ∀ i, init = some i → pick init x = some x → i.1 ≤ x.1 := by
      intro i hi; subst hi; unfold pick; simp only
      split
      · intro _; assumption
      · intro h; simp at h; rw [h]; exact Nat.le_refl _
    refine ⟨?_, ?_⟩
    · intro b hb
      obtain ⟨hm, hle, hi⟩ := h1 b hb
      refine ⟨?_, ?_, ?_⟩
      · rcases hm with hm | hm
        · exact Or.inl (List.mem_cons_of_mem _ hm)
        · rcases hp with hp | ⟨i, hi0, hp, _⟩
          · rw [hp] at hm; left; simp at hm; simp [hm]
          · rw [hp] at hm; right; rw [hi0]; exact hm
      · intro y hy
        rcases List.mem_cons.1 hy with rfl | hy
        · rcases hp with hp | ⟨i, _, hp, hlt⟩
          · exact hi _ hp
          · have := hi _ hp; omega
        · exact hle y hy
      · intro i hi0
        rcases hp with hp | ⟨i', hi1, hp, _⟩
        · have := hi _ hp; have := hpx i hi0 hp; omega
        · rw [hi0] at hi1; cases hi1; exact hi _ hp
    · intro hn
      obtain ⟨_, hcontra⟩ := h2 hn
      rcases hp with hp | ⟨i, _, hp, _⟩ <;> rw [hp] at hcontra <;> cases hcontra

theorem isNewest_max {l : Log} {v v' : Nat} {e e' : Entry} (hn : isNewest l v e = true)
    (hv' : l[v']? = some e') (hk : e'.1 = e.1) : v' ≤ v := by
  rcases Nat.lt_or_ge v v' with h | h
  · exfalso
    unfold isNewest at hn
    simp only [Bool.not_eq_true', List.any_eq_false] at hn
    have hm : e' ∈ l.drop (v + 1) := by
      rw [List.mem_iff_getElem?]
      refine ⟨v' - (v + 1), ?_⟩
      rw [List.getElem?_drop]
      have : v + 1 + (v' - (v + 1)) = v' := by omega
      rw [this]; exact hv'
    have := hn e' hm
    simp [hk] at this
  · exact h

/-- restoring a sound and full backup file gives exactly the newest value of every key. -/
theorem restore_of_sound_full (f : Dump) (l : Log) (hs : Sound f l) (hf : Full f l) (k : Nat) :
    loadOf f k = stateOf l k := by
  rw [loadOf_eq]
  by_cases hex : ∃ e ∈ l, e.1 = k
  · obtain ⟨v, e, hv, hk, hn, hst⟩ := newest_exists k l hex
    have hin : (v, e) ∈ f.filter (·.2.1 == k) := by
      rw [List.mem_filter]; exact ⟨hf v e hv hn, by simp [hk]⟩
    obtain ⟨h1, h2⟩ := foldl_pick (f.filter (·.2.1 == k)) none
    cases hr : (f.filter (·.2.1 == k)).foldl pick none with
    | none => have := (h2 hr).1; rw [this] at hin; cases hin
    | some b =>
      obtain ⟨hm, hle, _⟩ := h1 b hr
      have hbm : b ∈ f.filter (·.2.1 == k) := by
        rcases hm with hm | hm
        · exact hm
        · cases hm
      have hb := List.mem_filter.1 hbm
      have hbk : b.2.1 = k := by simpa using hb.2
      have hbl : l[b.1]? = some b.2 := hs b.1 b.2 hb.1
      have h1' : v ≤ b.1 := hle _ hin
      have h2' : b.1 ≤ v := isNewest_max hn hbl (by rw [hbk, hk])
      have hveq : b.1 = v := by omega
      rw [hveq, hv] at hbl
      simp only
      rw [hst]; cases hbl; rfl
  · have hnone : ∀ e ∈ l, e.1 ≠ k := by
      intro e he hk; exact hex ⟨e, he, hk⟩
    rw [stateOf_none l k hnone]
    have : f.filter (·.2.1 == k) = [] := by
      apply List.filter_eq_nil_iff.2
      intro x hx
      have := hs x.1 x.2 hx
      have hm : x.2 ∈ l := List.mem_of_getElem? this
      have := hnone _ hm
      simpa using this
    rw [this]; rfl

theorem dump_sound (l : Log) (since : Nat) (v : Nat) (e : Entry) (h : (v, e) ∈ backup l since) :
    since ≤ v ∧ l[v]? = some e ∧ isNewest l v e = true := by
  unfold backup at h
  simp only [List.mem_filter, List.mem_map, Bool.and_eq_true, decide_eq_true_eq] at h
  obtain ⟨⟨⟨e', v'⟩, hm, heq⟩, hs, hn⟩ := h
  simp only [Prod.mk.injEq] at heq
  obtain ⟨rfl, rfl⟩ := heq
  refine ⟨hs, ?_, hn⟩
  have := (List.mem_zipIdx_iff_getElem?).1 hm
  simpa using this

theorem dump_complete (l : Log) (since : Nat) (v : Nat) (e : Entry)
    (hv : l[v]? = some e) (hs : since ≤ v) (hn : isNewest l v e = true) : (v, e) ∈ backup l since := by
  unfold backup
  simp only [List.mem_filter, List.mem_map, Bool.and_eq_true, decide_eq_true_eq]
  refine ⟨⟨(e, v), ?_, rfl⟩, hs, hn⟩
  rw [List.mem_zipIdx_iff_getElem?]
  simpa using hv

theorem foldl_max_le (bound : Nat) : ∀ (d : Dump) (a : Nat), a ≤ bound → (∀ x ∈ d, x.1 ≤ bound) →
    d.foldl (fun a x => max a x.1) a ≤ bound
  | [], a, ha, _ => by simpa using ha
  | x :: xs, a, ha, h => by
    simp only [List.foldl_cons]
    apply foldl_max_le bound xs
    · have := h x (by simp); omega
    · intro y hy; exact h y (List.mem_cons_of_mem _ hy)

structure Inv (m : Mgr) (l : Log) : Prop where
  sound : Sound m.file l
  full : Full m.file l
  cur : m.cursor ≤ l.length

theorem inv_init : Inv {} [] where
  sound := by intro v e h; simp at h
  full := by intro v e h; simp at h
  cur := Nat.le_refl _

theorem isNewest_prefix {l d : Log} {v : Nat} {e : Entry} (h : isNewest (l ++ d) v e = true) (hv : v < l.length) :
    isNewest l v e = true := by
  unfold isNewest at *
  rw [List.drop_append_of_le_length (by omega)] at h
  simp only [List.any_append, Bool.not_or, Bool.and_eq_true] at h
  exact h.1

/-- one more backup run after any further writes keeps the file sound and full for the log it saw. -/
theorem inv_run (m : Mgr) (l d : Log) (h : Inv m l) : Inv (run m (l ++ d)) (l ++ d) where
  sound := by
    intro v e hm
    simp only [run] at hm
    rcases List.mem_append.1 hm with hm | hm
    · have := h.sound v e hm
      have hvl : v < l.length := by
        rcases Nat.lt_or_ge v l.length with h' | h'
        · exact h'
        · rw [List.getElem?_eq_none h'] at this; cases this
      rw [List.getElem?_append_left hvl]; exact this
    · exact (dump_sound _ _ v e hm).2.1
  full := by
    intro v e hv hn
    simp only [run]
    apply List.mem_append.2
    by_cases hc : m.cursor ≤ v
    · exact Or.inr (dump_complete _ _ v e hv hc hn)
    · left
      have hvl : v < l.length := by have := h.cur; omega
      have hv' : l[v]? = some e := by rw [List.getElem?_append_left hvl] at hv; exact hv
      exact h.full v e hv' (isNewest_prefix hn hvl)
  cur := by
    simp only [run]
    have hmx : (backup (l ++ d) m.cursor).foldl (fun a x => max a x.1) 0 ≤ (l ++ d).length := by
      apply foldl_max_le _ _ _ (Nat.zero_le _)
      intro x hx
      have := (dump_sound _ _ x.1 x.2 hx).2.1
      rcases Nat.lt_or_ge x.1 (l ++ d).length with h' | h'
      · omega
      · rw [List.getElem?_eq_none h'] at this; cases this
    have := h.cur
    split
    · exact hmx
    · simp only [List.length_append]; omega

/-- backups taken at arbitrary points of an arbitrary history (`ds` = the writes between runs). -/
def runs : Mgr → Log → List Log → Mgr × Log
  | m, l, [] => (m, l)
  | m, l, d :: ds => runs (run m (l ++ d)) (l ++ d) ds

theorem inv_runs : ∀ (ds : List Log) (m : Mgr) (l : Log), Inv m l → Inv (runs m l ds).1 (runs m l ds).2
  | [], _, _, h => h
  | d :: ds, m, l, h => inv_runs ds _ _ (inv_run m l d h)

end Hub.Backup
