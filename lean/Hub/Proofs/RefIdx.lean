/-! Reference index of one (dataset, source entity): the write path keeps "newest key ≤ at is live" equal to "last version ≤ at is live and carries the ref" (ported from the design spike). -/
namespace Hub.RefIdx


abbrev Ref := Nat × Nat            -- (predicate, target)

structure Ver where
  t : Nat
  deleted : Bool
  refs : List Ref
  deriving Repr

structure Key where
  t : Nat
  r : Ref
  del : Bool
  deriving DecidableEq, Repr

/-- order in which the reverse scan meets keys of one ref: time, then deleted bit (1 after 0) -/
def Key.rank (k : Key) : Nat := 2 * k.t + (if k.del then 1 else 0)

def insert (ks : List Key) (k : Key) : List Key := if k ∈ ks then ks else k :: ks
def erase (ks : List Key) (k : Key) : List Key := ks.filter (· ≠ k)

/-- the write path for a version `v` whose predecessor is `prev` (`inBatch`: the predecessor was
written earlier in the same batch, hence at the same time). -/
def writeRefs (ks : List Key) (prev : Option Ver) (inBatch : Bool) (v : Ver) : List Key :=
  let old := match prev with | some p => p.refs | none => []
  if v.deleted then
    old.foldl (fun ks r => insert ks ⟨v.t, r, true⟩) ks
  else
    let ks1 := v.refs.foldl (fun ks r =>
      let ks := insert ks ⟨v.t, r, false⟩
      if inBatch then erase ks ⟨v.t, r, true⟩ else ks) ks
    (old.filter (· ∉ v.refs)).foldl (fun ks r => insert ks ⟨v.t, r, true⟩) ks1

/-- what the reverse scan decides for ref `r` as of `at`: the key of maximal rank among those
recorded ≤ at exists and is not a tombstone -/
def liveAt (ks : List Key) (r : Ref) (at_ : Nat) : Prop :=
  ∃ k ∈ ks, k.r = r ∧ k.t ≤ at_ ∧ k.del = false ∧ ∀ k' ∈ ks, k'.r = r → k'.t ≤ at_ → k'.rank ≤ k.rank

/-- spec: the last version recorded ≤ at is live and carries the ref -/
def lastLE (vs : List Ver) (at_ : Nat) : Option Ver := (vs.filter (·.t ≤ at_)).getLast?
def specLive (vs : List Ver) (r : Ref) (at_ : Nat) : Prop :=
  ∃ v, lastLE vs at_ = some v ∧ v.deleted = false ∧ r ∈ v.refs

/-! membership lemmas for the folds -/
theorem mem_insert {ks : List Key} {k x : Key} : x ∈ insert ks k ↔ x = k ∨ x ∈ ks := by
  unfold insert; split
  · constructor
    · exact Or.inr
    · rintro (rfl | h) <;> assumption
  · simp

theorem mem_erase {ks : List Key} {k x : Key} : x ∈ erase ks k ↔ x ∈ ks ∧ x ≠ k := by
  unfold erase; simp

theorem mem_foldl_tomb (t : Nat) (rs : List Ref) (ks : List Key) (x : Key) :
    x ∈ rs.foldl (fun ks r => insert ks ⟨t, r, true⟩) ks ↔ x ∈ ks ∨ (x.t = t ∧ x.del = true ∧ x.r ∈ rs) := by
  induction rs generalizing ks with
  | nil => simp
  | cons r rs ih =>
    simp only [List.foldl_cons, ih, mem_insert, List.mem_cons]
    constructor
    · rintro ((rfl | h) | ⟨h1, h2, h3⟩)
      · exact Or.inr ⟨rfl, rfl, Or.inl rfl⟩
      · exact Or.inl h
      · exact Or.inr ⟨h1, h2, Or.inr h3⟩
    · rintro (h | ⟨h1, h2, (h3 | h3)⟩)
      · exact Or.inl (Or.inr h)
      · left; left
        cases x; simp_all
      · exact Or.inr ⟨h1, h2, h3⟩

theorem mem_foldl_live (t : Nat) (inBatch : Bool) (rs : List Ref) (ks : List Key) (x : Key) :
    x ∈ rs.foldl (fun ks r =>
        let ks := insert ks ⟨t, r, false⟩
        if inBatch then erase ks ⟨t, r, true⟩ else ks) ks ↔
      (x.t = t ∧ x.del = false ∧ x.r ∈ rs) ∨
      (x ∈ ks ∧ ¬ (inBatch = true ∧ x.t = t ∧ x.del = true ∧ x.r ∈ rs)) := by
  induction rs generalizing ks with
  | nil => simp
  | cons r rs ih =>
    simp only [List.foldl_cons, ih, List.mem_cons]
    cases inBatch with
    | false =>
      simp only [Bool.false_eq_true, if_false, mem_insert, false_and, not_false_eq_true, and_true]
      constructor
      · rintro (⟨h1, h2, h3⟩ | (rfl | h))
        · exact Or.inl ⟨h1, h2, Or.inr h3⟩
        · exact Or.inl ⟨rfl, rfl, Or.inl rfl⟩
        · exact Or.inr h
      · rintro (⟨h1, h2, (h3 | h3)⟩ | h)
        · right; left; cases x; simp_all
        · exact Or.inl ⟨h1, h2, h3⟩
        · exact Or.inr (Or.inr h)
    | true =>
      simp only [if_true, mem_erase, mem_insert, true_and]
      constructor
      · rintro (⟨h1, h2, h3⟩ | ⟨⟨(rfl | h), hne⟩, hn⟩)
        · exact Or.inl ⟨h1, h2, Or.inr h3⟩
        · exact Or.inl ⟨rfl, rfl, Or.inl rfl⟩
        · refine Or.inr ⟨h, ?_⟩
          rintro ⟨h1, h2, (h3 | h3)⟩
          · apply hne; cases x; simp_all
          · exact hn ⟨h1, h2, h3⟩
      · rintro (⟨h1, h2, (h3 | h3)⟩ | ⟨h, hn⟩)
        · right
          refine ⟨⟨Or.inl (by cases x; simp_all), ?_⟩, ?_⟩
          · intro he; rw [he] at h2; simp at h2
          · rintro ⟨_, h2', _⟩; rw [h2] at h2'; simp at h2'
        · exact Or.inl ⟨h1, h2, h3⟩
        · right
          refine ⟨⟨Or.inr h, ?_⟩, ?_⟩
          · intro he; apply hn; rw [he]; exact ⟨rfl, rfl, Or.inl rfl⟩
          · rintro ⟨h1, h2, h3⟩; exact hn ⟨h1, h2, Or.inr h3⟩


/-! ### membership in the result of `writeRefs` -/
def oldRefs (prev : Option Ver) : List Ref := match prev with | some p => p.refs | none => []

theorem mem_writeRefs (ks : List Key) (prev : Option Ver) (inBatch : Bool) (v : Ver) (x : Key) :
    x ∈ writeRefs ks prev inBatch v ↔
      if v.deleted then x ∈ ks ∨ (x.t = v.t ∧ x.del = true ∧ x.r ∈ oldRefs prev)
      else ((x.t = v.t ∧ x.del = false ∧ x.r ∈ v.refs) ∨
            (x ∈ ks ∧ ¬ (inBatch = true ∧ x.t = v.t ∧ x.del = true ∧ x.r ∈ v.refs))) ∨
           (x.t = v.t ∧ x.del = true ∧ x.r ∈ oldRefs prev ∧ x.r ∉ v.refs) := by
  unfold writeRefs
  simp only
  split
  · rw [mem_foldl_tomb]; rfl
  · rw [mem_foldl_tomb, mem_foldl_live]
    simp [oldRefs, List.mem_filter]

theorem rank_le_of_t_le {k : Key} {t : Nat} (h : k.t ≤ t) : k.rank ≤ 2 * t + 1 := by
  unfold Key.rank
  have h' : (k.t : Nat) ≤ t := h
  by_cases hd : k.del = true
  · rw [if_pos hd]; omega
  · rw [if_neg hd]; omega

theorem rank_live_le {k : Key} {t : Nat} (hd : k.del = false) (h : k.t ≤ t) : k.rank ≤ 2 * t := by
  unfold Key.rank
  have h' : (k.t : Nat) ≤ t := h
  rw [if_neg (by simp [hd])]; omega

theorem rank_lt_le {k : Key} {t : Nat} (h : k.t < t) : k.rank ≤ 2 * t := by
  unfold Key.rank
  have h' : (k.t : Nat) < t := h
  by_cases hd : k.del = true
  · rw [if_pos hd]; omega
  · rw [if_neg hd]; omega

theorem rank_live (t : Nat) (r : Ref) : (⟨t, r, false⟩ : Key).rank = 2 * t := by simp [Key.rank]
theorem rank_tomb (t : Nat) (r : Ref) : (⟨t, r, true⟩ : Key).rank = 2 * t + 1 := by simp [Key.rank]

theorem lastLE_append_lt (vs : List Ver) (v : Ver) (at_ : Nat) (h : at_ < v.t) :
    lastLE (vs ++ [v]) at_ = lastLE vs at_ := by
  unfold lastLE
  rw [List.filter_append]
  have : ([v].filter (·.t ≤ at_)) = [] := by simp [List.filter, Nat.not_le.2 h]
  rw [this, List.append_nil]

theorem lastLE_append_ge (vs : List Ver) (v : Ver) (at_ : Nat) (h : v.t ≤ at_) :
    lastLE (vs ++ [v]) at_ = some v := by
  unfold lastLE
  rw [List.filter_append]
  have : ([v].filter (·.t ≤ at_)) = [v] := by simp [List.filter, h]
  rw [this]; simp

theorem lastLE_all (vs : List Ver) (at_ : Nat) (h : ∀ u ∈ vs, u.t ≤ at_) : lastLE vs at_ = vs.getLast? := by
  unfold lastLE
  rw [List.filter_eq_self.2]
  intro u hu; simpa using h u hu

/-- Index invariant step (I4): writing version `v` after predecessor `vs.getLast?` keeps
"newest key ≤ at is live ⇔ last version ≤ at is live and has the ref", for every ref and instant. -/
theorem step (vs : List Ver) (ks : List Key) (v : Ver) (inBatch : Bool)
    (hI : ∀ r at_, liveAt ks r at_ ↔ specLive vs r at_)
    (hkt : ∀ k ∈ ks, k.t ≤ v.t) (hvt : ∀ u ∈ vs, u.t ≤ v.t)
    (hfresh : inBatch = false → ∀ k ∈ ks, k.t < v.t)
    (r : Ref) (at_ : Nat) :
    liveAt (writeRefs ks vs.getLast? inBatch v) r at_ ↔ specLive (vs ++ [v]) r at_ := by
  by_cases hat : at_ < v.t
  · -- the past is untouched
    have hs : specLive (vs ++ [v]) r at_ ↔ specLive vs r at_ := by
      unfold specLive; rw [lastLE_append_lt vs v at_ hat]
    rw [hs, ← hI r at_]
    have hsame : ∀ x : Key, x.t ≤ at_ → (x ∈ writeRefs ks vs.getLast? inBatch v ↔ x ∈ ks) := by
      intro x hx
      rw [mem_writeRefs]
      have hne : x.t ≠ v.t := fun e => Nat.lt_irrefl _ (Nat.lt_of_le_of_lt (e ▸ hx) hat)
      split <;> simp [hne]
    unfold liveAt
    constructor
    · rintro ⟨k, hk, h1, h2, h3, h4⟩
      exact ⟨k, (hsame k h2).1 hk, h1, h2, h3, fun k' hk' a b => h4 k' ((hsame k' b).2 hk') a b⟩
    · rintro ⟨k, hk, h1, h2, h3, h4⟩
      exact ⟨k, (hsame k h2).2 hk, h1, h2, h3, fun k' hk' a b => h4 k' ((hsame k' b).1 hk') a b⟩
  · have hge : v.t ≤ at_ := Nat.le_of_not_lt hat
    have hprev : ∀ r', liveAt ks r' at_ ↔ ∃ p, vs.getLast? = some p ∧ p.deleted = false ∧ r' ∈ p.refs := by
      intro r'
      rw [hI r' at_]; unfold specLive
      rw [lastLE_all vs at_ (fun u hu => Nat.le_trans (hvt u hu) hge)]
    have hspec : specLive (vs ++ [v]) r at_ ↔ (v.deleted = false ∧ r ∈ v.refs) := by
      unfold specLive; rw [lastLE_append_ge vs v at_ hge]
      constructor
      · rintro ⟨w, hw, h1, h2⟩; cases hw; exact ⟨h1, h2⟩
      · rintro ⟨h1, h2⟩; exact ⟨v, rfl, h1, h2⟩
    rw [hspec]
    -- a tombstone at v.t for r beats everything
    have tomb_kills : (⟨v.t, r, true⟩ : Key) ∈ writeRefs ks vs.getLast? inBatch v →
        ¬ liveAt (writeRefs ks vs.getLast? inBatch v) r at_ := by
      rintro hm ⟨k, hk, h1, h2, h3, h4⟩
      have := h4 ⟨v.t, r, true⟩ hm rfl hge
      rw [rank_tomb] at this
      have hkle : k.t ≤ v.t := by
        rw [mem_writeRefs] at hk
        split at hk
        · rcases hk with hk | ⟨e, _⟩
          · exact hkt k hk
          · exact Nat.le_of_eq e
        · rcases hk with (⟨e, _⟩ | ⟨hk, _⟩) | ⟨e, _⟩
          · exact Nat.le_of_eq e
          · exact hkt k hk
          · exact Nat.le_of_eq e
      have : k.rank ≤ 2 * v.t := rank_live_le h3 hkle
      omega
    -- keys of r are those of ks when r is neither written nor tombstoned
    constructor
    · intro hl
      by_cases hd : v.deleted = true
      · exfalso
        by_cases hold : r ∈ oldRefs vs.getLast?
        · apply tomb_kills _ hl
          rw [mem_writeRefs]; simp [hd, hold]
        · -- keys for r unchanged
          have : liveAt ks r at_ := by
            obtain ⟨k, hk, h1, h2, h3, h4⟩ := hl
            have hmem : ∀ x : Key, x.r = r → (x ∈ writeRefs ks vs.getLast? inBatch v ↔ x ∈ ks) := by
              intro x hx; rw [mem_writeRefs]; simp [hd, hx, hold]
            exact ⟨k, (hmem k h1).1 hk, h1, h2, h3, fun k' hk' a b => h4 k' ((hmem k' a).2 hk') a b⟩
          obtain ⟨p, hp, _, hr⟩ := (hprev r).1 this
          apply hold; simp [oldRefs, hp, hr]
      · have hd' : v.deleted = false := by simpa using hd
        refine ⟨hd', ?_⟩
        apply Classical.byContradiction
        intro hnr
        by_cases hold : r ∈ oldRefs vs.getLast?
        · apply tomb_kills _ hl
          rw [mem_writeRefs]; simp [hd', hold, hnr]
        · have : liveAt ks r at_ := by
            obtain ⟨k, hk, h1, h2, h3, h4⟩ := hl
            have hmem : ∀ x : Key, x.r = r → (x ∈ writeRefs ks vs.getLast? inBatch v ↔ x ∈ ks) := by
              intro x hx; rw [mem_writeRefs]; simp [hd', hx, hold, hnr]
            exact ⟨k, (hmem k h1).1 hk, h1, h2, h3, fun k' hk' a b => h4 k' ((hmem k' a).2 hk') a b⟩
          obtain ⟨p, hp, _, hr⟩ := (hprev r).1 this
          apply hold; simp [oldRefs, hp, hr]
    · rintro ⟨hd, hr⟩
      refine ⟨⟨v.t, r, false⟩, ?_, rfl, hge, rfl, ?_⟩
      · rw [mem_writeRefs]; simp [hd, hr]
      · intro k' hk' h1 _
        rw [rank_live]
        rw [mem_writeRefs] at hk'
        simp only [hd, Bool.false_eq_true, if_false] at hk'
        rcases hk' with (⟨e, hdel, _⟩ | ⟨hk, hne⟩) | ⟨_, _, _, hn⟩
        · exact rank_live_le hdel (Nat.le_of_eq e)
        · have hle := hkt k' hk
          cases hb : inBatch with
          | false => exact rank_lt_le (hfresh hb k' hk)
          | true =>
            by_cases hdel : k'.del = true
            · have hne' : k'.t ≠ v.t := by
                intro e; exact hne ⟨hb, e, hdel, by rw [h1]; exact hr⟩
              exact rank_lt_le (Nat.lt_of_le_of_ne hle hne')
            · exact rank_live_le (by simpa using hdel) hle
        · exact absurd (by rw [h1]; exact hr) hn

end Hub.RefIdx
