/-! Ordered lock acquisition never deadlocks (protocol level, C05); ported from the design spike. -/
namespace Hub.Locks

structure Thread where
  held : List Nat
  todo : List Nat
  deriving Repr

def Thread.finished (t : Thread) : Prop := t.held = [] ∧ t.todo = []

/-- locks are taken in strictly ascending rank order -/
def Thread.ordered (t : Thread) : Prop := (t.held ++ t.todo).Pairwise (· < ·)

def free (ts : List Thread) (l : Nat) : Prop := ∀ t ∈ ts, l ∉ t.held

/-- thread `t` (a member of `ts`) can take a step -/
def canStep (ts : List Thread) (t : Thread) : Prop :=
  (t.todo = [] ∧ t.held ≠ []) ∨ (∃ l rest, t.todo = l :: rest ∧ free ts l)

theorem exists_max {α} (f : α → Nat) : ∀ (l : List α), l ≠ [] → ∃ x ∈ l, ∀ y ∈ l, f y ≤ f x
  | [a], _ => ⟨a, by simp, by simp⟩
  | a :: b :: l, _ => by
    obtain ⟨x, hx, hmax⟩ := exists_max f (b :: l) (by simp)
    by_cases h : f x ≤ f a
    · refine ⟨a, by simp, ?_⟩
      intro y hy
      rcases List.mem_cons.1 hy with rfl | hy
      · exact Nat.le_refl _
      · exact Nat.le_trans (hmax y hy) h
    · refine ⟨x, List.mem_cons_of_mem _ hx, ?_⟩
      intro y hy
      rcases List.mem_cons.1 hy with rfl | hy
      · omega
      · exact hmax y hy

/-- Progress: if every thread acquires in ascending rank order, then whenever some thread is
unfinished, some thread can step. (No reachable deadlock, for any number of threads and locks.) -/
theorem progress (ts : List Thread) (hord : ∀ t ∈ ts, t.ordered)
    (hun : ∃ t ∈ ts, ¬ t.finished) : ∃ t ∈ ts, canStep ts t := by
  -- a thread that has everything and still holds something can release
  by_cases hrel : ∃ t ∈ ts, t.todo = [] ∧ t.held ≠ []
  · obtain ⟨t, ht, h⟩ := hrel
    exact ⟨t, ht, Or.inl h⟩
  -- otherwise every unfinished thread still wants a lock
  have hwant : ∀ t ∈ ts, ¬ t.finished → t.todo ≠ [] := by
    intro t ht hnf htodo
    apply hrel
    refine ⟨t, ht, htodo, ?_⟩
    intro hh; exact hnf ⟨hh, htodo⟩
  let W := ts.filter (fun t => t.todo ≠ [])
  have hW : W ≠ [] := by
    obtain ⟨t, ht, hnf⟩ := hun
    have : t ∈ W := by
      simp only [W, List.mem_filter, decide_eq_true_eq]
      exact ⟨ht, hwant t ht hnf⟩
    intro h; rw [h] at this; simp at this
  obtain ⟨t, htW, hmax⟩ := exists_max (fun t => t.todo.headD 0) W hW
  have ht : t ∈ ts := (List.mem_filter.1 htW).1
  have htodo : t.todo ≠ [] := by simpa [W] using (List.mem_filter.1 htW).2
  obtain ⟨l, rest, hl⟩ : ∃ l rest, t.todo = l :: rest := by
    cases h : t.todo with
    | nil => exact absurd h htodo
    | cons a b => exact ⟨a, b, rfl⟩
  refine ⟨t, ht, Or.inr ⟨l, rest, hl, ?_⟩⟩
  -- l is free: otherwise its holder h wants a lock of greater rank, contradicting maximality
  intro h hh hheld
  have hhtodo : h.todo ≠ [] := by
    intro hnil
    exact hrel ⟨h, hh, hnil, by intro e; rw [e] at hheld; simp at hheld⟩
  obtain ⟨l', rest', hl'⟩ : ∃ l' rest', h.todo = l' :: rest' := by
    cases hc : h.todo with
    | nil => exact absurd hc hhtodo
    | cons a b => exact ⟨a, b, rfl⟩
  have hlt : l < l' := by
    have := hord h hh
    unfold Thread.ordered at this
    rw [hl'] at this
    exact (List.pairwise_append.1 this).2.2 l hheld l' (by simp)
  have hhW : h ∈ W := by
    simp only [W, List.mem_filter, decide_eq_true_eq]; exact ⟨hh, hhtodo⟩
  have := hmax h hhW
  simp only [hl, hl', List.headD_cons] at this
  omega

end Hub.Locks
