import Hub.Model.Store
/-! Generic lemmas about the change-feed scan (`scanG`, `pageG`, `pagesG`). -/
namespace Hub.Paging
open Hub.Store

variable {κ ε : Type}

/-- all entities a key list would emit. -/
def emitted (emit : κ → Option ε) (l : List (Nat × κ)) : List ε := l.filterMap fun x => emit x.2

/-- strictly increasing positions. -/
def Inc (l : List (Nat × κ)) : Prop := l.Pairwise fun a b => a.1 < b.1

theorem scan_spec (emit : κ → Option ε) (limit : Nat) :
    ∀ (l : List (Nat × κ)) (acc : List ε) (last : Option Nat),
      let r := scanG emit limit l acc last
      r.1 ++ emitted emit r.2.2 = acc ++ emitted emit l
      ∧ (∃ pre, l = pre ++ r.2.2 ∧ (pre = [] → r.2.1 = last) ∧ (∀ x, pre.getLast? = some x → r.2.1 = some x.1))
  | [], acc, last => by simp [scanG, emitted]
  | (pos, k) :: rest, acc, last => by
    simp only [scanG]
    cases he : emit k with
    | none =>
      simp only
      obtain ⟨h1, pre, hpre, hnil, hlast⟩ := scan_spec emit limit rest acc (some pos)
      refine ⟨?_, (pos, k) :: pre, ?_, by simp, ?_⟩
      · rw [h1]; simp [emitted, he]
      · rw [List.cons_append, ← hpre]
      · intro x hx
        cases pre with
        | nil => simp at hx; rw [hnil rfl, ← hx]
        | cons y ys =>
          have : (y :: ys).getLast? = some x := by simpa [List.getLast?_cons_cons] using hx
          exact hlast x this
    | some e =>
      simp only
      split
      · refine ⟨by simp [emitted, he], [(pos, k)], by simp, by simp, ?_⟩
        intro x hx; simp at hx; rw [← hx]
      · obtain ⟨h1, pre, hpre, hnil, hlast⟩ := scan_spec emit limit rest (acc ++ [e]) (some pos)
        refine ⟨?_, (pos, k) :: pre, ?_, by simp, ?_⟩
        · rw [h1]; simp [emitted, he]
        · rw [List.cons_append, ← hpre]
        · intro x hx
          cases pre with
          | nil => simp at hx; rw [hnil rfl, ← hx]
          | cons y ys =>
            have : (y :: ys).getLast? = some x := by simpa [List.getLast?_cons_cons] using hx
            exact hlast x this

theorem filter_ge_of_inc {pre suf : List (Nat × κ)} (h : Inc (pre ++ suf)) (x : Nat × κ)
    (hx : pre.getLast? = some x) : fromPos (x.1 + 1) (pre ++ suf) = suf := by
  have hp : ∀ a ∈ pre, a.1 ≤ x.1 := by
    intro a ha
    obtain ⟨ini, rfl⟩ : ∃ ini, pre = ini ++ [x] := by
      have hne : pre ≠ [] := by intro h0; simp [h0] at hx
      have hgl : pre.getLast hne = x := by
        have := List.getLast?_eq_some_getLast hne
        rw [this] at hx; exact Option.some.inj hx
      exact ⟨pre.dropLast, by rw [← hgl]; exact (List.dropLast_concat_getLast hne).symm⟩
    rcases List.mem_append.1 ha with ha | ha
    · have hpw := (List.pairwise_append.1 ((List.pairwise_append.1 h).1)).2.2 a ha x (by simp)
      exact Nat.le_of_lt hpw
    · simp at ha; rw [ha]; exact Nat.le_refl _
  have hs : ∀ b ∈ suf, x.1 < b.1 := by
    intro b hb
    have hxm : x ∈ pre := List.mem_of_getLast? hx
    exact (List.pairwise_append.1 h).2.2 x hxm b hb
  unfold fromPos
  rw [List.filter_append]
  have h1 : pre.filter (fun y => decide (x.1 + 1 ≤ y.1)) = [] := by
    apply List.filter_eq_nil_iff.2; intro a ha; have := hp a ha; simp; omega
  have h2 : suf.filter (fun y => decide (x.1 + 1 ≤ y.1)) = suf := by
    apply List.filter_eq_self.2; intro b hb; have := hs b hb; simp; omega
  rw [h1, h2]; rfl

theorem inc_filter {l : List (Nat × κ)} (h : Inc l) (p : Nat × κ → Bool) : Inc (l.filter p) :=
  List.Pairwise.filter p h

theorem fromPos_fromPos (l : List (Nat × κ)) (a b : Nat) (hab : a ≤ b) :
    fromPos b (fromPos a l) = fromPos b l := by
  unfold fromPos
  rw [List.filter_filter]
  congr 1; funext y
  by_cases h : b ≤ y.1
  · have : a ≤ y.1 := by omega
    simp [h, this]
  · simp [h]

/-- one page plus everything readable from its token = everything readable from `since`:
nothing skipped, nothing repeated, for every limit and every filter. -/
theorem page_resume (emit : κ → Option ε) (es : List (Nat × κ)) (hinc : Inc es) (since limit : Nat) :
    (pageG emit es since limit).1 ++ emitted emit (fromPos (pageG emit es since limit).2 es)
      = emitted emit (fromPos since es)
    ∧ since ≤ (pageG emit es since limit).2 := by
  unfold pageG
  simp only
  generalize hL : fromPos since es = L
  have hLinc : Inc L := hL ▸ inc_filter hinc _
  obtain ⟨h1, pre, hpre, hnil, hlast⟩ := scan_spec emit limit L [] none
  generalize hr : scanG emit limit L [] none = r at *
  cases hpl : pre.getLast? with
  | none =>
    have hpn : pre = [] := List.getLast?_eq_none_iff.1 hpl
    have h2 := hnil hpn
    simp only [h2]
    rw [hL]
    subst hpn
    simp only [List.nil_append] at hpre h1
    refine ⟨?_, Nat.le_refl _⟩
    rw [← hpre] at h1
    simpa using h1
  | some x =>
    have h2 := hlast x hpl
    simp only [h2]
    have hx_ge : x.1 ≥ since := by
      have hxm : x ∈ L := by rw [hpre]; exact List.mem_append_left _ (List.mem_of_getLast? hpl)
      rw [← hL] at hxm
      simpa [fromPos] using (List.mem_filter.1 hxm).2
    refine ⟨?_, by omega⟩
    have hrest : fromPos (x.1 + 1) es = r.2.2 := by
      rw [← fromPos_fromPos es since (x.1 + 1) (by omega), hL, hpre]
      exact filter_ge_of_inc (hpre ▸ hLinc) x hpl
    rw [hrest, h1]; simp

/-- the pages of a reader that follows its tokens through any list of limits, plus an unlimited
read from its final token, are exactly the feed from `since`. -/
theorem pages_resume (emit : κ → Option ε) (es : List (Nat × κ)) (hinc : Inc es) :
    ∀ (limits : List Nat) (since : Nat),
      (pagesG emit es since limits).1.flatten ++ emitted emit (fromPos (pagesG emit es since limits).2 es)
      = emitted emit (fromPos since es)
  | [], since => by simp [pagesG]
  | l :: ls, since => by
    simp only [pagesG, List.flatten_cons, List.append_assoc]
    rw [pages_resume emit es hinc ls (pageG emit es since l).2]
    exact (page_resume emit es hinc since l).1

/-- an unlimited page returns everything from `since` and leaves a token past the end. -/
theorem page_unlimited (emit : κ → Option ε) (es : List (Nat × κ)) (since : Nat) :
    (pageG emit es since 0).1 = emitted emit (fromPos since es) := by
  unfold pageG
  simp only
  generalize fromPos since es = L
  have : ∀ (l : List (Nat × κ)) (acc : List ε) (last : Option Nat),
      (scanG emit 0 l acc last).1 = acc ++ emitted emit l := by
    intro l
    induction l with
    | nil => intro acc last; simp [scanG, emitted]
    | cons x xs ih =>
      intro acc last
      obtain ⟨pos, k⟩ := x
      simp only [scanG]
      cases he : emit k with
      | none => simp only; rw [ih]; simp [emitted, he]
      | some e => simp only [Nat.lt_irrefl, false_and, if_false]; rw [ih]; simp [emitted, he]
  rw [this]; simp

/-- a token at or past the end returns nothing and is handed back unchanged. -/
theorem page_at_end (emit : κ → Option ε) (es : List (Nat × κ)) (since limit : Nat)
    (h : ∀ x ∈ es, x.1 < since) : pageG emit es since limit = ([], since) := by
  unfold pageG
  have : fromPos since es = [] := by
    unfold fromPos
    apply List.filter_eq_nil_iff.2; intro a ha; have := h a ha; simp; omega
  simp [this, scanG]

end Hub.Paging
