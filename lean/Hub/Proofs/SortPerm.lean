import Hub.Model.Store
/-! `sortBy` is a permutation. -/
namespace Hub.SortPerm
open Hub.Store
variable {α : Type}

theorem insertBy_perm (lt : α → α → Bool) (x : α) : ∀ acc : List α, (insertBy lt x acc).Perm (x :: acc)
  | [] => List.Perm.refl _
  | y :: ys => by
    simp only [insertBy]
    split
    · exact List.Perm.refl _
    · exact ((insertBy_perm lt x ys).cons y).trans (List.Perm.swap x y ys)

theorem foldl_insert_perm (lt : α → α → Bool) :
    ∀ (l acc : List α), (l.foldl (fun acc x => insertBy lt x acc) acc).Perm (l ++ acc)
  | [], acc => List.Perm.refl _
  | x :: xs, acc => by
    simp only [List.foldl_cons, List.cons_append]
    refine (foldl_insert_perm lt xs _).trans ?_
    refine ((insertBy_perm lt x acc).append_left xs).trans ?_
    exact List.perm_middle

theorem sortBy_perm (lt : α → α → Bool) (l : List α) : (sortBy lt l).Perm l := by
  unfold sortBy
  simpa using foldl_insert_perm lt l []

theorem mem_sortBy (lt : α → α → Bool) (l : List α) (x : α) : x ∈ sortBy lt l ↔ x ∈ l :=
  (sortBy_perm lt l).mem_iff

end Hub.SortPerm
