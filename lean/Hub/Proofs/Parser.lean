import Hub.Model.Parser
/-! Helper lemmas for C15: the streaming parser applied to the serialisation of a value tree yields its denotation. -/
namespace Hub.Parser
variable (res : String → Except String String)

theorem rt_refArray : ∀ (l l' : List String) (acc : List String) (r : List Tok) (f : Nat),
    mapRes res l = some l' →
    l.length + 1 ≤ f → pRefArray res f acc (l.map .str ++ .ra :: r) = .ok (acc ++ l', r)
  | [], l', acc, r, f, h, hf => by
    obtain ⟨g, rfl⟩ : ∃ g, f = g + 1 := ⟨f - 1, by omega⟩
    simp [mapRes] at h; subst h; simp [pRefArray]
  | s :: l, l', acc, r, f, h, hf => by
    obtain ⟨g, rfl⟩ : ∃ g, f = g + 1 := ⟨f - 1, by omega⟩
    simp only [mapRes] at h
    cases hs : res s with
    | error e => simp [resO, hs] at h
    | ok s' =>
      cases hl : mapRes res l with
      | none => simp [resO, hs, hl] at h
      | some l2 =>
        simp [resO, hs, hl] at h
        subst h
        simp only [List.map_cons, List.cons_append, pRefArray, hs]
        rw [rt_refArray l l2 (acc ++ [s']) r g hl (by simp at hf; omega)]
        simp

end Hub.Parser

namespace Hub.Parser
variable (res : String → Except String String)

theorem rt_refValue (v v' : R) (r : List Tok) (f : Nat) (h : expR res v = some v')
    (hf : (refToks v).length ≤ f) : pRefValue res f (refToks v ++ r) = .ok (v', r) := by
  cases v with
  | one s =>
    simp only [expR] at h
    cases hs : res s with
    | error e => simp [resO, hs] at h
    | ok s' => simp [resO, hs] at h; subst h; simp [refToks, pRefValue, hs]
  | many l =>
    simp only [expR] at h
    cases hl : mapRes res l with
    | none => simp [hl] at h
    | some l2 =>
      simp [hl] at h; subst h
      simp only [refToks, List.cons_append, List.append_assoc, pRefValue]
      have := rt_refArray res l l2 [] r f hl (by simp [refToks] at hf; omega)
      simp only [List.nil_append]
      rw [this]; simp

theorem rt_refsLoop : ∀ (p p' : List (String × R)) (acc : List (String × R)) (r : List Tok) (f : Nat),
    expRefs res p = some p' → (refsToks p).length + 1 ≤ f →
    pRefsLoop res f acc (refsToks p ++ .rb :: r) = .ok (acc ++ p', r)
  | [], p', acc, r, f, h, hf => by
    obtain ⟨g, rfl⟩ : ∃ g, f = g + 1 := ⟨f - 1, by omega⟩
    simp [expRefs] at h; subst h; simp [refsToks, pRefsLoop]
  | (k, v) :: p, p', acc, r, f, h, hf => by
    obtain ⟨g, rfl⟩ : ∃ g, f = g + 1 := ⟨f - 1, by omega⟩
    simp only [expRefs] at h
    cases hk : res k with
    | error e => simp [hk] at h
    | ok k' =>
      cases hv : expR res v with
      | none => simp [hk, hv] at h
      | some v' =>
        cases hp : expRefs res p with
        | none => simp [hk, hv, hp] at h
        | some p2 =>
          simp [hk, hv, hp] at h; subst h
          simp only [refsToks, List.cons_append, List.append_assoc, pRefsLoop]
          have hlen : (refsToks ((k, v) :: p)).length = 1 + (refToks v).length + (refsToks p).length := by
            simp [refsToks]; omega
          rw [rt_refValue res v v' _ g hv (by omega)]
          simp only [hk]
          rw [rt_refsLoop p p2 _ r g hp (by omega)]
          simp

end Hub.Parser

namespace Hub.Parser
variable (res : String → Except String String)

theorem toks_ent_length (id : String) (del : Bool) (props : List (String × V)) (refs : List (String × R)) :
    (toks (.ent id del props refs)).length = 14 + (toksP props).length + (refsToks refs).length := by
  simp [toks]; omega

mutual
theorem rtV : ∀ (v v' : V) (f : Nat) (r : List Tok), exp res v = some v' → (toks v).length ≤ f →
    pValue res (f + 1) (toks v ++ r) = .ok (some v', r)
    ∧ (∀ acc, pArray res (f + 1) acc (toks v ++ r) = pArray res f (acc ++ [v']) r)
    ∧ (∀ body, toks v = .lb :: body → pEntity res f {} (body ++ r) = .ok (v', r))
  | .null, v', f, r, h, hf => by simp [exp] at h
  | .str s, v', f, r, h, hf => by simp [exp] at h; subst h; simp [toks, pValue, pArray]
  | .num s, v', f, r, h, hf => by simp [exp] at h; subst h; simp [toks, pValue, pArray]
  | .bool s, v', f, r, h, hf => by simp [exp] at h; subst h; simp [toks, pValue, pArray]
  | .arr l, v', f, r, h, hf => by
    simp only [exp] at h
    cases hl : expL res l with
    | none => simp [hl] at h
    | some l' =>
      simp [hl] at h; subst h
      have hlen : (toks (.arr l)).length = (toksL l).length + 2 := by simp [toks]
      have := rtL l l' f r hl (by omega) []
      simp only [toks, List.cons_append, List.append_assoc, List.nil_append, pValue, pArray]
      rw [this]; simp
  | .ent id del props refs, v', f, r, h, hf => by
    simp only [exp] at h
    by_cases hid : id = "@continuation"
    · simp [hid] at h
    · simp only [hid, if_false] at h
      cases hi : res id with
      | error e => simp [hi] at h
      | ok i =>
        cases hp : expP res props with
        | none => simp [hi, hp] at h
        | some p' =>
          cases hr : expRefs res refs with
          | none => simp [hi, hp, hr] at h
          | some r' =>
            simp [hi, hp, hr] at h; subst h
            have hlen := toks_ent_length id del props refs
            obtain ⟨g, rfl⟩ : ∃ g, f = g + 8 := ⟨f - 8, by omega⟩
            have hP := rtP props p' (g + 4) ([.str "recorded", .num "0", .str "refs", .lb] ++ refsToks refs ++ [.rb, .rb] ++ r) hp (by omega) []
            have hR := rt_refsLoop res refs r' [] (.rb :: r) (g + 3) hr (by omega)
            have core : pEntity res (g + 8) {} ([.str "deleted", .bool del, .str "id", .str id, .str "props", .lb] ++ toksP props
                ++ [.rb, .str "recorded", .num "0", .str "refs", .lb] ++ refsToks refs ++ [.rb, .rb] ++ r)
                = .ok (.ent i del p' r', r) := by
              simp only [List.cons_append, List.nil_append, List.append_assoc, pEntity, hid, hi, pProps, pRefs,
                if_true, if_false, String.reduceEq]
              simp only [List.cons_append, List.nil_append, List.append_assoc] at hP
              rw [hP]
              simp only [pEntity, if_true, if_false, String.reduceEq, pRefs]
              rw [hR]
              simp [pEntity, Acc.toV]
            refine ⟨?_, ?_, ?_⟩
            · simp only [toks, List.cons_append, List.append_assoc, List.nil_append, pValue] at core ⊢
              rw [core]
            · intro acc
              simp only [toks, List.cons_append, List.append_assoc, List.nil_append, pArray] at core ⊢
              rw [core]
            · intro body hb
              simp only [toks, List.cons_append, List.append_assoc, List.nil_append, List.cons.injEq, true_and] at hb core
              subst hb
              simp only [List.cons_append, List.append_assoc, List.nil_append]
              exact core

theorem rtL : ∀ (l l' : List V) (f : Nat) (r : List Tok), expL res l = some l' → (toksL l).length + 1 ≤ f →
    ∀ acc, pArray res f acc (toksL l ++ .ra :: r) = .ok (acc ++ l', r)
  | [], l', f, r, h, hf, acc => by
    obtain ⟨g, rfl⟩ : ∃ g, f = g + 1 := ⟨f - 1, by omega⟩
    simp [expL] at h; subst h; simp [toksL, pArray]
  | v :: l, l', f, r, h, hf, acc => by
    obtain ⟨g, rfl⟩ : ∃ g, f = g + 1 := ⟨f - 1, by omega⟩
    simp only [expL] at h
    cases hv : exp res v with
    | none => simp [hv] at h
    | some v1 =>
      cases hl : expL res l with
      | none => simp [hv, hl] at h
      | some l1 =>
        simp [hv, hl] at h; subst h
        have hlen : (toksL (v :: l)).length = (toks v).length + (toksL l).length := by simp [toksL]
        have h1 := (rtV v v1 g (toksL l ++ .ra :: r) hv (by omega)).2.1 acc
        have hvpos : 0 < (toks v).length := by cases v <;> simp [toks]
        simp only [toksL, List.append_assoc]
        rw [h1, rtL l l1 g r hl (by omega)]
        simp

theorem rtP : ∀ (p p' : List (String × V)) (f : Nat) (r : List Tok), expP res p = some p' → (toksP p).length + 1 ≤ f →
    ∀ acc, pPropsLoop res f acc (toksP p ++ .rb :: r) = .ok (acc ++ p', r)
  | [], p', f, r, h, hf, acc => by
    obtain ⟨g, rfl⟩ : ∃ g, f = g + 1 := ⟨f - 1, by omega⟩
    simp [expP] at h; subst h; simp [toksP, pPropsLoop]
  | (k, v) :: p, p', f, r, h, hf, acc => by
    obtain ⟨g, rfl⟩ : ∃ g, f = g + 2 := ⟨f - 2, by
      have : 0 < (toksP ((k, v) :: p)).length := by simp [toksP]
      omega⟩
    by_cases hv0 : v = .null
    · subst hv0
      simp only [expP] at h
      have hlen : (toksP ((k, V.null) :: p)).length = 2 + (toksP p).length := by simp [toksP, toks]; omega
      simp only [toksP, toks, List.cons_append, List.nil_append, pPropsLoop, pValue]
      exact rtP p p' (g + 1) r h (by omega) acc
    · have h' : (match res k, exp res v, expP res p with
          | .ok k', some v', some r' => some ((k', v') :: r')
          | _, _, _ => none) = some p' := by
        cases v <;> first | exact absurd rfl hv0 | (simp only [expP] at h; exact h)
      cases hk : res k with
      | error e => simp [hk] at h'
      | ok k' =>
        cases hv : exp res v with
        | none => simp [hk, hv] at h'
        | some v1 =>
          cases hl : expP res p with
          | none => simp [hk, hv, hl] at h'
          | some p1 =>
            simp [hk, hv, hl] at h'; subst h'
            have hlen : (toksP ((k, v) :: p)).length = 1 + (toks v).length + (toksP p).length := by
              simp [toksP]; omega
            have h1 := (rtV v v1 g (toksP p ++ .rb :: r) hv (by omega)).1
            simp only [toksP, List.cons_append, List.append_assoc, pPropsLoop]
            rw [h1]
            simp only [hk]
            rw [rtP p p1 (g + 1) r hl (by omega)]
            simp
end

end Hub.Parser

