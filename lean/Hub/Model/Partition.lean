/-!
# Work split of the incremental pipeline (internal/jobs/pipeline.go, `IncrementalPipeline.sync`)

`chunkBounds` follows the arithmetic of the parallel transform split as it stands after the
`fix:` commit for D7 (ceil division, both bounds clipped, parallelism < 1 treated as 1).
`chunksCur` is the arithmetic of the pinned commit (math.Round, upper bound clipped only); it is
kept as regression documentation with its `decide` witnesses in `Hub/Props/C10.lean`.

Core Lean only (the driver links this file).
-/
namespace Hub.Partition

/-- effective worker count: `parallelisms` after the guards in `sync`. -/
def workers (n : Nat) (p : Int) : Nat :=
  if p < 1 ∨ (n : Int) < p then 1 else p.toNat

/-- `psize := (len(entities) + parallelisms - 1) / parallelisms`. -/
def psize (n par : Nat) : Nat := (n + par - 1) / par

/-- `(from, to)` of worker `i`: `from = min(index, n)`, `to = min(index+psize, n)`, `index = i*psize`. -/
def bound (n ps i : Nat) : Nat × Nat := (min (i * ps) n, min (i * ps + ps) n)

/-- list of `[from,to)` handed to the workers, in worker-id order. -/
def chunkBounds (n : Nat) (p : Int) : List (Nat × Nat) :=
  let par := workers n p
  (List.range par).map (bound n (psize n par))

def slice (xs : List α) (b : Nat × Nat) : List α := (xs.drop b.1).take (b.2 - b.1)

/-- the chunks handed to the transform workers. -/
def chunks (xs : List α) (p : Int) : List (List α) :=
  (chunkBounds xs.length p).map (slice xs)

/-- the pipeline's parallel transform: every worker maps its chunk, results are concatenated in
worker-id order (`workResults[i]`), not completion order. -/
def parTransform (f : List α → List β) (xs : List α) (p : Int) : List β :=
  ((chunks xs p).map f).flatten

/-! ## the arithmetic of the pinned commit (D7) -/

/-- `int(math.Round(float64(n)/float64(p)))` for `p > 0` (round half away from zero). -/
def roundDiv (n p : Nat) : Nat := (2 * n + p) / (2 * p)

def boundCur (n psize i : Nat) : Option (Nat × Nat) :=
  let frm := i * psize
  let to := frm + psize
  if to ≥ n then (if frm ≤ n then some (frm, n) else none) else some (frm, to)

/-- `none` = `make([]*Entity, negative)` panics. Parallelism ≤ 0 is modelled as 0 workers. -/
def chunksCur (xs : List α) (p : Nat) : Option (List (List α)) :=
  let n := xs.length
  let par := if n < p then 1 else p
  let ps := roundDiv n par
  (List.range par).mapM fun i => (boundCur n ps i).map (slice xs)

end Hub.Partition
