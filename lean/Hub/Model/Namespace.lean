/-!
# Namespace prefixes, CURIEs and internal identifiers

`NamespaceManager.AssertPrefixMappingForExpansion`, `ExpandCurie`, `getURLParts`,
`GetNamespacedIdentifierFromURI` (internal/server/store.go) and `assertIDForURI` over an id
sequence. Strings are `List Char` so that the theorems are about every string. Core Lean only.
-/
namespace Hub.Namespace

abbrev Str := List Char

/-- the two maps, kept as an association list in insertion order: (prefix, expansion). -/
structure NS where
  pairs : List (Str × Str) := []
  deriving Repr

def natDigits (n : Nat) : Str := Nat.toDigits 10 n

def nsPrefix (n : Nat) : Str := ['n', 's'] ++ natDigits n

def NS.prefixOf (s : NS) (exp : Str) : Option Str := (s.pairs.find? (·.2 == exp)).map (·.1)
def NS.expansionOf (s : NS) (p : Str) : Option Str := (s.pairs.find? (·.1 == p)).map (·.2)

/-- `AssertPrefixMappingForExpansion`: existing prefix, else `"ns" + len(map)`. -/
def NS.assert (s : NS) (exp : Str) : NS × Str :=
  match s.prefixOf exp with
  | some p => (s, p)
  | none =>
    let p := nsPrefix s.pairs.length
    ({ pairs := s.pairs ++ [(p, exp)] }, p)

/-- index of the last occurrence of `c` (`strings.LastIndex`), as a split: `(upto-and-including, rest)`. -/
def splitLast (c : Char) : Str → Option (Str × Str)
  | [] => none
  | x :: xs =>
    match splitLast c xs with
    | some (a, b) => some (x :: a, b)
    | none => if x = c then some ([x], xs) else none

/-- `getURLParts`: split after the last '#', else after the last '/'. -/
def urlParts (u : Str) : Option (Str × Str) :=
  match splitLast '#' u with
  | some r => some r
  | none => splitLast '/' u

/-- split at the first occurrence of `c` (`strings.Index`): `(before, after)`. -/
def splitFirst (c : Char) : Str → Option (Str × Str)
  | [] => none
  | x :: xs => if x = c then some ([], xs) else (splitFirst c xs).map fun (a, b) => (x :: a, b)

def isHttp (u : Str) : Bool := "http://".toList.isPrefixOf u || "https://".toList.isPrefixOf u

/-- `GetNamespacedIdentifierFromURI`: `prefix:local` for http(s) URIs. -/
def NS.compact (s : NS) (u : Str) : Option (NS × Str) :=
  if isHttp u then
    match urlParts u with
    | some (exp, loc) => let r := s.assert exp; some (r.1, r.2 ++ [':'] ++ loc)
    | none => none
  else none

/-- `ExpandCurie`: split at the first ':', look the prefix up, append the rest. -/
def NS.expand (s : NS) (curie : Str) : Option Str :=
  match splitFirst ':' curie with
  | some (p, loc) => (s.expansionOf p).map (· ++ loc)
  | none => none

/-! ## internal ids -/

structure Ids where
  pairs : List (Str × Nat) := []   -- uri ↦ id
  next : Nat := 0                  -- idseq.Next()
  deriving Repr

def Ids.idOf (s : Ids) (u : Str) : Option Nat := (s.pairs.find? (·.1 == u)).map (·.2)

/-- `assertIDForURI` (ignoring the per-call cache, which only memoises): existing id or a fresh one. -/
def Ids.assert (s : Ids) (u : Str) : Ids × Nat × Bool :=
  match s.idOf u with
  | some i => (s, i, false)
  | none => ({ pairs := s.pairs ++ [(u, s.next)], next := s.next + 1 }, s.next, true)

/-- a restart (or crash): the sequence resumes at or after its persisted lease, i.e. at some
`next' ≥ next`; ids handed out but not committed are skipped, never reused. -/
def Ids.restart (s : Ids) (skip : Nat) : Ids := { s with next := s.next + skip }

end Hub.Namespace
