/-!
# Dataset registry and catalogue (internal/server/dsmanager.go)

`CreateDataset`, `DeleteDataset`, `UpdateDataset` (rename) over: the registry (name ↦ internal id),
the persisted next-dataset-id, the deleted set, and the meta entities in `core.Dataset`
(name ↦ is its latest version deleted?). Core Lean only.
-/
namespace Hub.Registry

structure Reg where
  live : List (String × Nat) := []      -- registry: name ↦ internal id
  nextId : Nat := 1                     -- s.nextDatasetID (persisted before use)
  deleted : List Nat := []              -- deleted set
  metas : List (String × Bool) := []     -- meta entity of a name: latest version deleted?
  deriving Repr

inductive Op
  | create (n : String)
  | delete (n : String)
  | rename (a b : String)
  deriving Repr

def setMeta (n : String) (d : Bool) (m : List (String × Bool)) : List (String × Bool) :=
  (n, d) :: m.filter (·.1 != n)

def step (r : Reg) : Op → Reg
  | .create n =>
    if (r.live.lookup n).isSome then r
    else { r with live := (n, r.nextId) :: r.live, nextId := r.nextId + 1, metas := setMeta n false r.metas }
  | .delete n =>
    match r.live.lookup n with
    | none => r
    | some id => { r with live := r.live.filter (·.1 != n), deleted := id :: r.deleted, metas := setMeta n true r.metas }
  | .rename a b =>
    match r.live.lookup a with
    | none => r
    | some id =>
      if (r.live.lookup b).isSome ∨ a = b then r
      else { r with live := (b, id) :: r.live.filter (·.1 != a), metas := setMeta b false (setMeta a true r.metas) }

def run (ops : List Op) : Reg := ops.foldl step {}

end Hub.Registry
