/-!
# Job run bookkeeping: `raffle` (internal/jobs/raffle.go), the control-flow skeleton of `job.Run`
(internal/jobs/job.go) and `Scheduler.verify` (internal/jobs/scheduler.go). Core Lean only.
-/
namespace Hub.Raffle

structure St where
  ticketsFull : Nat
  ticketsIncr : Nat
  running : List (String × Bool)     -- job id ↦ isFull
  deriving Repr

inductive Op
  | borrow (id : String) (isFull : Bool)
  | ret (id : String) (isFull : Bool)     -- returnTicket of a ticket that was handed out for (id,isFull)
  deriving Repr

def isRunning (s : St) (id : String) : Bool := s.running.any (·.1 == id)

/-- `borrowTicket`: refuse when the id is running or the pool is empty. -/
def borrow (s : St) (id : String) (isFull : Bool) : St × Bool :=
  if isRunning s id then (s, false)
  else if isFull then
    if 0 < s.ticketsFull then ({ s with ticketsFull := s.ticketsFull - 1, running := (id, true) :: s.running }, true)
    else (s, false)
  else
    if 0 < s.ticketsIncr then ({ s with ticketsIncr := s.ticketsIncr - 1, running := (id, false) :: s.running }, true)
    else (s, false)

/-- `returnTicket`. -/
def ret (s : St) (id : String) (isFull : Bool) : St :=
  { ticketsFull := if isFull then s.ticketsFull + 1 else s.ticketsFull,
    ticketsIncr := if isFull then s.ticketsIncr else s.ticketsIncr + 1,
    running := s.running.filter (·.1 != id) }

/-- One protocol step. A ticket can only be returned by the run that holds it (`defer
returnTicket(ticket)` in `job.Run`), i.e. while its entry is in `running`; returning a ticket that
is not outstanding is not a possible event and is modelled as a no-op. -/
def step (s : St) : Op → St
  | .borrow id f => (borrow s id f).1
  | .ret id f => if (id, f) ∈ s.running then ret s id f else s

def countFull (s : St) : Nat := (s.running.filter (·.2)).length
def countIncr (s : St) : Nat := (s.running.filter (!·.2)).length

def init (poolFull poolIncr : Nat) : St := { ticketsFull := poolFull, ticketsIncr := poolIncr, running := [] }

/-! ## `job.Run` control flow over abstract component results -/

inductive Pipe
  | ok | err | interrupted | panics
  deriving DecidableEq, Repr

structure RunTrace where
  gotTicket : Bool
  ticketReturned : Bool
  resultStored : Bool
  handleJobErrorCalled : Bool
  panicEscapes : Bool       -- the panic leaves `Run` (caught by jobrunner's recover for cron/manual runs)
  queuedRetry : Bool
  deriving DecidableEq, Repr

/-- `job.Run`: borrow; on nil ticket maybe queue a retry (fullsync) and return; otherwise
`defer handleJobError`, `defer returnTicket`, run the pipeline, store the result. Deferred calls
run also when the pipeline panics. -/
def jobRun (s : St) (id : String) (isFull : Bool) (p : Pipe) : St × RunTrace :=
  let b := borrow s id isFull
  if b.2 then
    let s' := ret b.1 id isFull          -- deferred returnTicket always runs
    (s', { gotTicket := true, ticketReturned := true, resultStored := p != .panics,
           handleJobErrorCalled := true, panicEscapes := p == .panics, queuedRetry := false })
  else
    (b.1, { gotTicket := false, ticketReturned := false, resultStored := false,
            handleJobErrorCalled := false, panicEscapes := false, queuedRetry := isFull })

/-! ## `Scheduler.verify`: which trigger lists are accepted -/

structure Trigger where
  typeOk : Bool          -- triggerType ∈ {cron, onchange}
  jobTypeOk : Bool       -- jobType ∈ {fullsync, incremental}
  onChange : Bool
  monitored : Bool       -- MonitoredDataset ≠ ""
  cronOk : Bool          -- Schedule parses
  handlersOk : Bool      -- verifyErrorHandlers returns nil (and has set the defaults)
  deriving DecidableEq, Repr

def triggerOk (t : Trigger) : Bool :=
  t.typeOk && t.jobTypeOk && (if t.onChange then t.monitored else t.cronOk) && t.handlersOk

/-- the loop of `verify` after the fix for D18: every trigger is checked, handlers always. -/
def verify : List Trigger → Bool
  | [] => true
  | t :: ts => if triggerOk t then verify ts else false

/-- the pinned commit (D18): a valid onchange trigger returns nil at once. -/
def verifyCur : List Trigger → Bool
  | [] => true
  | t :: ts =>
    if !(t.typeOk && t.jobTypeOk) then false
    else if t.onChange then t.monitored
    else if !t.cronOk then false
    else if !t.handlersOk then false
    else verifyCur ts

end Hub.Raffle
