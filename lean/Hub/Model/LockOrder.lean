/-!
# Lock acquisition order of the write paths (store.go, dataset.go, dsmanager.go)

Ranks: `DsManager.lock` < user dataset write locks in name order < `core.Dataset`'s write lock <
`Store.idmux` < `NamespaceManager.lock`. `lockSeq` lists, per operation kind, the locks in the order
the code takes them (nested acquisitions included: `updateDataset` writes the meta entity into
`core.Dataset` while the dataset lock is still held). Core Lean only.
-/
namespace Hub.LockOrder

inductive Lock
  | dsm                      -- DsManager.lock
  | ds (rank : Nat)          -- a user dataset's WriteLock; rank = position of its name in sorted order
  | core                     -- core.Dataset's WriteLock
  | idmux                    -- Store.idmux
  | ns                       -- NamespaceManager.lock
  deriving DecidableEq, Repr

def Lock.rank : Lock → Nat
  | .dsm => 0
  | .ds r => r + 1
  | .core => 1000000
  | .idmux => 1000001
  | .ns => 1000002

inductive OpKind
  | store (d : Nat)                    -- Dataset.StoreEntities on user dataset d
  | txn (ds : List Nat)                -- Store.ExecuteTransaction over distinct user datasets, as NAMED by the client
  | create | delete
  | rename (d : Nat)
  deriving Repr

def insertSorted (x : Nat) : List Nat → List Nat
  | [] => [x]
  | y :: ys => if x ≤ y then x :: y :: ys else y :: insertSorted x ys
def sortNat (l : List Nat) : List Nat := l.foldl (fun acc x => insertSorted x acc) []

/-- the multi-lock part of every operation (leaf locks idmux / ns are taken and released inside,
always while only lower-ranked locks are held). `sorted` = the transaction sorts its dataset names
before locking (a regenerated fact; `false` = Go map iteration order, any permutation). -/
def lockSeq (sorted : Bool) : OpKind → List Lock
  | .store d => [.ds d, .core]
  | .txn ds => ((if sorted then sortNat ds else ds).map Lock.ds) ++ [.core]
  | .create => [.dsm, .core]
  | .delete => [.dsm, .core]
  | .rename d => [.dsm, .ds d, .core]

def ascending (l : List Lock) : Prop := (l.map Lock.rank).Pairwise (· < ·)

end Hub.LockOrder
