/-!
# The rolling identifier transaction shared by all writers (internal/server/store.go)

`assertIDForURI` (under `idmux`): look the URI up in the rolling id transaction — which sees everything
committed before it was opened plus its own uncommitted writes —, otherwise draw the next number from the
sequence and write `uri → id` and `id → uri` into it. `commitIDTxn` (under `idmux`): commit the rolling
transaction and drop it; every writer calls it after filling its data transaction and before committing it.
The rolling transaction is shared: one writer's `commitIDTxn` also makes the assignments of all other
writers durable.

Writers interleave at the granularity of these critical sections (that is what the mutex gives; the shape of
both functions and the list of functions that touch `idtxn` at all are regenerated facts).
Core Lean only.
-/
namespace Hub.IdTxn

abbrev Uri := Nat

inductive Pc where
  | filling        -- StoreEntitiesWithTransaction: drawing identifiers
  | idsCommitted   -- commitIDTxn returned
  | acked          -- txn.Commit returned: the batch is acknowledged
  | gone           -- rejected, or the process died before the acknowledgement
  deriving DecidableEq, Repr

structure W where
  mine : List (Uri × Nat) := []     -- `localTxnCache`: the identifiers this writer's data refers to
  pc : Pc := .filling
  deriving Repr

structure St where
  pending : List (Uri × Nat) := []  -- uncommitted writes of the rolling id transaction
  durable : List (Uri × Nat) := []
  next : Nat := 1                    -- the id sequence (badger Sequence: never hands a number out twice)
  ws : List W := []
  deriving Repr

inductive Step where
  | start                            -- a new writer begins
  | assign (w : Nat) (u : Uri)       -- assertIDForURI(u) by writer w
  | commitIds (w : Nat)              -- commitIDTxn by writer w
  | commitData (w : Nat)             -- the data transaction commits: acknowledged
  | reject (w : Nat)                 -- the batch is rejected (an error before the data commit)
  | crash (skip : Nat)               -- the process dies; the sequence resumes `skip` numbers further on
  deriving Repr

def St.lookup (s : St) (u : Uri) : Option Nat := (s.pending ++ s.durable).lookup u

def modW : List W → Nat → (W → W) → List W
  | [], _, _ => []
  | x :: xs, 0, f => f x :: xs
  | x :: xs, n + 1, f => x :: modW xs n f

def pcOf (s : St) (w : Nat) : Option Pc := (s.ws[w]?).map (·.pc)

/-- `discardOnReject` = a rejected batch throws the rolling transaction away (NOT what the code does; the
negative example below shows why it must not). -/
def step (discardOnReject : Bool) (s : St) : Step → St
  | .start => { s with ws := s.ws ++ [{}] }
  | .assign w u =>
    if pcOf s w ≠ some .filling then s else
    match s.lookup u with
    | some i => { s with ws := modW s.ws w fun x => { x with mine := (u, i) :: x.mine } }
    | none => { s with pending := (u, s.next) :: s.pending, next := s.next + 1,
                       ws := modW s.ws w fun x => { x with mine := (u, s.next) :: x.mine } }
  | .commitIds w =>
    if pcOf s w ≠ some .filling then s else
    { s with durable := s.pending ++ s.durable, pending := [], ws := modW s.ws w fun x => { x with pc := .idsCommitted } }
  | .commitData w =>
    if pcOf s w ≠ some .idsCommitted then s else { s with ws := modW s.ws w fun x => { x with pc := .acked } }
  | .reject w =>
    if pcOf s w ≠ some .filling then s else
    { s with pending := if discardOnReject then [] else s.pending, ws := modW s.ws w fun x => { x with pc := .gone } }
  | .crash k =>
    { s with pending := [], next := s.next + k,
             ws := s.ws.map fun x => if x.pc = .acked then x else { x with pc := .gone } }

def run (d : Bool) (s : St) (l : List Step) : St := l.foldl (step d) s

end Hub.IdTxn
