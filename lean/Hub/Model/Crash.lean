/-!
# Crash model of the mutating calls (C04)

A mutating call of the hub is a sequence of **durable steps** (badger transactions / single-key
writes), in the order in which the Go function performs them. The order is not written down here:
it is the list of crash points that `tools/instr` finds in the source on every run
(`Hub.Facts.Crash.points_<Func>`: `"<Func>:<k>:<callee>"`, point `k` lies right after step `k`).
A crash at point `k` keeps the first `k` steps; a restart reloads memory from the disk and lets every
sequence resume at its persisted lease.

* `Disk`, `Step`, `apply`, `crashAt` — the step model of one batch / transaction;
* `Seq` — badger's `Sequence` as a lease automaton (`GetSequence(key, bandwidth)`, `Next`, `Release`);
* `landedAt` — what the driver predicts for a child process killed at a point.

Core Lean only.
-/
namespace Hub.Crash

/-! ## point names -/

/-- the callee of a point name `"<Func>:<k>:<callee>"`. -/
def calleeOf (p : String) : String := ((p.splitOn ":").drop 2 |> String.intercalate ":")

/-- index of a point in the function's list (its step count), `none` for an unknown point. -/
def indexOf (pts : List String) (p : String) : Option Nat :=
  let i := pts.findIdx (· == p)
  if i < pts.length then some i else none

/-- index of the `occ`-th (1-based) point whose callee is `callee`. -/
def stepIndex (pts : List String) (callee : String) (occ : Nat) : Option Nat :=
  let idxs := (pts.zipIdx.filter (fun x => calleeOf x.1 == callee)).map (·.2)
  idxs[occ - 1]?

/-- a process killed at point `p` of a function whose decisive step (the one that makes the operation
visible) is the `occ`-th call of `callee`: the operation has landed iff `p` lies at or after it. -/
def landedAt (pts : List String) (callee : String) (occ : Nat) (p : String) : Option Bool :=
  match indexOf pts p, stepIndex pts callee occ with
  | some i, some d => some (decide (d ≤ i))
  | _, _ => none

/-! ## the step model of a batch / transaction -/

/-- what is on disk, as far as a batch is concerned: committed uri↔id rows, committed batches (each is
the list of internal ids its keys mention — the content is C01–C03's business), metadata updates. -/
structure Disk where
  ids : List Nat := []               -- internal ids that have a committed uri↔id row
  data : List (List Nat) := []       -- committed data transactions, oldest first
  metaN : Nat := 0                   -- dataset meta-entity updates applied
  deriving Repr, DecidableEq

inductive Step where
  | idCommit      -- `commitIDTxn`: the rolling id transaction (all pending uri↔id rows)
  | dataCommit    -- `txn.Commit`: every key of the batch / of all datasets of the transaction
  | metaUpdate    -- `updateDataset`: the counter in core.Dataset (its own StoreEntities call)
  | prepare       -- `StoreEntitiesWithTransaction`: fills the pending transactions, nothing durable
  | other
  deriving Repr, DecidableEq

/-- the pending (not yet durable) work of a call: ids handed out, the batch's keys. -/
structure Pending where
  newIds : List Nat
  batch : List Nat          -- ids mentioned by the keys of the batch
  deriving Repr

def apply (p : Pending) (d : Disk) : Step → Disk
  | .idCommit => { d with ids := d.ids ++ p.newIds }
  | .dataCommit => { d with data := d.data ++ [p.batch] }
  | .metaUpdate => { d with metaN := d.metaN + 1 }
  | .prepare => d
  | .other => d

/-- the disk after a crash at point `k` (the first `k` steps are durable). -/
def crashAt (steps : List Step) (p : Pending) (d : Disk) (k : Nat) : Disk := (steps.take k).foldl (apply p) d

/-- translation of the regenerated point names into steps. -/
def stepOfCallee : String → Step
  | "commitIDTxn" => .idCommit
  | "txn.Commit" => .dataCommit
  | "updateDataset" => .metaUpdate
  | "StoreEntitiesWithTransaction" => .prepare
  | _ => .other

/-- the steps of a function, from the callees of its points (`Hub.Facts.Crash.callees_<Func>`). -/
def stepsOf (callees : List String) : List Step := callees.map stepOfCallee

/-- every id mentioned by committed data has a committed uri↔id row. -/
def IdsCover (d : Disk) : Prop := ∀ b ∈ d.data, ∀ i ∈ b, i ∈ d.ids

/-! ## badger Sequence as a lease automaton -/

/-- `disk` = the stored lease; `mem = some (next, leased)` while the store is open. -/
structure Seq where
  bw : Nat                       -- bandwidth (> 0)
  disk : Nat := 0
  mem : Option (Nat × Nat) := none
  deriving Repr

inductive SeqOp where
  | open       -- GetSequence: next := stored, lease one bandwidth
  | next       -- Sequence.Next
  | release    -- Sequence.Release (graceful close): stored := next
  | crash      -- the process dies: memory is gone, the stored lease stays
  deriving Repr, DecidableEq

/-- one operation; returns the number handed out by `next`. -/
def Seq.step (s : Seq) : SeqOp → Seq × Option Nat
  | .open => ({ s with mem := some (s.disk, s.disk + s.bw), disk := s.disk + s.bw }, none)
  | .next =>
    match s.mem with
    | none => (s, none)
    | some (n, l) =>
      if n < l then ({ s with mem := some (n + 1, l) }, some n)
      else ({ s with mem := some (n + 1, s.disk + s.bw), disk := s.disk + s.bw }, some n)   -- updateLease, then hand out
  | .release =>
    match s.mem with
    | none => (s, none)
    | some (n, _) => ({ s with mem := none, disk := n }, none)
  | .crash => ({ s with mem := none }, none)

/-- numbers handed out by a run of operations, oldest first. -/
def Seq.run (s : Seq) : List SeqOp → Seq × List Nat
  | [] => (s, [])
  | op :: ops =>
    let r := s.step op
    let q := Seq.run r.1 ops
    (q.1, (match r.2 with | some n => [n] | none => []) ++ q.2)

end Hub.Crash
