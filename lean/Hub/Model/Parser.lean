/-!
# The UDA stream parser (internal/server/streamparser.go) over the token stream of encoding/json

`json.Decoder.Token()` turns the request body into a stream of tokens (delimiters, strings, numbers,
booleans, null) and reports a syntax error or the end of input as an error; the parser never looks at
bytes. The model is the parser over that token stream, branch for branch (including the branches the
tokenizer's grammar makes unreachable: the model is total over *arbitrary* token lists).
`bad` is "Token() returned an error" (syntax error, unexpected end of input); the end of the list is
`io.EOF`. Identifier resolution (`Store.GetNamespacedIdentifier` under the payload's context) is the
parameter `res`. Numbers are opaque (their text). `recorded` is checked for its type only: what is
stored gets its time from the write. Core Lean only.
-/
namespace Hub.Parser

inductive Tok where
  | lb | rb | la | ra            -- { } [ ]
  | str (s : String)
  | num (n : String)
  | bool (b : Bool)
  | null
  | bad
  deriving Repr, BEq, DecidableEq, Inhabited

/-- a reference value: one id or an array of ids. -/
inductive R where
  | one (s : String)
  | many (l : List String)
  deriving Repr, BEq, DecidableEq, Inhabited

/-- parsed values. Property and reference maps are kept as the list of assignments in arrival order
(a later assignment of a key wins, as in the Go map). -/
inductive V where
  | null
  | str (s : String)
  | num (n : String)
  | bool (b : Bool)
  | arr (l : List V)
  | ent (id : String) (deleted : Bool) (props : List (String × V)) (refs : List (String × R))
  deriving Repr, Inhabited

structure Acc where
  id : String := ""
  deleted : Bool := false
  props : List (String × V) := []
  refs : List (String × R) := []
  cont : Bool := false
  deriving Inhabited

def Acc.toV (a : Acc) : V := .ent a.id a.deleted a.props a.refs

abbrev P (α : Type) := Except String (α × List Tok)

/-- what `Properties["token"] = val` holds for a token (a delimiter is a rune). -/
def tokAsV : Tok → V
  | .str s => .str s | .num n => .num n | .bool b => .bool b | .null => .null
  | .lb => .num "123" | .rb => .num "125" | .la => .num "91" | .ra => .num "93" | .bad => .null

/-- `skipValue`'s inner loop: consume until the opened delimiters are closed. -/
def skipDepth : Nat → Nat → List Tok → P Unit
  | 0, _, _ => .error "fuel"
  | _ + 1, 0, ts => .ok ((), ts)
  | _ + 1, _ + 1, [] => .error "eof"
  | _ + 1, _ + 1, .bad :: _ => .error "bad token"
  | f + 1, d + 1, .lb :: ts => skipDepth f (d + 2) ts
  | f + 1, d + 1, .la :: ts => skipDepth f (d + 2) ts
  | f + 1, d + 1, .rb :: ts => skipDepth f d ts
  | f + 1, d + 1, .ra :: ts => skipDepth f d ts
  | f + 1, d + 1, _ :: ts => skipDepth f (d + 1) ts

/-- `skipValue`: one complete value. -/
def skip (f : Nat) : List Tok → P Unit
  | [] => .error "eof"
  | .bad :: _ => .error "bad token"
  | .lb :: ts => skipDepth f 1 ts
  | .la :: ts => skipDepth f 1 ts
  | _ :: ts => .ok ((), ts)

/-- `parseRefArray`. -/
def pRefArray (res : String → Except String String) : Nat → List String → List Tok → P (List String)
  | 0, _, _ => .error "fuel"
  | _ + 1, _, [] => .error "eof"
  | _ + 1, _, .bad :: _ => .error "bad token"
  | _ + 1, acc, .ra :: ts => .ok (acc, ts)
  | f + 1, acc, .lb :: ts => pRefArray res f acc ts
  | f + 1, acc, .rb :: ts => pRefArray res f acc ts
  | f + 1, acc, .la :: ts => pRefArray res f acc ts
  | f + 1, acc, .str s :: ts =>
    match res s with
    | .ok r => pRefArray res f (acc ++ [r]) ts
    | .error e => .error e
  | _ + 1, _, _ :: _ => .error "unknown type"

/-- `parseRefValue`. -/
def pRefValue (res : String → Except String String) (f : Nat) : List Tok → P R
  | [] => .error "eof"
  | .bad :: _ => .error "bad token"
  | .la :: ts => match pRefArray res f [] ts with
    | .ok (l, r) => .ok (.many l, r)
    | .error e => .error e
  | .lb :: _ => .error "a reference value must be a string or an array of strings"
  | .rb :: _ => .error "a reference value must be a string or an array of strings"
  | .ra :: _ => .error "a reference value must be a string or an array of strings"
  | .str s :: ts => match res s with
    | .ok r => .ok (.one r, ts)
    | .error e => .error e
  | _ :: _ => .error "unknown token in parse ref value"

/-- `parseReferences`' loop. -/
def pRefsLoop (res : String → Except String String) : Nat → List (String × R) → List Tok → P (List (String × R))
  | 0, _, _ => .error "fuel"
  | _ + 1, _, [] => .error "eof"
  | _ + 1, _, .bad :: _ => .error "bad token"
  | _ + 1, acc, .rb :: ts => .ok (acc, ts)
  | f + 1, acc, .lb :: ts => pRefsLoop res f acc ts
  | f + 1, acc, .la :: ts => pRefsLoop res f acc ts
  | f + 1, acc, .ra :: ts => pRefsLoop res f acc ts
  | f + 1, acc, .str k :: ts =>
    match pRefValue res f ts with
    | .error e => .error e
    | .ok (v, r) => match res k with
      | .error e => .error e
      | .ok k' => pRefsLoop res f (acc ++ [(k', v)]) r
  | _ + 1, _, _ :: _ => .error "unknown type"

def pRefs (res : String → Except String String) (f : Nat) : List Tok → P (List (String × R))
  | .lb :: ts => pRefsLoop res f [] ts
  | _ => .error "references must be an object"

mutual
/-- `parseEntity` (after its opening brace). -/
def pEntity (res : String → Except String String) : Nat → Acc → List Tok → P V
  | 0, _, _ => .error "fuel"
  | _ + 1, _, [] => .error "eof"
  | _ + 1, _, .bad :: _ => .error "bad token"
  | _ + 1, a, .rb :: ts => .ok (a.toV, ts)
  | f + 1, a, .lb :: ts => pEntity res f a ts
  | f + 1, a, .la :: ts => pEntity res f a ts
  | f + 1, a, .ra :: ts => pEntity res f a ts
  | f + 1, a, .str k :: ts =>
    if k = "id" then
      match ts with
      | .str s :: r =>
        if s = "@continuation" then pEntity res f { a with id := s, cont := true } r
        else match res s with
          | .ok i => pEntity res f { a with id := i } r
          | .error e => .error e
      | _ => .error "id must be a string"
    else if k = "recorded" then
      match ts with
      | .num _ :: r => pEntity res f a r
      | _ => .error "recorded must be a number"
    else if k = "deleted" then
      match ts with
      | .bool b :: r => pEntity res f { a with deleted := b } r
      | _ => .error "deleted must be a boolean"
    else if k = "props" then
      match pProps res f ts with
      | .ok (p, r) => pEntity res f { a with props := p } r
      | .error e => .error e
    else if k = "refs" then
      match pRefs res f ts with
      | .ok (p, r) => pEntity res f { a with refs := p } r
      | .error e => .error e
    else if k = "token" then
      if a.cont then
        match ts with
        | [] => .error "eof"
        | .bad :: _ => .error "bad token"
        | t :: r => pEntity res f { a with props := [("token", tokAsV t)] } r
      else .error "token property found but not a continuation entity"
    else
      match skip f ts with
      | .ok (_, r) => pEntity res f a r
      | .error e => .error e
  | _ + 1, _, _ :: _ => .error "unexpected value in entity"

/-- `parseProperties` (the opening brace, then the loop). -/
def pProps (res : String → Except String String) : Nat → List Tok → P (List (String × V))
  | 0, _ => .error "fuel"
  | f + 1, .lb :: ts => pPropsLoop res f [] ts
  | _ + 1, _ => .error "properties must be an object"

def pPropsLoop (res : String → Except String String) : Nat → List (String × V) → List Tok → P (List (String × V))
  | 0, _, _ => .error "fuel"
  | _ + 1, _, [] => .error "eof"
  | _ + 1, _, .bad :: _ => .error "bad token"
  | _ + 1, acc, .rb :: ts => .ok (acc, ts)
  | f + 1, acc, .lb :: ts => pPropsLoop res f acc ts
  | f + 1, acc, .la :: ts => pPropsLoop res f acc ts
  | f + 1, acc, .ra :: ts => pPropsLoop res f acc ts
  | f + 1, acc, .str k :: ts =>
    match pValue res f ts with
    | .error e => .error e
    | .ok (none, r) => pPropsLoop res f acc r           -- null: the field is dropped
    | .ok (some v, r) => match res k with
      | .error e => .error e
      | .ok k' => pPropsLoop res f (acc ++ [(k', v)]) r
  | _ + 1, _, _ :: _ => .error "unknown type"

/-- `parseValue`: `none` = json null. -/
def pValue (res : String → Except String String) : Nat → List Tok → P (Option V)
  | 0, _ => .error "fuel"
  | _ + 1, [] => .error "eof"
  | _ + 1, .bad :: _ => .error "bad token"
  | _ + 1, .null :: ts => .ok (none, ts)
  | f + 1, .lb :: ts => match pEntity res f {} ts with
    | .ok (e, r) => .ok (some e, r)
    | .error e => .error e
  | f + 1, .la :: ts => match pArray res f [] ts with
    | .ok (l, r) => .ok (some (.arr l), r)
    | .error e => .error e
  | f + 1, .rb :: ts => pValue res f ts
  | f + 1, .ra :: ts => pValue res f ts
  | _ + 1, .str s :: ts => .ok (some (.str s), ts)
  | _ + 1, .num n :: ts => .ok (some (.num n), ts)
  | _ + 1, .bool b :: ts => .ok (some (.bool b), ts)

/-- `parseArray`. -/
def pArray (res : String → Except String String) : Nat → List V → List Tok → P (List V)
  | 0, _, _ => .error "fuel"
  | _ + 1, _, [] => .error "eof"
  | _ + 1, _, .bad :: _ => .error "bad token"
  | _ + 1, acc, .ra :: ts => .ok (acc, ts)
  | f + 1, acc, .rb :: ts => pArray res f acc ts
  | f + 1, acc, .lb :: ts => match pEntity res f {} ts with
    | .ok (e, r) => pArray res f (acc ++ [e]) r
    | .error e => .error e
  | f + 1, acc, .la :: ts => match pArray res f [] ts with
    | .ok (l, r) => pArray res f (acc ++ [.arr l]) r
    | .error e => .error e
  | f + 1, acc, .str s :: ts => pArray res f (acc ++ [.str s]) ts
  | f + 1, acc, .num n :: ts => pArray res f (acc ++ [.num n]) ts
  | f + 1, acc, .bool b :: ts => pArray res f (acc ++ [.bool b]) ts
  | _ + 1, _, .null :: _ => .error "unknown type"
end

/-! ## The context object (`decoder.Decode(&context)` + `readNamespaces`) -/

/-- the `namespaces` member as decoded: an object of (prefix, string-or-other), null, or something else. -/
inductive NsVal where
  | absent                                   -- no member / null
  | obj (l : List (String × Option String))  -- none = a non-string value
  | other
  deriving Repr, Inhabited

structure Ctx where
  id : Option String := none     -- some s when the last `id` member is a string
  ns : NsVal := .absent
  deriving Inhabited

/-- members of the namespaces object: string values are kept, any other value is skipped whole. -/
def pNsObj : Nat → List (String × Option String) → List Tok → P (List (String × Option String))
  | 0, _, _ => .error "fuel"
  | _ + 1, acc, .rb :: ts => .ok (acc, ts)
  | f + 1, acc, .str k :: .str v :: ts => pNsObj f (acc ++ [(k, some v)]) ts
  | f + 1, acc, .str k :: ts => match skip f ts with
    | .ok (_, r) => pNsObj f (acc ++ [(k, none)]) r
    | .error e => .error e
  | _ + 1, _, _ => .error "bad token"

/-- members of the context object. -/
def pCtxObj : Nat → Ctx → List Tok → P Ctx
  | 0, _, _ => .error "fuel"
  | _ + 1, c, .rb :: ts => .ok (c, ts)
  | f + 1, c, .str k :: ts =>
    if k = "id" then
      match ts with
      | .str s :: r => pCtxObj f { c with id := some s } r
      | _ => match skip f ts with
        | .ok (_, r) => pCtxObj f { c with id := none } r
        | .error e => .error e
    else if k = "namespaces" then
      match ts with
      | .lb :: r => match pNsObj f [] r with
        | .ok (l, r') => pCtxObj f { c with ns := .obj l } r'
        | .error e => .error e
      | .null :: r => pCtxObj f { c with ns := .absent } r
      | _ => match skip f ts with
        | .ok (_, r) => pCtxObj f { c with ns := .other } r
        | .error e => .error e
    else match skip f ts with
      | .ok (_, r) => pCtxObj f c r
      | .error e => .error e
  | _ + 1, _, _ => .error "bad token"

/-- later assignment of a key wins. -/
def setKey {β : Type} (k : String) (v : β) : List (String × β) → List (String × β)
  | [] => [(k, v)]
  | (k', v') :: r => if k' = k then (k, v) :: r else (k', v') :: setKey k v r

/-- `readNamespaces`: the prefix table, or an error. -/
def readNs : NsVal → Except String (List (String × String))
  | .absent => .ok []
  | .other => .error "namespaces of the context must be an object"
  | .obj l =>
    if l.any (·.2.isNone) then .error "namespace expansion must be a string"
    else .ok (l.foldl (fun acc kv => match kv.2 with | some v => setKey kv.1 v acc | none => acc) [])

/-! ## `GetNamespacedIdentifier` with the result expanded to the full URI -/

def lookupNs (ns : List (String × String)) (p : String) : String :=
  match ns.find? (·.1 == p) with
  | some kv => kv.2
  | none => ""

def isHttp (s : String) : Bool :=
  "http://".toList.isPrefixOf s.toList || "https://".toList.isPrefixOf s.toList

def resolve (ns : List (String × String)) (s : String) : Except String String :=
  if s = "" then .error "empty value not allowed"
  else if isHttp s then .ok s
  else
    let cs := s.toList
    if cs.contains ':' then
      let p := String.ofList (cs.takeWhile (· != ':'))
      let rest := String.ofList ((cs.dropWhile (· != ':')).drop 1)
      let ex := lookupNs ns p
      if ex = "" then .error ("no expansion for prefix " ++ p) else .ok (ex ++ rest)
    else
      let ex := lookupNs ns "_"
      if ex = "" then .error "no expansion for default prefix _ " else .ok (ex ++ s)

/-! ## `ParseStream` -/

structure Out where
  emitted : List V := []
  err : Option String := none
  deriving Inhabited

/-- the element loop of `ParseStream`: the collection ends at its closing bracket, after which only
the end of the input may follow. -/
def pElems (res : String → Except String String) : Nat → List V → List Tok → Out
  | 0, acc, _ => { emitted := acc, err := some "fuel" }
  | _ + 1, acc, [] => { emitted := acc, err := some "unexpected end of stream" }
  | _ + 1, acc, .bad :: _ => { emitted := acc, err := some "bad token" }
  | f + 1, acc, .lb :: ts => match pEntity res f {} ts with
    | .ok (e, r) => pElems res f (acc ++ [e]) r
    | .error e => { emitted := acc, err := some e }
  | _ + 1, acc, .ra :: ts =>
    match ts with
    | [] => { emitted := acc, err := none }
    | _ => { emitted := acc, err := some "unexpected data after the end of the entity array" }
  | f + 1, acc, .la :: ts => pElems res f acc ts
  | f + 1, acc, .rb :: ts => pElems res f acc ts
  | _ + 1, acc, _ :: _ => { emitted := acc, err := some "unexpected value in entity array" }

def fuelFor (ts : List Tok) : Nat := ts.length + 2

def parseStream (ts : List Tok) : Out :=
  match ts with
  | .la :: .lb :: r =>
    match pCtxObj (fuelFor ts) {} r with
    | .error e => { err := some e }
    | .ok (c, r') =>
      if c.id = some "@context" then
        match readNs c.ns with
        | .error e => { err := some e }
        | .ok ns => pElems (resolve ns) (fuelFor ts) [] r'
      else { err := some "first entity in array must be a context" }
  | .la :: _ => { err := some "unable to decode context" }
  | _ => { err := some "expected [ at start of document" }

/-! ## Serialisation and denotation (the specification side) -/


/-! serialisation of a value tree to tokens (key order as encoding/json writes the entity map:
deleted, id, props, refs — `recorded` is written too and is skipped by type only) -/
def refToks : R → List Tok
  | .one s => [.str s]
  | .many l => .la :: l.map .str ++ [.ra]

def refsToks : List (String × R) → List Tok
  | [] => []
  | (k, v) :: r => .str k :: refToks v ++ refsToks r

mutual
def toks : V → List Tok
  | .null => [.null]
  | .str s => [.str s]
  | .num n => [.num n]
  | .bool b => [.bool b]
  | .arr l => .la :: toksL l ++ [.ra]
  | .ent id del props refs =>
    [.lb, .str "deleted", .bool del, .str "id", .str id, .str "props", .lb] ++ toksP props
      ++ [.rb, .str "recorded", .num "0", .str "refs", .lb] ++ refsToks refs ++ [.rb, .rb]
def toksL : List V → List Tok
  | [] => []
  | v :: r => toks v ++ toksL r
def toksP : List (String × V) → List Tok
  | [] => []
  | (k, v) :: r => .str k :: toks v ++ toksP r
end

/-! the denotation of a source tree under an identifier resolution: ids, property names and
references resolved; `none` when something does not resolve or the tree contains what the format
does not have (null, the continuation id as an entity id) -/
def resO (res : String → Except String String) (s : String) : Option String :=
  match res s with | .ok r => some r | .error _ => none

def mapRes (res : String → Except String String) : List String → Option (List String)
  | [] => some []
  | s :: l => match resO res s, mapRes res l with
    | some s', some l' => some (s' :: l')
    | _, _ => none

def expR (res : String → Except String String) : R → Option R
  | .one s => (resO res s).map .one
  | .many l => (mapRes res l).map .many

def expRefs (res : String → Except String String) : List (String × R) → Option (List (String × R))
  | [] => some []
  | (k, v) :: r => match res k, expR res v, expRefs res r with
    | .ok k', some v', some r' => some ((k', v') :: r')
    | _, _, _ => none

mutual
def exp (res : String → Except String String) : V → Option V
  | .null => none
  | .str s => some (.str s)
  | .num n => some (.num n)
  | .bool b => some (.bool b)
  | .arr l => (expL res l).map .arr
  | .ent id del props refs =>
    if id = "@continuation" then none else
    match res id, expP res props, expRefs res refs with
    | .ok i, some p, some r => some (.ent i del p r)
    | _, _, _ => none
def expL (res : String → Except String String) : List V → Option (List V)
  | [] => some []
  | v :: r => match exp res v, expL res r with
    | some v', some r' => some (v' :: r')
    | _, _ => none
def expP (res : String → Except String String) : List (String × V) → Option (List (String × V))
  | [] => some []
  | (_, .null) :: r => expP res r                       -- a null-valued property denotes "absent"
  | (k, v) :: r => match res k, exp res v, expP res r with
    | .ok k', some v', some r' => some ((k', v') :: r')
    | _, _, _ => none
end


end Hub.Parser
