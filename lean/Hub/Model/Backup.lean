/-!
# Incremental native backup (internal/server/backup.go over badger's `DB.Backup` / `DB.Load`)

badger as a versioned log: every committed write `(key, value?)` gets the next version (its index
in the log, `none` = delete). `Backup(since)` appends to the file every entry with version ≥ `since`
that is the newest for its key and returns the largest version written; `Load` applies a file, the
largest version of a key wins. The manager keeps the cursor in the backup location and never moves
it backwards. Core Lean only.
-/
namespace Hub.Backup

abbrev Entry := Nat × Option Nat          -- key, value (none = deleted)
abbrev Log := List Entry                  -- version = position (0-based)
abbrev Dump := List (Nat × Entry)         -- (version, entry) as written to the backup file

/-- newest value of a key in a log. -/
def stateOf (l : Log) (k : Nat) : Option Nat :=
  match (l.reverse.find? (·.1 == k)) with
  | some e => e.2
  | none => none

/-- is the entry at version `v` the newest for its key? -/
def isNewest (l : Log) (v : Nat) (e : Entry) : Bool := !((l.drop (v + 1)).any (·.1 == e.1))

/-- `DB.Backup(w, since)`: entries of version ≥ since that are the newest of their key. -/
def backup (l : Log) (since : Nat) : Dump :=
  (l.zipIdx.map fun (e, v) => (v, e)).filter fun (v, e) => decide (since ≤ v) && isNewest l v e

structure Mgr where
  file : Dump := []
  cursor : Nat := 0        -- persisted in the location (datahub-backup.lastseen)

/-- one `BackupManager.Run` (native mode). -/
def run (m : Mgr) (l : Log) : Mgr :=
  let d := backup l m.cursor
  let mx := d.foldl (fun a x => max a x.1) 0
  { file := m.file ++ d, cursor := if mx > m.cursor then mx else m.cursor }

/-- `DB.Load`: the largest version of a key wins. -/
def loadOf (f : Dump) (k : Nat) : Option Nat :=
  let es := f.filter (·.2.1 == k)
  match es.foldl (fun (best : Option (Nat × Entry)) x => match best with
      | none => some x
      | some b => if b.1 ≤ x.1 then some x else some b) none with
  | some b => b.2.2
  | none => none

end Hub.Backup
