import Hub.Model.Store
/-!
# The copy job: source(s) → pipeline → dataset sink  (internal/jobs/pipeline.go, sink.go,
source/dataset_source.go, source/union_source.go)

Executable model that follows the Go code statement by statement:

* a dataset is its change feed (accepted versions, position = index); storing a batch appends every
  element that differs from the latest version of its id (write-time duplicate detection, C01/C02);
* `readPage` = `Dataset.ProcessChanges(since, batch, latestOnly)` (the scan of `Hub.Store.pageG`);
* `procEnt` = the `processEntities` closure of both pipelines: interrupt check, sink call, token
  capture (and, in the incremental pipeline, token store), `keepReading`;
* `loopDS` = the `for keepReading` loop around `DatasetSource.ReadEntities` (one page per call);
* `loopU` = `UnionDatasetSource.ReadEntities` with `UnionDatasetContinuation.Update`;
* `runJob` = `IncrementalPipeline.sync` / `FullSyncPipeline.sync` (sink `startFullSync`, token reset,
  loop, `CompleteFullSync`, final token store).

Faults are part of the run's script: the sink rejects its k-th call, the run context is cancelled
after the k-th accepted batch (kill), or the process dies between the sink write and the token store.
Core Lean only.
-/
namespace Hub.Pipe

structure Ver where
  id : Nat
  c : Nat
  del : Bool
  deriving DecidableEq, Repr

abbrev Feed := List Ver

def latestV (f : Feed) (id : Nat) : Option Ver := f.reverse.find? (fun v => v.id == id)

/-- write-time duplicate detection: an element identical to the latest version of its id is dropped. -/
def store1 (f : Feed) (v : Ver) : Feed := if latestV f v.id = some v then f else f ++ [v]
def storeBatch (f : Feed) (b : List Ver) : Feed := b.foldl store1 f

/-- ids of a feed in first-appearance order, without repetition. -/
def idsOf (f : Feed) : List Nat := (f.map (·.id)).eraseDups

/-- the latest view: the latest version of every id. -/
def view (f : Feed) : List Ver := (idsOf f).filterMap (latestV f)

def isLatestAt (f : Feed) (p : Nat) (v : Ver) : Bool := !((f.drop (p + 1)).any (fun w => w.id == v.id))

/-- `ProcessChanges(since, limit, latestOnly)`: emitted versions and the next token. -/
def readPage (f : Feed) (since limit : Nat) (latestOnly : Bool) : List Ver × Nat :=
  let es : List (Nat × (Nat × Ver)) := f.zipIdx.map (fun p => (p.2, (p.2, p.1)))
  Hub.Store.pageG (fun (k : Nat × Ver) => if !latestOnly || isLatestAt f k.1 k.2 then some k.2 else none) es since limit

structure Sink where
  feed : Feed := []
  started : Bool := false          -- Dataset.fullSyncStarted
  seen : List Nat := []            -- Dataset.fullSyncSeen
  deriving Repr

def Sink.process (s : Sink) (b : List Ver) : Sink :=
  { s with feed := storeBatch s.feed b, seen := if s.started then s.seen ++ b.map (·.id) else s.seen }

def Sink.start (s : Sink) : Sink := { s with started := true, seen := [] }

/-- `Dataset.CompleteFullSync`: every live entity that was not written since the start is stored as
deleted; `none` when no full sync is in progress. -/
def Sink.complete (s : Sink) : Option Sink :=
  if !s.started then none else
  let dels := (view s.feed).filter (fun v => !v.del && !s.seen.contains v.id) |>.map (fun v => { v with del := true })
  some { feed := storeBatch s.feed dels, started := false, seen := [] }

structure Faults where
  failAt : Option Nat := none      -- the sink rejects this call (0-based index of sink calls in the run)
  killAfter : Option Nat := none   -- the context is cancelled after this many accepted batches (0 = before the run)
  dieAfter : Option Nat := none    -- the process dies right after this many accepted batches (before the token store)
  deriving Repr

abbrev Tok := List (Option Nat)    -- [] = "", one entry per member dataset, `none` = "" inside a union token

structure RS where
  sink : Sink
  tok : Tok          -- persisted (`SyncJobState` under `JobDataIndex`)
  cur : Tok          -- `syncJobState.ContinuationToken` in memory
  accepted : Nat := 0
  calls : Nat := 0
  deriving Repr

inductive Out where
  | cont | stop | err | died
  deriving DecidableEq, Repr

def cancelled (flt : Faults) (accepted : Nat) : Bool :=
  match flt.killAfter with
  | some k => decide (k ≤ accepted)
  | none => false

/-- the `processEntities` closure. `persistNow` = incremental pipeline (token stored per page). -/
def procEnt (flt : Faults) (persistNow : Bool) (page : List Ver) (tokNew : Tok) (rs : RS) : RS × Out :=
  if cancelled flt rs.accepted then (rs, .err) else
  if page.isEmpty then
    ({ rs with cur := tokNew, tok := if persistNow then tokNew else rs.tok }, .stop)
  else if flt.failAt = some rs.calls then ({ rs with calls := rs.calls + 1 }, .err)
  else
    let rs1 := { rs with sink := rs.sink.process page, accepted := rs.accepted + 1, calls := rs.calls + 1 }
    if flt.dieAfter = some rs1.accepted then (rs1, .died)
    else ({ rs1 with cur := tokNew, tok := if persistNow then tokNew else rs1.tok }, .cont)

/-- the `for keepReading` loop around `DatasetSource.ReadEntities`. -/
def loopDS (src : Feed) (batch : Nat) (lo : Bool) (flt : Faults) (persistNow : Bool) : Nat → RS → RS × Out
  | 0, rs => (rs, .err)      -- out of fuel (never reached: fuel = feed length + 2)
  | fuel + 1, rs =>
    let since := match rs.cur with | [some n] => n | _ => 0
    let (page, cont) := readPage src since batch lo
    match procEnt flt persistNow page [some cont] rs with
    | (rs', .cont) => loopDS src batch lo flt persistNow fuel rs'
    | r => r

/-- `UnionDatasetSource.ReadEntities`. -/
def loopU (srcs : List Feed) (batch : Nat) (lo : Bool) (flt : Faults) (persistNow : Bool) : Nat → Tok → Nat → RS → RS × Out
  | 0, _, _, rs => (rs, .err)
  | fuel + 1, d, active, rs =>
    if cancelled flt rs.accepted then (rs, .err) else
    let src := srcs.getD active []
    let prev := d.getD active none
    let (page, cont) := readPage src (prev.getD 0) batch lo
    let d' := d.set active (some cont)
    let same := decide (some cont = prev)
    let keepGoing := !same || decide (active + 1 < srcs.length)
    let active' := if same && decide (active + 1 < srcs.length) then active + 1 else active
    if !page.isEmpty || !keepGoing then
      match procEnt flt persistNow page d' rs with
      | (rs', .cont) => if keepGoing then loopU srcs batch lo flt persistNow fuel d' active' rs' else (rs', .stop)
      | (rs', .stop) => if keepGoing then loopU srcs batch lo flt persistNow fuel d' active' rs' else (rs', .stop)
      | r => r
    else loopU srcs batch lo flt persistNow fuel d' active' rs

structure Cfg where
  union : Bool
  latestOnly : Bool
  batch : Nat
  deriving Repr

structure St where
  srcs : List Feed
  sink : Sink := {}
  tok : Tok := []
  deriving Repr

inductive Res where
  | ok | err | died
  deriving DecidableEq, Repr

def fuelOf (srcs : List Feed) : Nat := (srcs.map List.length).sum * 2 + 2 * srcs.length + 4

def readAll (cfg : Cfg) (srcs : List Feed) (flt : Faults) (persistNow : Bool) (rs : RS) : RS × Out :=
  if cfg.union then
    let d := if rs.cur.isEmpty then List.replicate srcs.length none else rs.cur
    loopU srcs cfg.batch cfg.latestOnly flt persistNow (fuelOf srcs) d 0 rs
  else loopDS (srcs.getD 0 []) cfg.batch cfg.latestOnly flt persistNow (fuelOf srcs) rs

/-- `resetAtStart` = the full sync clears the stored token when it starts (the repaired code);
regenerated fact `Hub.Generated.Pipeline.fullSyncResetsToken`. -/
def runJob (resetAtStart : Bool) (cfg : Cfg) (full : Bool) (flt : Faults) (s : St) : St × Res :=
  if !full then
    let (rs, out) := readAll cfg s.srcs flt true { sink := s.sink, tok := s.tok, cur := s.tok }
    ({ s with sink := rs.sink, tok := rs.tok }, match out with | .stop => .ok | .died => .died | _ => .err)
  else
    let rs0 : RS := { sink := s.sink.start, tok := if resetAtStart then [] else s.tok, cur := [] }
    let (rs, out) := readAll cfg s.srcs flt false rs0
    match out with
    | .stop =>
      match rs.sink.complete with
      | none => ({ s with sink := rs.sink, tok := rs.tok }, .err)
      | some sk => ({ s with sink := sk, tok := rs.cur }, .ok)
    | .died => ({ s with sink := rs.sink, tok := rs.tok }, .died)
    | _ => ({ s with sink := rs.sink, tok := rs.tok }, .err)

/-- a source write: one batch stored into member dataset `i`. -/
def writeSrc (s : St) (i : Nat) (b : List Ver) : St :=
  { s with srcs := s.srcs.set i (storeBatch (s.srcs.getD i []) b) }

-- ------------------------------------------------------------------------------------------
-- the property, as evaluated on a state

/-- the source's latest view (member datasets have disjoint ids). -/
def srcView (s : St) : List Ver := s.srcs.flatMap view

def sameView (a b : List Ver) : Bool := a.all (fun v => b.contains v) && b.all (fun v => a.contains v)

/-- ids whose latest source version is below the stored token but is not what the sink holds:
the token points past data that is not in the sink. -/
def behind (s : St) : List Nat :=
  (s.srcs.zipIdx.flatMap fun (f, i) =>
    let tk := ((s.tok.getD i none).getD 0)
    (idsOf f).filter fun id =>
      match latestV f id with
      | none => false
      | some v =>
        let p := f.length - 1 - (f.reverse.findIdx (fun w => w.id == id))
        decide (p < tk) && latestV s.sink.feed id != some v)

-- ------------------------------------------------------------------------------------------
-- reading the regenerated skeletons (tools/factgen/pipeline.go)

/-- does the full-sync pipeline clear the stored token right after the sink's full sync has started? -/
def resetAtStart (sk : List String) : Bool :=
  let afterStart := (sk.dropWhile (· != "pipeline.sink.startFullSync")).takeWhile (· != "for {")
  let afterClear := afterStart.dropWhile (· != "set syncJobState.ContinuationToken = \"\"")
  afterClear.contains "runner.store.StoreObject"

/-- the sub-sequence of the tokens in `keep`. -/
def proj (keep : List String) (l : List String) : List String := l.filter (fun t => keep.contains t)

/-- every occurrence of `call` is directly followed by an error check that leaves the function. -/
def errChecked (call : String) : List String → Bool
  | [] => true
  | [x] => x != call
  | x :: y :: r => (x != call || y == "ret-on-err") && errChecked call (y :: r)

end Hub.Pipe
