import Hub.Model.Store
/-!
# MultiSource: dependency tracking (internal/jobs/source/multi_source.go, multi_source_dep_builder.go)

The algorithm of `processDependency`, generic in the relation it follows: instantiated with the
index scans of `Hub.Store` (`relatedOut` / `relatedIn`, all pages) it is the model of the code; instantiated
with the graph implied by the latest versions it is the specification of C18. Core Lean only.
-/
namespace Hub.Multi
open Hub.Store

structure Join where
  ds : String
  pred : String
  inv : Bool
  deriving DecidableEq, Repr

structure Dep where
  ds : String
  joins : List Join
  deriving DecidableEq, Repr

/-! ## the dependency builder -/

/-- `DedupAndTrackImplicitDependencies`: every intermediate join dataset (other than the main dataset)
becomes a dependency of its own with the remaining joins; duplicates (same dataset, same joins) are dropped,
first occurrence kept. -/
def implicitOf (main : String) (d : Dep) : List Dep :=
  (d.joins.zipIdx.filter (fun ji => ji.1.ds != main)).map fun ji => { ds := ji.1.ds, joins := d.joins.drop (ji.2 + 1) }

def depKey (d : Dep) : String :=
  d.ds ++ ">" ++ String.join (d.joins.map fun j => j.ds ++ "|" ++ j.pred ++ "|" ++ (if j.inv then "true" else "false"))

def dedupDeps : List Dep → List String → List Dep
  | [], _ => []
  | d :: ds, seen => if seen.contains (depKey d) then dedupDeps ds seen else d :: dedupDeps ds (depKey d :: seen)

def buildDeps (main : String) (declared : List Dep) : List Dep :=
  dedupDeps (declared ++ declared.flatMap (implicitOf main)) []

/-- a `track_queries` registration: the chain of hops from the main dataset, as registered. -/
structure Hop where
  ds : String
  pred : String
  inv : Bool
  deriving DecidableEq, Repr

/-- the dependency a registered chain of hops becomes: the path reversed, directions flipped, each join
landing in the dataset the hop started from; the dependency dataset is the last hop's. -/
def reverseHops (main : String) (hops : List Hop) : Option Dep :=
  match hops.getLast? with
  | none => none
  | some last =>
    let froms := main :: (hops.map (·.ds)).dropLast           -- dataset each hop starts from
    let joins := (hops.zip froms).map fun hf => ({ ds := hf.2, pred := hf.1.pred, inv := !hf.1.inv } : Join)
    some { ds := last.ds, joins := joins.reverse }

/-! ## one dependency window -/

/-- `rel start pred inverse scope at` = ids related to `start` (all pages of the query put together). -/
abbrev Rel := Nat → Nat → Bool → List Nat → Nat → List Nat

/-- the join loop of `processDependency`. `predId` resolves a predicate (`none`: the hub has never seen
it — the chain yields nothing), `dsId` a dataset name (unknown names are dropped from the scope).
`prevAt` = commit time of the last change of the previous window, used for the first join when it is
not inverse. Returns the ids that reach the end of the chain (before the lookup in the main dataset). -/
def chainFrom (rel : Rel) (predId : String → Option Nat) (dsId : String → Option Nat) (now : Nat) (prevAt : Option Nat) :
    Nat → String → List Nat → List Join → List Nat
  | _, _, starts, [] => starts
  | idx, prevDs, starts, j :: rest =>
    match predId j.pred with
    | none => chainFrom rel predId dsId now prevAt (idx + 1) prevDs [] rest
    | some p =>
      let scope := [prevDs, j.ds].filterMap dsId
      let reached := starts.flatMap fun s =>
        rel s p j.inv scope now ++
          (if idx = 0 && !j.inv then (match prevAt with | some t => rel s p false scope t | none => []) else [])
      chainFrom rel predId dsId now prevAt (idx + 1) j.ds reached.eraseDups rest

def chain (rel : Rel) (predId : String → Option Nat) (dsId : String → Option Nat) (now : Nat) (prevAt : Option Nat)
    (dep : Dep) (starts : List Nat) : List Nat :=
  if dep.joins.isEmpty then [] else chainFrom rel predId dsId now prevAt 0 dep.ds starts dep.joins

/-- the scans of the store model, all pages of a query with page size `limit` put together. -/
def pagesOf (db : DB) (limit : Nat) (inv : Bool) (start pred at_ : Nat) (scope : List Nat) : Nat → Option RefKey → List Nat
  | 0, _ => []
  | fuel + 1, key =>
    let (res, cont) := if inv then relatedIn db start pred at_ limit scope key else relatedOut db start pred at_ limit scope key
    res.map (·.other) ++ (match cont with | some k => pagesOf db limit inv start pred at_ scope fuel (some k) | none => [])

def scanRel (db : DB) (limit : Nat) : Rel := fun start pred inv scope at_ =>
  pagesOf db limit inv start pred at_ scope (db.refs.length + 2) none

/-! ## tokens and runs -/

structure Tok where
  main : Option Nat := none                 -- MainToken ("" = none)
  deps : List (String × Nat) := []          -- DependencyTokens
  deriving Repr, DecidableEq

def Tok.dep (t : Tok) (ds : String) : Option Nat := t.deps.lookup ds
def Tok.setDep (t : Tok) (ds : String) (n : Nat) : Tok := { t with deps := setAssoc ds n t.deps }

structure Cfg where
  main : String
  deps : List Dep
  batch : Nat
  latestOnly : Bool
  deriving Repr

/-- commit time of the first change at or after position `p` (`GetChanges(p, 1, false)`). -/
def timeAtPos (db : DB) (ds p : Nat) : Option Nat := ((changesOf db ds).find? (fun c => decide (p ≤ c.1))).map (·.2.t)

/-- is there a live version of `rid` in the main dataset (`GetEntityWithInternalID … Recorded > 0`)? -/
def mainLive (db : DB) (main rid now : Nat) : Bool := !(partialsAt db rid now [main]).1.isEmpty

/-- all dependencies of one `ReadEntities` call: returns the ids emitted by dependency tracking and the
token with the dependency windows advanced. The page of changes is cached per dataset within the call. -/
def depsPass (rel : Rel) (db : DB) (predId : String → Option Nat) (dsId : String → Option Nat) (cfg : Cfg) (now : Nat) :
    List Dep → Tok → List (String × (List Nat × Nat)) → List Nat → List Nat × Tok
  | [], tok, _, acc => (acc, tok)
  | dep :: rest, tok, cache, acc =>
    match dsId dep.ds, dsId cfg.main with
    | some dd, some mainId =>
      let since := (tok.dep dep.ds).getD 0
      let (ids, cont, cache') := match cache.lookup dep.ds with
        | some (ids, cont) => (ids, cont, cache)
        | none =>
          let pg := changesPage db dd since cfg.batch cfg.latestOnly
          (pg.1.map (·.rid), pg.2, (dep.ds, (pg.1.map (·.rid), pg.2)) :: cache)
      let prevAt := if since > 0 then timeAtPos db dd (since - 1) else none
      let reached := chain rel predId dsId now prevAt dep ids
      let emitted := reached.filter (mainLive db mainId · now)
      -- the dataset's token moves when the last dependency on that dataset is through (they share the page)
      let tok' := if rest.any (·.ds == dep.ds) then tok else tok.setDep dep.ds cont
      depsPass rel db predId dsId cfg now rest tok' cache' (acc ++ emitted)
    | _, _ => (acc, tok)      -- a missing dataset is an error of the run (not generated)

/-- `IncrementalPipeline.sync` over a MultiSource that has run before: dependency windows, then one page of
the main dataset; repeated until a main page is empty. Returns (dependency-emitted ids, main ids, token). -/
def incrRun (rel : Rel) (db : DB) (predId : String → Option Nat) (dsId : String → Option Nat) (cfg : Cfg) (now : Nat) :
    Nat → Tok → List Nat → List Nat → List Nat × List Nat × Tok
  | 0, tok, accD, accM => (accD, accM, tok)
  | fuel + 1, tok, accD, accM =>
    let (d, tok1) := depsPass rel db predId dsId cfg now cfg.deps tok [] []
    match dsId cfg.main with
    | none => (accD ++ d, accM, tok1)
    | some mainId =>
      let pg := changesPage db mainId (tok1.main.getD 0) cfg.batch cfg.latestOnly
      let tok2 := { tok1 with main := some pg.2 }
      if pg.1.isEmpty then (accD ++ d, accM, tok2)
      else incrRun rel db predId dsId cfg now fuel tok2 (accD ++ d) (accM ++ pg.1.map (·.rid))

/-- `GetChangesWatermark`: the position after the dataset's last change. -/
def watermark (db : DB) (ds : Nat) : Nat := match (changesOf db ds).getLast? with | some c => c.1 + 1 | none => 0

/-- `FullSyncPipeline.sync` (also the first run of an incremental job): the dependency tokens are set to the
watermarks taken at the start, the main dataset is read from the beginning, dependencies are not processed. -/
def fullRun (db : DB) (dsId : String → Option Nat) (cfg : Cfg) : Nat → Tok → List Nat → List Nat × Tok
  | 0, tok, accM => (accM, tok)
  | fuel + 1, tok, accM =>
    match dsId cfg.main with
    | none => (accM, tok)
    | some mainId =>
      let pg := changesPage db mainId (tok.main.getD 0) cfg.batch cfg.latestOnly
      let tok2 := { tok with main := some pg.2 }
      if pg.1.isEmpty then (accM, tok2) else fullRun db dsId cfg fuel tok2 (accM ++ pg.1.map (·.rid))

def startFull (db : DB) (dsId : String → Option Nat) (cfg : Cfg) : Tok :=
  { main := none, deps := (cfg.deps.map (·.ds)).eraseDups.filterMap fun n => (dsId n).map fun d => (n, watermark db d) }

end Hub.Multi
