/-!
# Authorization and authentication decisions

`doAclCheck` (internal/web/middlewares/authorization.go), `ServiceCore.CheckGranted/IsGranted/
FilterDatasets` (internal/security/manager.go) after the `fix:` commits for D15/D16, and the
decision part of `JwtConfig.ValidateToken` (authentication.go) over abstract token attributes.
Core Lean only.
-/
namespace Hub.Acl

structure Ac where
  resource : String
  action : String
  deny : Bool
  deriving DecidableEq, Repr

/-- needed action: `write` unless the method is GET, HEAD or OPTIONS. -/
def actionFor (method : String) : String :=
  if method = "GET" ∨ method = "HEAD" ∨ method = "OPTIONS" then "read" else "write"

/-- the pinned commit (D15): only DELETE and POST need write. -/
def actionForCur (method : String) : String :=
  if method = "DELETE" ∨ method = "POST" then "write" else "read"

/-- does the entry's action cover the needed one (`read` is covered by read and write). -/
def covers (acAction needed : String) : Bool :=
  (needed == "read" && (acAction == "read" || acAction == "write")) || needed == acAction

/-- exact resource or trailing-`*` prefix pattern. -/
def isPattern (acRes : String) : Bool := acRes.toList.getLast? == some '*'
def patternMatch (acRes path : String) : Bool := acRes.toList.dropLast.isPrefixOf path.toList
def resourceMatch (acRes path : String) : Bool :=
  acRes == path || (isPattern acRes && patternMatch acRes path)

/-- the entry applies to this request. -/
def applies (ac : Ac) (path needed : String) : Bool :=
  resourceMatch ac.resource path && covers ac.action needed

/-- `ServiceCore.CheckGranted`: exact block first, then the pattern block, `return !ac.Deny`. -/
def checkGranted (ac : Ac) (path needed : String) : Bool :=
  if ac.resource == path && covers ac.action needed then !ac.deny
  else if isPattern ac.resource && patternMatch ac.resource path && covers ac.action needed then !ac.deny
  else false

/-- the loop of `ServiceCore.IsGranted`. -/
def isGrantedLoop (path needed : String) : List Ac → Bool → Bool
  | [], granted => granted
  | ac :: rest, granted =>
    if checkGranted ac path needed then isGrantedLoop path needed rest true
    else if ac.deny && checkGranted { ac with deny := false } path needed then false
    else isGrantedLoop path needed rest granted

def isGranted (acl : List Ac) (path needed : String) : Bool := isGrantedLoop path needed acl false

/-- the pinned commit (D16): first grant wins. -/
def isGrantedCur (acl : List Ac) (path needed : String) : Bool := acl.any (checkGranted · path needed)

/-- `doAclCheck`: admin role short-circuits; otherwise the client's ACL decides. -/
def doAclCheck (method path : String) (isAdmin : Bool) (acl : List Ac) : Bool :=
  isAdmin || isGranted acl path (actionFor method)

def doAclCheckCur (method path : String) (isAdmin : Bool) (acl : List Ac) : Bool :=
  isAdmin || isGrantedCur acl path (actionForCur method)

/-- `FilterDatasets`. -/
def filterDatasets (names : List String) (acl : List Ac) : List String :=
  names.filter fun n => isGranted acl ("/datasets/" ++ n) "read"

/-! ## authentication decision -/

structure Tok where
  sigNode : Bool            -- signature verifies with the node key (and the key type fits the alg)
  sigJwks : Bool            -- signature verifies with the key the JWKS names for its kid
  claimsValid : Bool        -- exp / nbf / iat checks of the JWT library
  aud : Option String
  iss : Option String
  alg : String
  deriving DecidableEq, Repr

structure Cfg where
  jwks : Bool               -- Wellknown, Issuer and Audience configured
  audiences : List String   -- config.Audience ++ config.NodeAudience
  issuers : List String
  deriving Repr

/-- `claims.VerifyAudience(x, false)`: an absent claim passes (required = false). -/
def claimOK (claim : Option String) (accepted : List String) : Bool :=
  accepted.any fun a => match claim with | none => true | some c => c == a

/-- `ValidateToken` = accept? The error variable is only ever set after parsing, never cleared. -/
def validate (c : Cfg) (t : Tok) : Bool :=
  let parsed := (t.sigNode && t.claimsValid) || (c.jwks && t.sigJwks && t.claimsValid)
  parsed && claimOK t.aud c.audiences && claimOK t.iss c.issuers && t.alg == "RS256"

/-- middleware skipper prefixes. -/
def skipPrefixes : List String := ["/health", "/mimiro-favicon.png", "/favicon.ico", "/api", "/static", "/security/token"]
def skipped (path : String) : Bool := skipPrefixes.any (fun p => p.toList.isPrefixOf path.toList)

end Hub.Acl

/-! ## persistence of client registrations and ACLs (security/manager.go)

Memory = two maps; disk = `clients.json` and `acls.json`, each rewritten as a whole from a getter by
the operations that change the corresponding map. -/
namespace Hub.Acl

abbrev AclMap := List (String × List Ac)

structure SecMem where
  clients : List String := []
  acls : AclMap := []
  deriving Repr

structure Sec where
  mem : SecMem := {}
  diskClients : List String := []
  diskAcls : AclMap := []
  deriving Repr

inductive SecOp
  | register (id : String)
  | unregister (id : String)                 -- RegisterClient with Deleted = true
  | setAcl (id : String) (acl : List Ac)
  | delAcl (id : String)
  | restart
  deriving Repr

def eraseKey (k : String) (m : AclMap) : AclMap := m.filter (·.1 != k)

def Sec.step (s : Sec) : SecOp → Sec
  | .register id =>
    let c := if s.mem.clients.contains id then s.mem.clients else s.mem.clients ++ [id]
    { s with mem := { s.mem with clients := c }, diskClients := c }
  | .unregister id =>
    let c := s.mem.clients.filter (· != id)
    let a := eraseKey id s.mem.acls
    -- DeleteClientAccessControls rewrites acls.json, then RegisterClient rewrites clients.json
    { mem := { clients := c, acls := a }, diskClients := c, diskAcls := a }
  | .setAcl id acl =>
    let a := eraseKey id s.mem.acls ++ [(id, acl)]
    { s with mem := { s.mem with acls := a }, diskAcls := a }
  | .delAcl id =>
    let a := eraseKey id s.mem.acls
    { s with mem := { s.mem with acls := a }, diskAcls := a }
  | .restart => { s with mem := { clients := s.diskClients, acls := s.diskAcls } }

end Hub.Acl
