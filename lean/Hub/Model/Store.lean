/-!
# Core store model (internal/server/dataset.go, store.go)

Key-level model of the write path (`StoreEntitiesWithTransaction`, `ExecuteTransaction`) and of
the read paths (`MapEntitiesRaw`, `ProcessChangesRaw` + `latestOnlyWrapper`,
`GetEntityAtPointInTimeWithInternalID`, `GetRelatedAtTime` both branches with continuations).
Badger is modelled as one sorted key list per key family (prefix scans never cross families);
iteration order = lexicographic order of the big-endian fields of the Go layouts.

Ids, commit times and change positions are *inputs* (the real run's choices); entity content is
opaque (`body` = canonical JSON of props and refs), equality of content = what the repaired
`IsEntityEqual` decides on the generator's value domain. Core Lean only.
-/
namespace Hub.Store

structure Ent where
  rid : Nat
  deleted : Bool
  refs : List (Nat × Nat)        -- (predicate id, target id), flattened in JSON order
  body : String                  -- canonical JSON of props and refs (opaque content)
  arrs : List Nat := []          -- predicates whose value was given as an array (`"x"` and `["x"]` differ for reflect.DeepEqual)
  deriving DecidableEq, Repr

/-- content equality as decided at write time (and by compaction). -/
def Ent.same (a b : Ent) : Bool := a.deleted == b.deleted && a.body == b.body && a.refs == b.refs

/-- entity index key: `index;rid;dataset;time;batchSeq`. -/
structure VKey where
  rid : Nat
  ds : Nat
  t : Nat
  seq : Nat
  deriving DecidableEq, Repr

def VKey.lt (a b : VKey) : Bool :=
  a.rid < b.rid || (a.rid == b.rid && (a.ds < b.ds || (a.ds == b.ds && (a.t < b.t || (a.t == b.t && a.seq < b.seq)))))

/-- reference key; outgoing layout `src;time;pred;tgt;del;ds`, incoming `tgt;src;time;pred;del;ds`. -/
structure RefKey where
  src : Nat
  t : Nat
  pred : Nat
  tgt : Nat
  del : Bool
  ds : Nat
  deriving DecidableEq, Repr

def lexLt : List Nat → List Nat → Bool
  | [], [] => false
  | [], _ => true
  | _, [] => false
  | a :: as, b :: bs => a < b || (a == b && lexLt as bs)

def RefKey.outFields (k : RefKey) : List Nat := [k.src, k.t, k.pred, k.tgt, if k.del then 1 else 0, k.ds]
def RefKey.inFields (k : RefKey) : List Nat := [k.tgt, k.src, k.t, k.pred, if k.del then 1 else 0, k.ds]

structure DB where
  versions : List (VKey × Ent) := []            -- log order (unique keys)
  changes : List (Nat × Nat × VKey) := []       -- (dataset, position, version key), log order
  latest : List ((Nat × Nat) × VKey) := []      -- ((dataset, rid), key): the latest pointers (a map)
  refs : List RefKey := []                      -- a set
  nextPos : List (Nat × Nat) := []              -- dataset ↦ next change position
  items : List (Nat × Nat) := []                -- dataset ↦ number of distinct ids (C19 ghost of the meta entity counter)
  deletedDs : List Nat := []
  deriving Repr

def DB.latestOf (db : DB) (ds id : Nat) : Option VKey := db.latest.lookup (ds, id)
def DB.get (db : DB) (k : VKey) : Option Ent := db.versions.lookup k
def DB.stored (db : DB) (ds id : Nat) : Option Ent := (db.latestOf ds id).bind db.get
def DB.posOf (db : DB) (ds : Nat) : Nat := (db.nextPos.lookup ds).getD 0
def DB.itemsOf (db : DB) (ds : Nat) : Nat := (db.items.lookup ds).getD 0

def setAssoc [BEq κ] (k : κ) (v : β) : List (κ × β) → List (κ × β)
  | [] => [(k, v)]
  | (k', v') :: rest => if k' == k then (k, v) :: rest else (k', v') :: setAssoc k v rest

def refSet (rs : List RefKey) (k : RefKey) : List RefKey := if rs.contains k then rs else rs ++ [k]
def refDel (rs : List RefKey) (k : RefKey) : List RefKey := rs.filter (· != k)

/-- remaining old refs after the new version's refs were crossed off (`oldRefs[predid]` minus every
occurrence of `relatedid`). -/
def removedRefs (old new : List (Nat × Nat)) : List (Nat × Nat) := old.filter fun r => !new.contains r

/-- the reference-index part of one loop iteration. `prev` = comparison base (in-batch predecessor
if any, else stored latest), `inBatch` = an in-batch predecessor exists. -/
def writeRefs (rs : List RefKey) (ds t : Nat) (prev : Option Ent) (inBatch : Bool) (isnew : Bool) (e : Ent) : List RefKey :=
  match prev with
  | none =>
    if e.deleted then
      -- an identifier seen for the very first time takes the `isnew` branch, which writes its refs
      -- with the deleted bit; an id that is only new to this dataset writes nothing
      if isnew then e.refs.foldl (fun rs r => refSet rs ⟨e.rid, t, r.1, r.2, true, ds⟩) rs else rs
    else e.refs.foldl (fun rs r => refSet rs ⟨e.rid, t, r.1, r.2, false, ds⟩) rs
  | some p =>
    if e.deleted then
      p.refs.foldl (fun rs r => refSet rs ⟨e.rid, t, r.1, r.2, true, ds⟩) rs
    else
      let rs1 := e.refs.foldl (fun rs r =>
        let rs' := refSet rs ⟨e.rid, t, r.1, r.2, false, ds⟩
        if inBatch then refDel rs' ⟨e.rid, t, r.1, r.2, true, ds⟩ else rs') rs
      (removedRefs p.refs e.refs).foldl (fun rs r => refSet rs ⟨e.rid, t, r.1, r.2, true, ds⟩) rs1

/-- the version this write would replace: the in-batch predecessor if there is one, else the stored
latest as of the read snapshot taken at function entry. -/
def prevOf (snap : DB) (ds : Nat) (loc : List (Nat × Ent)) (rid : Nat) : Option Ent :=
  match loc.lookup rid with
  | some p => some p
  | none => snap.stored ds rid

/-- `newitems++` for an id that has no version in this dataset yet. -/
def countNew (db : DB) (ds : Nat) (prev : Option Ent) : DB :=
  if prev.isNone then { db with items := setAssoc ds (db.itemsOf ds + 1) db.items } else db

/-- the `txn.Set` calls of one accepted element: entity, change log entry, latest pointer, ref keys. -/
def appendVersion (db : DB) (ds t i : Nat) (e : Ent) (prev : Option Ent) (inBatch : Bool) (isnew : Bool := false) : DB :=
  let k : VKey := ⟨e.rid, ds, t, i⟩
  { db with versions := db.versions ++ [(k, e)], changes := db.changes ++ [(ds, db.posOf ds, k)],
            latest := setAssoc (ds, e.rid) k db.latest,
            refs := writeRefs db.refs ds t prev inBatch isnew e,
            nextPos := setAssoc ds (db.posOf ds + 1) db.nextPos }

/-- one iteration of the write loop. `snap` = read snapshot taken at function entry, `loc` =
`localLatests`. The element is skipped iff it is identical to the version it would replace. -/
def writeOne (snap : DB) (ds t : Nat) (newIds : List Nat) (st : DB × List (Nat × Ent)) (x : Nat × Ent) : DB × List (Nat × Ent) :=
  let prev := prevOf snap ds st.2 x.2.rid
  let db0 := countNew st.1 ds prev
  if prev = some x.2 then (db0, st.2)
  else (appendVersion db0 ds t x.1 x.2 prev (st.2.lookup x.2.rid).isSome (newIds.contains x.2.rid), (x.2.rid, x.2) :: st.2)

def writeFrom (snap : DB) (ds t : Nat) (newIds : List Nat) : Nat → List Ent → DB × List (Nat × Ent) → DB × List (Nat × Ent)
  | _, [], st => st
  | i, e :: xs, st => writeFrom snap ds t newIds (i + 1) xs (writeOne snap ds t newIds st (i, e))

/-- `StoreEntities`: one batch into one dataset at commit time `t`. -/
def storeBatch (db : DB) (ds t : Nat) (b : List Ent) (newIds : List Nat := []) : DB := (writeFrom db ds t newIds 0 b (db, [])).1

/-- `ExecuteTransaction`: every dataset's batch reads the pre-transaction snapshot, all writes carry
the same commit time and become visible together. -/
def execTxn (db : DB) (t : Nat) (parts : List (Nat × List Ent)) (newIds : List Nat := []) : DB :=
  parts.foldl (fun acc p => (writeFrom db p.1 t newIds 0 p.2 (acc, [])).1) db

def insertBy (lt : α → α → Bool) (x : α) : List α → List α
  | [] => [x]
  | y :: ys => if lt x y then x :: y :: ys else y :: insertBy lt x ys
def sortBy (lt : α → α → Bool) (l : List α) : List α := l.foldl (fun acc x => insertBy lt x acc) []

/-! ## dataset deletion and garbage collection (dsmanager.go, garbagecollector.go) -/

/-- `DeleteDataset`: the dataset id joins the deleted set (its keys stay until GC). -/
def markDeleted (db : DB) (d : Nat) : DB := { db with deletedDs := d :: db.deletedDs }

/-- all keys of a set of datasets removed from the five key families. -/
def eraseDs (db : DB) (dd : List Nat) : DB :=
  { db with versions := db.versions.filter (fun v => !dd.contains v.1.ds),
            changes := db.changes.filter (fun c => !dd.contains c.1),
            latest := db.latest.filter (fun l => !dd.contains l.1.1),
            refs := db.refs.filter (fun r => !dd.contains r.ds) }

/-- `GarbageCollector.Cleandeleted`. -/
def gc (db : DB) : DB := eraseDs db db.deletedDs

/-! ## deduplicating compaction (internal/service/dataset/compact*.go), after the fix for D13 -/

/-- the reference keys `processRefs` computes for a version (one `RefKey` stands for the outgoing
and the incoming key). -/
def refKeysOf (e : Ent) (ds t : Nat) : List RefKey := e.refs.map fun r => ⟨e.rid, t, r.1, r.2, e.deleted, ds⟩

def targetsOf (e : Ent) (p : Nat) : List Nat := (e.refs.filter (·.1 == p)).map (·.2)

/-- remove a duplicate version: its json key, its change log entry, its reference keys; re-point
the latest pointer at the predecessor when the removed version was the latest. -/
def dropVersion (db : DB) (ds : Nat) (k : VKey) (e : Ent) (prevKey : VKey) (isLatest : Bool) : DB :=
  { db with versions := db.versions.filter (·.1 != k),
            changes := db.changes.filter (·.2.2 != k),
            latest := if isLatest then setAssoc (ds, k.rid) prevKey db.latest else db.latest,
            refs := db.refs.filter fun r => !(refKeysOf e ds k.t).contains r }

/-- the strategy's `eval` over the versions of one entity, oldest first, `prev` = comparison base. -/
def compactFrom (ds : Nat) : DB → VKey × Ent → List (VKey × Ent) → DB
  | db, _, [] => db
  | db, prev, (k, e) :: rest =>
    if e = prev.2 then
      compactFrom ds (dropVersion db ds k e prev.1 rest.isEmpty) prev rest
    else if e.deleted = prev.2.deleted then
      -- references of a predicate that are identical to the previous version's and were written in
      -- another batch: the newer keys are redundant
      let preds := (e.refs.map (·.1)).eraseDups.filter fun p =>
        targetsOf e p == targetsOf prev.2 p && e.arrs.contains p == prev.2.arrs.contains p
      let dead := (refKeysOf e ds k.t).filter fun r => preds.contains r.pred
      -- versions of one batch share their reference keys: a version that is not the last of its batch keeps them
      let db' := if k.t ≠ prev.1.t && !rest.any (fun v => v.1.t == k.t) then { db with refs := db.refs.filter fun r => !dead.contains r } else db
      compactFrom ds db' (k, e) rest
    else compactFrom ds db (k, e) rest

def versionsOfEntity (db : DB) (ds rid : Nat) : List (VKey × Ent) :=
  sortBy (fun a b => a.1.lt b.1) (db.versions.filter fun v => v.1.ds == ds && v.1.rid == rid)

/-- `CompactionWorker.compact`: every entity of the dataset (by its latest pointer), oldest version first. -/
def compact (db : DB) (ds : Nat) : DB :=
  let rids := sortBy (fun a b => a < b) ((db.latest.filter (·.1.1 == ds)).map (·.1.2))
  rids.foldl (fun db rid =>
    match versionsOfEntity db ds rid with
    | [] => db
    | first :: rest => compactFrom ds db first rest) db

/-- a compaction that works from the snapshot `db0` while a writer turns `db0` into `dbw` before the
compactor's flushes land: the keys the compactor removes are those it computed on its snapshot; a latest
pointer is re-pointed only when it still points where it did in the snapshot (`guarded`; without the guard the
flush overwrites the pointer the writer has just set). -/
def compactRaced (guarded : Bool) (db0 dbw : DB) (ds : Nat) : DB :=
  let c := compact db0 ds
  let goneV := (db0.versions.filter fun v => !(c.versions.any (·.1 == v.1))).map (·.1)
  let goneC := db0.changes.filter fun x => !c.changes.contains x
  let goneR := db0.refs.filter fun r => !c.refs.contains r
  let rew := c.latest.filter fun p => db0.latest.lookup p.1 != some p.2
  { dbw with versions := dbw.versions.filter (fun v => !goneV.contains v.1),
             changes := dbw.changes.filter (fun x => !goneC.contains x),
             refs := dbw.refs.filter (fun r => !goneR.contains r),
             latest := rew.foldl (fun l p =>
               if !guarded || l.lookup p.1 == db0.latest.lookup p.1 then setAssoc p.1 p.2 l else l) dbw.latest }

/-- a legacy duplicate: a version written without the write-time equality check. -/
def injectVersion (db : DB) (ds t : Nat) (e : Ent) : DB :=
  appendVersion db ds t 0 e (db.stored ds e.rid) false

/-! ## reads -/

/-- latest-pointer keys of a dataset in iteration order (by rid), resolved to versions. -/
def listAll (db : DB) (ds : Nat) : List (Nat × Ent) :=
  let ptrs := db.latest.filter (fun (p : (Nat × Nat) × VKey) => p.1.1 == ds)
  let sorted := sortBy (fun (a b : (Nat × Nat) × VKey) => a.1.2 < b.1.2) ptrs
  sorted.filterMap fun (p : (Nat × Nat) × VKey) => (db.get p.2).map fun e => (p.1.2, e)

/-- `MapEntitiesRaw(from, count)`: `from` = rid of the last entity of the previous page (`none` =
start); returns the page and the new token (rid of the last key seen, unchanged when nothing is left). -/
def listPage (db : DB) (ds : Nat) (from? : Option Nat) (count : Nat) : List Ent × Option Nat :=
  let all := listAll db ds
  let rest := match from? with
    | none => all
    | some r => (all.dropWhile (fun (p : Nat × Ent) => p.1 < r)).dropWhile (fun (p : Nat × Ent) => p.1 == r)   -- Seek(from) then Next()
  let page := if count = 0 then rest else rest.take count          -- count ≤ 0: everything
  (page.map (fun (p : Nat × Ent) => p.2), match page.getLast? with | some p => some p.1 | none => from?)

/-- change-log entries of a dataset in position order. -/
def changesOf (db : DB) (ds : Nat) : List (Nat × VKey) :=
  sortBy (fun a b => a.1 < b.1) ((db.changes.filter (·.1 == ds)).map fun c => (c.2.1, c.2.2))

/-- the iteration of `ProcessChangesRaw` over the entries at or after `since`, generic in what a key
emits (`none` = filtered out by the latest-only wrapper). Returns the emitted entities, the position
of the last key looked at, and the keys not looked at (ghost, for the theorems). The limit counts
*emitted* entities and is tested after an emission. -/
def scanG (emit : κ → Option ε) (limit : Nat) : List (Nat × κ) → List ε → Option Nat → List ε × Option Nat × List (Nat × κ)
  | [], acc, last => (acc, last, [])
  | (pos, k) :: rest, acc, _ =>
    match emit k with
    | some e =>
      if limit > 0 ∧ (acc ++ [e]).length = limit then (acc ++ [e], some pos, rest)
      else scanG emit limit rest (acc ++ [e]) (some pos)
    | none => scanG emit limit rest acc (some pos)

/-- `Seek(since)`: the entries at or after a position. -/
def fromPos (since : Nat) (es : List (Nat × κ)) : List (Nat × κ) := es.filter fun y => decide (since ≤ y.1)

/-- one page: seek to `since`, scan, token = last position + 1 (or `since` when nothing was found). -/
def pageG (emit : κ → Option ε) (es : List (Nat × κ)) (since limit : Nat) : List ε × Nat :=
  let r := scanG emit limit (fromPos since es) [] none
  (r.1, match r.2.1 with | some p => p + 1 | none => since)

/-- a reader following its tokens through a list of limits. -/
def pagesG (emit : κ → Option ε) (es : List (Nat × κ)) : Nat → List Nat → List (List ε) × Nat
  | since, [] => ([], since)
  | since, l :: ls =>
    let p := pageG emit es since l
    let r := pagesG emit es p.2 ls
    (p.1 :: r.1, r.2)

/-- what a change-log key emits: the version it points to, unless latest-only filters it out. -/
def emitOf (db : DB) (ds : Nat) (latestOnly : Bool) (k : VKey) : Option Ent :=
  if !latestOnly || db.latestOf ds k.rid == some k then db.get k else none

/-- `ProcessChangesRaw(since, limit, latestOnly)` → (entities, next token). -/
def changesPage (db : DB) (ds since limit : Nat) (latestOnly : Bool) : List Ent × Nat :=
  pageG (emitOf db ds latestOnly) (changesOf db ds) since limit

/-- versions of an entity visible at `at` in the given scope, in key order. -/
def visibleVersions (db : DB) (rid at_ : Nat) (scope : List Nat) : List (VKey × Ent) :=
  let vs := db.versions.filter fun v =>
    v.1.rid == rid && v.1.t ≤ at_ && !db.deletedDs.contains v.1.ds && (scope.isEmpty || scope.contains v.1.ds)
  sortBy (fun a b => a.1.lt b.1) vs

/-- last element of every run of equal dataset (the scan of `GetEntityAtPointInTimeWithInternalID`). -/
def lastPerDs : List (VKey × Ent) → List (VKey × Ent)
  | [] => []
  | [x] => [x]
  | x :: y :: rest => if x.1.ds == y.1.ds then lastPerDs (y :: rest) else x :: lastPerDs (y :: rest)

/-- `GetEntityAtPointInTime…`: the per-dataset latest versions at `at`: (live partials ascending by
dataset id, some-version-was-deleted flag, any version seen). -/
def partialsAt (db : DB) (rid at_ : Nat) (scope : List Nat) : List (VKey × Ent) × Bool :=
  let lasts := lastPerDs (visibleVersions db rid at_ scope)
  (lasts.filter (!·.2.deleted), lasts.any (·.2.deleted))

/-! ### relationship queries -/

structure QRes where
  pred : Nat
  other : Nat
  ds : Nat
  t : Nat
  deriving DecidableEq, Repr

def inScope (db : DB) (scope : List Nat) (ds : Nat) : Bool :=
  !db.deletedDs.contains ds && (scope.isEmpty || scope.contains ds)

/-- state of the outgoing (reverse) scan. -/
structure OutSt where
  seen : List (Nat × Nat × Nat) := []     -- (pred, target, ds)
  added : List (Nat × Nat) := []          -- (pred, target)
  results : List QRes := []
  cont : Option RefKey := none            -- key of the last returned result
  reached : Bool := true                  -- hasReachedStartKey
  stopped : Bool := false                 -- broke out because the limit was reached

/-- one key of the reverse scan over the outgoing index of `src` (after the D3 fix). -/
def outStep (db : DB) (scope : List Nat) (pred at_ limit : Nat) (startKey : Option RefKey) (s : OutSt) (k : RefKey) : OutSt :=
  if s.stopped then s
  else if !inScope db scope k.ds then s
  else if k.t > at_ then s
  else if pred > 0 ∧ pred ≠ k.pred then s
  else if s.seen.contains (k.pred, k.tgt, k.ds) || s.added.contains (k.pred, k.tgt) then s
  else
    let s1 := { s with seen := (k.pred, k.tgt, k.ds) :: s.seen }
    let s2 :=
      if !k.del ∧ s1.reached then
        if limit ≠ 0 ∧ s1.results.length ≥ limit then { s1 with stopped := true }
        else { s1 with results := s1.results ++ [⟨k.pred, k.tgt, k.ds, k.t⟩], added := (k.pred, k.tgt) :: s1.added, cont := some k }
      else if !k.del then { s1 with added := (k.pred, k.tgt) :: s1.added }
      else s1
    if s2.stopped then s2
    else if !s2.reached ∧ startKey = some k then { s2 with reached := true } else s2

/-- `GetRelatedAtTime`, outgoing branch. Returns results and the continuation key (`none` = last page).
The iterator also visits keys recorded after `at` and keys of deleted or out-of-scope datasets and
skips them (`continue` before anything else, which leaves the scan state untouched), so the model
scans the in-scope keys of the past only, in reverse key order. -/
def relatedOut (db : DB) (src pred at_ limit : Nat) (scope : List Nat) (startKey : Option RefKey) : List QRes × Option RefKey :=
  let keys := sortBy (fun a b => lexLt b.outFields a.outFields)
    (((db.refs.filter (fun r => decide (r.t ≤ at_))).filter (fun r => inScope db scope r.ds)).filter (·.src == src))   -- reverse order
  let s := keys.foldl (outStep db scope pred at_ limit startKey) { reached := startKey.isNone }
  (s.results, if s.stopped then s.cont else none)

/-- state of the incoming (forward) scan — bug-for-bug with the code (one deleted flag per
referencing entity, one result per predicate: known finding D4). -/
structure InSt where
  results : List QRes := []
  cur : Nat := 0                          -- currentRID (0 = none)
  prevResults : List (Nat × QRes) := []   -- pred ↦ result (map semantics)
  prevDeleted : Bool := false
  prevDs : Nat := 0
  spill : List (Nat × QRes) := []         -- dsSpillOver: ds ↦ result
  spillNil : Bool := true                 -- dsSpillOver == nil (before the first key)
  cont : Option RefKey := none
  stopped : Bool := false
  sawAny : Bool := false

def mapSet [BEq κ] (k : κ) (v : β) (m : List (κ × β)) : List (κ × β) := setAssoc k v m

def inStep (db : DB) (scope : List Nat) (pred at_ limit : Nat) (s : InSt) (k : RefKey) : InSt :=
  if s.stopped then s
  else if limit ≠ 0 ∧ s.results.length ≥ limit then { s with stopped := true }
  else if !inScope db scope k.ds then s
  else if k.t > at_ then s
  else if pred > 0 ∧ pred ≠ k.pred then s
  else
    let s1 :=
      if k.src ≠ s.cur then
        let res :=
          if s.cur ≠ 0 ∧ !s.prevDeleted then s.results ++ s.prevResults.map (·.2)
          else match s.spill with
            | [] => s.results
            | x :: _ => s.results ++ [x.2]
        { s with results := res, spill := [], spillNil := false, prevResults := [] }
      else if k.ds ≠ s.prevDs then
        let sp := if s.prevDeleted then s.spill.filter (·.1 != s.prevDs) else s.spill
        let sp2 := if s.cur ≠ 0 ∧ !s.prevDeleted then
            s.prevResults.foldl (fun sp pr => if pr.2.ds == s.prevDs then mapSet s.prevDs pr.2 sp else sp) sp
          else sp
        { s with spill := sp2 }
      else s
    { s1 with prevDeleted := k.del, prevDs := k.ds,
              prevResults := mapSet k.pred ⟨k.pred, k.src, k.ds, k.t⟩ s1.prevResults,
              cur := k.src, cont := some k, sawAny := true }

/-- `GetRelatedAtTime`, inverse branch: forward scan from `startKey` (inclusive: the continuation
key is the last key the previous page looked at). -/
def relatedIn (db : DB) (tgt pred at_ limit : Nat) (scope : List Nat) (startKey : Option RefKey) : List QRes × Option RefKey :=
  let keys := sortBy (fun a b => lexLt a.inFields b.inFields) (db.refs.filter (·.tgt == tgt))
  let keys := match startKey with
    | none => keys
    | some sk => keys.dropWhile (fun k => lexLt k.inFields sk.inFields)
  let s := keys.foldl (inStep db scope pred at_ limit) {}
  -- after the loop
  let (res, added) :=
    if limit = 0 ∨ s.results.length < limit then
      if s.cur ≠ 0 ∧ !s.prevDeleted then (s.results ++ s.prevResults.map (·.2), true)
      else if !s.spillNil then
        let sp := if s.prevDeleted then s.spill.filter (·.1 != s.prevDs) else s.spill
        match sp with
        | [] => (s.results, false)
        | x :: _ => (s.results ++ [x.2], true)
      else (s.results, false)
    else (s.results, false)
  let exhausted := !s.stopped
  let last := exhausted ∧ (res.isEmpty ∨ added)
  (res, if last then none else (match s.cont with | some c => some c | none => startKey))

end Hub.Store
