/-!
# `wrappedSink.processEntities` and `job.handleJobError` (internal/jobs/error_handler.go)

The sink is an arbitrary *stateful oracle* `σ → List E → Bool × σ` (true = batch accepted), which
covers permanent and transient failures. One `log` handler with `maxItems = m` (0 = unlimited) —
`verifyErrorHandlers` rejects duplicate handler types, so there is at most one.

Follows the code after the `fix:` for D9 (`failedInRun`); `acceptCur` is the pinned commit's
behaviour, kept for the negative witness. Core Lean only.
-/
namespace Hub.Bisect

structure St (E σ : Type) where
  sink : σ
  count : Nat := 0          -- LogFailingEntityHandler.count
  delivered : List E := []  -- entities of batches the inner sink accepted, in order
  reported : List E := []   -- entities handed to the handler, in order
  lastErr : Bool := false   -- wrappedSink.lastError != nil
  depth : Nat := 0          -- wrappedSink.recursionDepth
  failed : Bool := false    -- wrappedSink.failedInRun
  calls : Nat := 0          -- number of inner sink calls (ghost)

inductive Res | ok | maxItems
  deriving DecidableEq, Repr

variable {E σ : Type}

/-- successful inner call: `if w.recursionDepth == 0 && !w.failedInRun { w.lastError = nil }` -/
def St.accept (s : St E σ) (sk : σ) (es : List E) : St E σ :=
  { s with sink := sk, calls := s.calls + 1, delivered := s.delivered ++ es,
           lastErr := if s.depth = 0 ∧ s.failed = false then false else s.lastErr }
/-- the pinned commit: `if w.recursionDepth == 0 { w.lastError = nil }` (D9). -/
def St.acceptCur (s : St E σ) (sk : σ) (es : List E) : St E σ :=
  { s with sink := sk, calls := s.calls + 1, delivered := s.delivered ++ es,
           lastErr := if s.depth = 0 then false else s.lastErr }
/-- failing call with an empty batch: no entity to report, `lastError = err`, returns nil. -/
def St.failEmpty (s : St E σ) (sk : σ) : St E σ :=
  { s with sink := sk, calls := s.calls + 1, lastErr := true, failed := true }
/-- failing call with ≥2 entities: `recursionDepth++` and split. -/
def St.enter (s : St E σ) (sk : σ) : St E σ :=
  { s with sink := sk, calls := s.calls + 1, depth := s.depth + 1, failed := true }
/-- failing single entity: handler is invoked; in both outcomes lastError ends non-nil. -/
def St.report (s : St E σ) (sk : σ) (e : E) : St E σ :=
  { s with sink := sk, calls := s.calls + 1, count := s.count + 1, reported := s.reported ++ [e],
           lastErr := true, failed := true }

/-- `LogFailingEntityHandler.handleFailingEntity`: count++, MaxItemsExceeded iff `m>0 ∧ count ≥ m`. -/
def handle (m : Nat) (s : St E σ) (sk : σ) (e : E) : St E σ × Res :=
  let s' := s.report sk e
  if 0 < m ∧ m ≤ s'.count then (s', .maxItems) else (s', .ok)

def procG (acc : St E σ → σ → List E → St E σ)
    (sinkF : σ → List E → Bool × σ) (m : Nat) (es : List E) (s : St E σ) : St E σ × Res :=
  let r := sinkF s.sink es
  if r.1 then (acc s r.2 es, .ok)
  else if h : es.length ≤ 1 then
    match es with
    | [] => (s.failEmpty r.2, .ok)
    | e :: _ => handle m s r.2 e
  else
    let l := procG acc sinkF m (es.take (es.length / 2)) (s.enter r.2)
    if l.2 = .maxItems then l
    else procG acc sinkF m (es.drop (es.length / 2)) l.1
termination_by es.length
decreasing_by
  all_goals simp_wf
  · have : es.length / 2 < es.length := Nat.div_lt_self (by omega) (by omega)
    omega
  · have : 0 < es.length / 2 := Nat.div_pos (by omega) (by omega)
    omega

/-- `wrappedSink.processEntities` (fixed tree). -/
def proc (sinkF : σ → List E → Bool × σ) (m : Nat) (es : List E) (s : St E σ) : St E σ × Res :=
  procG St.accept sinkF m es s
/-- `wrappedSink.processEntities` (pinned commit). -/
def procCur (sinkF : σ → List E → Bool × σ) (m : Nat) (es : List E) (s : St E σ) : St E σ × Res :=
  procG St.acceptCur sinkF m es s

/-- `wrappedSink.reset()` + `LogFailingEntityHandler.reset()`: start of a run. lastError survives. -/
def St.reset (s : St E σ) : St E σ :=
  { s with count := 0, depth := 0, failed := false, delivered := [], reported := [], calls := 0 }

/-- a run: the pipeline hands source batches to the sink until one returns an error. -/
def runG (p : List E → St E σ → St E σ × Res) : List (List E) → St E σ → St E σ × Res
  | [], s => (s, .ok)
  | b :: bs, s =>
    let r := p b s
    if r.2 = .maxItems then r else runG p bs r.1

def run (sinkF : σ → List E → Bool × σ) (m : Nat) := runG (E := E) (σ := σ) (proc sinkF m)
def runCur (sinkF : σ → List E → Bool × σ) (m : Nat) := runG (E := E) (σ := σ) (procCur sinkF m)

/-! ## `job.handleJobError`: what happens after a run -/

inductive Outcome
  | success          -- pipeline returned nil and no wrapped-sink error
  | interrupted      -- "got job interrupt"
  | failed           -- any other error, MaxItemsExceeded, or nil with wrappedSink.lastError set
  deriving DecidableEq, Repr

/-- classification done by the first two `if`s of `handleJobError`. `pipeErr`: 0 = nil,
1 = MaxItemsExceeded, 2 = interrupt, 3 = other error. -/
def classify (pipeErr : Nat) (wrapped : Bool) (lastErr : Bool) : Outcome :=
  if pipeErr = 0 ∨ pipeErr = 1 then
    if wrapped ∧ lastErr then .failed else .success
  else if pipeErr = 2 then .interrupted else .failed

/-- the reRun handler: `(rerun?, remaining retries)`; `none` = no reRun handler configured. -/
def afterRun (o : Outcome) (retries : Option Nat) : Bool × Option Nat :=
  match o, retries with
  | .failed, some (n + 1) => (true, some n)
  | _, r => (false, r)

/-- a chain of runs: each run's outcome is drawn from the list; a run happens only if the
previous one scheduled it. Returns the number of runs executed. -/
def chain : List Outcome → Option Nat → Nat
  | [], _ => 0
  | o :: os, r =>
    let a := afterRun o r
    1 + (if a.1 then chain os a.2 else 0)

end Hub.Bisect
