/-!
# Full sync state machine

`Dataset.StartFullSync / StartFullSyncWithLease / RefreshFullSyncLease / ReleaseFullSyncLease /
CompleteFullSync` (internal/server/dataset.go), the HTTP handler `datasetHandler.processEntities`
(internal/web/datasethandler.go) and the job sink `datasetSink.start/endFullSync`
(internal/jobs/sink.go), after the `fix:` for D10a. Entities are abstract ids; a dataset is the set
of live ids plus the list of tombstones written. Core Lean only.
-/
namespace Hub.FullSync

structure St where
  started : Bool := false          -- fullSyncStarted
  fsid : String := ""              -- fullSyncID
  lease : Bool := false            -- fullSyncLease != nil (and its timer not yet fired)
  seen : List Nat := []            -- fullSyncSeen
  live : List Nat := []            -- ids whose latest version is not deleted
  tombs : List Nat := []           -- one entry per tombstone written by a completion
  since : List Nat := []           -- ghost: ids written since the last start of any sync
  deriving Repr, DecidableEq

inductive Ev
  | http (start : Bool) (id : String) (fin : Bool) (ents : List Nat)   -- POST …/entities with the three headers
  | jobStart
  | jobBatch (ents : List Nat)
  | jobEnd
  | expire                         -- the lease timer fires
  deriving Repr

inductive Rc | ok | conflict | gone | err
  deriving Repr, DecidableEq

def addLive (l : List Nat) (es : List Nat) : List Nat := es.foldl (fun acc e => if acc.contains e then acc else acc ++ [e]) l

/-- `StoreEntities`: entities become live; while a sync is started they are recorded as seen. -/
def St.write (s : St) (es : List Nat) : St :=
  { s with live := addLive s.live es, seen := if s.started then addLive s.seen es else s.seen,
           since := addLive s.since es }

/-- `StartFullSync`. -/
def St.start (s : St) : St :=
  { s with started := true, seen := [], since := [],
           lease := if s.started then false else s.lease, fsid := if s.started then "" else s.fsid }

/-- `CompleteFullSync` (after the D10a fix): refuses when nothing is started; otherwise every live
entity that was not seen gets one tombstone. The deferred reset runs only when it proceeds. -/
def St.complete (s : St) : St × Rc :=
  if !s.started then (s, .err)
  else
    let gone := s.live.filter (fun e => !s.seen.contains e)
    ({ s with live := s.live.filter (fun e => s.seen.contains e), tombs := s.tombs ++ gone,
              started := false, seen := [], lease := false, fsid := "" }, .ok)

/-- the handler's start / refresh part: `none` = 409 Conflict, nothing happened. -/
def httpPre (s : St) (start : Bool) (id : String) : Option St :=
  if start then
    -- StartFullSyncWithLease: StartFullSync, set the id, refresh (always matches)
    some { s.start with fsid := id, lease := true }
  else if s.started then
    if id = s.fsid then some { s with lease := true } else none   -- RefreshFullSyncLease
  else some s

/-- the entities of the request body are stored (nothing happens for an empty body). -/
def body (s : St) (ents : List Nat) : St := if ents.isEmpty then s else s.write ents

/-- the end marker: `ReleaseFullSyncLease` (410 when no lease), then `CompleteFullSync`. -/
def httpPost (s : St) (fin : Bool) : St × Rc :=
  if fin then (if s.lease then s.complete else (s, .gone)) else (s, .ok)

def step (s : St) : Ev → St × Rc
  | .http start id fin ents =>
    match httpPre s start id with
    | none => (s, .conflict)
    | some s1 => httpPost (body s1 ents) fin
  | .jobStart => (s.start, .ok)
  | .jobBatch ents => (body s ents, .ok)
  | .jobEnd => s.complete
  | .expire =>
    if s.lease then ({ s with started := false, seen := [], fsid := "", lease := false }, .ok) else (s, .ok)

def run (evs : List Ev) (s : St) : St := evs.foldl (fun s e => (step s e).1) s

end Hub.FullSync
