/-!
# Incremental and full synchronisation of a change feed into a sink (internal/jobs/pipeline.go)

The source is an append-only change feed (`src`, position = index), the sink keeps the latest
version per id. A job has a *persisted* continuation token (`tok`, `SyncJobState` under
`JobDataIndex`) and, while a run is in progress, a *volatile* cursor (`cur`): the token the run holds
in memory. One step of the system is one of

* `write e`     — somebody appends a change to the source (at any time, also during a run);
* `deliver b`   — the run reads the page `[cur, cur+b)` and the sink accepts it; the cursor moves;
* `persist`     — the run stores its cursor as the job's token (incremental: after every page;
                  full sync: once, after the sink completed the full sync);
* `abort`       — the run ends without persisting: sink failure, source error, interrupt, kill,
                  process death; the next run starts from the persisted token;
* `startFull`   — a full-sync run starts: cursor 0; `resetTok` says whether the persisted token is
                  reset as well (it is not in the code as found: see `full_sync_abort_…`).

Core Lean only.
-/
namespace Hub.Sync

abbrev Ent := Nat × Nat            -- (id, content); a deletion is a content like any other

structure St where
  src : List Ent := []
  sink : List (Nat × Nat) := []     -- id ↦ content, first match wins
  tok : Nat := 0
  cur : Nat := 0
  deriving Repr, DecidableEq

def setA (k v : Nat) : List (Nat × Nat) → List (Nat × Nat)
  | [] => [(k, v)]
  | (k', v') :: r => if k' = k then (k, v) :: r else (k', v') :: setA k v r

def getA (k : Nat) : List (Nat × Nat) → Option Nat
  | [] => none
  | (k', v') :: r => if k' = k then some v' else getA k r

def applyAll (es : List Ent) (sink : List (Nat × Nat)) : List (Nat × Nat) :=
  es.foldl (fun s e => setA e.1 e.2 s) sink

inductive Step where
  | write (e : Ent)
  | deliver (b : Nat)
  | persist
  | abort
  | startFull (resetTok : Bool)
  deriving Repr, DecidableEq

def step (s : St) : Step → St
  | .write e => { s with src := s.src ++ [e] }
  | .deliver b =>
    let page := (s.src.drop s.cur).take b
    { s with sink := applyAll page s.sink, cur := s.cur + page.length }
  | .persist => { s with tok := s.cur }
  | .abort => { s with cur := s.tok }
  | .startFull r => if r then { s with tok := 0, cur := 0 } else { s with cur := 0 }

def run (s : St) (l : List Step) : St := l.foldl step s

/-- the latest version of `id` in a feed. -/
def latest (src : List Ent) (id : Nat) : Option Nat :=
  src.foldl (fun acc e => if e.1 = id then some e.2 else acc) none

/-- the sink's latest view equals the source's latest view. -/
def Converged (s : St) : Prop := ∀ id, getA id s.sink = latest s.src id

end Hub.Sync
