import Hub.Drv.Util
namespace Hub.Drv.C05
open Lean Hub.Drv

/-- the expectation for a concurrency run: it completes and the final state is consistent. -/
def conc (_ : Json) : R Res :=
  return { m := Json.mkObj [("completed", Json.bool true), ("problems", Json.arr #[]), ("lookupErrors", Json.bool false)], nt := true }

def handle (k : String) (inp : Json) : Option (R Res) :=
  match k with
  | "c05.conc" => some (conc inp)
  | "c05.stale" => some (conc inp)
  | "c05.coretxn" => some (do
      let n ← getNat inp "new"
      return { m := Json.mkObj [("completed", Json.bool true), ("accepted", Json.bool true), ("listed", jNat n), ("public", jNat 1)], nt := true })
  | "c19.renamerace" => some (conc inp)
  | _ => none

end Hub.Drv.C05
