import Hub.Drv.Util
import Hub.Model.Pipeline
import Hub.Generated.Pipeline
namespace Hub.Drv.C08
open Lean Hub.Drv Hub.Pipe

def optOf (i : Int) : Option Nat := if i < 0 then none else some i.toNat

def parseVer (j : Json) : R Ver := do
  let a ← j.getArr?
  match a.toList with
  | [i, c, d] => return { id := ← asNat i, c := ← asNat c, del := ← (fromJson? d : R Bool) }
  | _ => throw "bad version"

def insertBy (lt : α → α → Bool) (x : α) : List α → List α
  | [] => [x]
  | y :: ys => if lt x y then x :: y :: ys else y :: insertBy lt x ys
def sortBy (lt : α → α → Bool) (l : List α) : List α := l.foldl (fun acc x => insertBy lt x acc) []

def jVer (v : Ver) : Json := Json.arr #[jNat v.id, jNat v.c, Json.bool v.del]
def jTok (t : Tok) : Json := Json.arr (t.map (fun o => match o with | some n => jInt n | none => jInt (-1))).toArray
def resStr : Pipe.Res → String | .ok => "ok" | .err => "err" | .died => "died"

structure Acc where
  s : St
  obs : Array Json := #[]
  props : Array Json := #[]       -- flat: eq, behind, idle per run
  spec : Array Json := #[]
  prevOk : Bool := false
  prevTok : Tok := []
  prevLen : Nat := 0
  faulted : Nat := 0
  replays : List Nat := []        -- indices (into props) of idle flags of full syncs that replay a multi-version history

def runScript (inp : Json) : R Acc := do
  let n ← getNat inp "members"
  let cfg : Cfg := { union := getBoolD inp "union" false || n > 1, latestOnly := getBoolD inp "latestOnly" false, batch := ← getNat inp "batch" }
  let reset := resetAtStart Hub.Facts.Pipeline.skeleton_FullSyncPipeline
  let mut a : Acc := { s := { srcs := List.replicate n [] } }
  for ev in (← getArr inp "events") do
    match getOpt ev "w" with
    | some w =>
      let vs ← (← getArr w "ents").toList.mapM parseVer
      a := { a with s := writeSrc a.s (← getNat w "ds") vs, prevOk := false }
    | none =>
      let r ← getObj ev "run"
      let full ← getBool r "full"
      let flt : Faults := { failAt := optOf (← getInt r "failAt"), killAfter := optOf (← getInt r "killAfter"), dieAfter := optOf (← getInt r "dieAfter") }
      let (s', res) := runJob reset cfg full flt a.s
      let sinkView := sortBy (fun x y => x.id < y.id) (view s'.sink.feed)
      let o := Json.mkObj [("res", Json.str (resStr res)), ("tok", jTok s'.tok), ("sinkLen", jNat s'.sink.feed.length), ("sink", jList jVer sinkView)]
      let eq : Json := if res == .ok then Json.bool (sameView (srcView s') (view s'.sink.feed)) else Json.null
      let eqS : Json := if res == .ok then Json.bool true else Json.null
      let bh := sortBy (· < ·) (behind s')
      let idleApplies := res == .ok && a.prevOk
      let idleV := decide (a.prevTok = s'.tok) && a.prevLen == s'.sink.feed.length
      let idle : Json := if idleApplies then Json.bool idleV else Json.null
      let idleS : Json := if idleApplies then Json.bool true else Json.null
      -- known finding D29: a full sync over changes replays the whole history of the source; when some id has
      -- more than one version the sink's feed grows although nothing is new (the latest view is unchanged)
      let multi := !cfg.latestOnly && a.s.srcs.any (fun f => f.length != (idsOf f).length)
      let replays := if idleApplies && full && multi then a.replays ++ [a.props.size + 2] else a.replays
      a := { a with s := s', obs := a.obs.push o,
                    props := (a.props.push eq).push (jNats bh) |>.push idle,
                    spec := (a.spec.push eqS).push (jNats []) |>.push idleS,
                    prevOk := res == .ok, prevTok := s'.tok, prevLen := s'.sink.feed.length,
                    faulted := a.faulted + (if res != .ok then 1 else 0), replays := replays }
  return a

def nontrivial (a : Acc) : Bool := a.faulted > 0 && a.s.srcs.any (fun f => f.length != (idsOf f).length)

def handle (k : String) (inp : Json) : Option (R Res) :=
  match k with
  | "c08.run" => some do
      let a ← runScript inp
      return { m := Json.arr a.obs, nt := nontrivial a }
  | "c08.prop" => some do
      let a ← runScript inp
      return { m := Json.arr a.props, s := some (Json.arr a.spec), nt := nontrivial a,
               kf := if a.replays.isEmpty then none else some "fullsync-rerun-replays-history", kfi := a.replays }
  | _ => none

end Hub.Drv.C08
