import Hub.Drv.Util
import Hub.Model.Namespace
namespace Hub.Drv.C13
open Lean Hub.Drv Hub.Namespace

def s2l (s : String) : Str := s.toList
def l2s (l : Str) : String := String.ofList l

def insertSortedBy (lt : α → α → Bool) (x : α) : List α → List α
  | [] => [x]
  | y :: ys => if lt x y then x :: y :: ys else y :: insertSortedBy lt x ys
def sortBy (lt : α → α → Bool) (l : List α) : List α := l.foldl (fun acc x => insertSortedBy lt x acc) []

def ns (inp : Json) : R Res := do
  let ops ← getArr inp "ops"
  -- `NewDsManager` asserts the three core namespaces, in this order, on every start
  let core := ["http://data.mimiro.io/core/dataset/", "http://data.mimiro.io/core/", "http://www.w3.org/1999/02/22-rdf-syntax-ns#"]
  let mut s : NS := core.foldl (fun s e => (s.assert (s2l e)).1) {}
  let mut res : Array Json := #[]
  let mut restarts := 0
  for o in ops do
    let a ← o.getArr?
    let kind ← asStr a[0]!
    match kind with
    | "assert" =>
      let r := s.assert (s2l (← asStr a[1]!))
      s := r.1; res := res.push (Json.str (l2s r.2))
    | "assertNested" =>
      -- the second caller ran the whole function while the first was in front of a lock: second, then first
      let e1 := s2l (← asStr a[1]!); let e2 := s2l (← asStr a[2]!)
      let r2 := s.assert e2
      let r1 := r2.1.assert e1
      s := r1.1; res := res.push (Json.arr #[Json.str (l2s r1.2), Json.str (l2s r2.2), Json.bool true])
    | "compact" =>
      match s.compact (s2l (← asStr a[1]!)) with
      | some (s', c) => s := s'; res := res.push (Json.str (l2s c))
      | none => res := res.push (Json.str "err")
    | "expand" =>
      match s.expand (s2l (← asStr a[1]!)) with
      | some u => res := res.push (Json.str (l2s u))
      | none => res := res.push (Json.str "err")
    | "restart" => restarts := restarts + 1; res := res.push (Json.str "ok")   -- restart is the identity on NS
    | _ => throw s!"bad op {kind}"
  let final := sortBy (fun (a b : String × String) => a.1 < b.1) (s.pairs.map fun (p, e) => (l2s p, l2s e))
  return { m := Json.mkObj [("res", Json.arr res), ("final", jList (fun (p : String × String) => jStrs [p.1, p.2]) final)],
           nt := decide (s.pairs.length ≥ 5 ∧ restarts ≥ 1) }

def ids (inp : Json) : R Res := do
  let ops ← getArr inp "ops"
  let mut s : Ids := {}
  let mut res : Array Json := #[]
  let mut restarts := 0
  for o in ops do
    let a ← o.getArr?
    let kind ← asStr a[0]!
    match kind with
    | "store" =>
      for u in ← strList a[1]! do
        s := (s.assert (s2l u)).1
    | "restart" => restarts := restarts + 1; s := s.restart 1000   -- the lease skips ids, ranks are unchanged
    | _ => throw s!"bad op {kind}"
    let ranked := sortBy (fun (a b : Str × Nat) => a.2 < b.2) s.pairs
    res := res.push (jStrs (ranked.map (l2s ·.1)))
  return { m := Json.arr res, nt := decide (s.pairs.length ≥ 3 ∧ restarts ≥ 1) }

def handle (k : String) (inp : Json) : Option (R Res) :=
  match k with
  | "c13.ns" => some (ns inp)
  | "c13.ids" => some (ids inp)
  | _ => none

end Hub.Drv.C13
