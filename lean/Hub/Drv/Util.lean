import Lean.Data.Json
/-! JSON helpers for the line-protocol driver (core only). -/
namespace Hub.Drv
open Lean

abbrev R := Except String

def getNat (j : Json) (k : String) : R Nat := j.getObjValAs? Nat k
def getInt (j : Json) (k : String) : R Int := j.getObjValAs? Int k
def getStr (j : Json) (k : String) : R String := j.getObjValAs? String k
def getBool (j : Json) (k : String) : R Bool := j.getObjValAs? Bool k
def getArr (j : Json) (k : String) : R (Array Json) := do (← j.getObjVal? k).getArr?
def getObj (j : Json) (k : String) : R Json := j.getObjVal? k
def getOpt (j : Json) (k : String) : Option Json := (j.getObjVal? k).toOption
def getNatD (j : Json) (k : String) (d : Nat) : Nat := (getNat j k).toOption.getD d
def getBoolD (j : Json) (k : String) (d : Bool) : Bool := (getBool j k).toOption.getD d
def getStrD (j : Json) (k : String) (d : String) : String := (getStr j k).toOption.getD d
def getArrD (j : Json) (k : String) : Array Json := (getArr j k).toOption.getD #[]

def asNat (j : Json) : R Nat := fromJson? j
def asInt (j : Json) : R Int := fromJson? j
def asStr (j : Json) : R String := fromJson? j
def natList (j : Json) : R (List Nat) := do (← j.getArr?).toList.mapM asNat
def intList (j : Json) : R (List Int) := do (← j.getArr?).toList.mapM asInt
def strList (j : Json) : R (List String) := do (← j.getArr?).toList.mapM asStr

def jNat (n : Nat) : Json := toJson n
def jInt (n : Int) : Json := toJson n
def jNats (l : List Nat) : Json := Json.arr (l.map jNat).toArray
def jInts (l : List Int) : Json := Json.arr (l.map jInt).toArray
def jStrs (l : List String) : Json := Json.arr (l.map Json.str).toArray
def jList (f : α → Json) (l : List α) : Json := Json.arr (l.map f).toArray
def jPair (a b : Json) : Json := Json.arr #[a, b]

/-- result of one case: model observation, optional spec observation, non-triviality flag,
optional known-finding class the *input* falls in. -/
structure Res where
  m : Json
  s : Option Json := none
  nt : Bool := true
  kf : Option String := none
  /-- indices (into the observation array) whose deviation from the spec is attributed to `kf`;
  empty = the whole case. -/
  kfi : List Nat := []
  /-- per-index attribution (index ↦ class) when one case touches several recorded findings. -/
  kfm : List (Nat × String) := []

def Res.toJson (id : Nat) (r : Res) : Json :=
  Json.mkObj <|
    [("id", jNat id), ("m", r.m), ("nt", Json.bool r.nt)]
    ++ (match r.s with | some s => [("s", s)] | none => [])
    ++ (match r.kf with | some s => [("kf", Json.str s), ("kfi", jNats r.kfi)] | none => [])
    ++ (if r.kfm.isEmpty then [] else [("kfm", Json.arr (r.kfm.map fun (i, c) => Json.arr #[jNat i, Json.str c]).toArray)])

end Hub.Drv
