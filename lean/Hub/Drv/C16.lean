import Hub.Drv.Util
import Hub.Model.Acl
namespace Hub.Drv.C16
open Lean Hub.Drv Hub.Acl

def parseAcl (inp : Json) : R (List Ac) := do
  (← getArr inp "acl").toList.mapM fun j => do
    return { resource := ← getStr j "r", action := ← getStr j "a", deny := ← getBool j "d" }

def acl (inp : Json) : R Res := do
  let method ← getStr inp "method"; let path ← getStr inp "path"
  let a ← parseAcl inp
  let admin := getBoolD inp "admin" false
  let d := doAclCheck method path admin a
  return { m := Json.str (if d then "allow" else "deny"),
           nt := decide (a.length ≥ 1 ∧ !admin ∧ a.any (fun ac => resourceMatch ac.resource path)) }

/-- the node's own tokens: valid signature, unexpired, RS256, node issuer/audience. -/
def tokOf (kind : String) : Option Tok :=
  let node := some "node:node1"
  let base : Tok := { sigNode := true, sigJwks := false, claimsValid := true, aud := node, iss := node, alg := "RS256" }
  match kind with
  | "absent" => none
  | "malformed" => none
  | "expired" => some { base with claimsValid := false }
  | "wrongkey" => some { base with sigNode := false }
  | "wrongiss" => some { base with iss := some "node:other" }
  | "wrongaud" => some { base with aud := some "node:other" }
  | "rs384" => some { base with alg := "RS384" }
  | "hs256pub" => some { base with sigNode := false, alg := "HS256" }   -- an *rsa.PublicKey is not an HMAC key
  | "none" => some { base with sigNode := false, alg := "none" }
  | "admin" => some base
  | "client" => some base
  | _ => none

def http (inp : Json) : R Res := do
  let method ← getStr inp "method"; let path ← getStr inp "path"
  let kind ← getStr inp "token"
  let a ← parseAcl inp
  let cfg : Cfg := { jwks := false, audiences := ["node:node1"], issuers := ["node:node1"] }
  -- routes registered without an authorizer (documented open for authenticated callers)
  -- (method, path) pairs the router does not register end in echo's 404/405 handler: the JWT
  -- middleware is global, the authorizer is per route
  let noAuthorizer := path == "/" || !(getBoolD inp "registered" true)
  let r :=
    if skipped path then "served"
    else match tokOf kind with
      | none => "401"
      | some t =>
        if !validate cfg t then "401"
        else if noAuthorizer then "served"
        else if doAclCheck method path (kind == "admin") a then "served" else "403"
  return { m := Json.str r, nt := decide (!skipped path ∧ kind ≠ "admin") }

/-- a sequence of requests by one client: every request is decided on its own, with the ACL in force at that moment. -/
def seq (inp : Json) : R Res := do
  let kind ← getStr inp "token"
  let cfg : Cfg := { jwks := false, audiences := ["node:node1"], issuers := ["node:node1"] }
  let mut a ← parseAcl inp
  let mut res : Array Json := #[]
  let mut i := 0
  let mut denied := 0
  let mut served := 0
  for rq in (← getArr inp "reqs") do
    match getOpt inp "change" with
    | some ch =>
      if (← getNat ch "at") == i then
        a ← if getBoolD ch "delete" false then pure [] else parseAcl ch
    | none => pure ()
    let r ← rq.getArr?
    let method ← asStr r[0]!; let path ← asStr r[1]!
    let d :=
      if skipped path then "served"
      else match tokOf kind with
        | none => "401"
        | some t =>
          if !validate cfg t then "401"
          else if path == "/" then "served"
          else if doAclCheck method path (kind == "admin") a then "served" else "403"
    if d == "403" then denied := denied + 1
    if d == "served" then served := served + 1
    res := res.push (Json.str d)
    i := i + 1
  return { m := Json.arr res, nt := decide (denied ≥ 1 ∧ served ≥ 1) }

def parseAcl1 (j : Json) : R (List Ac) := do
  (← j.getArr?).toList.mapM fun j => do
    return { resource := ← getStr j "r", action := ← getStr j "a", deny := ← getBool j "d" }

def insertSortedBy (lt : α → α → Bool) (x : α) : List α → List α
  | [] => [x]
  | y :: ys => if lt x y then x :: y :: ys else y :: insertSortedBy lt x ys
def sortBy (lt : α → α → Bool) (l : List α) : List α := l.foldl (fun acc x => insertSortedBy lt x acc) []

def acJson (a : Ac) : Json := Json.mkObj [("r", Json.str a.resource), ("a", Json.str a.action), ("d", Json.bool a.deny)]

def persistK (inp : Json) : R Res := do
  let ops ← getArr inp "ops"
  let mut s : Sec := {}
  let mut res : Array Json := #[]
  let mut restarts := 0
  for o in ops do
    let a ← o.getArr?
    let kind ← asStr a[0]!
    let op ← match kind with
      | "register" => pure (SecOp.register (← asStr a[1]!))
      | "unregister" => pure (SecOp.unregister (← asStr a[1]!))
      | "setacl" => pure (SecOp.setAcl (← asStr a[1]!) (← parseAcl1 a[2]!))
      | "delacl" => pure (SecOp.delAcl (← asStr a[1]!))
      | "restart" => pure SecOp.restart
      | _ => throw s!"bad op {kind}"
    if kind == "restart" then restarts := restarts + 1
    s := s.step op
    let cl := sortBy (fun (a b : String) => a < b) s.mem.clients
    let ac := sortBy (fun (a b : String × List Ac) => a.1 < b.1) s.mem.acls
    res := res.push (Json.mkObj [("clients", jStrs cl),
      ("acls", jList (fun (p : String × List Ac) => Json.arr #[Json.str p.1, jList acJson p.2]) ac)])
  return { m := Json.arr res, nt := decide (restarts ≥ 1 ∧ s.mem.acls.length + s.mem.clients.length ≥ 1) }

def handle (k : String) (inp : Json) : Option (R Res) :=
  match k with
  | "c16.acl" => some (acl inp)
  | "c16.http" => some (http inp)
  | "c16.persist" => some (persistK inp)
  | "c16.seq" => some (seq inp)
  | _ => none

end Hub.Drv.C16
