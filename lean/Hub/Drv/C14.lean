import Hub.Drv.Util
namespace Hub.Drv.C14
open Lean Hub.Drv

structure Job where
  id : String
  paused : Bool
  rd : Nat        -- configured retry delay in seconds (0 = no reRun handler)

structure St where
  jobs : List Job := []
  tokens : List (String × String) := []

def setJob (j : Job) (l : List Job) : List Job := j :: l.filter (·.id != j.id)

def insertSorted (x : Job) : List Job → List Job
  | [] => [x]
  | y :: ys => if x.id < y.id then x :: y :: ys else y :: insertSorted x ys

def obs (s : St) (rc : String) : Json :=
  let sorted := s.jobs.foldl (fun acc j => insertSorted j acc) []
  Json.mkObj [("rc", Json.str rc), ("jobs", jList (fun (j : Job) =>
    Json.mkObj [("id", Json.str j.id), ("paused", Json.bool j.paused),
      ("retryDelaySeconds", Json.arr (if j.rd > 0 then #[jNat j.rd] else #[])),
      ("token", Json.str ((s.tokens.lookup j.id).getD ""))]) sorted)]

def jobs (inp : Json) : R Res := do
  let ops ← getArr inp "ops"
  let mut s : St := {}
  let mut out : Array Json := #[]
  let mut reopens := 0
  for o in ops do
    let a ← o.getArr?
    let kind ← asStr a[0]!
    let mut rc := "ok"
    match kind with
    | "add" =>
      let id ← asStr a[1]!
      let p ← (fromJson? a[2]! : R Bool)
      let rd ← asNat a[3]!
      s := { s with jobs := setJob ⟨id, p, rd⟩ s.jobs }
    | "pause" | "resume" =>
      let id ← asStr a[1]!
      match s.jobs.find? (·.id == id) with
      | some j => s := { s with jobs := setJob { j with paused := kind == "pause" } s.jobs }
      | none => rc := "err"
    | "delete" =>
      let id ← asStr a[1]!
      s := { s with jobs := s.jobs.filter (·.id != id) }
    | "token" =>
      s := { s with tokens := (← asStr a[1]!, ← asStr a[2]!) :: s.tokens.filter (·.1 != (a[1]!.getStr?.toOption.getD "")) }
    | "reset" =>
      let id ← asStr a[1]!
      -- ResetJob only touches an existing sync state
      if (s.tokens.lookup id).isSome then
        s := { s with tokens := (id, ← asStr a[2]!) :: s.tokens.filter (·.1 != id) }
    | "reopen" => reopens := reopens + 1     -- restart is the identity
    | _ => throw s!"bad op {kind}"
    out := out.push (obs s rc)
  return { m := Json.arr out, nt := decide (reopens ≥ 1 ∧ s.jobs.length ≥ 1) }

def handle (k : String) (inp : Json) : Option (R Res) :=
  match k with
  | "c14.jobs" => some (jobs inp)
  | _ => none

end Hub.Drv.C14
