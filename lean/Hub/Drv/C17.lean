import Hub.Drv.Util
import Hub.Model.Bisect
namespace Hub.Drv.C17
open Lean Hub.Drv Hub.Bisect

def sinkF (bad : List Nat) (failCalls : List Nat) : Nat → List Nat → Bool × Nat :=
  fun c es => (!(es.any (bad.contains ·)) && !(failCalls.contains c), c + 1)

def bisect (inp : Json) : R Res := do
  let batches ← (← getArr inp "batches").toList.mapM natList
  let bad ← natList (← getObj inp "bad")
  let fc ← natList (← getObj inp "failCalls")
  let m ← getNat inp "m"
  let stale := getBoolD inp "stale" false
  let s0 : St Nat Nat := ({ sink := 0, lastErr := stale } : St Nat Nat).reset
  let r := run (sinkF bad fc) m batches s0
  let mk (d rep : List Nat) (res : Bisect.Res) (le : Bool) (calls : Nat) : Json :=
    Json.mkObj [("delivered", jNats d), ("reported", jNats rep),
      ("res", Json.str (if res = Bisect.Res.maxItems then "max" else "ok")), ("lastErr", Json.bool le), ("calls", jNat calls)]
  let all := batches.flatten
  -- spec (stated only where the property states it outright): permanent rejects, no item limit, no stale error
  let spec : Option Json :=
    if fc.isEmpty ∧ m = 0 ∧ !stale then
      some (mk (all.filter (!bad.contains ·)) (all.filter (bad.contains ·)) Bisect.Res.ok (all.any (bad.contains ·)) r.1.sink)
    else if !(r.1.reported.isEmpty) then
      -- any run with a rejection must carry the error
      some (mk r.1.delivered r.1.reported r.2 true r.1.sink)
    else none
  return { m := mk r.1.delivered r.1.reported r.2 r.1.lastErr r.1.sink, s := spec,
           nt := decide (all.length > 1 ∧ !(bad.isEmpty ∧ fc.isEmpty)) }

/-- `c17.overlap`: one batch of `n` entities through the real job.Run while a second trigger of the same job
is turned away: the outcome is that of the undisturbed bisection, whatever the moment of the second trigger. -/
def overlap (inp : Json) : R Res := do
  let n ← getNat inp "n"
  let bad ← natList (← getObj inp "bad")
  let m ← getNat inp "m"
  let s0 : St Nat Nat := ({ sink := 0, lastErr := false } : St Nat Nat).reset
  let r := run (sinkF bad []) m (if n = 0 then [] else [List.range n]) s0
  let o := Json.mkObj [("delivered", jNats r.1.delivered), ("calls", jNat r.1.sink),
    ("failed", Json.bool (r.1.lastErr || r.2 = Bisect.Res.maxItems))]
  return { m := o, nt := decide (n > 1 ∧ !bad.isEmpty) }

/-- `c17.rerun`: a job whose every run fails runs once per trigger plus `maxRetries` re-runs in total (the budget is
shared by all runs of the job and is spent when a re-run is scheduled); a job whose runs succeed is never re-run. -/
def rerun (inp : Json) : R Res := do
  let m ← getNat inp "m"
  let trig := (getArrD inp "triggers").size
  let fail := getBoolD inp "fail" true
  let mEff := if m = 0 then 1 else m        -- verifyErrorHandlers: maxRetries 0 means the default, 1
  let runs := if fail then trig + mEff else trig
  return { m := Json.mkObj [("runs", jNat runs)], nt := decide (fail ∧ m > 0 ∧ trig > 1) }

def handle (k : String) (inp : Json) : Option (R Res) :=
  match k with
  | "c17.rerun" => some (rerun inp)
  | "c17.overlap" => some (overlap inp)
  | "c17.bisect" => some (bisect inp)
  | "c17.bisectchild" => some (bisect inp)
  | _ => none

end Hub.Drv.C17
