import Hub.Drv.Util
import Hub.Model.Partition
namespace Hub.Drv.C10
open Lean Hub.Drv Hub.Partition

/-- `c10.bounds`: in {n,p} → list of [from,to]. -/
def bounds (inp : Json) : R Res := do
  let n ← getNat inp "n"; let p ← getInt inp "p"
  let bs := chunkBounds n p
  return { m := jList (fun b => jNats [b.1, b.2]) bs, nt := decide (p > 1 ∧ n > 0) }

/-- `c10.pipe`: in {n,batch,p,mode} where the transform maps entity i according to mode:
"id" → [i], "drop" → [] for odd i, "dup" → [i,i], "create" → [i, 1000+i].
Model output: sink-received list per source batch (source batches of size `batch`), plus the
list of ids each transform call sequence saw, flattened. -/
def tf (mode : String) (i : Nat) : List Nat :=
  match mode with
  | "id" => [i]
  | "drop" => if i % 2 = 1 then [] else [i]
  | "dup" => [i, i]
  | "create" => [i, 1000 + i]
  | "push" => [i, 1000 + i]
  | _ => [i]

def batches (xs : List Nat) (b : Nat) (fuel : Nat) : List (List Nat) :=
  match fuel with
  | 0 => []
  | fuel + 1 => if xs.isEmpty then [] else
      let b' := if b = 0 then xs.length else b
      xs.take b' :: batches (xs.drop b') b fuel

def pipe (inp : Json) : R Res := do
  let n ← getNat inp "n"; let b ← getNat inp "batch"; let p ← getInt inp "p"
  let mode ← getStr inp "mode"
  let src := List.range n
  let bs := batches src b (n + 1)
  let sink := bs.map fun batch => parTransform (fun c => c.flatMap (tf mode)) batch p
  let seen := (bs.map fun batch => (chunks batch p).flatten).flatten
  -- spec: sequential, exactly once, source order
  let specSink := bs.map fun batch => batch.flatMap (tf mode)
  let mk (sink : List (List Nat)) (seen : List Nat) : Json :=
    Json.mkObj [("sink", jList jNats sink), ("seen", jNats seen)]
  return { m := mk sink seen, s := some (mk specSink src), nt := decide (p > 1 ∧ n > 1) }

def handle (k : String) (inp : Json) : Option (R Res) :=
  match k with
  | "c10.bounds" => some (bounds inp)
  | "c10.pipe" => some (pipe inp)
  | _ => none

end Hub.Drv.C10
