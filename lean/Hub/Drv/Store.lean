import Hub.Drv.Util
import Hub.Model.Store
import Hub.Model.Crash
import Hub.Model.MultiSource
import Hub.Generated.CrashPoints
/-! Driver for `store.hist`: replays a history on the store model with the real run's ids, times and
dataset ids, and renders the same canonical observations as the harness. -/
namespace Hub.Drv.Store
open Lean Hub.Drv Hub.Store

structure JEnt where
  uri : String
  props : Json
  refs : Json
  deleted : Bool

structure S where
  db : DB := {}
  ents : List (VKey × JEnt) := []        -- rendering table
  rid : List (String × Nat) := []        -- uri ↦ rid
  uriOf : List (Nat × String) := []
  dsid : List (String × Nat) := []       -- live dataset names
  pubNs : List (String × Json) := []     -- live dataset name ↦ public namespaces (meta entity)
  ever : List String := []               -- every dataset name that ever existed
  times : Array Nat := #[]
  conts : List (String × (Nat × Nat × Nat × List Nat × Bool × Option RefKey)) := []  -- label ↦ (start, pred, at, scope, inverse, key); key none = finished
  lastT : Nat := 0
  dsidEver : List Nat := []              -- every dataset id ever handed out
  jobs : List (String × Hub.Multi.Tok) := []  -- C18: stored continuation token per MultiSource job
  owed : List (String × List String) := []    -- C18: what an interrupted run of a job left undelivered (uris)
  halfCreated : List String := []             -- C04: datasets whose creation died after the dataset record was written
  /-- the inputs themselves contradict the specification: an internal id or a dataset id was handed out twice
  (C04/C07/C13: identifiers are never reused, also not after a crash). The specification then has no answer. -/
  poison : Option String := none

def ridOf (s : S) (u : String) : Nat := (s.rid.lookup u).getD 0
def uriFor (s : S) (r : Nat) : String := (s.uriOf.lookup r).getD ""

def refPairs (s : S) (refs : Json) : List (Nat × Nat) :=
  match refs with
  | .obj kvs => kvs.toList.foldl (fun acc (k, v) =>
      let p := ridOf s k
      match v with
      | .str t => acc ++ [(p, ridOf s t)]
      | .arr ts => acc ++ ts.toList.filterMap (fun t => match t with | .str x => some (p, ridOf s x) | _ => none)
      | _ => acc) []
  | _ => []

def mkEnt (s : S) (j : Json) : R (Ent × JEnt) := do
  let uri ← getStr j "id"
  let props := (getOpt j "props").getD (Json.mkObj [])
  let refs := (getOpt j "refs").getD (Json.mkObj [])
  let deleted := getBoolD j "deleted" false
  let body := (Json.mkObj [("props", props), ("refs", refs)]).compress
  let arrs : List Nat := match refs with
    | .obj kvs => kvs.toList.filterMap fun (k, v) => match v with | .arr _ => some (ridOf s k) | _ => none
    | _ => []
  return ({ rid := ridOf s uri, deleted := deleted, refs := refPairs s refs, body := body, arrs := arrs },
          { uri := uri, props := props, refs := refs, deleted := deleted })

def render (je : JEnt) : Json :=
  Json.mkObj [("id", Json.str je.uri), ("deleted", Json.bool je.deleted), ("props", je.props), ("refs", je.refs)]

def renderKey (s : S) (k : VKey) : Json :=
  match s.ents.find? (·.1 == k) with
  | some (_, je) => render je
  | none => Json.null

/-- find the version key of a model entity in a page result: the model returns `Ent`s; we look the
key up through the db. -/
def keyOfEnt (db : DB) (ds : Nat) (e : Ent) (latest : Bool) : Option VKey :=
  if latest then db.latestOf ds e.rid else none

/-- `mergeInto` of store.go on JSON objects. -/
def mergeObj (t s : Json) : Json :=
  match t, s with
  | .obj tk, .obj sk =>
    Json.obj <| sk.toList.foldl (fun acc (k, sv) =>
      match acc.get? k with
      | some tv =>
        let merged := match tv, sv with
          | .arr a, .arr b => Json.arr (a ++ b)
          | .arr a, v => Json.arr (a.push v)
          | v, .arr b => Json.arr (#[v] ++ b)
          | v, w => Json.arr #[v, w]
        acc.insert k merged
      | none => acc.insert k sv) tk
  | _, _ => t

def lookup (s : S) (uri : String) (scope : List Nat) (at_ : Nat) : Json :=
  match s.rid.lookup uri with
  | none => Json.null
  | some rid =>
    let (parts, hasDel) := partialsAt s.db rid at_ scope
    match parts with
    | [] => Json.mkObj [("id", Json.str uri), ("deleted", Json.bool hasDel), ("props", Json.mkObj []), ("refs", Json.mkObj [])]
    | p :: rest =>
      let jes := (p :: rest).filterMap fun v => (s.ents.find? (·.1 == v.1)).map (·.2)
      match jes with
      | [] => Json.null
      | j0 :: js =>
        let props := js.foldl (fun acc j => mergeObj acc j.props) j0.props
        let refs := js.foldl (fun acc j => mergeObj acc j.refs) j0.refs
        Json.mkObj [("id", Json.str j0.uri), ("deleted", Json.bool false), ("props", props), ("refs", refs)]

def scopeIds (s : S) (names : List String) : List Nat :=
  names.filterMap (s.dsid.lookup ·)

def relRender (s : S) (rs : List QRes) : Json :=
  let pairs := rs.map fun r => (uriFor s r.pred, uriFor s r.other)
  let sorted := Hub.Store.sortBy (fun (a b : String × String) => (a.1 ++ "|" ++ a.2) < (b.1 ++ "|" ++ b.2)) pairs
  jList (fun (p : String × String) => jStrs [p.1, p.2]) sorted

/-- spec of a relationship query: the graph implied by the latest versions at `at` in scope. -/
def graphOut (s : S) (src pred at_ : Nat) (scope : List Nat) : List (Nat × Nat) :=
  let dss := (s.db.versions.map (·.1.ds)).eraseDups
  let res := dss.foldl (fun acc d =>
    if !inScope s.db scope d then acc else
    match (lastPerDs (visibleVersions s.db src at_ [d])).head? with
    | some (_, e) => if e.deleted then acc else acc ++ (e.refs.filter fun r => pred = 0 ∨ r.1 = pred)
    | none => acc) []
  res.eraseDups

def graphIn (s : S) (tgt pred at_ : Nat) (scope : List Nat) : List (Nat × Nat) :=
  let srcs := (s.db.versions.map (·.1.rid)).eraseDups
  (srcs.foldl (fun acc src => acc ++ ((graphOut s src pred at_ scope).filter (·.2 == tgt)).map (fun r => (r.1, src))) []).eraseDups

def atOf (s : S) (q : Json) : Nat :=
  match getOpt q "at" with
  | some a =>
    let k := getNatD a "op" 0
    let d : Int := (getInt a "delta").toOption.getD 0
    let t := s.times[k]?.getD 0
    if t = 0 then 0 else (Int.toNat ((t : Int) + d))
  | none => 0

def bigT : Nat := 4611686018427387903

/-- known-finding class D4: some referencing entity has, in scope and up to `at`, more than one
(predicate, dataset) combination towards the start entity. The inverse scan keeps ONE deleted flag
and one spill-over slot per referencing entity but one result per predicate, so with several
combinations removed references can be returned and live ones dropped. With a single combination
per referencing entity the scan is right. -/
def d4Class (s : S) (tgt at_ : Nat) (scope : List Nat) : Bool :=
  let keys := s.db.refs.filter fun k => k.tgt == tgt && k.t ≤ at_ && inScope s.db scope k.ds
  let srcs := (keys.map (·.src)).eraseDups
  srcs.any fun src =>
    let ks := keys.filter (·.src == src)
    ((ks.map fun k => (k.pred, k.ds)).eraseDups).length ≥ 2

structure Acc where
  s : S := {}
  outM : Array Json := #[]
  outS : Array Json := #[]
  kf : Option String := none
  kfi : List Nat := []
  kfm : List (Nat × String) := []        -- observation index ↦ class of the known finding it is attributed to
  nt : Nat := 0
  snap : Option S := none
  snapStart : Option S := none

def doQuery (a : Acc) (q : Json) : R Acc := do
  let s := a.s
  let kind ← getStr q "q"
  match kind with
  | "list" =>
    match s.dsid.lookup (← getStr q "ds") with
    | none => let e := Json.mkObj [("err", Json.str "nods")]; return { a with outM := a.outM.push e, outS := a.outS.push e }
    | some ds =>
      let pages ← natList (← getObj q "pages")
      let mut from? : Option Nat := none
      let mut ps : Array Json := #[]
      let mut toks : Array Json := #[]
      for c in pages do
        let (es, tok) := listPage s.db ds from? c
        ps := ps.push (jList (fun (e : Ent) => match s.db.latestOf ds e.rid with | some k => renderKey s k | none => Json.null) es)
        from? := tok
        toks := toks.push (Json.str (match tok with | some r => uriFor s r | none => ""))
      let o := Json.mkObj [("pages", Json.arr ps), ("tokens", Json.arr toks)]
      return { a with outM := a.outM.push o, outS := a.outS.push o, nt := a.nt + 1 }
  | "changes" =>
    match s.dsid.lookup (← getStr q "ds") with
    | none => let e := Json.mkObj [("err", Json.str "nods")]; return { a with outM := a.outM.push e, outS := a.outS.push e }
    | some ds =>
      let limits ← natList (← getObj q "limits")
      let lo := getBoolD q "latestOnly" false
      let mut since := getNatD q "since" 0
      let mut ps : Array Json := #[]
      let mut toks : Array Json := #[]
      for l in limits do
        -- render through the change keys (an entity may occur several times)
        let entries := (changesOf s.db ds).filter (·.1 ≥ since)
        let (es, tok) := changesPage s.db ds since l lo
        -- recover keys: re-scan emitting keys
        let keys := Id.run do
          let mut out : Array VKey := #[]
          for (_, k) in entries do
            if out.size < es.length ∨ l = 0 then
              if !lo || s.db.latestOf ds k.rid == some k then out := out.push k
          return out
        ps := ps.push (Json.arr ((keys.toList.take es.length).map (renderKey s)).toArray)
        since := tok
        toks := toks.push (jNat tok)
      let o := Json.mkObj [("pages", Json.arr ps), ("tokens", Json.arr toks)]
      return { a with outM := a.outM.push o, outS := a.outS.push o, nt := a.nt + 1 }
  | "entity" =>
    let scope := scopeIds s (← strList (← getObj q "scope"))
    let named := (← strList (← getObj q "scope")).length
    let t := atOf s q
    let at_ := if t = 0 then bigT else t
    -- a scope naming only unknown datasets resolves to "no restriction" in the code (D24, see DESIGN)
    let o := lookup s (← getStr q "id") scope at_
    let _ := named
    return { a with outM := a.outM.push o, outS := a.outS.push o, nt := a.nt + 1 }
  | "catalogue" =>
    let names := Hub.Store.sortBy (fun (x y : String) => x < y) ("core.Dataset" :: s.dsid.map (·.1))
    let asked ← strList (← getObj q "names")
    let metaOf (real : Bool) (n : String) : Json :=
      if n == "core.Dataset" then
        -- known finding D22: the counter of core.Dataset's own meta entity is never maintained
        let cnt := if real then 0 else (s.ever.length + 1)   -- one meta entity per name ever created, plus its own
        Json.mkObj [("deleted", Json.bool false), ("name", Json.str n), ("items", jNat cnt)]
      else match s.dsid.lookup n with
      | some d =>
        let base := [("deleted", Json.bool false), ("name", Json.str n), ("items", jNat (s.db.itemsOf d))]
        let pn := (s.pubNs.lookup n).getD Json.null
        Json.mkObj (if pn.isNull then base else base ++ [("publicNamespaces", pn)])
      | none => if s.ever.contains n then Json.mkObj [("deleted", Json.bool true)] else Json.null
    let mk (real : Bool) : Json := Json.mkObj [("names", jStrs names), ("meta", Json.mkObj (asked.map fun n => (n, metaOf real n)))]
    let hasCore := asked.contains "core.Dataset"
    return { a with outM := a.outM.push (mk true), outS := a.outS.push (mk false), nt := a.nt + 1,
                    kf := if hasCore then (match a.kf with | some k => some k | none => some "core.Dataset-own-items-counter") else a.kf,
                    kfi := if hasCore then a.outM.size :: a.kfi else a.kfi,
                    kfm := if hasCore then (a.outM.size, "core.Dataset-own-items-counter") :: a.kfm else a.kfm }
  | "context" =>
    let name ← getStr q "ds"
    match s.dsid.lookup name with
    | none => let e := Json.mkObj [("err", Json.str "nods")]; return { a with outM := a.outM.push e, outS := a.outS.push e }
    | some _ =>
      let pn := (s.pubNs.lookup name).getD Json.null
      let vals : List String := match pn with
        | .arr xs => xs.toList.filterMap fun x => match x with | .str v => some v | _ => none
        | _ => []
      let o := Json.mkObj [("public", if vals.isEmpty then Json.null else jStrs (Hub.Store.sortBy (· < ·) vals.eraseDups))]
      -- known finding D35: the meta entity of a half-created dataset is re-created without its name; a later change of the
      -- public namespaces through core.Dataset does not reach the dataset
      let half := s.halfCreated.contains name
      return { a with outM := a.outM.push o, outS := a.outS.push o, nt := a.nt + 1,
                      kf := if half then (match a.kf with | some k => some k | none => some "public-namespaces-of-half-created-dataset") else a.kf,
                      kfi := if half then a.outM.size :: a.kfi else a.kfi,
                      kfm := if half then (a.outM.size, "public-namespaces-of-half-created-dataset") :: a.kfm else a.kfm }
  | "related" =>
    let limit := getNatD q "limit" 0
    let inverse := getBoolD q "inverse" false
    let lbl := getStrD q "cont" ""
    let save := getStrD q "save" ""
    let start? : Option (Nat × Nat × Nat × List Nat × Bool × Option RefKey × Bool) :=
      if lbl ≠ "" then
        match s.conts.lookup lbl with
        | some (st, p, t, sc, inv, some k) => some (st, p, t, sc, inv, some k, false)
        | _ => none
      else
        let startU := getStrD q "start" ""
        let predU := getStrD q "pred" "*"
        let t := atOf s q
        let at_ := if t = 0 then bigT else t
        let scope := scopeIds s ((getArrD q "scope").toList.filterMap fun j => j.getStr?.toOption)
        match s.rid.lookup startU with
        | none => none
        | some st =>
          if predU == "*" then some (st, 0, at_, scope, inverse, none, true)
          else match s.rid.lookup predU with
            | some p => some (st, p, at_, scope, inverse, none, true)
            | none => none
    match start? with
    | none =>
      let o := if lbl ≠ "" then Json.mkObj [("rel", Json.arr #[]), ("done", Json.bool true), ("nocont", Json.bool true)]
               else Json.mkObj [("rel", Json.arr #[]), ("done", Json.bool true), ("unknown", Json.bool true)]
      return { a with outM := a.outM.push o, outS := a.outS.push o }
    | some (st, p, at_, scope, inv, key, fresh) =>
      let g := if inv then graphIn s st p at_ scope else graphOut s st p at_ scope
      let gq := g.map fun r => (⟨r.1, r.2, 0, 0⟩ : QRes)
      let kfc := if inv ∧ d4Class s st at_ scope then some "inverse-query/several-predicate-dataset-combinations-per-referencing-entity" else none
      let mp := getNatD q "maxPages" 0
      if mp > 0 then
        -- follow continuations in one go
        let (pages, lastCont) := Id.run do
          let mut pages : Array (List QRes) := #[]
          let mut key := key
          let mut fin := false
          for _ in [0:mp] do
            if !fin then
              let (res, cont) := if inv then relatedIn s.db st p at_ limit scope key else relatedOut s.db st p at_ limit scope key
              pages := pages.push res
              key := cont
              if cont.isNone then fin := true
          return (pages, if fin then none else key)
        let all := pages.toList.flatten
        let o := if inv then Json.mkObj [("union", relRender s all)]
                 else Json.mkObj [("pages", Json.arr (pages.map (relRender s))), ("done", Json.bool lastCont.isNone)]
        -- spec: the pages, put together, are exactly the graph (nothing missing, nothing twice)
        let okSpec := lastCont.isNone ∧ (relRender s all).compress == (relRender s gq).compress
        let okSpec := if inv then (relRender s all).compress == (relRender s gq).compress else okSpec
        let specO := if okSpec then o else (if inv then Json.mkObj [("union", relRender s gq)] else Json.mkObj [("union", relRender s gq), ("done", Json.bool true)])
        return { a with outM := a.outM.push o, outS := a.outS.push specO, nt := a.nt + 1,
                        kf := match a.kf with | some k => some k | none => kfc,
                        kfi := if kfc.isSome then a.outM.size :: a.kfi else a.kfi,
                        kfm := match kfc with | some c => (a.outM.size, c) :: a.kfm | none => a.kfm }
      else
      let (res, cont) := if inv then relatedIn s.db st p at_ limit scope key else relatedOut s.db st p at_ limit scope key
      let o := if inv then Json.mkObj [("rel", relRender s res)] else Json.mkObj [("rel", relRender s res), ("done", Json.bool cont.isNone)]
      let s' := if save ≠ "" then { s with conts := (save, (st, p, at_, scope, inv, cont)) :: s.conts } else s
      -- spec only for unpaged fresh queries: the graph implied by the latest versions (a spurious
      -- continuation that yields nothing more is allowed)
      let (specO, kf) :=
        if fresh ∧ limit = 0 then
          ((if inv then Json.mkObj [("rel", relRender s gq)] else Json.mkObj [("rel", relRender s gq), ("done", Json.bool cont.isNone)]), kfc)
        else (o, none)
      -- queries in the known class (also pages of a saved paged query) are attributed to it
      let kfq := if inv ∧ d4Class s st at_ scope then kfc else kf
      return { a with s := s', outM := a.outM.push o, outS := a.outS.push specO, nt := a.nt + 1,
                      kf := match a.kf with | some k => some k | none => kfq,
                      kfi := if kfq.isSome then a.outM.size :: a.kfi else a.kfi,
                      kfm := match kfq with | some c => (a.outM.size, c) :: a.kfm | none => a.kfm }
  | _ => throw s!"bad query {kind}"

def regIds (s : S) (rids : Json) : S :=
  match rids with
  | .obj kvs => kvs.toList.foldl (fun s (k, v) =>
      match (fromJson? v : R Nat) with
      | .ok n =>
        let clash := match s.uriOf.lookup n with | some k' => k' != k | none => false
        let clash2 := match s.rid.lookup k with | some n' => n' != n | none => false
        { s with rid := (k, n) :: s.rid, uriOf := (n, k) :: s.uriOf,
                 poison := if clash then some s!"internal id {n} handed out for {k} and for {(s.uriOf.lookup n).getD ""}"
                           else if clash2 then some s!"identifier {k} has two internal ids" else s.poison }
      | _ => s) s
  | _ => s

def newRids (op : Json) : List Nat :=
  match getOpt op "newids" with
  | some (.obj kvs) => kvs.toList.filterMap fun (_, v) => (fromJson? v : R Nat).toOption
  | _ => []

def hasUnknownRef (e : Ent) : Bool := e.refs.any (fun r => r.1 == 0 || r.2 == 0)

def reresolveOne (s : S) (v : VKey × Ent) : VKey × Ent :=
  if hasUnknownRef v.2 then
    match s.ents.find? (·.1 == v.1) with
    | some (_, je) => (v.1, { v.2 with refs := refPairs s je.refs })
    | none => v
  else v

def reresolve (s : S) : S := { s with db := { s.db with versions := s.db.versions.map (reresolveOne s) } }

/-! ### C18: a run of a MultiSource job -/

def parseJoin (j : Json) : R Hub.Multi.Join := do
  return { ds := ← getStr j "dataset", pred := ← getStr j "predicate", inv := ← getBool j "inverse" }
def parseDep (j : Json) : R Hub.Multi.Dep := do
  return { ds := ← getStr j "dataset", joins := ← (← getArr j "joins").toList.mapM parseJoin }
def jDep (d : Hub.Multi.Dep) : Json :=
  Json.mkObj [("dataset", Json.str d.ds), ("joins", jList (fun (j : Hub.Multi.Join) =>
    Json.mkObj [("dataset", Json.str j.ds), ("predicate", Json.str j.pred), ("inverse", Json.bool j.inv)]) d.joins)]

/-- the relation of the specification: the graph implied by the latest versions. -/
def graphRel (s : S) : Hub.Multi.Rel := fun start pred inv scope at_ =>
  if inv then (graphIn s start pred at_ scope).map (·.2) else (graphOut s start pred at_ scope).map (·.2)

/-- the start entities (with scope) of the inverse joins of a chain as the model follows it: the queries
that can fall into the class of known finding D4. -/
def inverseStarts (s : S) (rel : Hub.Multi.Rel) (now : Nat) (prevAt : Option Nat) : Nat → String → List Nat → List Hub.Multi.Join → List (Nat × List Nat)
  | _, _, _, [] => []
  | idx, prevDs, starts, j :: rest =>
    match s.rid.lookup j.pred with
    | none => []
    | some p =>
      let scope := [prevDs, j.ds].filterMap (s.dsid.lookup ·)
      let reached := (starts.flatMap fun st => rel st p j.inv scope now ++
        (if idx = 0 && !j.inv then (match prevAt with | some t => rel st p false scope t | none => []) else [])).eraseDups
      (if j.inv then starts.map (·, scope) else []) ++ inverseStarts s rel now prevAt (idx + 1) j.ds reached rest

def msrun (a : Acc) (op : Json) : R Acc := do
  let s := a.s
  let job ← getStr op "job"
  let main ← getStr op "main"
  let explicit ← (← getArr op "deps").toList.mapM parseDep
  let chains ← (getArrD op "hops").toList.mapM fun ch => do
    (← ch.getArr?).toList.mapM fun h => do
      return ({ ds := ← getStr h "dataset", pred := ← getStr h "predicate", inv := ← getBool h "inverse" } : Hub.Multi.Hop)
  let declared := explicit ++ chains.filterMap (Hub.Multi.reverseHops main)
  let cfg : Hub.Multi.Cfg := { main := main, deps := Hub.Multi.buildDeps main declared, batch := ← getNat op "batch", latestOnly := getBoolD op "latestOnly" false }
  let predId := fun (p : String) => s.rid.lookup p
  let dsId := fun (n : String) => s.dsid.lookup n
  let now := bigT
  let stored := s.jobs.lookup job
  let full := getBoolD op "full" false || (match stored with | none => true | some t => t.main.isNone)
  let fuel := s.db.changes.length + 3
  let run (rel : Hub.Multi.Rel) : List Nat × List Nat × Hub.Multi.Tok :=
    if full then
      let r := Hub.Multi.fullRun s.db dsId cfg fuel (Hub.Multi.startFull s.db dsId cfg) []
      ([], r.1, r.2)
    else Hub.Multi.incrRun rel s.db predId dsId cfg now fuel (stored.getD {}) [] []
  let render (r : List Nat × List Nat × Hub.Multi.Tok) : Json :=
    let depU := Hub.Store.sortBy (· < ·) ((r.1.map (uriFor s)).eraseDups)
    Json.mkObj [("res", Json.str "ok"), ("deps", jList jDep cfg.deps), ("dep", jStrs depU), ("main", jStrs (r.2.1.map (uriFor s))),
      ("tok", Json.mkObj [("main", match r.2.2.main with | some n => jNat n | none => jInt (-1)),
                          ("deps", Json.mkObj (r.2.2.deps.map fun (k, v) => (k, jNat v)))])]
  let rm := run (Hub.Multi.scanRel s.db cfg.batch)
  let rs := run (graphRel s)
  let jm := render rm
  let js := render rs
  -- known finding D4: an inverse join whose start entity is referenced through several (predicate, dataset)
  -- combinations by one entity
  let inD4 := !full && jm.compress != js.compress && cfg.deps.any fun dep =>
    match dsId dep.ds with
    | none => false
    | some dd =>
      let since := ((stored.getD {}).dep dep.ds).getD 0
      let ids := (Hub.Store.changesOf s.db dd).map (fun c => c.2.rid)     -- any window of this dependency
      let prevAt := if since > 0 then Hub.Multi.timeAtPos s.db dd (since - 1) else none
      (inverseStarts s (Hub.Multi.scanRel s.db cfg.batch) now prevAt 0 dep.ds ids.eraseDups dep.joins).any fun (st, scope) => d4Class s st now scope
  let kfq := if inD4 then some "inverse-query/several-predicate-dataset-combinations-per-referencing-entity" else none
  let urisOf (r : List Nat × List Nat × Hub.Multi.Tok) : List String := ((r.1 ++ r.2.1).map (uriFor s)).eraseDups
  if getBoolD op "faulted" false then
    -- the sink rejected a batch of this run. What the sink accepted and the token that was persisted are inputs;
    -- the specification: everything an uninterrupted run would have delivered and this one did not is still owed
    let emitted ← (getArrD op "emitted").toList.mapM asStr
    let owedNew := (urisOf rs).filter fun u => !emitted.contains u
    let prev := (s.owed.lookup job).getD []
    let ta ← getObj op "tokAfter"
    let mainI ← getInt ta "main"
    let depsT : List (String × Nat) := match getOpt ta "deps" with
      | some (.obj kvs) => kvs.toList.filterMap fun (k, v) => match (fromJson? v : R Int) with
          | .ok i => if i < 0 then none else some (k, i.toNat)
          | _ => none
      | _ => []
    let jobs' := if mainI < 0 && depsT.isEmpty then s.jobs.filter (·.1 != job)
      else (job, ({ main := if mainI < 0 then none else some mainI.toNat, deps := depsT } : Hub.Multi.Tok)) :: s.jobs.filter (·.1 != job)
    let e := Json.mkObj [("res", Json.str "err")]
    return { a with s := { s with jobs := jobs', owed := (job, (prev ++ owedNew).eraseDups) :: s.owed.filter (·.1 != job) },
                    outM := a.outM.push e, outS := a.outS.push e, nt := a.nt + 1 }
  let (jm, js) ← match s.owed.lookup job with
    | none => pure (jm, js)
    | some ow => do
      let now_ ← (getArrD op "emittedNow").toList.mapM asStr
      let missM := Hub.Store.sortBy (· < ·) (ow.filter fun u => !(urisOf rm).contains u)
      let missS := Hub.Store.sortBy (· < ·) (ow.filter fun u => !now_.contains u)
      pure (jm.setObjVal! "owed_missing" (jStrs missM), js.setObjVal! "owed_missing" (jStrs missS))
  let s := { s with owed := s.owed.filter (·.1 != job) }
  return { a with s := { s with jobs := (job, rm.2.2) :: s.jobs.filter (·.1 != job) },
                  outM := a.outM.push jm, outS := a.outS.push js, nt := a.nt + (if rm.1.isEmpty then 0 else 1),
                  kf := match a.kf with | some k => some k | none => kfq,
                  kfi := if kfq.isSome then a.outM.size :: a.kfi else a.kfi,
                  kfm := match kfq with | some c => (a.outM.size, c) :: a.kfm | none => a.kfm }

def doOpCore (a : Acc) (idx : Nat) (op : Json) : R Acc := do
  let s := regIds a.s ((getOpt op "newids").getD (Json.mkObj []))
  -- identifiers get their internal id lazily (the refs of a deleted version are only asserted when the
  -- next version is diffed against it): re-resolve the refs of stored versions once ids are known
  let hasNew : Bool := match getOpt op "newids" with
    | some (.obj kvs) => !kvs.isEmpty
    | _ => false
  let s := if hasNew then reresolve s else s
  let a := { a with s := s }
  let kind ← getStr op "op"
  let okRc := (getStrD op "rc" "") == ""
  match kind with
  | "createDs" =>
    match getOpt op "dsid" with
    | some d =>
      let n ← asNat d
      let name ← getStr op "name"
      if (s.dsid.lookup name).isSome then return a   -- exists already: CreateDataset returns it
      let pn := (getOpt op "publicNamespaces").getD Json.null
      return { a with s := { s with dsid := (name, n) :: s.dsid, pubNs := (name, pn) :: s.pubNs.filter (·.1 != name),
                                    ever := if s.ever.contains name then s.ever else name :: s.ever,
                                    dsidEver := n :: s.dsidEver,
                                    poison := if s.dsidEver.contains n then some s!"dataset id {n} handed out twice ({name})" else s.poison } }
    | none => return a
  | "store" =>
    if !okRc then return a
    match s.dsid.lookup (← getStr op "ds") with
    | none => return a
    | some ds =>
      let t := getNatD op "t" (s.lastT + 1)
      let pairs ← (← getArr op "ents").toList.mapM (mkEnt s)
      let db' := storeBatch s.db ds t (pairs.map (·.1)) (newRids op)
      let tbl := (pairs.zipIdx.map fun (p, i) => ((⟨p.1.rid, ds, t, i⟩ : VKey), p.2))
      return { a with s := { s with db := db', ents := tbl ++ s.ents, lastT := t } }
  | "txn" =>
    if !okRc then return a
    let t := getNatD op "t" (s.lastT + 1)
    let mut parts : List (Nat × List Ent) := []
    let mut tbl := s.ents
    -- ExecuteTransaction processes the datasets in sorted name order
    let ps := Hub.Store.sortBy (fun (x y : String × Json) => x.1 < y.1) ((← getArr op "parts").toList.filterMap fun p => (getStr p "ds").toOption.map (·, p))
    for (name, p) in ps do
      match s.dsid.lookup name with
      | none => pure ()
      | some ds =>
        let pairs ← (← getArr p "ents").toList.mapM (mkEnt s)
        parts := parts ++ [(ds, pairs.map (·.1))]
        tbl := (pairs.zipIdx.map fun (pr, i) => ((⟨pr.1.rid, ds, t, i⟩ : VKey), pr.2)) ++ tbl
    return { a with s := { s with db := execTxn s.db t parts (newRids op), ents := tbl, lastT := t } }
  | "setPublicNs" =>
    if !okRc then return a
    let name ← getStr op "name"
    if (s.dsid.lookup name).isNone then return a
    let ns := (getOpt op "ns").getD (Json.arr #[])
    return { a with s := { s with pubNs := (name, ns) :: s.pubNs.filter (·.1 != name) } }
  | "deleteDs" =>
    if !okRc then return a
    let name ← getStr op "name"
    match s.dsid.lookup name with
    | none => return a
    | some ds => return { a with s := { s with dsid := s.dsid.filter (·.1 != name), db := markDeleted s.db ds } }
  | "renameDs" =>
    if !okRc then return a
    let name ← getStr op "name"
    match s.dsid.lookup name with
    | none => return a
    | some ds =>
      let to ← getStr op "to"
      let pn := (s.pubNs.lookup name).getD Json.null
      return { a with s := { s with dsid := (to, ds) :: s.dsid.filter (·.1 != name),
                                    pubNs := (to, pn) :: s.pubNs.filter (fun x => x.1 != name && x.1 != to),
                                    ever := if s.ever.contains to then s.ever else to :: s.ever } }
  | "dup" =>
    if !okRc then return a
    match s.dsid.lookup (← getStr op "ds"), s.rid.lookup (← getStr op "id") with
    | some ds, some rid =>
      match s.db.latestOf ds rid, s.db.stored ds rid with
      | some k0, some cur =>
        let t := getNatD op "t" (s.lastT + 1)
        let je := (s.ents.find? (·.1 == k0)).map (·.2)
        let tbl := match je with | some j => ((⟨rid, ds, t, 0⟩ : VKey), j) :: s.ents | none => s.ents
        return { a with s := { s with db := injectVersion s.db ds t cur, ents := tbl, lastT := t } }
      | _, _ => return a
    | _, _ => return a
  | "compact" =>
    if !okRc then return a
    match s.dsid.lookup (← getStr op "ds") with
    | some ds => return { a with s := { s with db := compact s.db ds } }
    | none => return a
  | "gc" => return { a with s := { s with db := gc s.db } }
  | "reopen" => return a
  | "msrun" => msrun a op
  | "backup" =>
    if !okRc then return a
    -- a completed backup run captures the state at its start
    return { a with snap := some s }
  | "backupStart" =>
    -- a run that is held open while the following operations commit (C20, forced schedule)
    if !okRc then return a
    return { a with snapStart := some s }
  | "backupEnd" =>
    if !okRc then return { a with snapStart := none }
    match a.snapStart with
    | some s0 => return { a with snap := some s0, snapStart := none }
    | none => return a
  | "q" =>
    let _ := idx
    if getStrD op "on" "" == "restore" then
      match a.snap with
      | none =>
        let e := Json.mkObj [("err", Json.str "nobackup")]
        return { a with outM := a.outM.push e, outS := a.outS.push e }
      | some sn =>
        -- the restored hub answers like the source hub did when the last backup run started
        let r ← doQuery { a with s := { sn with times := s.times } } op
        return { r with s := a.s }
    else doQuery a op
  | _ => throw s!"bad op {kind}"

/-- the function whose crash points belong to an operation kind. -/
def crashFunc : String → String
  | "store" => "StoreEntities" | "txn" => "ExecuteTransaction" | "createDs" => "CreateDataset"
  | "deleteDs" => "DeleteDataset" | "renameDs" => "UpdateDataset" | "compact" => "flushDeletes" | _ => "?"

/-- C04: the inner operation of a `crash` op ran in a child process that was killed at `point` (unless
the point was never reached). The model predicts from the regenerated step order whether the operation
landed; the state follows what was observed (for an unacknowledged call either outcome is legal, but
nothing in between: the following queries are answered from `h` or from `h ++ [op]`). -/
def doOp (a : Acc) (idx : Nat) (op : Json) : R Acc := do
  if (← getStr op "op") == "compact" && getBoolD op "raced" false && getStrD op "rc" "" == "" then
    -- C12, forced schedule: a writer committed between the compactor's snapshot and one of its flushes
    match a.s.dsid.lookup (← getStr op "ds"), getOpt op "race" with
    | some ds, some race =>
      let a1 ← doOpCore a idx (← getObj race "inner")
      return { a1 with s := { a1.s with db := compactRaced true a.s.db a1.s.db ds } }
    | _, _ => doOpCore a idx op
  else
  if (← getStr op "op") == "msrun" && getBoolD op "duringRan" false then
    -- C18, forced schedule: a write landed between two pages of the run; it wrote to a dependency dataset only, so the
    -- run itself is that of the state before the write, and the write comes after it
    let a1 ← doOpCore a idx op
    match getOpt op "during" with
    | some du => doOpCore a1 idx (← getObj du "inner")
    | none => return a1
  else
  if ((← getStr op "op") == "store" || (← getStr op "op") == "txn") && (getOpt op "race").isSome then
    -- forced schedule of two writers: both must return, and the outcome is that of the two writes one after
    -- the other (in the order the run reports: who committed first)
    let race ← getObj op "race"
    let inner ← getObj race "inner"
    let raced := getBoolD op "raced" false
    -- a batch is rejected exactly when it is invalid (a null reference value); another writer is no reason
    let verdict (o : Json) : String :=
      let ents : List Json := match getStrD o "op" "" with
        | "store" => (getArrD o "ents").toList
        | _ => (getArrD o "parts").toList.flatMap fun p => (getArrD p "ents").toList
      let bad := ents.any fun e => match getOpt e "refs" with
        | some (.obj kvs) => kvs.toList.any fun (_, v) => v.isNull
        | _ => false
      let nods := getStrD o "rc" "" == "nods"
      if nods then "nods" else if bad then "err" else "ok"
    let expect := Json.mkObj [("deadlock", Json.bool false), ("raced", Json.bool raced), ("outer", Json.str (verdict op)),
      ("inner", Json.str (if raced then verdict inner else "-"))]
    if getBoolD op "deadlock" false then
      return { a with outM := a.outM.push expect, outS := a.outS.push expect, nt := a.nt + 1 }
    let a1 ← if !raced then doOpCore a idx op
      else if getStrD op "order" "outer" == "inner" then do
        let x ← doOpCore a idx inner
        doOpCore x idx op
      else do
        let x ← doOpCore a idx op
        doOpCore x idx inner
    return { a1 with outM := a1.outM.push expect, outS := a1.outS.push expect, nt := a1.nt + 1 }
  else
  if (← getStr op "op") != "crash" then doOpCore a idx op else
  let inner ← getObj op "inner"
  let ikind ← getStr inner "op"
  let died := getBoolD op "died" false
  let observed := getBoolD op "landed" false
  let point ← getStr op "point"
  -- a point inside a nested call (the store of the dataset's meta entity into core.Dataset): the operation
  -- itself is already durable. For a plain store the nested call is the second hit of the same function.
  let nested := !(point.startsWith (crashFunc ikind)) || (ikind == "store" && getNatD op "hit" 1 ≥ 2)
  let predicted : Option Bool :=
    if !died then some ((getStrD inner "rc" "") == "")
    else if nested then some true
    else match ikind with
      | "store" => Hub.Crash.landedAt Hub.Facts.Crash.points_StoreEntities "txn.Commit" 1 point
      | "txn" => Hub.Crash.landedAt Hub.Facts.Crash.points_ExecuteTransaction "txn.Commit" 1 point
      | "createDs" => Hub.Crash.landedAt Hub.Facts.Crash.points_CreateDataset "storeValue" 2 point
      | "deleteDs" => Hub.Crash.landedAt Hub.Facts.Crash.points_DeleteDataset "deleteValueAndStoreObject" 1 point
      | "renameDs" => Hub.Crash.landedAt Hub.Facts.Crash.points_UpdateDataset "moveValue" 1 point
      | _ => none
  let applied ← doOpCore a idx inner
  -- identifiers the crashed call handed out may be committed although its data is not
  let skipped ← doOpCore a idx (Json.mkObj [("op", Json.str "reopen"), ("newids", (getOpt op "newids").getD (Json.mkObj []))])
  -- an operation that writes nothing (identical versions, rejected, dataset exists already / is unknown):
  -- landed or not cannot be told from outside and does not matter
  let writesNothing := applied.s.db.versions.length == skipped.s.db.versions.length
      && applied.s.dsid.length == skipped.s.dsid.length && applied.s.db.deletedDs.length == skipped.s.db.deletedDs.length
      && (applied.s.dsid.map (·.1)) == (skipped.s.dsid.map (·.1))
  if ikind == "compact" then
    -- C12: a compaction killed between its flushes is invisible (the harness probes that), and is run again to the end
    let okRc := (getStrD inner "rc" "") == ""
    let o := if okRc then Json.mkObj [("landed", Json.bool true), ("probe_same", Json.bool true), ("feed_ok", Json.bool true)]
             else Json.mkObj [("landed", Json.bool observed)]
    return { applied with outM := applied.outM.push o, outS := applied.outS.push o, nt := applied.nt + (if died then 1 else 0) }
  let js := Json.mkObj [("landed", Json.bool observed)]
  let jm := if writesNothing then js else
    match predicted with | some b => Json.mkObj [("landed", Json.bool b)] | none => Json.mkObj [("landed", Json.str "unknown-point")]
  let a1 := if observed then applied else skipped
  -- known finding D35: a dataset whose creation died between the dataset record and its meta entity
  let a1 := if ikind == "createDs" && observed && died then
      { a1 with s := { a1.s with halfCreated := (getStrD inner "name" "") :: a1.s.halfCreated } } else a1
  return { a1 with outM := a1.outM.push jm, outS := a1.outS.push js, nt := a1.nt + (if died then 1 else 0) }

def hist (inp : Json) : R Res := do
  let ops ← getArr inp "ops"
  let s0 : S := {}
  let times : Array Nat := ops.map fun o => getNatD o "t" 0
  let mut a : Acc := { s := { s0 with times := times } }
  let mut i := 0
  for op in ops do
    a ← doOp a i op
    i := i + 1
  let specOut := match a.s.poison with
    | some msg => Json.arr #[Json.mkObj [("violates", Json.str msg)]]
    | none => Json.arr a.outS
  return { m := Json.arr a.outM, s := some specOut, nt := decide (a.nt ≥ 2 ∧ a.s.db.versions.length ≥ 3), kf := a.kf, kfi := a.kfi, kfm := a.kfm }

def handle (k : String) (inp : Json) : Option (R Res) :=
  match k with
  | "store.hist" => some (hist inp)
  | _ => none

end Hub.Drv.Store
