import Hub.Drv.Util
import Hub.Model.FullSync
namespace Hub.Drv.C09
open Lean Hub.Drv Hub.FullSync

def insertSorted (x : Nat) : List Nat → List Nat
  | [] => [x]
  | y :: ys => if x ≤ y then x :: y :: ys else y :: insertSorted x ys
def sort (l : List Nat) : List Nat := l.foldl (fun acc x => insertSorted x acc) []

def parseEv (j : Json) : R Ev := do
  let e ← getStr j "e"
  match e with
  | "http" => return .http (getBoolD j "start" false) (getStrD j "id" "") (getBoolD j "fin" false) (← natList (← getObj j "ents"))
  | "jobStart" => return .jobStart
  | "jobBatch" => return .jobBatch (← natList (← getObj j "ents"))
  | "txn" => return .jobBatch (← natList (← getObj j "ents"))   -- a transaction write goes through the same write loop
  | "jobEnd" => return .jobEnd
  | "expire" => return .expire
  | _ => throw s!"bad event {e}"

def rcStr : Rc → String
  | .ok => "ok" | .conflict => "conflict" | .gone => "gone" | .err => "err"

/-- spec with sync identity: like the model, but a job's completion only proceeds when the started
sync is the job's own (no other start happened since `jobStart`). -/
structure Spec where
  s : St := {}
  jobOwns : Bool := false

def specStep (p : Spec) (e : Ev) : Spec × Rc :=
  match e with
  | .jobStart => ({ s := (step p.s e).1, jobOwns := true }, .ok)
  | .jobEnd =>
    if p.s.started && !p.jobOwns then
      -- the started sync is not the job's: a superseded sync deletes nothing (and the job fails)
      (p, .err)
    else let r := step p.s e; ({ s := r.1, jobOwns := false }, r.2)
  | .http start _ _ _ =>
    let r := step p.s e
    ({ s := r.1, jobOwns := if start && r.2 != .conflict then false else p.jobOwns && r.1.started }, r.2)
  | .expire => let r := step p.s e; ({ s := r.1, jobOwns := p.jobOwns && r.1.started }, r.2)
  | _ => let r := step p.s e; ({ p with s := r.1 }, r.2)

def script (inp : Json) : R Res := do
  let evs ← (← getArr inp "evs").toList.mapM parseEv
  let mut s : St := {}
  let mut sp : Spec := {}
  let mut outM : Array Json := #[]
  let mut outS : Array Json := #[]
  let mut completions := 0
  let obs (s : St) (rc : Rc) : Json :=
    Json.mkObj [("rc", Json.str (rcStr rc)), ("live", jNats (sort s.live)), ("tombs", jNats (sort s.tombs)), ("started", Json.bool s.started)]
  -- class K of the known finding D10b: some job end arrives while the started sync is not the
  -- job's own (it was superseded by another start, or its own state expired and another sync started)
  let mut overlapped := false
  for e in evs do
    match e with
    | .jobEnd => if sp.s.started && !sp.jobOwns then overlapped := true
    | _ => pure ()
    let r := step s e
    if r.1.tombs.length > s.tombs.length then completions := completions + 1
    s := r.1
    outM := outM.push (obs s r.2)
    let q := specStep sp e
    sp := q.1
    outS := outS.push (obs sp.s q.2)
  return { m := Json.arr outM, s := some (Json.arr outS), nt := decide (completions ≥ 1),
           kf := if overlapped then some "job-end-completes-foreign-sync" else none }

def handle (k : String) (inp : Json) : Option (R Res) :=
  match k with
  | "c09.script" => some (script inp)
  | _ => none

end Hub.Drv.C09
