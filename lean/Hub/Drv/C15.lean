import Hub.Drv.Util
import Hub.Model.Parser
namespace Hub.Drv.C15
open Lean Hub.Drv Hub.Parser

/-- token wire format: "{" "}" "[" "]" delimiters, "s:<text>", "n:<text>", "t", "f", "z" (null), "!" (Token() error). -/
def tokOf (s : String) : R Tok :=
  if s = "{" then pure .lb else if s = "}" then pure .rb else if s = "[" then pure .la else if s = "]" then pure .ra
  else if s = "t" then pure (.bool true) else if s = "f" then pure (.bool false) else if s = "z" then pure .null
  else if s = "!" then pure .bad
  else if s.startsWith "s:" then pure (.str (s.drop 2).toString)
  else if s.startsWith "n:" then pure (.num (s.drop 2).toString)
  else throw s!"bad token {s}"

def lastWins {β : Type} (l : List (String × β)) : List (String × β) := l.foldl (fun acc kv => setKey kv.1 kv.2 acc) []

def rJson : Hub.Parser.R → Json
  | .one s => Json.str s
  | .many l => jStrs l

mutual
partial def vJson : V → Json
  | .null => Json.null
  | .str s => Json.str s
  | .num n => Json.mkObj [("n", Json.str n)]
  | .bool b => Json.bool b
  | .arr l => Json.arr (l.map vJson).toArray
  | .ent id del props refs => Json.mkObj [("id", Json.str id), ("deleted", Json.bool del),
      ("props", Json.mkObj ((lastWins props).map fun (k, v) => (k, vJson v))),
      ("refs", Json.mkObj ((lastWins refs).map fun (k, v) => (k, rJson v)))]
end

/-- the source tree of a generated collection (same shape, ids not yet resolved). -/
partial def vOf (j : Json) : R V :=
  match j with
  | .null => pure .null
  | .str s => pure (.str s)
  | .bool b => pure (.bool b)
  | .arr a => do pure (.arr (← a.toList.mapM vOf))
  | .obj _ => do
    match j.getObjVal? "n" with
    | .ok n => pure (.num (← asStr n))
    | .error _ =>
      let id ← getStr j "id"
      let del := getBoolD j "deleted" false
      -- props and refs arrive as arrays of [key, value] pairs (order = serialisation order)
      let props ← (getArrD j "props").toList.mapM fun p => do
        let a ← p.getArr?
        pure ((← asStr a[0]!), (← vOf a[1]!))
      let refs ← (getArrD j "refs").toList.mapM fun p => do
        let a ← p.getArr?
        let v ← match a[1]! with
          | .str s => pure (Hub.Parser.R.one s)
          | x => do pure (Hub.Parser.R.many (← strList x))
        pure ((← asStr a[0]!), v)
      pure (.ent id del props refs)
  | _ => throw "bad source value"

def outJson (o : Out) : Json :=
  Json.mkObj [("emitted", jList vJson o.emitted), ("err", Json.bool o.err.isSome)]

def stream (inp : Json) : R Res := do
  let ts ← (← getArr inp "toks").toList.mapM fun j => do tokOf (← asStr j)
  let o := parseStream ts
  if o.err == some "fuel" then throw "model ran out of fuel"
  let nested := ts.filter (· == .lb) |>.length
  match getOpt inp "src" with
  | none =>
    -- arbitrary / mutated bytes: syntactically invalid JSON must be an error
    let s := if getBoolD inp "validJson" true then none
             else some (Json.mkObj [("emitted", jList vJson o.emitted), ("err", Json.bool true)])
    return { m := outJson o, s := s, nt := decide (ts.length ≥ 4) }
  | some src =>
    let ns ← (getArrD inp "ns").toList.mapM fun p => do
      let a ← p.getArr?
      pure ((← asStr a[0]!), (← asStr a[1]!))
    let es ← (← src.getArr?).toList.mapM vOf
    let spec : Out := match expL (resolve (lastWins ns)) es with
      | some es' => { emitted := es', err := none }
      | none => { emitted := [], err := some "not denotable" }
    return { m := outJson o, s := some (outJson spec), nt := decide (es.length ≥ 1 ∧ nested ≥ 2) }

def insertById (x : String × Json) : List (String × Json) → List (String × Json)
  | [] => [x]
  | y :: ys => if x.1 < y.1 then x :: y :: ys else y :: insertById x ys

/-- POST through the handler: entities are stored in batches of ten as they are emitted; a parse error
answers 400 and leaves the complete batches before it stored. Then both serialisers are read back. -/
def http (inp : Json) : R Res := do
  let ts ← (← getArr inp "toks").toList.mapM fun j => do tokOf (← asStr j)
  let o := parseStream ts
  if o.err == some "fuel" then throw "model ran out of fuel"
  let stored := if o.err.isSome then o.emitted.take (o.emitted.length / 10 * 10) else o.emitted
  let byId : List (String × Json) := lastWins (stored.filterMap fun v => match v with
    | .ent id _ _ _ => some (id, vJson v)
    | _ => none)
  let sorted := byId.foldl (fun acc x => insertById x acc) []
  let l := Json.arr (sorted.map (·.2)).toArray
  return { m := Json.mkObj [("status", Json.str (if o.err.isSome then "rejected" else "ok")), ("entities", l), ("changes", l)],
           nt := decide (stored.length ≥ 1) }

/-- `c15.txn`: ParseTransaction must agree, dataset by dataset, with ParseStream on the same elements (the harness
computes both with the real parsers); a transaction is an error exactly when one of its collections is. The counts of
emitted entities are observations of the reference parser, not predicted here. -/
def txn (inp : Json) (out? : Unit) : R Res := do
  let _ := out?
  let parts := getArrD inp "parts"
  return { m := Json.mkObj [("same", Json.bool true), ("parts", jNat parts.size)], nt := decide (parts.size ≥ 2) }

def handle (k : String) (inp : Json) : Option (R Res) :=
  match k with
  | "c15.txn" => some (txn inp ())
  | "c15.stream" => some (stream inp)
  | "c15.http" => some (http inp)
  | _ => none

end Hub.Drv.C15
