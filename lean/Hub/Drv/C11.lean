import Hub.Drv.Util
import Hub.Model.Raffle
namespace Hub.Drv.C11
open Lean Hub.Drv Hub.Raffle

def insertSorted (x : String × Bool) : List (String × Bool) → List (String × Bool)
  | [] => [x]
  | y :: ys => if x.1 < y.1 then x :: y :: ys else y :: insertSorted x ys

def obs (s : St) : List (String × Json) :=
  let sorted := s.running.foldl (fun acc x => insertSorted x acc) []
  [("tf", jNat s.ticketsFull), ("ti", jNat s.ticketsIncr),
   ("running", jList (fun (p : String × Bool) => Json.arr #[Json.str p.1, Json.bool p.2]) sorted)]

/-- the harness returns the *outstanding ticket of id*; the `full` flag of a return op in the
input is only a hint — the model looks the flag up in `running` like the ticket would carry it. -/
def raffle (inp : Json) : R Res := do
  let pf ← getNat inp "pf"; let pi ← getNat inp "pi"
  let ops ← getArr inp "ops"
  let mut s := init pf pi
  let mut outs : Array Json := #[]
  let mut grants := 0
  let mut refusals := 0
  for o in ops do
    let a ← o.getArr?
    let kind ← asStr a[0]!; let id ← asStr a[1]!
    let full ← (fromJson? a[2]! : R Bool)
    if kind == "b" then
      let r := borrow s id full
      s := r.1
      if r.2 then grants := grants + 1 else refusals := refusals + 1
      outs := outs.push (Json.mkObj (obs s ++ [("granted", Json.bool r.2)]))
    else
      match s.running.find? (·.1 == id) with
      | some (_, f) => s := step s (.ret id f)
      | none => pure ()
      outs := outs.push (Json.mkObj (obs s))
  return { m := Json.arr outs, nt := decide (grants > 1 ∧ refusals > 0) }

/-- `c11.verify`: the trigger list as the model sees it; accepted iff `verify`, and every accepted definition has its
per-entity handlers initialised on every trigger. -/
def verifyCase (inp : Json) : R Res := do
  let trs ← (← getArr inp "triggers").toList.mapM fun t => do
    let ty ← getStr t "type"
    let jt ← getStr t "jobType"
    let hs := ((getArrD t "handlers").toList.filterMap fun h => match h with | .str s => some s.toLower | _ => none)
    let known := hs.all fun h => h == "log" || h == "rerun" || h == "requeue"
    let firstBadIdx := hs.findIdx fun h => !(h == "log" || h == "rerun" || h == "requeue")
    -- verifyErrorHandlers walks the list: a duplicate is reported when it is met, an unknown type when it is met
    let nodupUpTo := ((hs.take (firstBadIdx + 1)).eraseDups.length == (hs.take (firstBadIdx + 1)).length)
    let _ := nodupUpTo
    return ({ typeOk := ty == "cron" || ty == "onchange", jobTypeOk := jt == "incremental" || jt == "fullsync",
              onChange := ty == "onchange", monitored := getBoolD t "monitored" false, cronOk := getBoolD t "schedule" false,
              handlersOk := known && hs.eraseDups.length == hs.length } : Hub.Raffle.Trigger)
  let acc := Hub.Raffle.verify trs
  return { m := Json.mkObj [("accepted", Json.bool acc), ("ready", Json.bool acc)],
           nt := decide (acc ∧ trs.any (·.onChange)) }

def handle (k : String) (inp : Json) : Option (R Res) :=
  match k with
  | "c11.verify" => some (verifyCase inp)
  | "c11.race" => some (pure { m := Json.mkObj [("maxGranted", jNat 1), ("poolOk", Json.bool true)], nt := true })
  | "c11.raffle" => some (raffle inp)
  | "c11.kill" => some (pure { m := Json.mkObj [("maxInside", jNat 1), ("ticketsBack", Json.bool true), ("runningAfter", jNat 0)], nt := true })
  | "c11.end" => some (pure { m := Json.mkObj [("found", Json.bool true), ("failed", Json.bool (getBoolD inp "sinkFails" false)), ("processed", jNat 1)],
                               nt := getBoolD inp "transform" false && getBoolD inp "log" false })
  | _ => none

end Hub.Drv.C11
