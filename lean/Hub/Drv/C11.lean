import Hub.Drv.Util
import Hub.Model.Raffle
namespace Hub.Drv.C11
open Lean Hub.Drv Hub.Raffle

def insertSorted (x : String × Bool) : List (String × Bool) → List (String × Bool)
  | [] => [x]
  | y :: ys => if x.1 < y.1 then x :: y :: ys else y :: insertSorted x ys

def obs (s : St) : List (String × Json) :=
  let sorted := s.running.foldl (fun acc x => insertSorted x acc) []
  [("tf", jNat s.ticketsFull), ("ti", jNat s.ticketsIncr),
   ("running", jList (fun (p : String × Bool) => Json.arr #[Json.str p.1, Json.bool p.2]) sorted)]

/-- the harness returns the *outstanding ticket of id*; the `full` flag of a return op in the
input is only a hint — the model looks the flag up in `running` like the ticket would carry it. -/
def raffle (inp : Json) : R Res := do
  let pf ← getNat inp "pf"; let pi ← getNat inp "pi"
  let ops ← getArr inp "ops"
  let mut s := init pf pi
  let mut outs : Array Json := #[]
  let mut grants := 0
  let mut refusals := 0
  for o in ops do
    let a ← o.getArr?
    let kind ← asStr a[0]!; let id ← asStr a[1]!
    let full ← (fromJson? a[2]! : R Bool)
    if kind == "b" then
      let r := borrow s id full
      s := r.1
      if r.2 then grants := grants + 1 else refusals := refusals + 1
      outs := outs.push (Json.mkObj (obs s ++ [("granted", Json.bool r.2)]))
    else
      match s.running.find? (·.1 == id) with
      | some (_, f) => s := step s (.ret id f)
      | none => pure ()
      outs := outs.push (Json.mkObj (obs s))
  return { m := Json.arr outs, nt := decide (grants > 1 ∧ refusals > 0) }

def handle (k : String) (inp : Json) : Option (R Res) :=
  match k with
  | "c11.raffle" => some (raffle inp)
  | _ => none

end Hub.Drv.C11
