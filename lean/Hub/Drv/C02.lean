import Hub.Drv.Util
import Hub.Model.Pipeline
namespace Hub.Drv.C02
open Lean Hub.Drv Hub.Pipe

def parseVer (j : Json) : R Ver := do
  match (← j.getArr?).toList with
  | [i, c, d] => return { id := ← asNat i, c := ← asNat c, del := ← (fromJson? d : R Bool) }
  | _ => throw "bad version"

/-- `c02.http`: requests of entities uploaded one after the other; the feed is the sequential fold of the
write-time duplicate detection over all of them (however the handler chunks a request). -/
def http (inp : Json) : R Res := do
  let reqs ← (← getArr inp "reqs").toList.mapM fun r => do (← r.getArr?).toList.mapM parseVer
  let feed := reqs.foldl (fun f r => storeBatch f r) []
  let o := Json.mkObj [("status", jNats (reqs.map fun _ => 200)),
    ("feed", jList (fun (v : Ver) => Json.arr #[jNat v.id, jNat v.c, Json.bool v.del]) feed)]
  return { m := o, nt := decide (reqs.any (fun r => r.length > 10) ∧ feed.length < (reqs.map List.length).sum) }

def handle (k : String) (inp : Json) : Option (R Res) :=
  match k with
  | "c02.http" => some (http inp)
  | _ => none
end Hub.Drv.C02
