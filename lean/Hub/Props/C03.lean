import Hub.Proofs.RefIdx
import Hub.Model.Store
import Hub.Generated.Layout
/-!
# C03 — relationship queries equal the graph implied by the latest versions

Property theorems only. Index model of one (dataset, referencing entity): `Hub/Proofs/RefIdx.lean`
(the same algorithm as `Hub.Store.writeRefs`, which the correspondence check runs against the real
code); query scans: `Hub/Model/Store.lean`.
-/
namespace Hub.C03
open Hub.RefIdx

/-- T-C03-1 (index invariant, one write): writing version `v` after the versions `vs` — with the
reference diff against the predecessor, tombstones for removed references and for deleted
versions, and the removal of same-time tombstones when the predecessor is in the same batch —
keeps, for every reference and every instant,
  "the newest key ≤ at for the reference is live"  ⇔  "the last version ≤ at is live and carries it". -/
theorem index_step (vs : List Ver) (ks : List Key) (v : Ver) (inBatch : Bool)
    (hI : ∀ r at_, liveAt ks r at_ ↔ specLive vs r at_)
    (hkt : ∀ k ∈ ks, k.t ≤ v.t) (hvt : ∀ u ∈ vs, u.t ≤ v.t)
    (hfresh : inBatch = false → ∀ k ∈ ks, k.t < v.t)
    (r : Ref) (at_ : Nat) :
    liveAt (writeRefs ks vs.getLast? inBatch v) r at_ ↔ specLive (vs ++ [v]) r at_ :=
  step vs ks v inBatch hI hkt hvt hfresh r at_

/-- the empty index agrees with the empty history. -/
theorem index_init (r : Ref) (at_ : Nat) : liveAt [] r at_ ↔ specLive [] r at_ := by
  simp [liveAt, specLive, lastLE]

/-! ## tie to the Go source (regenerated facts) -/
open Hub.Facts.Layout in
theorem facts_shape :
    outKey = [("OutgoingRefIndex", 0, 16), ("rid", 2, 64), ("uint64(txnTime)", 10, 64), ("predid", 18, 64), ("relatedid", 26, 64), ("1", 34, 16), ("ds.InternalID", 36, 32)]
    ∧ inKey = [("IncomingRefIndex", 0, 16), ("relatedid", 2, 64), ("rid", 10, 64), ("uint64(txnTime)", 18, 64), ("predid", 26, 64), ("1", 34, 16), ("ds.InternalID", 36, 32)]
    ∧ relatedReads = ["binary.BigEndian.Uint32(k[36:])", "binary.BigEndian.Uint64(k[18:])", "binary.BigEndian.Uint64(k[10:])",
        "binary.BigEndian.Uint64(k[26:])", "binary.BigEndian.Uint16(k[34:])", "binary.BigEndian.Uint32(k[36:])",
        "binary.BigEndian.Uint64(k[10:])", "binary.BigEndian.Uint64(k[18:])", "binary.BigEndian.Uint64(k[26:])", "binary.BigEndian.Uint16(k[34:])"]
    ∧ relatedAddedMarks = ["else(from.Inverse)", "del != 1 && hasReachedStartKey", "del != 1"]
    ∧ tombstoneRemovalCond = ["else(e.IsDeleted)", "isDifferentLocally"] := by decide

open Hub.Store in
/-- non-vacuity / sanity on the store model: A -p-> B in two datasets, outgoing query with limit 1
returns B once over both pages (the D3 input), and a removed reference is gone. -/
example :
    let a : Ent := ⟨1, false, [(5, 2)], "a"⟩
    let db := storeBatch (storeBatch {} 2 10 [a]) 3 20 [a]
    let p1 := relatedOut db 1 0 99 1 [] none
    p1 = ([⟨5, 2, 3, 20⟩], none)
    ∧ (relatedOut (storeBatch db 3 30 [⟨1, false, [], "b"⟩]) 1 0 99 0 [3] none).1 = [] := by decide

open Hub.Store in
/-- known finding D4 (inverse scan): `S -p,q-> X`, then `S -q-> X`. The outgoing query from S
returns q only, the inverse query from X returns p and q — incoming is not the transpose. -/
theorem incoming_not_transpose :
    let s1 : Ent := ⟨1, false, [(5, 2), (6, 2)], "a"⟩
    let s2 : Ent := ⟨1, false, [(6, 2)], "b"⟩
    let db := storeBatch (storeBatch {} 7 10 [s1]) 7 20 [s2]
    ((relatedOut db 1 0 99 0 [] none).1.map fun r => r.pred) = [6]
    ∧ ((relatedIn db 2 0 99 0 [] none).1.map fun r => r.pred) = [5, 6] := by decide

end Hub.C03
