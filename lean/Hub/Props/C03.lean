import Hub.Proofs.RefIdx
import Hub.Proofs.RefIdxHist
import Hub.Proofs.OutScan
import Hub.Model.Store
import Hub.Generated.Layout
/-!
# C03 — relationship queries equal the graph implied by the latest versions

Property theorems only. Index model of one (dataset, referencing entity): `Hub/Proofs/RefIdx.lean`
(the same algorithm as `Hub.Store.writeRefs`, which the correspondence check runs against the real
code); query scans: `Hub/Model/Store.lean`.
-/
namespace Hub.C03
open Hub.RefIdx

/-- T-C03-1 (index invariant, one write): writing version `v` after the versions `vs` — with the
reference diff against the predecessor, tombstones for removed references and for deleted
versions, and the removal of same-time tombstones when the predecessor is in the same batch —
keeps, for every reference and every instant,
  "the newest key ≤ at for the reference is live"  ⇔  "the last version ≤ at is live and carries it". -/
theorem index_step (vs : List Ver) (ks : List Key) (v : Ver) (inBatch : Bool)
    (hI : ∀ r at_, liveAt ks r at_ ↔ specLive vs r at_)
    (hkt : ∀ k ∈ ks, k.t ≤ v.t) (hvt : ∀ u ∈ vs, u.t ≤ v.t)
    (hfresh : inBatch = false → ∀ k ∈ ks, k.t < v.t)
    (r : Ref) (at_ : Nat) :
    liveAt (writeRefs ks vs.getLast? inBatch v) r at_ ↔ specLive (vs ++ [v]) r at_ :=
  step vs ks v inBatch hI hkt hvt hfresh r at_

/-- T-C03-1b (index invariant, every history): the versions of an entity in a dataset written one after the other — any
number, any references, deleted and live in any order, commit times non-decreasing, the predecessor counting as "in the same
batch" exactly when it carries the same commit time — leave an index in which, for every reference and every instant,
"the newest key ≤ at for the reference is live" ⇔ "the last version ≤ at is live and carries it". Together with
`outgoing_eq_graph` (whose hypothesis this provides per dataset): the outgoing query is the graph of the latest versions
after every history. -/
theorem index_history (vs : List Ver) (hp : vs.Pairwise (fun a b => a.t ≤ b.t)) (r : Ref) (at_ : Nat) :
    liveAt (writeAll vs [] []) r at_ ↔ specLive vs r at_ := by
  have := hinv_writeAll vs [] [] hinv_empty (by simpa using hp)
  simpa using this.live r at_

-- non-vacuity: four versions, the last three in one batch (live, deleted, live again): the tombstone of the middle one is gone
example : let vs : List Ver := [⟨10, false, [(5, 2), (6, 2)]⟩, ⟨20, false, [(6, 2)]⟩, ⟨20, true, []⟩, ⟨20, false, [(6, 2)]⟩]
    vs.Pairwise (fun a b => a.t ≤ b.t) ∧
    (writeAll vs [] []) = [⟨20, (5, 2), true⟩, ⟨20, (6, 2), false⟩, ⟨10, (6, 2), false⟩, ⟨10, (5, 2), false⟩] := by decide

/-- the empty index agrees with the empty history. -/
theorem index_init (r : Ref) (at_ : Nat) : liveAt [] r at_ ↔ specLive [] r at_ := by
  simp [liveAt, specLive, lastLE]

/-! ## the outgoing query -/
open Hub.Store Hub.OutScan in
/-- T-C03-2 (scan side): the unpaged outgoing query returns the pair (p, target) — exactly once, and without a
continuation — iff `p` passes the predicate filter and for some in-scope, non-deleted dataset the NEWEST reference
key of (source, p, target, dataset) recorded at or before `at` is not a tombstone. For every database, source,
predicate filter, instant and scope (the `seen` / `added` bookkeeping of the reverse scan, the D3 fix included). -/
theorem outgoing_unpaged (db : DB) (src pred at_ : Nat) (scope : List Nat) :
    let res := (relatedOut db src pred at_ 0 scope none).1
    (∀ p t, (∃ r ∈ res, r.pred = p ∧ r.other = t) ↔
        predOK pred p ∧ ∃ ds, inScope db scope ds = true ∧ NewestLive db src at_ p t ds)
    ∧ (res.map fun r => (r.pred, r.other)).Nodup
    ∧ (relatedOut db src pred at_ 0 scope none).2 = none :=
  relatedOut_unpaged db src pred at_ scope

open Hub.Store Hub.OutScan in
/-- T-C03-3a (a page is a window): with limit `n` the outgoing query returns the first `n` results of the unpaged
query; continued from the key of the last result of a page it returns the next `n`; the continuation key is that of the
page's last result exactly when more follow — the fast-forward to the continuation key makes the same `seen` / `added`
decisions as the unpaged scan (the repaired D3 site). -/
theorem outgoing_page_window (db : DB) (src pred at_ n : Nat) (scope : List Nat) (sk : Option RefKey)
    (hsk : ∀ ks, sk = some ks → ks ∈ resultKeys db src pred at_ scope) :
    let R := resultKeys db src pred at_ scope
    let A := match sk with | none => R | some ks => afterKey ks R
    let m := if n = 0 then A.length else n
    relatedOut db src pred at_ n scope sk =
      ((A.take m).map toRes, if n ≠ 0 ∧ m < A.length then (A.take m).getLast? else none) :=
  relatedOut_page db src pred at_ n scope sk hsk

open Hub.Store Hub.OutScan in
/-- **T-C03-3: paging returns the same result — nothing missing, nothing twice.** For every database, source, predicate
filter, instant, scope and every limit `n ≥ 1`: following the continuation keys and concatenating the pages gives exactly
the list the unpaged query returns (and that list has pairwise distinct (predicate, target) pairs: `outgoing_unpaged`). -/
theorem outgoing_paged_eq_unpaged (db : DB) (src pred at_ n : Nat) (scope : List Nat) (hn : 0 < n) :
    allPages db src pred at_ n scope ((resultKeys db src pred at_ scope).length + 1) none
      = (relatedOut db src pred at_ 0 scope none).1 :=
  pages_eq_unpaged db src pred at_ n scope hn

/-- the reference keys of one (dataset, referencing entity), as the index model of `index_step` sees them. -/
def keysOf (db : Hub.Store.DB) (src ds : Nat) : List Key :=
  (db.refs.filter fun k => k.src == src && k.ds == ds).map fun k => ⟨k.t, (k.pred, k.tgt), k.del⟩

open Hub.Store Hub.OutScan in
theorem liveAt_iff_newestLive (db : DB) (src ds p t at_ : Nat) :
    liveAt (keysOf db src ds) (p, t) at_ ↔ NewestLive db src at_ p t ds := by
  unfold liveAt NewestLive keysOf
  constructor
  · rintro ⟨k, hk, hr, hle, hd, hmax⟩
    obtain ⟨rk, hrk, rfl⟩ := List.mem_map.1 hk
    simp only [List.mem_filter, Bool.and_eq_true, beq_iff_eq] at hrk
    simp only [Prod.mk.injEq] at hr
    refine ⟨rk, hrk.1, hrk.2.1, by simp [triple, hr.1, hr.2, hrk.2.2], hle, hd, ?_⟩
    intro k' hk' hs' ht' hle'
    have h1 : k'.pred = p := by have := congrArg (·.1) ht'; simpa using this
    have h2 : k'.tgt = t := by have := congrArg (·.2.1) ht'; simpa using this
    have h3 : k'.ds = ds := by have := congrArg (·.2.2) ht'; simpa using this
    have := hmax ⟨k'.t, (k'.pred, k'.tgt), k'.del⟩
      (List.mem_map.2 ⟨k', by simp [List.mem_filter, hk', hs', h3], rfl⟩) (by simp [h1, h2]) hle'
    simpa [Key.rank, rank] using this
  · rintro ⟨rk, hrk, hs, htr, hle, hd, hmax⟩
    have h1 : rk.pred = p := by have := congrArg (·.1) htr; simpa using this
    have h2 : rk.tgt = t := by have := congrArg (·.2.1) htr; simpa using this
    have h3 : rk.ds = ds := by have := congrArg (·.2.2) htr; simpa using this
    refine ⟨⟨rk.t, (rk.pred, rk.tgt), rk.del⟩, List.mem_map.2 ⟨rk, by simp [List.mem_filter, hrk, hs, h3], rfl⟩,
      by simp [h1, h2], hle, hd, ?_⟩
    intro k' hk' hr' hle'
    obtain ⟨rk', hrk', rfl⟩ := List.mem_map.1 hk'
    simp only [List.mem_filter, Bool.and_eq_true, beq_iff_eq] at hrk'
    simp only [Prod.mk.injEq] at hr'
    have := hmax rk' hrk'.1 hrk'.2.1 (by simp [triple, hr'.1, hr'.2, hrk'.2.2]) hle'
    simpa [Key.rank, rank] using this

open Hub.Store Hub.OutScan in
/-- **T-C03-2: the outgoing query equals the graph implied by the latest versions.** If, for the referencing entity
`src`, the reference index of every dataset agrees with that dataset's version history `vs ds` (the invariant
`index_step` preserves write by write, from `index_init`), then the unpaged outgoing query as of `at` returns the pair
(p, target) — once — iff `p` passes the predicate filter and some in-scope, non-deleted dataset's last version of `src`
recorded at or before `at` is not deleted and carries the reference. -/
theorem outgoing_eq_graph (db : DB) (src pred at_ : Nat) (scope : List Nat) (vs : Nat → List Ver)
    (hI : ∀ ds r a, liveAt (keysOf db src ds) r a ↔ specLive (vs ds) r a) :
    let res := (relatedOut db src pred at_ 0 scope none).1
    (∀ p t, (∃ r ∈ res, r.pred = p ∧ r.other = t) ↔
        predOK pred p ∧ ∃ ds, inScope db scope ds = true ∧ specLive (vs ds) (p, t) at_)
    ∧ (res.map fun r => (r.pred, r.other)).Nodup := by
  intro res
  obtain ⟨h1, h2, _⟩ := relatedOut_unpaged db src pred at_ scope
  refine ⟨?_, h2⟩
  intro p t
  rw [h1 p t]
  constructor
  · rintro ⟨hp, ds, hs, hn⟩
    exact ⟨hp, ds, hs, (hI ds (p, t) at_).1 ((liveAt_iff_newestLive db src ds p t at_).2 hn)⟩
  · rintro ⟨hp, ds, hs, hn⟩
    exact ⟨hp, ds, hs, (liveAt_iff_newestLive db src ds p t at_).1 ((hI ds (p, t) at_).2 hn)⟩

-- the hypothesis of `outgoing_eq_graph` is met by the empty store (and kept by every write: `index_step`)
example (src ds : Nat) (r : Ref) (a : Nat) : liveAt (keysOf {} src ds) r a ↔ specLive [] r a := by
  simpa [keysOf] using index_init r a

/-! ## tie to the Go source (regenerated facts) -/
open Hub.Facts.Layout in
theorem facts_shape :
    outKey = [("OutgoingRefIndex", 0, 16), ("rid", 2, 64), ("uint64(txnTime)", 10, 64), ("predid", 18, 64), ("relatedid", 26, 64), ("1", 34, 16), ("ds.InternalID", 36, 32)]
    ∧ inKey = [("IncomingRefIndex", 0, 16), ("relatedid", 2, 64), ("rid", 10, 64), ("uint64(txnTime)", 18, 64), ("predid", 26, 64), ("1", 34, 16), ("ds.InternalID", 36, 32)]
    ∧ relatedReads = ["binary.BigEndian.Uint32(k[36:])", "binary.BigEndian.Uint64(k[18:])", "binary.BigEndian.Uint64(k[10:])",
        "binary.BigEndian.Uint64(k[26:])", "binary.BigEndian.Uint16(k[34:])", "binary.BigEndian.Uint32(k[36:])",
        "binary.BigEndian.Uint64(k[10:])", "binary.BigEndian.Uint64(k[18:])", "binary.BigEndian.Uint64(k[26:])", "binary.BigEndian.Uint16(k[34:])"]
    ∧ relatedAddedMarks = ["else(from.Inverse)", "del != 1 && hasReachedStartKey", "del != 1"]
    ∧ tombstoneRemovalCond = ["else(e.IsDeleted)", "isDifferentLocally"] := by decide

open Hub.Store in
/-- non-vacuity / sanity on the store model: A -p-> B in two datasets, outgoing query with limit 1
returns B once over both pages (the D3 input), and a removed reference is gone. -/
example :
    let a : Ent := ⟨1, false, [(5, 2)], "a", []⟩
    let db := storeBatch (storeBatch {} 2 10 [a]) 3 20 [a]
    let p1 := relatedOut db 1 0 99 1 [] none
    p1 = ([⟨5, 2, 3, 20⟩], none)
    ∧ (relatedOut (storeBatch db 3 30 [⟨1, false, [], "b", []⟩]) 1 0 99 0 [3] none).1 = [] := by decide

open Hub.Store in
/-- known finding D4 (inverse scan): `S -p,q-> X`, then `S -q-> X`. The outgoing query from S
returns q only, the inverse query from X returns p and q — incoming is not the transpose. -/
theorem incoming_not_transpose :
    let s1 : Ent := ⟨1, false, [(5, 2), (6, 2)], "a", []⟩
    let s2 : Ent := ⟨1, false, [(6, 2)], "b", []⟩
    let db := storeBatch (storeBatch {} 7 10 [s1]) 7 20 [s2]
    ((relatedOut db 1 0 99 0 [] none).1.map fun r => r.pred) = [6]
    ∧ ((relatedIn db 2 0 99 0 [] none).1.map fun r => r.pred) = [5, 6] := by decide

end Hub.C03
