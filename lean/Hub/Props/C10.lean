import Hub.Model.Partition
import Hub.Generated.Partition
/-!
# C10 — every source entity reaches the transform exactly once, for any batching

Property theorems only. Model: `Hub/Model/Partition.lean`.
-/
namespace Hub.C10
open Hub.Partition

theorem flatten_bounds_aux (xs : List α) (ps : Nat) (k : Nat) :
    ((List.range k).map fun i => slice xs (bound xs.length ps i)).flatten
      = xs.take (k * ps) := by
  induction k with
  | zero => simp
  | succ k ih =>
    rw [List.range_succ, List.map_append, List.flatten_append, ih]
    simp only [List.map_cons, List.map_nil, List.flatten_cons, List.flatten_nil, List.append_nil,
      slice, bound]
    have h1 : (k + 1) * ps = k * ps + ps := by rw [Nat.succ_mul]
    rw [h1, ← List.take_append_drop (k*ps) (xs.take (k * ps + ps))]
    congr 1
    · rw [List.take_take]; congr 1; omega
    · rw [List.drop_take]
      by_cases h : k * ps ≤ xs.length
      · rw [Nat.min_eq_left h]
        apply List.ext_getElem?
        intro i
        simp only [List.getElem?_take, List.getElem?_drop]
        by_cases h2 : k*ps + ps ≤ xs.length
        · rw [Nat.min_eq_left h2]
        · rw [Nat.min_eq_right (by omega)]
          split <;> split <;> try rfl
          · omega
          · rename_i h3 h4
            have : xs.length ≤ k*ps + i := by omega
            exact (List.getElem?_eq_none this).symm ▸ rfl
      · have h' : xs.length ≤ k * ps := by omega
        rw [Nat.min_eq_right h', Nat.min_eq_right (by omega)]
        simp [List.drop_eq_nil_of_le h']

theorem workers_pos (n : Nat) (p : Int) : 0 < workers n p := by
  unfold workers; split <;> omega

/-- T-C10-1: for every entity list and every configured parallelism (any integer, including
≤ 0 and > length) the chunks handed to the workers concatenate to the input: every entity is in
exactly one chunk, in source order. -/
theorem chunks_partition (xs : List α) (p : Int) : (chunks xs p).flatten = xs := by
  unfold chunks chunkBounds
  simp only [List.map_map]
  have := flatten_bounds_aux xs (psize xs.length (workers xs.length p)) (workers xs.length p)
  simp only [Function.comp_def]
  rw [this]
  apply List.take_of_length_le
  have hp := workers_pos xs.length p
  generalize workers xs.length p = par at *
  unfold psize
  have := Nat.div_add_mod (xs.length + par - 1) par
  have hm := Nat.mod_lt (xs.length + par - 1) hp
  have : par * ((xs.length + par - 1) / par) ≥ xs.length := by omega
  exact this

/-- every bound is a well-formed slice (`from ≤ to ≤ n`): `make([]*Entity, to-from)` cannot panic. -/
theorem bounds_wellformed (n : Nat) (p : Int) :
    ∀ b ∈ chunkBounds n p, b.1 ≤ b.2 ∧ b.2 ≤ n := by
  intro b hb
  unfold chunkBounds at hb
  simp only [List.mem_map, List.mem_range] at hb
  obtain ⟨i, _, rfl⟩ := hb
  simp only [bound]; omega

/-- T-C10-2: for a per-entity transform `f` (returning, dropping, duplicating or creating
entities), the parallel run equals the sequential one: exactly once, results in source order. -/
theorem parallel_eq_sequential (f : α → List β) (xs : List α) (p : Int) :
    parTransform (fun c => c.flatMap f) xs p = xs.flatMap f := by
  unfold parTransform
  conv => rhs; rw [← chunks_partition xs p]
  generalize chunks xs p = cs
  induction cs with
  | nil => simp
  | cons c cs ih => simp [List.flatMap_append, ih]

/-- T-C10-3: an identity transform makes the transform stage the identity on every batch. -/
theorem identity_is_copy (xs : List α) (p : Int) :
    parTransform (fun c => c) xs p = xs := by
  unfold parTransform; simp [chunks_partition]

/-- number of entities seen by the workers equals the batch length. -/
theorem chunks_total_length (xs : List α) (p : Int) :
    ((chunks xs p).map List.length).sum = xs.length := by
  have := congrArg List.length (chunks_partition xs p)
  rwa [List.length_flatten] at this

/-! ## tie to the Go source: the arithmetic extracted by factgen from `IncrementalPipeline.sync`
(regenerated on every run) computes the model's functions. -/

theorem facts_workers (n : Nat) (p : Int) :
    Hub.Facts.Partition.workers p n = (workers n p : Int) := by
  unfold Hub.Facts.Partition.workers workers
  by_cases h1 : p < 1 <;> by_cases h2 : (n : Int) < p <;> simp [h1, h2] <;> omega

theorem facts_psize (n par : Nat) (h : 0 < par) :
    Hub.Facts.Partition.psize n par = (psize n par : Int) := by
  unfold Hub.Facts.Partition.psize psize
  have : ((n : Int) + (par : Int) - 1) = ((n + par - 1 : Nat) : Int) := by omega
  rw [this, Int.tdiv_eq_ediv_of_nonneg (by omega)]
  exact (Int.natCast_ediv _ _).symm

theorem facts_bound (n ps i : Nat) :
    Hub.Facts.Partition.bound ((i * ps : Nat) : Int) ps n
      = (((bound n ps i).1 : Int), ((bound n ps i).2 : Int)) := by
  unfold Hub.Facts.Partition.bound bound
  simp only [decide_eq_true_eq, gt_iff_lt]
  refine Prod.ext ?_ ?_ <;> simp only <;> split <;> omega

/-- loop skeleton: `for i := 0; i < parallelisms; i++ { …; index += psize }`, results joined by
worker index. -/
theorem facts_loop_shape :
    Hub.Facts.Partition.indexAdvance = "index += psize" ∧ Hub.Facts.Partition.loopCond = "i < parallelisms"
    ∧ Hub.Facts.Partition.loopInit = "i := 0" ∧ Hub.Facts.Partition.joinOrder = "byWorkerIndex"
    ∧ Hub.Facts.Partition.chunkStmts = ["chunk := make([]*server.Entity, to-from)", "copy(chunk, entities[from:to])", "go local(wid, chunk, &wg)"]
    ∧ Hub.Facts.Partition.readLoopStop = ["len(entities)", "incomingEntityCount == 0 || continuationToken.GetToken() == \"\"",
        "len(entities)", "incomingEntityCount == 0 || continuationToken.GetToken() == \"\""] := by decide

-- non-vacuity: a concrete non-trivial split (14 entities, 10 workers: the D7 input)
example : chunks (List.range 14) 10 =
    [[0,1],[2,3],[4,5],[6,7],[8,9],[10,11],[12,13],[],[],[]] := by decide
example : chunkBounds 15 10 = [(0,2),(2,4),(4,6),(6,8),(8,10),(10,12),(12,14),(14,15),(15,15),(15,15)] := by decide

/-! ## negative witnesses for the arithmetic of the pinned commit (D7, fixed) -/
theorem cur_drops_tail : (chunksCur (List.range 14) 10).map List.flatten = some (List.range 10) := by decide
theorem cur_panics : chunksCur (List.range 15) 10 = none := by decide
theorem cur_drops_9_4 : (chunksCur (List.range 9) 4).map List.flatten = some (List.range 8) := by decide

end Hub.C10
