import Hub.Proofs.Sync
/-!
# C08 — incremental jobs converge and tokens never run ahead of delivered data

Property theorems only. Model: `Hub/Model/Sync.lean`; helper lemmas: `Hub/Proofs/Sync.lean`.
A history is any list of steps (source writes at any time, pages of any size accepted by the sink,
token stores, aborts of any kind at any point, full-sync starts).
-/
namespace Hub.C08
open Hub.Sync

/-- **token safety**: in every state reachable through any history (writes, pages of any size,
aborts at any point — sink failure, interrupt, kill, process death — and full syncs that reset the
token when they start), the persisted token is never ahead of what the sink has been given: every id
changed below the token is in the sink, with a version at least as new as its last change below the
token. -/
theorem token_never_ahead (l : List Step) (hf : ∀ st ∈ l, st.fixed = true) :
    let s := run {} l
    s.tok ≤ s.cur ∧ s.cur ≤ s.src.length ∧ Inv s.src s.sink s.tok :=
  let g := good_run l {} good_init hf
  ⟨g.tokLe, g.curLe, inv_mono g.inv g.tokLe⟩

/-- **convergence**: whatever happened before (any history), once a run has read to the end of the
feed the sink's latest view equals the source's latest view. -/
theorem converges_at_end (l : List Step) (hf : ∀ st ∈ l, st.fixed = true)
    (hend : (run {} l).cur = (run {} l).src.length) : Converged (run {} l) := by
  intro id
  have g := (good_run l {} good_init hf).inv
  rw [hend] at g
  exact converged_of_inv g id

/-- one page of a run of an incremental job: deliver, then store the token. -/
def page (b : Nat) : List Step := [.deliver b, .persist]
def pages (b k : Nat) : List Step := (List.replicate k (page b)).flatten

theorem cur_after_page (s : St) (b : Nat) :
    (run s (page b)).cur = s.cur + min b (s.src.length - s.cur) ∧ (run s (page b)).src = s.src
    ∧ (run s (page b)).tok = (run s (page b)).cur := by
  simp [run, page, step, List.length_take, List.length_drop]

/-- a run with any batch size ≥ 1 and no concurrent writes reaches the end of the feed after at most
(length − cursor) pages, with its token stored there. -/
theorem run_reaches_end (b : Nat) (hb : 0 < b) : ∀ (k : Nat) (s : St), s.cur ≤ s.src.length → s.src.length - s.cur ≤ k →
    (run s (pages b k)).cur = s.src.length ∧ (run s (pages b k)).src = s.src ∧ (run s (pages b k)).tok = s.src.length ∨ k = 0
  | 0, s, _, _ => Or.inr rfl
  | k + 1, s, hc, hk => by
    left
    obtain ⟨h1, h2, h3⟩ := cur_after_page s b
    have hrun : run s (pages b (k + 1)) = run (run s (page b)) (pages b k) := by
      simp [pages, List.replicate_succ, run, List.foldl_append]
    rw [hrun]
    by_cases hk0 : k = 0
    · subst hk0
      have : s.src.length - s.cur ≤ 1 := hk
      have h0 : run (run s (page b)) (pages b 0) = run s (page b) := rfl
      rw [h0]
      refine ⟨?_, h2, ?_⟩
      · rw [h1]; omega
      · rw [h3, h1]; omega
    · rcases run_reaches_end b hb k (run s (page b)) (by rw [h1, h2]; omega) (by rw [h1, h2]; omega) with h | h
      · rw [h2] at h; exact h
      · exact absurd h hk0

/-- **the next successful run restores equality**: after any history, a run that is not disturbed
(any batch size ≥ 1, enough pages) ends with sink = source and its token at the end of the feed. -/
theorem next_run_restores (l : List Step) (hf : ∀ st ∈ l, st.fixed = true) (b : Nat) (hb : 0 < b) :
    let s := run {} l
    let k := s.src.length - s.cur + 1
    Converged (run s (pages b k)) ∧ (run s (pages b k)).tok = s.src.length := by
  intro s k
  have g := good_run l {} good_init hf
  rcases run_reaches_end b hb k s g.curLe (by omega) with ⟨h1, h2, h3⟩ | h
  · refine ⟨?_, h3⟩
    have hf' : ∀ st ∈ pages b k, st.fixed = true := by
      intro st hst
      simp only [pages, List.mem_flatten, List.mem_replicate] at hst
      obtain ⟨pg, ⟨_, rfl⟩, hin⟩ := hst
      simp [page] at hin
      rcases hin with rfl | rfl <;> rfl
    have g2 := (good_run (pages b k) s g hf').inv
    intro id
    rw [h1, ← h2] at g2
    exact converged_of_inv g2 id
  · omega

/-- **re-running with nothing new changes nothing**: at the end of the feed a page is empty. -/
theorem rerun_changes_nothing (s : St) (b : Nat) (h : s.cur = s.src.length) :
    (step s (.deliver b)).sink = s.sink ∧ (step s (.deliver b)).cur = s.cur := by
  simp [step, h, applyAll]

/-- a full sync that does NOT reset the persisted token when it starts (the code as found) can leave
the sink permanently behind: it re-delivers old versions from position 0, is aborted, and the next
incremental run — which starts from the old token — sees nothing to do. -/
theorem full_sync_abort_without_reset_diverges :
    let l : List Step := [.write (1, 10), .write (1, 11)] ++ pages 5 1      -- source written, incremental run: sink 1 ↦ 11, token 2
      ++ [.startFull false, .deliver 1, .abort]                               -- full sync starts, first page re-delivers (1,10), dies
      ++ pages 5 3                                                            -- next incremental run
    let s := run {} l
    getA 1 s.sink = some 10 ∧ latest s.src 1 = some 11 ∧ s.tok = s.src.length := by decide

/-- the same history with the reset converges. -/
example :
    let l : List Step := [.write (1, 10), .write (1, 11)] ++ pages 5 1 ++ [.startFull true, .deliver 1, .abort] ++ pages 5 3
    let s := run {} l
    getA 1 s.sink = some 11 ∧ latest s.src 1 = some 11 ∧ s.tok = s.src.length := by decide

end Hub.C08
