import Hub.Proofs.Sync
import Hub.Model.Pipeline
import Hub.Proofs.PipeInv
import Hub.Proofs.PipeLO
import Hub.Generated.Pipeline
/-!
# C08 — incremental jobs converge and tokens never run ahead of delivered data

Property theorems only. Model: `Hub/Model/Sync.lean`; helper lemmas: `Hub/Proofs/Sync.lean`.
A history is any list of steps (source writes at any time, pages of any size accepted by the sink,
token stores, aborts of any kind at any point, full-sync starts).
-/
namespace Hub.C08
open Hub.Sync

/-- **token safety**: in every state reachable through any history (writes, pages of any size,
aborts at any point — sink failure, interrupt, kill, process death — and full syncs that reset the
token when they start), the persisted token is never ahead of what the sink has been given: every id
changed below the token is in the sink, with a version at least as new as its last change below the
token. -/
theorem token_never_ahead (l : List Step) (hf : ∀ st ∈ l, st.fixed = true) :
    let s := run {} l
    s.tok ≤ s.cur ∧ s.cur ≤ s.src.length ∧ Inv s.src s.sink s.tok :=
  let g := good_run l {} good_init hf
  ⟨g.tokLe, g.curLe, inv_mono g.inv g.tokLe⟩

/-- **convergence**: whatever happened before (any history), once a run has read to the end of the
feed the sink's latest view equals the source's latest view. -/
theorem converges_at_end (l : List Step) (hf : ∀ st ∈ l, st.fixed = true)
    (hend : (run {} l).cur = (run {} l).src.length) : Converged (run {} l) := by
  intro id
  have g := (good_run l {} good_init hf).inv
  rw [hend] at g
  exact converged_of_inv g id

/-- one page of a run of an incremental job: deliver, then store the token. -/
def page (b : Nat) : List Step := [.deliver b, .persist]
def pages (b k : Nat) : List Step := (List.replicate k (page b)).flatten

theorem cur_after_page (s : St) (b : Nat) :
    (run s (page b)).cur = s.cur + min b (s.src.length - s.cur) ∧ (run s (page b)).src = s.src
    ∧ (run s (page b)).tok = (run s (page b)).cur := by
  simp [run, page, step, List.length_take, List.length_drop]

/-- a run with any batch size ≥ 1 and no concurrent writes reaches the end of the feed after at most
(length − cursor) pages, with its token stored there. -/
theorem run_reaches_end (b : Nat) (hb : 0 < b) : ∀ (k : Nat) (s : St), s.cur ≤ s.src.length → s.src.length - s.cur ≤ k →
    (run s (pages b k)).cur = s.src.length ∧ (run s (pages b k)).src = s.src ∧ (run s (pages b k)).tok = s.src.length ∨ k = 0
  | 0, s, _, _ => Or.inr rfl
  | k + 1, s, hc, hk => by
    left
    obtain ⟨h1, h2, h3⟩ := cur_after_page s b
    have hrun : run s (pages b (k + 1)) = run (run s (page b)) (pages b k) := by
      simp [pages, List.replicate_succ, run, List.foldl_append]
    rw [hrun]
    by_cases hk0 : k = 0
    · subst hk0
      have : s.src.length - s.cur ≤ 1 := hk
      have h0 : run (run s (page b)) (pages b 0) = run s (page b) := rfl
      rw [h0]
      refine ⟨?_, h2, ?_⟩
      · rw [h1]; omega
      · rw [h3, h1]; omega
    · rcases run_reaches_end b hb k (run s (page b)) (by rw [h1, h2]; omega) (by rw [h1, h2]; omega) with h | h
      · rw [h2] at h; exact h
      · exact absurd h hk0

/-- **the next successful run restores equality**: after any history, a run that is not disturbed
(any batch size ≥ 1, enough pages) ends with sink = source and its token at the end of the feed. -/
theorem next_run_restores (l : List Step) (hf : ∀ st ∈ l, st.fixed = true) (b : Nat) (hb : 0 < b) :
    let s := run {} l
    let k := s.src.length - s.cur + 1
    Converged (run s (pages b k)) ∧ (run s (pages b k)).tok = s.src.length := by
  intro s k
  have g := good_run l {} good_init hf
  rcases run_reaches_end b hb k s g.curLe (by omega) with ⟨h1, h2, h3⟩ | h
  · refine ⟨?_, h3⟩
    have hf' : ∀ st ∈ pages b k, st.fixed = true := by
      intro st hst
      simp only [pages, List.mem_flatten, List.mem_replicate] at hst
      obtain ⟨pg, ⟨_, rfl⟩, hin⟩ := hst
      simp [page] at hin
      rcases hin with rfl | rfl <;> rfl
    have g2 := (good_run (pages b k) s g hf').inv
    intro id
    rw [h1, ← h2] at g2
    exact converged_of_inv g2 id
  · omega

/-- **re-running with nothing new changes nothing**: at the end of the feed a page is empty. -/
theorem rerun_changes_nothing (s : St) (b : Nat) (h : s.cur = s.src.length) :
    (step s (.deliver b)).sink = s.sink ∧ (step s (.deliver b)).cur = s.cur := by
  simp [step, h, applyAll]

/-- a full sync that does NOT reset the persisted token when it starts (the code as found) can leave
the sink permanently behind: it re-delivers old versions from position 0, is aborted, and the next
incremental run — which starts from the old token — sees nothing to do. -/
theorem full_sync_abort_without_reset_diverges :
    let l : List Step := [.write (1, 10), .write (1, 11)] ++ pages 5 1      -- source written, incremental run: sink 1 ↦ 11, token 2
      ++ [.startFull false, .deliver 1, .abort]                               -- full sync starts, first page re-delivers (1,10), dies
      ++ pages 5 3                                                            -- next incremental run
    let s := run {} l
    getA 1 s.sink = some 10 ∧ latest s.src 1 = some 11 ∧ s.tok = s.src.length := by decide

/-- the same history with the reset converges. -/
example :
    let l : List Step := [.write (1, 10), .write (1, 11)] ++ pages 5 1 ++ [.startFull true, .deliver 1, .abort] ++ pages 5 3
    let s := run {} l
    getA 1 s.sink = some 11 ∧ latest s.src 1 = some 11 ∧ s.tok = s.src.length := by decide

/-! ## the detailed model (`Hub.Pipe`): the model that is compared with the code, run by run

`Hub.Pipe` follows pipeline.go / dataset_source.go / sink.go statement by statement (token strings, pages read with
`ProcessChanges`, the sink's write-time duplicate detection, `CompleteFullSync`, scripted faults). For a job over one
dataset source that reads all versions the theorems below are about that model directly. -/
open Hub.Pipe Hub.PipeInv in
/-- **token safety, run by run**: whatever happens to a run — the sink rejects any call, the run is killed after any
batch, the process dies between the sink write and the token store; incremental or full sync — afterwards the stored
token still does not point past anything the sink lacks: for every id changed below the token the sink's latest version
is a source version at least as new as the last of those changes. A run that ends `ok` leaves the token at the end. -/
theorem pipe_run_safe (b : Nat) (hb : 0 < b) (full : Bool) (flt : Faults) (s : Hub.Pipe.St) (f : Feed) (h : Safe f s) :
    Safe f (runJob true (cfg1 b) full flt s).1
    ∧ ((runJob true (cfg1 b) full flt s).2 = .ok → pos (runJob true (cfg1 b) full flt s).1.tok = f.length) :=
  runJob_safe b hb full flt s f h

open Hub.Pipe Hub.PipeInv in
/-- **token safety over every history** of source writes (batches of any content, with re-posts) and runs (either job
type, any fault at any point), from the empty hub. -/
theorem pipe_token_safe (b : Nat) (hb : 0 < b) (evs : List Ev) :
    ∃ f, Safe f (evs.foldl (stepEv b) { srcs := [[]] }) :=
  history_safe b hb evs { srcs := [[]] } [] ⟨rfl, Nat.zero_le _, inv_zero _ _⟩

open Hub.Pipe Hub.PipeInv in
/-- **convergence and recovery**: after any history, a run that ends `ok` (any batch size ≥ 1, either job type) leaves
the sink's latest version of every source id equal to the source's latest version — in particular the first `ok` run
after failed, killed or crashed ones restores equality. -/
theorem pipe_converges (b : Nat) (hb : 0 < b) (evs : List Ev) (full : Bool) (flt : Faults) :
    let s := evs.foldl (stepEv b) { srcs := [[]] }
    let r := runJob true (cfg1 b) full flt s
    r.2 = .ok → ∃ f, r.1.srcs = [f] ∧ ∀ id, (∃ p, Occ f id p) → latestV r.1.sink.feed id = latestV f id := by
  intro s r hok
  obtain ⟨f, hs⟩ := pipe_token_safe b hb evs
  obtain ⟨h1, h2⟩ := runJob_safe b hb full flt s f hs
  refine ⟨f, h1.srcs, fun id hocc => ?_⟩
  have hinv := h1.inv
  rw [h2 hok] at hinv
  exact converged_of_inv hinv id hocc

-- non-vacuity: a full sync that dies after its first batch, then an incremental run: converged, token at the end
example :
    let w : Hub.PipeInv.Ev := .write [⟨1, 10, false⟩, ⟨1, 11, false⟩, ⟨2, 20, false⟩]
    let s := ([w, .run false {}, .run true { dieAfter := some 1 }] : List Hub.PipeInv.Ev).foldl (Hub.PipeInv.stepEv 1) { srcs := [[]] }
    let r := Hub.Pipe.runJob true (Hub.PipeInv.cfg1 1) false {} s
    r.2 = .ok ∧ r.1.tok = [some 3] ∧ Hub.Pipe.latestV r.1.sink.feed 1 = some ⟨1, 11, false⟩ := by decide

/-! ## latest-only sources -/

open Hub.Pipe Hub.PipeInv Hub.PipeLO in
/-- **one latest-only page**: reading from a cursor at which the invariant holds (every id changed below it is up to date
in the sink or has a newer occurrence at or above it), delivering the page and moving the cursor to the returned token
keeps the invariant; the token moves forward and stays inside the feed. -/
theorem pipe_lo_page (f g : Feed) (cur batch : Nat) (hc : cur ≤ f.length) (h : InvLO f g cur) :
    let r := readPage f cur batch true
    InvLO f (storeBatch g r.1) r.2 ∧ cur ≤ r.2 ∧ r.2 ≤ f.length := lo_page_step f g cur batch hc h

open Hub.Pipe Hub.PipeInv Hub.PipeLO in
/-- **token safety over every history, latest-only**: source writes (any batches) and incremental runs over a
latest-only dataset source with any fault at any point (sink rejection, kill, death between sink write and token
store), from the empty hub. -/
theorem pipe_lo_token_safe (b : Nat) (hb : 0 < b) (evs : List EvLO) :
    ∃ f, SafeLO f (evs.foldl (stepEvLO b) { srcs := [[]] }) :=
  history_safeLO b hb evs { srcs := [[]] } [] ⟨rfl, Nat.zero_le _, invLO_zero _ _⟩

open Hub.Pipe Hub.PipeInv Hub.PipeLO in
/-- **convergence and recovery, latest-only**: after any such history, a run that ends `ok` leaves the sink's latest
version of every source id equal to the source's latest version. -/
theorem pipe_lo_converges (b : Nat) (hb : 0 < b) (evs : List EvLO) (flt : Faults) :
    let s := evs.foldl (stepEvLO b) { srcs := [[]] }
    let r := runJob true (cfgLO b) false flt s
    r.2 = .ok → ∃ f, r.1.srcs = [f] ∧ ∀ id, (∃ p, Occ f id p) → latestV r.1.sink.feed id = latestV f id := by
  intro s r hok
  obtain ⟨f, hs⟩ := pipe_lo_token_safe b hb evs
  obtain ⟨h1, h2⟩ := runJob_safeLO b hb flt s f hs
  exact ⟨f, h1.srcs, h2 hok⟩

-- non-vacuity: three versions of id 1 and one of id 2; a latest-only run with batch 1 that dies after its first batch,
-- then a clean run: converged on the newest versions, the superseded ones were never delivered
example :
    let w : Hub.PipeLO.EvLO := .write [⟨1, 10, false⟩, ⟨1, 11, false⟩, ⟨2, 20, false⟩, ⟨1, 12, false⟩]
    let s := ([w, .run { dieAfter := some 1 }] : List Hub.PipeLO.EvLO).foldl (Hub.PipeLO.stepEvLO 1) { srcs := [[]] }
    let r := Hub.Pipe.runJob true (Hub.PipeLO.cfgLO 1) false {} s
    r.2 = .ok ∧ r.1.sink.feed = [⟨2, 20, false⟩, ⟨1, 12, false⟩] ∧ r.1.tok = [some 4] := by decide

/-! ## the tie to pipeline.go / union_source.go: regenerated skeletons -/
set_option maxRecDepth 8000 in
open Hub.Facts.Pipeline Hub.Pipe in
/-- incremental pipeline: per page the sink is called first, its error leaves the closure, only then is the
token encoded and stored; the stored state is read once, before the loop. -/
theorem facts_incremental_order :
    proj ["runner.store.GetObject", "pipeline.sink.processEntities", "continuationToken.Encode", "runner.store.StoreObject", "pipeline.source.ReadEntities"]
        skeleton_IncrementalPipeline
      = ["runner.store.GetObject", "pipeline.sink.processEntities", "continuationToken.Encode", "runner.store.StoreObject", "pipeline.source.ReadEntities"]
    ∧ errChecked "pipeline.sink.processEntities" skeleton_IncrementalPipeline = true
    ∧ errChecked "runner.store.StoreObject" skeleton_IncrementalPipeline = true
    ∧ errChecked "pipeline.source.ReadEntities" skeleton_IncrementalPipeline = true := by decide

set_option maxRecDepth 8000 in
open Hub.Facts.Pipeline Hub.Pipe in
/-- full-sync pipeline: the token is cleared and stored right after the sink's full sync started (`Step.fixed`),
no token is stored inside the read loop, the sink's full sync is completed exactly once, after the loop, and the
token is stored only after that completion succeeded; every failing step leaves the function. -/
theorem facts_fullsync_order :
    proj ["runner.store.GetObject", "pipeline.sink.startFullSync", "set syncJobState.ContinuationToken = \"\"", "if storeSyncState {",
          "runner.store.StoreObject", "pipeline.sink.processEntities", "continuationToken.Encode", "pipeline.source.ReadEntities", "pipeline.sink.endFullSync"]
        skeleton_FullSyncPipeline
      = ["runner.store.GetObject", "pipeline.sink.startFullSync", "set syncJobState.ContinuationToken = \"\"", "if storeSyncState {", "runner.store.StoreObject",
         "pipeline.sink.processEntities", "continuationToken.Encode", "pipeline.source.ReadEntities", "pipeline.sink.endFullSync", "if storeSyncState {", "runner.store.StoreObject"]
    ∧ resetAtStart skeleton_FullSyncPipeline = true
    ∧ errChecked "pipeline.sink.startFullSync" skeleton_FullSyncPipeline = true
    ∧ errChecked "pipeline.sink.processEntities" skeleton_FullSyncPipeline = true
    ∧ errChecked "pipeline.source.ReadEntities" skeleton_FullSyncPipeline = true
    ∧ errChecked "pipeline.sink.endFullSync" skeleton_FullSyncPipeline = true
    ∧ errChecked "runner.store.StoreObject" skeleton_FullSyncPipeline = true := by decide

set_option maxRecDepth 8000 in
open Hub.Facts.Pipeline Hub.Pipe in
/-- union source: the shared continuation is advanced before the callback, a failing callback leaves the read at
once, and `Update` moves to the next member only when a member's token did not change. -/
theorem facts_union :
    proj ["dataset.MapEntities", "dataset.ProcessChanges", "d.Update", "processEntities", "ctx.Err"] skeleton_UnionRead
      = ["ctx.Err", "dataset.MapEntities", "d.Update", "dataset.ProcessChanges", "d.Update", "processEntities"]
    ∧ errChecked "set err = processEntities()" skeleton_UnionRead = true
    ∧ errChecked "ctx.Err" skeleton_UnionRead = true
    ∧ unionUpdate = ["t := c.ActiveToken()", "prevString := t.GetToken()", "c.Tokens[c.activeIdx] = &StringDatasetContinuation{newToken}",
        "if newToken == prevString { if c.activeIdx < len(c.Tokens)-1 { c.activeIdx = c.activeIdx + 1 return true } return false }", "return true"] := by decide

set_option maxRecDepth 8000 in
open Hub.Facts.Pipeline Hub.Pipe in
/-- dataset source: one page per call, handed to the callback whose error is returned; the dataset sink stores
the batch through `Dataset.StoreEntities` (write-time duplicate detection, C01). -/
theorem facts_source_sink :
    proj ["dataset.ProcessChanges", "dataset.MapEntities", "processEntities"] skeleton_DatasetRead
      = ["dataset.ProcessChanges", "dataset.MapEntities", "dataset.ProcessChanges", "processEntities"]
    ∧ errChecked "processEntities" skeleton_DatasetRead = true
    ∧ skeleton_datasetSinkProcess = ["datasetSink.DatasetManager.IsDataset", "if !exists {", "return", "}", "datasetSink.DatasetManager.GetDataset", "dataset.StoreEntities", "return"] := by decide

end Hub.C08
