import Hub.Model.Raffle
import Hub.Generated.ErrHandler
import Hub.Generated.Jobs
/-!
# C11 — every accepted job ends with a recorded outcome; one run per job id

Property theorems only. Model: `Hub/Model/Raffle.lean`.
-/
namespace Hub.C11
open Hub.Raffle

structure Inv (pf pi : Nat) (s : St) : Prop where
  full : s.ticketsFull + countFull s = pf
  incr : s.ticketsIncr + countIncr s = pi
  nodup : (s.running.map (·.1)).Nodup

theorem not_mem_of_not_running {s : St} {id : String} (h : isRunning s id = false) :
    id ∉ s.running.map (·.1) := by
  intro hm
  obtain ⟨e, he, rfl⟩ := List.mem_map.1 hm
  have : isRunning s e.1 = true := by
    unfold isRunning; exact List.any_eq_true.2 ⟨e, he, by simp⟩
  rw [this] at h; cases h

theorem borrow_inv {pf pi : Nat} {s : St} (h : Inv pf pi s) (id : String) (isFull : Bool) :
    Inv pf pi (borrow s id isFull).1 := by
  unfold borrow
  cases hr : isRunning s id with
  | true => simpa using h
  | false =>
    have hnm := not_mem_of_not_running hr
    simp only [Bool.false_eq_true, if_false]
    cases isFull with
    | true =>
      simp only [if_true]
      split
      · rename_i hpos
        refine ⟨?_, ?_, ?_⟩
        · have := h.full; simp only [countFull, List.filter_cons, if_true, List.length_cons] at *; omega
        · have := h.incr; simpa [countIncr, List.filter_cons] using this
        · simp only [List.map_cons, List.nodup_cons]; exact ⟨hnm, h.nodup⟩
      · exact h
    | false =>
      simp only [Bool.false_eq_true, if_false]
      split
      · rename_i hpos
        refine ⟨?_, ?_, ?_⟩
        · have := h.full; simpa [countFull, List.filter_cons] using this
        · have := h.incr; simp only [countIncr, List.filter_cons, Bool.not_false, if_true, List.length_cons] at *; omega
        · simp only [List.map_cons, List.nodup_cons]; exact ⟨hnm, h.nodup⟩
      · exact h

theorem filter_remove_counts :
    ∀ (l : List (String × Bool)) (jid : String) (f : Bool), (l.map (·.1)).Nodup → (jid, f) ∈ l →
      ((l.filter (·.1 != jid)).filter (·.2)).length + (if f then 1 else 0) = (l.filter (·.2)).length ∧
      ((l.filter (·.1 != jid)).filter (!·.2)).length + (if f then 0 else 1) = (l.filter (!·.2)).length ∧
      ((l.filter (·.1 != jid)).map (·.1)).Nodup
  | [], _, _, _, hm => by simp at hm
  | (a, b) :: l, jid, f, hnd, hm => by
    simp only [List.map_cons, List.nodup_cons] at hnd
    rcases List.mem_cons.1 hm with heq | hm'
    · have ha : jid = a := (Prod.mk.inj heq).1
      have hb : f = b := (Prod.mk.inj heq).2
      subst ha hb
      have hrest : l.filter (·.1 != jid) = l := by
        apply List.filter_eq_self.2
        intro e he
        have : e.1 ≠ jid := fun h => hnd.1 (h ▸ List.mem_map.2 ⟨e, he, rfl⟩)
        simpa using this
      simp only [List.filter_cons, bne_self_eq_false, Bool.false_eq_true, if_false, hrest]
      refine ⟨?_, ?_, hnd.2⟩
      · cases f <;> simp
      · cases f <;> simp
    · have hne : a ≠ jid := fun h => hnd.1 (h ▸ List.mem_map.2 ⟨(jid, f), hm', rfl⟩)
      obtain ⟨h1, h2, h3⟩ := filter_remove_counts l jid f hnd.2 hm'
      have hb : (a != jid) = true := by simpa using hne
      simp only [List.filter_cons, hb, if_true]
      refine ⟨?_, ?_, ?_⟩
      · cases b <;> simp only [Bool.false_eq_true, if_false, if_true, List.length_cons] <;> omega
      · cases b <;> simp only [Bool.not_false, Bool.not_true, Bool.false_eq_true, if_false, if_true, List.length_cons] <;> omega
      · simp only [List.map_cons, List.nodup_cons]
        refine ⟨?_, h3⟩
        intro hmem
        obtain ⟨e, he, hea⟩ := List.mem_map.1 hmem
        exact hnd.1 (List.mem_map.2 ⟨e, (List.mem_filter.1 he).1, hea⟩)

theorem ret_inv {pf pi : Nat} {s : St} (h : Inv pf pi s) (id : String) (isFull : Bool)
    (hrun : (id, isFull) ∈ s.running) : Inv pf pi (ret s id isFull) := by
  obtain ⟨h1, h2, h3⟩ := filter_remove_counts s.running id isFull h.nodup hrun
  refine ⟨?_, ?_, h3⟩
  · have := h.full
    unfold ret countFull at *
    cases isFull <;> simp at * <;> omega
  · have := h.incr
    unfold ret countIncr at *
    cases isFull <;> simp at * <;> omega

theorem step_inv {pf pi : Nat} {s : St} (h : Inv pf pi s) (op : Op) : Inv pf pi (step s op) := by
  cases op with
  | borrow id f => exact borrow_inv h id f
  | ret id f =>
    simp only [step]
    split
    · rename_i hm; exact ret_inv h id f hm
    · exact h

/-- T-C11-1 (raffle invariant): after every sequence of ticket requests and returns — any job
ids, any mix of fullsync/incremental, any order — the tickets plus the running jobs of each kind
add up to the configured pool and no job id runs twice. -/
theorem raffle_inv (pf pi : Nat) (ops : List Op) : Inv pf pi (ops.foldl step (init pf pi)) := by
  have h0 : Inv pf pi (init pf pi) := ⟨by simp [init, countFull], by simp [init, countIncr], by simp [init]⟩
  generalize init pf pi = s at h0
  induction ops generalizing s with
  | nil => simpa using h0
  | cons op ops ih => exact ih _ (step_inv h0 op)

/-- Corollary: pools are never exceeded and at most one run per job id is in flight. -/
theorem pools_never_exceeded (pf pi : Nat) (ops : List Op) :
    let s := ops.foldl step (init pf pi)
    countFull s ≤ pf ∧ countIncr s ≤ pi ∧ (s.running.map (·.1)).Nodup := by
  have h := raffle_inv pf pi ops
  exact ⟨by have := h.full; omega, by have := h.incr; omega, h.nodup⟩

/-- a second request for an id that is running is refused (no overlap of two runs of one job). -/
theorem no_overlap (s : St) (id : String) (f g : Bool) (h : (id, f) ∈ s.running) :
    (borrow s id g).2 = false ∧ (borrow s id g).1 = s := by
  have : isRunning s id = true := List.any_eq_true.2 ⟨(id, f), h, by simp⟩
  simp [borrow, this]

/-- T-C11-2/3 (run outcome): a run that got a ticket always gives it back — also when a
component panics — and stores a result unless it panicked; the bookkeeping invariant survives. -/
theorem run_outcome {pf pi : Nat} (s : St) (h : Inv pf pi s) (id : String) (isFull : Bool) (p : Pipe) :
    let r := jobRun s id isFull p
    Inv pf pi r.1
    ∧ (r.2.gotTicket = true → r.2.ticketReturned = true ∧ r.2.handleJobErrorCalled = true
        ∧ (p ≠ .panics → r.2.resultStored = true) ∧ isRunning r.1 id = false)
    ∧ (r.2.gotTicket = false → r.1 = s) := by
  simp only [jobRun]
  cases hb : (borrow s id isFull).2 with
  | false =>
    simp only [Bool.false_eq_true, if_false]
    refine ⟨borrow_inv h id isFull, by simp, ?_⟩
    intro _
    unfold borrow at hb ⊢
    split <;> try rfl
    split <;> split <;> simp_all
  | true =>
    simp only [if_true]
    have hbi := borrow_inv h id isFull
    have hmem : (id, isFull) ∈ (borrow s id isFull).1.running := by
      unfold borrow at hb ⊢
      split at hb
      · cases hb
      · split at hb <;> split at hb <;> simp_all
    refine ⟨ret_inv hbi id isFull hmem, ?_, by simp⟩
    intro _
    refine ⟨trivial, trivial, ?_, ?_⟩
    · intro hp; cases p <;> simp_all
    · simp [ret, isRunning]

/-- T-C11-4 (wrappers forward): every method of the error-handling wrappers calls the wrapped
component — from the regenerated facts (D8 was `EndStoreContext:self`). -/
theorem wrappers_forward :
    Hub.Facts.ErrHandler.forward_wrappedTransform
      = ["GetConfig:inner", "transformEntities:inner", "getParallelism:inner", "EndStoreContext:inner"]
    ∧ Hub.Facts.ErrHandler.forward_wrappedSink
      = ["GetConfig:inner", "processEntities:inner", "startFullSync:inner", "endFullSync:inner"] := by decide

/-- T-C11-5 (verify is total over the trigger list): a configuration is accepted iff *every*
trigger is valid and its handler list validated/defaulted. -/
theorem verify_total (ts : List Trigger) : verify ts = true ↔ ∀ t ∈ ts, triggerOk t = true := by
  induction ts with
  | nil => simp [verify]
  | cons t ts ih =>
    simp only [verify, List.mem_cons, forall_eq_or_imp]
    by_cases h : triggerOk t = true <;> simp [h, ih]

/-- the loop of `Scheduler.verify` has no early `return nil` and calls `verifyErrorHandlers` for
both trigger types (regenerated facts). -/
theorem facts_verify_shape :
    Hub.Facts.Jobs.verifyReturnNilInLoop = 0 ∧ Hub.Facts.Jobs.verifyHandlersCallDepth = "loop"
    ∧ Hub.Facts.Jobs.runDefers = ["j.handleJobError(&pipelineErr)", "j.runner.raffle.returnTicket(ticket)"]
    ∧ Hub.Facts.Jobs.raffleAccessorsCopy = ["getRunningJobs:copy", "runningJob:locked"]
    ∧ Hub.Facts.Jobs.borrowLockedFirst = "yes"
    ∧ Hub.Facts.Jobs.borrowGuards = ["ok", "r.ticketsFull > 0", "r.ticketsIncr > 0"]
    -- a kill only cancels the run's context; the ticket goes back once, from the run's own deferred call, and from nowhere else
    ∧ Hub.Facts.Jobs.skeleton_killJob = ["runner.raffle.runningJob", "if running != nil {", "running.cancel", "}"]
    ∧ Hub.Facts.Jobs.ticketReturners = ["job.Run"]
    -- the bisection of the error-handling sink wrapper terminates: batches of length ≤ 1 are leaves
    ∧ Hub.Facts.ErrHandler.leafCond = ["len(entities) <= 1"] := by decide

-- non-vacuity: a reachable state with both kinds running
example : let s := [Op.borrow "a" true, Op.borrow "b" false, Op.borrow "a" false, Op.ret "b" false].foldl step (init 1 2)
    s.ticketsFull = 0 ∧ s.ticketsIncr = 2 ∧ s.running = [("a", true)] := by decide

/-! ## negative witness for the pinned commit (D18, fixed) -/
theorem cur_verify_skips :
    verifyCur [⟨true, true, true, true, true, false⟩] = true
    ∧ verify [⟨true, true, true, true, true, false⟩] = false
    ∧ verifyCur [⟨true, true, true, true, true, true⟩, ⟨false, true, false, false, false, true⟩] = true := by decide

end Hub.C11
