import Hub.Model.Bisect
import Hub.Generated.ErrHandler
import Hub.Generated.Jobs
/-!
# C17 — per-entity error handling isolates failing entities

Property theorems only. Model: `Hub/Model/Bisect.lean` (`wrappedSink.processEntities`,
`handleJobError`), sink = arbitrary stateful oracle.
-/
namespace Hub.C17
open Hub.Bisect

variable {E σ : Type}

theorem half_lt {n : Nat} (h : ¬ n ≤ 1) : n / 2 < n ∧ 0 < n / 2 :=
  ⟨Nat.div_lt_self (by omega) (by omega), Nat.div_pos (by omega) (by omega)⟩

/-- T-C17-1 (partition, no item limit): when `processEntities` returns, every input entity is in
exactly one accepted batch or was reported exactly once — for every sink behaviour. -/
theorem partition (sinkF : σ → List E → Bool × σ) (es : List E) (s : St E σ) :
    ((proc sinkF 0 es s).1.delivered ++ (proc sinkF 0 es s).1.reported).Perm
      (s.delivered ++ s.reported ++ es) ∧ (proc sinkF 0 es s).2 = .ok := by
  unfold proc
  induction hn : es.length using Nat.strongRecOn generalizing es s with
  | _ n ih =>
    unfold procG
    simp only
    split
    · refine ⟨?_, rfl⟩
      simp only [St.accept, List.append_assoc]
      exact List.Perm.append_left _ List.perm_append_comm
    · split
      · rename_i hle
        match es, hle with
        | [], _ => simp [St.failEmpty]
        | [e], _ => simp [handle, St.report]
        | _ :: _ :: _, hle => simp at hle
      · rename_i hgt
        have hh := half_lt hgt
        have hk1 : (es.take (es.length / 2)).length < n := by
          subst hn; rw [List.length_take]; omega
        have hk2 : (es.drop (es.length / 2)).length < n := by
          subst hn; rw [List.length_drop]; omega
        obtain ⟨hlp, hlr⟩ := ih _ hk1 (es.take (es.length / 2)) (s.enter (sinkF s.sink es).2) rfl
        simp only [hlr]
        simp only [show (Res.ok = Res.maxItems) = False from by simp, if_false]
        obtain ⟨hrp, hrr⟩ := ih _ hk2 (es.drop (es.length / 2))
          (procG St.accept sinkF 0 (es.take (es.length / 2)) (s.enter (sinkF s.sink es).2)).1 rfl
        refine ⟨?_, hrr⟩
        refine hrp.trans ?_
        refine (hlp.append_right (es.drop (es.length / 2))).trans ?_
        simp only [St.enter, List.append_assoc]
        rw [List.take_append_drop]

/-- the permanent-rejection oracle: a batch fails iff it contains a rejected entity. -/
def permSink (bad : E → Bool) : Unit → List E → Bool × Unit := fun u es => (!(es.any bad), u)

/-- T-C17-2 (permanent rejects): every non-rejected entity is delivered, in order; every rejected
entity is reported exactly once, in order. -/
theorem permanent_rejects (bad : E → Bool) (es : List E) (s : St E Unit) :
    (proc (permSink bad) 0 es s).1.delivered = s.delivered ++ es.filter (fun e => !bad e)
    ∧ (proc (permSink bad) 0 es s).1.reported = s.reported ++ es.filter bad
    ∧ (proc (permSink bad) 0 es s).2 = .ok := by
  unfold proc
  induction hn : es.length using Nat.strongRecOn generalizing es s with
  | _ n ih =>
    unfold procG
    simp only [permSink]
    split
    · rename_i hacc
      have hnone : ∀ e ∈ es, bad e = false := by
        simp only [Bool.not_eq_eq_eq_not, Bool.not_true, List.any_eq_false] at hacc
        intro e he; simpa using hacc e he
      have h1 : es.filter (fun e => !bad e) = es := by
        apply List.filter_eq_self.2; intro e he; simp [hnone e he]
      have h2 : es.filter bad = [] := by
        apply List.filter_eq_nil_iff.2; intro e he; simp [hnone e he]
      simp [St.accept, h1, h2]
    · rename_i hrej
      split
      · rename_i hle
        match es, hle with
        | [], _ => simp at hrej
        | [e], _ =>
          have hb : bad e = true := by simpa using hrej
          simp [handle, St.report, hb]
        | _ :: _ :: _, hle => simp at hle
      · rename_i hgt
        have hh := half_lt hgt
        have hk1 : (es.take (es.length / 2)).length < n := by
          subst hn; rw [List.length_take]; omega
        have hk2 : (es.drop (es.length / 2)).length < n := by
          subst hn; rw [List.length_drop]; omega
        obtain ⟨hld, hlr, hlo⟩ := ih _ hk1 (es.take (es.length / 2)) (s.enter ()) rfl
        simp only [hlo]
        simp only [show (Res.ok = Res.maxItems) = False from by simp, if_false]
        obtain ⟨hrd, hrr, hro⟩ := ih _ hk2 (es.drop (es.length / 2))
          (procG St.accept (permSink bad) 0 (es.take (es.length / 2)) (s.enter ())).1 rfl
        refine ⟨?_, ?_, hro⟩
        · rw [hrd, hld]; simp only [St.enter, List.append_assoc]
          rw [← List.filter_append, List.take_append_drop]
        · rw [hrr, hlr]; simp only [St.enter, List.append_assoc]
          rw [← List.filter_append, List.take_append_drop]

/-- what T-C17-3 says about one call `r = proc … es s`. -/
def MaxSpec (m : Nat) (es : List E) (s : St E σ) (r : St E σ × Res) : Prop :=
  r.1.count ≤ m ∧ (r.2 = .maxItems ↔ r.1.count = m)
  ∧ r.1.count + s.reported.length = s.count + r.1.reported.length
  ∧ s.reported.length ≤ r.1.reported.length
  ∧ ∃ k, k ≤ es.length ∧ (r.2 = .ok → k = es.length) ∧
      (r.1.delivered ++ r.1.reported).Perm (s.delivered ++ s.reported ++ es.take k)

theorem max_items_aux (sinkF : σ → List E → Bool × σ) (m : Nat) :
    ∀ (n : Nat) (es : List E) (s : St E σ), es.length = n → s.count < m →
      MaxSpec m es s (procG St.accept sinkF m es s) := by
  intro n
  induction n using Nat.strongRecOn with
  | _ n ih =>
    intro es s hn hc
    subst hn
    unfold procG
    simp only
    split
    · refine ⟨by simp [St.accept]; omega, ?_, by simp [St.accept], by simp [St.accept], es.length, Nat.le_refl _, fun _ => rfl, ?_⟩
      · simp [St.accept]; omega
      · simp only [St.accept, List.append_assoc, List.take_length]
        exact List.Perm.append_left _ List.perm_append_comm
    · split
      · rename_i hle
        match es, hle with
        | [], _ =>
          refine ⟨by simp [St.failEmpty]; omega, by simp [St.failEmpty]; omega, by simp [St.failEmpty], by simp [St.failEmpty], 0, by simp, by simp, by simp [St.failEmpty]⟩
        | [e], _ =>
          simp only [handle, St.report]
          by_cases hm : 0 < m ∧ m ≤ s.count + 1
          · simp only [hm, and_self, if_true]
            refine ⟨by simp; omega, by simp; omega, by simp; omega, by simp, 1, by simp, by simp, by simp⟩
          · simp only [hm, if_false]
            refine ⟨by simp; omega, by simp; omega, by simp; omega, by simp, 1, by simp, by simp, by simp⟩
        | _ :: _ :: _, hle => simp at hle
      · rename_i hgt
        have hh := half_lt hgt
        have hk1 : (es.take (es.length / 2)).length < es.length := by
          rw [List.length_take]; omega
        have hk2 : (es.drop (es.length / 2)).length < es.length := by
          rw [List.length_drop]; omega
        have hL := ih _ hk1 (es.take (es.length / 2)) (s.enter (sinkF s.sink es).2) rfl (by simpa [St.enter] using hc)
        generalize procG St.accept sinkF m (es.take (es.length / 2)) (s.enter (sinkF s.sink es).2) = L at *
        obtain ⟨hl1, hl2, hl3, hl4, kl, hkl, hklo, hlp⟩ := hL
        by_cases hmax : L.2 = .maxItems
        · simp only [hmax, if_true]
          simp only [St.enter] at hl3 hl4 hlp
          refine ⟨hl1, hl2, hl3, hl4, kl, ?_, ?_, ?_⟩
          · rw [List.length_take] at hkl; omega
          · intro h; rw [hmax] at h; cases h
          · have : (es.take (es.length / 2)).take kl = es.take kl := by
              rw [List.take_take]; congr 1; rw [List.length_take] at hkl; omega
            rw [← this]; exact hlp
        · simp only [hmax, if_false]
          have hlok : L.2 = .ok := by cases h : L.2 <;> simp_all
          have hcnt : L.1.count < m := by
            have : L.1.count ≠ m := fun h => hmax (hl2.2 h)
            omega
          have hR := ih _ hk2 (es.drop (es.length / 2)) L.1 rfl hcnt
          obtain ⟨hr1, hr2, hr3, hr4, kr, hkr, hkro, hrp⟩ := hR
          have hkl' : kl = (es.take (es.length / 2)).length := hklo hlok
          simp only [St.enter] at hl3 hl4 hlp
          refine ⟨hr1, hr2, by omega, by omega, es.length / 2 + kr, ?_, ?_, ?_⟩
          · rw [List.length_drop] at hkr; omega
          · intro h; have := hkro h; rw [List.length_drop] at this; omega
          · refine hrp.trans ?_
            rw [hkl', List.take_length] at hlp
            refine (hlp.append_right _).trans ?_
            simp only [List.append_assoc]
            refine List.Perm.append_left _ (List.Perm.append_left _ ?_)
            rw [List.take_add]

/-- T-C17-3 (maxItems): starting below the limit, at most `m` entities are ever reported, the
result is `MaxItemsExceeded` exactly when the m-th rejection was seen, and what was delivered or
reported so far is exactly a prefix of the batch (nothing lost, nothing twice, and — because the
function returns at once — no sink call after the m-th rejection). -/
theorem max_items (sinkF : σ → List E → Bool × σ) (m : Nat) (es : List E) (s : St E σ)
    (hc : s.count < m) : MaxSpec m es s (proc sinkF m es s) :=
  max_items_aux sinkF m es.length es s rfl hc

/-- invariant behind T-C17-4: once an entity was reported in this run, the error is recorded and
can no longer be cleared. -/
def Carries (s : St E σ) : Prop := s.reported ≠ [] → s.lastErr = true ∧ s.failed = true

theorem proc_carries (sinkF : σ → List E → Bool × σ) (m : Nat) (es : List E) (s : St E σ)
    (h : Carries s) : Carries (proc sinkF m es s).1 := by
  unfold proc
  induction hn : es.length using Nat.strongRecOn generalizing es s with
  | _ n ih =>
    unfold procG
    simp only
    split
    · intro hr
      simp only [St.accept] at hr ⊢
      obtain ⟨h1, h2⟩ := h hr
      simp [h1, h2]
    · split
      · rename_i hle
        match es, hle with
        | [], _ => intro _; simp [St.failEmpty]
        | [e], _ =>
          simp only [handle]
          split <;> (intro _; simp [St.report])
        | _ :: _ :: _, hle => simp at hle
      · rename_i hgt
        have hh := half_lt hgt
        have hk1 : (es.take (es.length / 2)).length < n := by
          subst hn; rw [List.length_take]; omega
        have hk2 : (es.drop (es.length / 2)).length < n := by
          subst hn; rw [List.length_drop]; omega
        have hE : Carries (s.enter (sinkF s.sink es).2) := by
          intro hr; have := h hr; simp [St.enter, this.1]
        have hL := ih _ hk1 (es.take (es.length / 2)) (s.enter (sinkF s.sink es).2) hE rfl
        split
        · exact hL
        · exact ih _ hk2 (es.drop (es.length / 2)) _ hL rfl

theorem run_carries (sinkF : σ → List E → Bool × σ) (m : Nat) (bs : List (List E)) (s : St E σ)
    (h : Carries s) : Carries (run sinkF m bs s).1 := by
  unfold run
  induction bs generalizing s with
  | nil => simpa [runG] using h
  | cons b bs ih =>
    simp only [runG]
    split
    · exact proc_carries sinkF m b s h
    · exact ih _ (proc_carries sinkF m b s h)

/-- T-C17-4 (outcome carries the error): in any run (any batches, any sink behaviour, any
maxItems) that starts from a reset wrapper — whatever was left over from earlier runs — if at
least one entity was rejected then `lastError` is set when the run ends, so `handleJobError`
records the run as failed. -/
theorem outcome_carries_error (sinkF : σ → List E → Bool × σ) (m : Nat) (bs : List (List E))
    (s : St E σ) (hrej : (run sinkF m bs s.reset).1.reported ≠ []) :
    (run sinkF m bs s.reset).1.lastErr = true
    ∧ classify 0 true (run sinkF m bs s.reset).1.lastErr = .failed
    ∧ classify 1 true (run sinkF m bs s.reset).1.lastErr = .failed := by
  have h := run_carries sinkF m bs s.reset (by intro hr; simp [St.reset] at hr) hrej
  simp [h.1, classify]

/-- T-C17-5a: a re-run is scheduled only after a failure that is not a kill. -/
theorem rerun_only_after_failure (o : Outcome) (r : Option Nat) :
    (afterRun o r).1 = true → o = .failed ∧ ∃ n, r = some (n + 1) ∧ (afterRun o r).2 = some n := by
  unfold afterRun
  split
  · intro _; exact ⟨rfl, _, rfl, rfl⟩
  · intro h; cases h

/-- T-C17-5b: whatever the outcomes of the runs are, a job with `maxRetries = n` executes at most
`n + 1` runs in a chain (the first plus at most n re-runs); with no reRun handler exactly one. -/
theorem rerun_bounded (os : List Outcome) (n : Nat) : chain os (some n) ≤ n + 1 := by
  induction os generalizing n with
  | nil => simp [chain]
  | cons o os ih =>
    cases o <;> cases n <;> simp [chain, afterRun]
    rename_i n'
    have := ih n'
    omega

theorem no_handler_no_rerun (os : List Outcome) : chain os none ≤ 1 := by
  cases os with
  | nil => simp [chain]
  | cons o os => cases o <;> simp [chain, afterRun]

/-- a success or a kill ends the chain. -/
theorem chain_stops (o : Outcome) (os : List Outcome) (r : Option Nat) (h : o ≠ .failed) :
    chain (o :: os) r = 1 := by
  cases o <;> simp_all [chain, afterRun]

/-! ## tie to the Go source: the shapes of `wrappedSink.processEntities`, the log handler and
`handleJobError` that the model follows, re-extracted by factgen on every run. -/
open Hub.Facts.ErrHandler in
theorem facts_shape :
    splitPoint = ["len(entities) / 2"] ∧ leafCond = ["len(entities) <= 1"]
    ∧ clearCond = ["w.recursionDepth == 0 && !w.failedInRun"] ∧ failedMark = ["err != nil"]
    ∧ depthIncr = ["else(len(entities) <= 1)"]
    ∧ rightGuard = ["!errors.Is(leftErr, MaxItemsExceededError)"]
    ∧ halves = ["entities[:splitPoint]", "entities[splitPoint:]"]
    ∧ recursiveCalls = ["w.processEntities(runner, left)", "w.processEntities(runner, right)"]
    ∧ maxItemsCond = ["l.MaxItems > 0 && l.count >= l.MaxItems"]
    ∧ handlerBody = ["l.count = l.count + 1", "if l.MaxItems > 0 && l.count >= l.MaxItems { return MaxItemsExceededError }", "return nil"]
    ∧ sinkReset = ["w.recursionDepth = 0", "w.failedInRun = false", "for _, eh := range w.failingEntityHandlers { eh.reset() }"]
    ∧ logReset = ["l.count = 0"]
    ∧ rerunCond = ["j.errorHandlers != nil", "eh.MaxRetries > 0"]
    ∧ rerunBody = ["eh.MaxRetries = eh.MaxRetries - 1", "time.AfterFunc(…)"] := by decide

-- non-vacuity: a run in which the 2nd entity is rejected and the others delivered
example : let r := run (permSink (fun e : Nat => e == 2)) 0 [[1, 2, 3], [4]] ({ sink := () } : St Nat Unit).reset
    r.1.delivered = [1, 3, 4] ∧ r.1.reported = [2] ∧ r.1.lastErr = true := by
  simp [run, runG, proc, procG, permSink, St.reset, St.accept, St.enter, St.report, handle]
example : let r := proc (permSink (fun e : Nat => e % 2 == 0)) 2 [1, 2, 3, 4, 5, 6] ({ sink := () } : St Nat Unit)
    r.2 = .maxItems ∧ r.1.reported = [2, 4] ∧ r.1.delivered = [1, 3] := by
  simp [proc, procG, permSink, St.accept, St.enter, St.report, handle]

/-! ## negative witness for the pinned commit (D9, fixed): a rejected single-entity batch
followed by a clean batch is recorded as success. -/
theorem cur_forgets_error :
    let r := runCur (permSink (fun e : Nat => e == 1)) 0 [[1], [2]] ({ sink := () } : St Nat Unit).reset
    r.1.reported = [1] ∧ r.1.lastErr = false := by
  simp [runCur, runG, procCur, procG, permSink, St.reset, St.acceptCur, St.report, handle]


/-- `job.Run`: a trigger first competes for the job's ticket and leaves when it is refused; only the ticket holder
resets the error-handling state (rejection counter, bisection depth, last error) and runs the pipeline — a trigger
that arrives while the job is running cannot disturb the run in progress (the run the theorems above are about). -/
theorem facts_reset_under_ticket :
    Hub.Facts.Jobs.skeleton_Run =
      ["j.runner.raffle.borrowTicket", "if ticket == nil {", "j.pipeline.isFullSync", "if j.pipeline.isFullSync() {", "return", "}", "return", "}",
       "j.instrumentErrorHandling", "defer {", "func {", "j.handleJobError", "}", "}", "defer {", "j.runner.raffle.returnTicket", "}",
       "j.pipeline.isFullSync", "j.pipeline.sync"] := by decide

end Hub.C17
