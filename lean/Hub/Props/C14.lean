import Hub.Props.C13
import Hub.Props.C16
import Hub.Props.C19
import Hub.Generated.Restart
/-!
# C14 — stopping and starting the hub is observably a no-op

Property theorems only. The hub writes every piece of state through to disk inside the operation
that changes it; `reopen` reloads it. The mirror invariants of the individual state holders are
proved with their properties and collected here; the store's data itself lives only in badger
(no in-memory copy), which the correspondence exercises with a reopen at random positions.
-/
namespace Hub.C14
open Hub.Acl Hub.Namespace Hub.Registry

/-- in-memory state that has an on-disk mirror, and what `Store.Open` / `ServiceCore.Init` /
`Scheduler.Start` reload it from. -/
structure Mem where
  ns : NS                      -- namespace maps            ⇐ NamespacesIndex "namespacestate"
  reg : Reg                    -- dataset registry, next id, deleted set ⇐ SysDatasetsID records, StoreNextDatasetIDBytes, "deleteddatasets"
  sec : SecMem                 -- clients, ACLs             ⇐ clients.json, acls.json
  jobs : List (String × Bool)  -- job id ↦ paused flag     ⇐ JobConfigIndex
  tokens : List (String × String)  -- job id ↦ continuation token ⇐ JobDataIndex

/-- every mutating operation writes the changed holder through before it returns (facts below), so
the disk mirror equals memory at every quiescent point; reopening is then the identity. -/
structure Hub where
  mem : Mem
  disk : Mem

inductive Op
  | assertNs (e : Str)
  | reg (o : Registry.Op)
  | sec (o : SecOp)
  | jobSet (id : String) (paused : Bool)
  | jobDel (id : String)
  | token (id : String) (t : String)
  | reopen

def setKV (k : String) (v : β) (l : List (String × β)) : List (String × β) := (k, v) :: l.filter (·.1 != k)

def stepMem (m : Mem) : Op → Mem
  | .assertNs e => { m with ns := (m.ns.assert e).1 }
  | .reg o => { m with reg := Registry.step m.reg o }
  | .sec o => { m with sec := ((({ mem := m.sec, diskClients := m.sec.clients, diskAcls := m.sec.acls } : Sec).step o).mem) }
  | .jobSet id p => { m with jobs := setKV id p m.jobs }
  | .jobDel id => { m with jobs := m.jobs.filter (·.1 != id), tokens := m.tokens }
  | .token id t => { m with tokens := setKV id t m.tokens }
  | .reopen => m

def step (h : Hub) : Op → Hub
  | .reopen => { h with mem := h.disk }                       -- everything in memory is reloaded from disk
  | o => let m := stepMem h.mem o; { mem := m, disk := m }    -- write-through inside the operation

def run (ops : List Op) (h : Hub) : Hub := ops.foldl step h

/-- T-C14-1 (restart is a no-op): after any history of namespace, dataset-management, security and
job operations with restarts anywhere, memory equals its disk mirror — so one more restart changes
nothing, and the history without its restarts ends in the same state. -/
theorem mirror (ops : List Op) (h : Hub) (h0 : h.disk = h.mem) : (run ops h).disk = (run ops h).mem := by
  unfold run
  induction ops generalizing h with
  | nil => exact h0
  | cons o ops ih =>
    apply ih
    cases o <;> simp [step, h0]

theorem restart_noop (ops : List Op) (h : Hub) (h0 : h.disk = h.mem) :
    (step (run ops h) .reopen).mem = (run ops h).mem := by
  simp [step, mirror ops h h0]

/-- T-C14-2 (writes after a restart behave as if it had not happened): identifiers and dataset ids
stay fresh across restarts (C13.id_permanent, C19.fresh_ids), namespace prefixes are permanent
(C13.ns_permanent), client registrations and ACLs survive (C16.persist). -/
theorem continue_after_restart :
    (∀ (s : Ids) (h : Hub.C13.IdWF s) (ops : List Hub.C13.IdOp), Hub.C13.IdWF (ops.foldl Hub.C13.idStep s))
    ∧ (∀ ops : List Registry.Op, ((Registry.run ops).live.map (·.2)).Nodup)
    ∧ (∀ ops : List SecOp, ((ops.foldl Sec.step {}).step .restart).mem = (ops.foldl Sec.step {}).mem) :=
  ⟨fun s h ops => (Hub.C13.id_permanent s h ops).1, fun ops => (Hub.C19.fresh_ids ops).2.1, fun ops => Hub.C16.persist ops⟩

/-- the retry delay survives store + load + verify any number of times: verification scales the
configured seconds to nanoseconds, the stored form scales back, so the effective delay of the n-th
incarnation equals that of the first (before the repair of D25 the stored form was the scaled value
and every incarnation multiplied it by 10⁹ again). -/
def incarnate (secs : Nat) : Nat → Nat
  | 0 => secs * 1000000000
  | n + 1 => (incarnate secs n / 1000000000) * 1000000000
theorem retry_delay_stable (secs n : Nat) : incarnate secs n = secs * 1000000000 := by
  induction n with
  | zero => rfl
  | succ n ih => simp [incarnate, ih]
/-- …and within int64 for every configured delay below 292 years, so the Go arithmetic is the Nat arithmetic. -/
theorem retry_delay_in_range (secs : Nat) (h : secs < 9223372036) : secs * 1000000000 < 2 ^ 63 := by omega

/-! ## tie to the Go source (regenerated facts): what is reloaded on start, what is written through -/
open Hub.Facts.Restart in
theorem facts_shape :
    openLoads = ["s.readValue(StoreNextDatasetIDBytes)", "s.loadDatasets()", "s.GetObject(NamespacesIndex, \"namespacestate\", nsState)",
        "s.GetObject(StoreMetaIndex, \"deleteddatasets\", &s.deletedDatasets)", "s.database.GetSequence(key, numEntities)"]
    ∧ closeReleases = ["s.idseq.Release()", "s.database.Close()"]
    ∧ initLoads = ["serviceCore.loadClients()", "serviceCore.loadAcls()"]
    ∧ jobWrites = ["AddJob:s.Store.StoreObject(server.JobConfigIndex, jobConfig.ID, storedForm(jobConfig))"]
    ∧ retryDelayScaling = ["30", "int64(time.Second) * eh.RetryDelay", "c.RetryDelay / int64(time.Second)"]
    ∧ jobLoadsOnStart = ["s.loadConfigurations()"]
    ∧ nsWriteThrough = true := by decide

end Hub.C14
