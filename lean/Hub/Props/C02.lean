import Hub.Proofs.StoreInv
import Hub.Proofs.Paging
import Hub.Proofs.Sorting
import Hub.Proofs.TxnRefine
import Hub.Generated.Layout
/-!
# C02 — the change feed is the complete ordered version history; tokens resume exactly

Property theorems only. Model: `Hub/Model/Store.lean`; refinement: `Hub/Proofs/StoreInv.lean`.
-/
namespace Hub.C02
open Hub.Store Hub.StoreInv Hub.Paging

/-- under the invariant the change log of a dataset, read in key order, is its feed. -/
theorem changesOf_eq_feedOf {db : DB} {S : Spec} (h : Inv db S) (ds : Nat) :
    changesOf db ds = feedOf db ds := by
  unfold changesOf
  have hf : (db.changes.filter (fun c => c.1 == ds)).map (fun c => (c.2.1, c.2.2)) = feedOf db ds := by
    unfold feedOf
    congr 1
  rw [hf]
  apply Hub.Sorting.sortBy_sorted
  have := h.f.inc ds
  refine this.imp ?_
  intro a b hab; simp; omega

/-- T-C02-1 (the feed is the version history): reading from the start without limit yields, in
commit order, exactly one entry per accepted version (`S.feed`), each resolved to that version. -/
theorem feed_eq_versions {db : DB} {S : Spec} (h : Inv db S) (ds : Nat) :
    (changesPage db ds 0 0 false).1 = (S.feed ds).filterMap db.get := by
  unfold changesPage
  rw [page_unlimited, changesOf_eq_feedOf h]
  have h0 : fromPos 0 (feedOf db ds) = feedOf db ds := by
    unfold fromPos; apply List.filter_eq_self.2; intro a _; simp
  rw [h0, ← h.f.feed ds]
  simp only [emitted, emitOf, Bool.not_false, Bool.true_or, if_true, List.filterMap_map]
  rfl

/-- T-C02-2 (one entry per accepted write, none for a redundant one) is the definition of
`specOne`, which `inv_storeBatch` shows the write loop refines: -/
theorem feed_step (S : Spec) (ds t i : Nat) (e : Ent) :
    (specOne ds t S (i, e)).feed ds =
      if lastEnt (S.vers ds e.rid) = some e then S.feed ds else S.feed ds ++ [⟨e.rid, ds, t, i⟩] := by
  unfold specOne
  split <;> simp [specAppend, specCount_feed]

/-- T-C02-3 (tokens resume exactly): for every `since`, every list of limits (0 = unlimited) and
with or without latest-only, the pages a reader gets by following the returned tokens, followed by
an unlimited read from its last token, are exactly the entries from `since` — nothing skipped,
nothing repeated. Sequence numbers need not be contiguous (gaps after a crash are allowed). -/
theorem resume_exact {db : DB} {S : Spec} (h : Inv db S) (ds since : Nat) (limits : List Nat) (lo : Bool) :
    let r := pagesG (emitOf db ds lo) (changesOf db ds) since limits
    r.1.flatten ++ (changesPage db ds r.2 0 lo).1 = (changesPage db ds since 0 lo).1 := by
  simp only [changesPage, page_unlimited]
  apply pages_resume
  rw [changesOf_eq_feedOf h]
  exact h.f.inc ds

/-- a token obtained at the end returns nothing and is handed back unchanged. -/
theorem token_at_end {db : DB} {S : Spec} (h : Inv db S) (ds limit : Nat) (lo : Bool) :
    changesPage db ds (db.posOf ds) limit lo = ([], db.posOf ds) := by
  unfold changesPage
  apply page_at_end
  rw [changesOf_eq_feedOf h]
  exact h.f.bound ds

/-- … and after new writes the same token returns exactly the new entries: the entries at or after
the old end are those appended since (positions below it are the old feed). -/
theorem token_sees_only_new (db : DB) (ds : Nat) (c : Nat × VKey)
    (tok : Nat) (hold : c.1 < tok) : c ∉ fromPos tok (feedOf db ds) := by
  intro hm
  have := (List.mem_filter.1 hm).2
  simp at this; omega

/-- T-C02-4 (latest-only): with latest-only the unlimited feed is the feed filtered to the entries
that are the current version of their entity; its limit counts emitted entries (`scanG`). -/
theorem latest_only {db : DB} {S : Spec} (h : Inv db S) (ds : Nat) :
    (changesPage db ds 0 0 true).1
      = ((S.feed ds).filter fun k => db.latestOf ds k.rid == some k).filterMap db.get := by
  unfold changesPage
  rw [page_unlimited, changesOf_eq_feedOf h]
  have h0 : fromPos 0 (feedOf db ds) = feedOf db ds := by
    unfold fromPos; apply List.filter_eq_self.2; intro a _; simp
  rw [h0, ← h.f.feed ds]
  simp only [emitted, emitOf, Bool.not_true, Bool.false_or, List.filterMap_map, List.filter_map]
  rw [List.filterMap_filter]
  congr 1

/-! ## every reachable state -/
open Hub.TxnRefine in
/-- T-C02-5 (every history): from the empty store, after any history of batches and multi-dataset transactions with increasing
commit times — any length, any datasets, any content — the feed of every dataset read from the start is exactly the accepted
versions of that history in commit order, and following tokens through any list of page limits, from any `since`, with or
without latest-only, yields exactly the entries from `since`: nothing skipped, nothing repeated. (The `Inv` hypothesis of
the theorems above is met by every state the write path reaches.) -/
theorem feed_reachable (h : List (Nat × List (Nat × List Ent))) (hinc : h.Pairwise (fun a b => a.1 < b.1))
    (hd : ∀ w ∈ h, (w.2.map (·.1)).Nodup) (ds : Nat) :
    let db := runTxns h {}
    (changesPage db ds 0 0 false).1 = ((specTxns h {}).feed ds).filterMap db.get
    ∧ ∀ (since : Nat) (limits : List Nat) (lo : Bool),
        let r := pagesG (emitOf db ds lo) (changesOf db ds) since limits
        r.1.flatten ++ (changesPage db ds r.2 0 lo).1 = (changesPage db ds since 0 lo).1 := by
  have hI : Inv (runTxns h {}) (specTxns h {}) := txns_refine h {} {} inv_empty (by intro v hv; simp at hv) hinc hd
  exact ⟨feed_eq_versions hI ds, fun since limits lo => resume_exact hI ds since limits lo⟩

/-! ## tie to the Go source (regenerated facts) -/
open Hub.Facts.Layout in
theorem facts_shape :
    changeKey = [("DatasetEntityChangeLog", 0, 16), ("ds.InternalID", 2, 32), ("nextEntitySeq", 6, 64), ("rid", 14, 64)]
    ∧ changesSeek = [("DatasetEntityChangeLog", 0, 16), ("ds.InternalID", 2, 32), ("since", 6, 64)]
    ∧ changesPrefixLen = "searchBuffer[:6]"
    ∧ changesToken = ["return lastSeen + 1, nil", "return since, nil"]
    ∧ changesLimitTest = ["limit > 0 && int(processed) == limit"]
    ∧ latestOnlyCompare = ["bytes.Equal(v2, entityChangeID)"]
    ∧ latestOnlyRid = "binary.BigEndian.Uint64(k[14:])" := by decide

-- non-vacuity: a feed with a redundant write and a repeated id
example : let e1 : Ent := ⟨1, false, [], "a", []⟩; let e1' : Ent := ⟨1, false, [], "b", []⟩
    let db := storeBatch (storeBatch {} 2 10 [e1, e1]) 2 20 [e1, e1', e1']
    (changesPage db 2 0 0 false).1 = [e1, e1'] ∧ (changesPage db 2 0 1 false) = ([e1], 1)
    ∧ (changesPage db 2 0 0 true).1 = [e1'] := by decide

end Hub.C02
