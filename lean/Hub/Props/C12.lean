import Hub.Model.Store
import Hub.Generated.Compact
/-!
# C12 — compaction is invisible to readers

Property theorems only. The deduplicating strategy removes, per entity, every version whose
content equals the version kept before it (`dedupAdj`); the key-level model `Hub.Store.compact`
is run against the real compactor by the correspondence check.
-/
namespace Hub.C12
open Hub.Store

/-- versions of one entity in one dataset, oldest first: (time, content). -/
abbrev Ver := Nat × Ent

/-- what compaction keeps: a version is dropped iff its content equals the last kept one. -/
def dedupFrom (prev : Ent) : List Ver → List Ver
  | [] => []
  | v :: vs => if v.2 = prev then dedupFrom prev vs else v :: dedupFrom v.2 vs

def dedupAdj : List Ver → List Ver
  | [] => []
  | v :: vs => v :: dedupFrom v.2 vs

/-- content of the last element, `d` for the empty list. -/
def lastC : Ent → List Ver → Ent
  | d, [] => d
  | _, v :: vs => lastC v.2 vs

def lastContent : List Ver → Option Ent
  | [] => none
  | v :: vs => some (lastC v.2 vs)

theorem last_dedupFrom (prev : Ent) (vs : List Ver) : lastC prev (dedupFrom prev vs) = lastC prev vs := by
  induction vs generalizing prev with
  | nil => rfl
  | cons v vs ih =>
    simp only [dedupFrom]
    by_cases h : v.2 = prev
    · simp only [h, if_true, lastC]; rw [ih prev, ← h]
    · simp only [h, if_false, lastC]; exact ih v.2

/-- T-C12-1a (latest view preserved): the content of the newest version of every entity is the
same before and after deduplication — listing, lookups and the latest-only feed show the same
(id, deleted, props, refs). -/
theorem latest_preserved (vs : List Ver) : lastContent (dedupAdj vs) = lastContent vs := by
  cases vs with
  | nil => rfl
  | cons v vs => simp only [dedupAdj, lastContent, last_dedupFrom]

theorem dedupFrom_append (prev : Ent) (p s : List Ver) :
    dedupFrom prev (p ++ s) = dedupFrom prev p ++ dedupFrom (lastC prev (dedupFrom prev p)) s := by
  induction p generalizing prev with
  | nil => rfl
  | cons v p ih =>
    simp only [List.cons_append, dedupFrom]
    by_cases h : v.2 = prev
    · simp only [h, if_true]; exact ih prev
    · simp only [h, if_false, List.cons_append, lastC]; rw [ih v.2]

/-- T-C12-1b (point-in-time view preserved): what is kept of any prefix of the history (the
versions up to an instant) is a prefix of what is kept of the whole, and its last content is that
of the prefix — so a lookup pinned to any instant sees the same content before and after compaction. -/
theorem pinned_preserved (p s : List Ver) :
    (∃ rest, dedupAdj (p ++ s) = dedupAdj p ++ rest) ∧ lastContent (dedupAdj p) = lastContent p := by
  refine ⟨?_, latest_preserved p⟩
  cases p with
  | nil => exact ⟨dedupAdj s, rfl⟩
  | cons v p =>
    exact ⟨dedupFrom (lastC v.2 (dedupFrom v.2 p)) s, by
      simp only [List.cons_append, dedupAdj, dedupFrom_append]⟩

/-- T-C12-2 (the feed loses exactly the adjacent duplicates): a version is removed iff its content
equals that of its immediate predecessor in what is kept; nothing else is removed and the order is
kept (`dedupAdj` is a sublist). -/
theorem feed_sublist (vs : List Ver) : (dedupAdj vs).Sublist vs := by
  have h : ∀ (prev : Ent) (l : List Ver), (dedupFrom prev l).Sublist l := by
    intro prev l
    induction l generalizing prev with
    | nil => exact List.Sublist.refl _
    | cons v l ih =>
      simp only [dedupFrom]
      split
      · exact (ih prev).cons _
      · exact (ih v.2).cons₂ _
  cases vs with
  | nil => exact List.Sublist.refl _
  | cons v vs => exact (h v.2 vs).cons₂ _

theorem dedupFrom_noadj (prev : Ent) (l : List Ver) :
    (∀ b l2, dedupFrom prev l = b :: l2 → prev ≠ b.2)
    ∧ (∀ a b l1 l2, dedupFrom prev l = l1 ++ a :: b :: l2 → a.2 ≠ b.2) := by
  induction l generalizing prev with
  | nil =>
    refine ⟨?_, ?_⟩
    · intro b l2 h; cases h
    · intro a b l1 l2 h; cases l1 <;> cases h
  | cons v l ih =>
    simp only [dedupFrom]
    by_cases hv : v.2 = prev
    · simp only [hv, if_true]; exact ih prev
    · simp only [hv, if_false]
      refine ⟨?_, ?_⟩
      · intro b l2 h; cases h; exact fun e => hv e.symm
      · intro a b l1 l2 h
        cases l1 with
        | nil =>
          simp only [List.nil_append, List.cons.injEq] at h
          obtain ⟨rfl, h2⟩ := h
          exact (ih v.2).1 b l2 h2
        | cons x l1 =>
          simp only [List.cons_append, List.cons.injEq] at h
          exact (ih v.2).2 a b l1 l2 h.2

/-- after compaction no two neighbouring versions of an entity have the same content. -/
theorem no_adjacent_dups (vs : List Ver) (a b : Ver) (l1 l2 : List Ver)
    (heq : dedupAdj vs = l1 ++ a :: b :: l2) : a.2 ≠ b.2 := by
  cases vs with
  | nil => cases l1 <;> cases heq
  | cons v vs =>
    simp only [dedupAdj] at heq
    cases l1 with
    | nil =>
      simp only [List.nil_append, List.cons.injEq] at heq
      obtain ⟨rfl, h2⟩ := heq
      exact (dedupFrom_noadj v.2 vs).1 b l2 h2
    | cons x l1 =>
      simp only [List.cons_append, List.cons.injEq] at heq
      exact (dedupFrom_noadj v.2 vs).2 a b l1 l2 heq.2

/-! ## a compaction that stops half way (killed between flushes) -/

/-- one removal of the compactor: a version whose content equals its immediate predecessor's is dropped. -/
inductive DropDup : List Ver → List Ver → Prop
  | here (a b : Ver) (l : List Ver) (h : b.2 = a.2) : DropDup (a :: b :: l) (a :: l)
  | there (a : Ver) (l l' : List Ver) (h : DropDup l l') : DropDup (a :: l) (a :: l')

/-- any number of removals: the state a compaction leaves when it is killed after some of its flushes. -/
inductive Partial : List Ver → List Ver → Prop
  | refl (l : List Ver) : Partial l l
  | step (l l' l'' : List Ver) (h : DropDup l l') (t : Partial l' l'') : Partial l l''

theorem dropDup_sublist {l l' : List Ver} (h : DropDup l l') : l'.Sublist l := by
  induction h with
  | here a b l _ => exact (List.Sublist.cons _ (List.Sublist.refl _)).cons₂ _
  | there a l l' _ ih => exact ih.cons₂ _

theorem lastC_congr (d e : Ent) (l : List Ver) (h : l ≠ []) : lastC d l = lastC e l := by
  cases l with
  | nil => exact absurd rfl h
  | cons v vs => rfl

theorem dropDup_lastC {l l' : List Ver} (h : DropDup l l') (d : Ent) : lastC d l' = lastC d l := by
  induction h generalizing d with
  | here a b l hb =>
    simp only [lastC]
    cases l with
    | nil => simp [lastC, hb]
    | cons v vs => rfl
  | there a l l' _ ih => simp only [lastC]; exact ih a.2

theorem dropDup_dedupFrom {l l' : List Ver} (h : DropDup l l') (prev : Ent) : dedupFrom prev l' = dedupFrom prev l := by
  induction h generalizing prev with
  | here a b l hb =>
    simp only [dedupFrom]
    by_cases ha : a.2 = prev
    · simp [ha, hb]
    · simp [ha, hb]
  | there a l l' _ ih =>
    simp only [dedupFrom]
    by_cases ha : a.2 = prev
    · simp only [ha, if_true]; exact ih prev
    · simp only [ha, if_false]; rw [ih a.2]

/-- the versions recorded at or before an instant. -/
def upTo (t : Nat) (l : List Ver) : List Ver := l.filter (fun v => decide (v.1 ≤ t))

theorem dropDup_upTo {l l' : List Ver} (h : DropDup l l') (hs : l.Pairwise (fun x y => x.1 ≤ y.1)) (t : Nat) :
    upTo t l' = upTo t l ∨ DropDup (upTo t l) (upTo t l') := by
  induction h with
  | here a b l hb =>
    have hab : a.1 ≤ b.1 := (List.pairwise_cons.1 hs).1 b List.mem_cons_self
    by_cases hbt : b.1 ≤ t
    · right
      have hat : a.1 ≤ t := Nat.le_trans hab hbt
      simp only [upTo, List.filter_cons, hat, hbt, decide_true, if_true]
      exact .here a b _ hb
    · left
      simp [upTo, List.filter_cons, hbt]
  | there a l l' _ ih =>
    rcases ih (List.pairwise_cons.1 hs).2 with h | h
    · left
      simp only [upTo, List.filter_cons] at h ⊢
      rw [h]
    · by_cases hat : a.1 ≤ t
      · right
        simp only [upTo, List.filter_cons, hat, decide_true, if_true]
        exact .there a _ _ h
      · right
        simp only [upTo, List.filter_cons, hat, decide_false, Bool.false_eq_true, if_false]
        exact h

theorem dropDup_lastContent {l l' : List Ver} (h : DropDup l l') : lastContent l' = lastContent l := by
  cases h with
  | here a b l hb =>
    simp only [lastContent, lastC]
    cases l with
    | nil => simp [lastC, hb]
    | cons v vs => rfl
  | there a l l' h => simp only [lastContent]; rw [dropDup_lastC h]

/-- **T-C12-4 (killed between flushes)**: whatever subset of its removals a compaction got to apply before it
died, (1) the history has lost nothing but versions (it is a sublist, order kept), (2) the latest content of the
entity is unchanged, (3) the content visible at every past instant is unchanged (for a history with ascending
times), and (4) running the compaction again to the end gives exactly the state an undisturbed compaction gives. -/
theorem partial_compaction_invisible {l l' : List Ver} (h : Partial l l') (hs : l.Pairwise (fun x y => x.1 ≤ y.1)) :
    l'.Sublist l ∧ lastContent l' = lastContent l ∧ (∀ t, lastContent (upTo t l') = lastContent (upTo t l))
    ∧ dedupAdj l' = dedupAdj l := by
  induction h with
  | refl l => exact ⟨List.Sublist.refl _, rfl, fun _ => rfl, rfl⟩
  | step l l1 l2 hd _ ih =>
    have hsub := dropDup_sublist hd
    obtain ⟨i1, i2, i3, i4⟩ := ih (hs.sublist hsub)
    refine ⟨i1.trans hsub, i2.trans (dropDup_lastContent hd), ?_, ?_⟩
    · intro t
      rw [i3 t]
      rcases dropDup_upTo hd hs t with h | h
      · rw [h]
      · exact dropDup_lastContent h
    · rw [i4]
      cases hd with
      | here a b l hb => simp [dedupAdj, dedupFrom, hb]
      | there a l l' h => simp only [dedupAdj]; rw [dropDup_dedupFrom h]

/-! ## a writer racing the compactor -/

theorem dropDup_append {l l' : List Ver} (h : DropDup l l') (w : List Ver) : DropDup (l ++ w) (l' ++ w) := by
  induction h with
  | here a b l hb => exact .here a b (l ++ w) hb
  | there a l l' _ ih => exact .there a _ _ ih

theorem partial_append {l l' : List Ver} (h : Partial l l') (w : List Ver) : Partial (l ++ w) (l' ++ w) := by
  induction h with
  | refl l => exact .refl _
  | step l l1 l2 hd _ ih => exact .step _ _ _ (dropDup_append hd w) ih

theorem partial_cons {l l' : List Ver} (h : Partial l l') (a : Ver) : Partial (a :: l) (a :: l') := by
  induction h with
  | refl l => exact .refl _
  | step l l1 l2 hd _ ih => exact .step _ _ _ (.there a _ _ hd) ih

theorem partial_trans {l l' l'' : List Ver} (h : Partial l l') (h2 : Partial l' l'') : Partial l l'' := by
  induction h with
  | refl l => exact h2
  | step l l1 l2 hd _ ih => exact .step _ _ _ hd (ih h2)

/-- a complete compaction is one of the states `Partial` describes: all removals applied. -/
theorem partial_dedupAdj (l : List Ver) : Partial l (dedupAdj l) := by
  cases l with
  | nil => exact .refl _
  | cons a l =>
    simp only [dedupAdj]
    induction l generalizing a with
    | nil => exact .refl _
    | cons v vs ih =>
      simp only [dedupFrom]
      by_cases h : v.2 = a.2
      · simp only [h, if_true]
        exact .step _ _ _ (.here a v vs h) (ih a)
      · simp only [h, if_false]
        exact partial_cons (ih v) a

/-- **T-C12-5 (a writer racing the compactor)**: the compactor decides from a snapshot `l` of the entity's
versions and removes any subset of the duplicates it found there (`lc`; all of them for a compaction that
completes); meanwhile a writer appends the versions `w`. Of the history `l ++ w` that a reader would see
without compaction, what is left (`lc ++ w`) has lost nothing but versions, shows the same latest content, the
same content at every past instant, and compacts to the same final state. The latest *pointer* needs the guard
of `compactRaced` (theorem `raced_pointer_written` below): without it the last flush re-points the entity at
the snapshot's predecessor although `w` is newer. -/
theorem racing_writer_invisible {l lc : List Ver} (w : List Ver) (h : Partial l lc)
    (hs : (l ++ w).Pairwise (fun x y => x.1 ≤ y.1)) :
    (lc ++ w).Sublist (l ++ w) ∧ lastContent (lc ++ w) = lastContent (l ++ w)
    ∧ (∀ t, lastContent (upTo t (lc ++ w)) = lastContent (upTo t (l ++ w)))
    ∧ dedupAdj (lc ++ w) = dedupAdj (l ++ w) :=
  partial_compaction_invisible (partial_append h w) hs

theorem racing_writer_invisible_complete (l w : List Ver) (hs : (l ++ w).Pairwise (fun x y => x.1 ≤ y.1)) :
    lastContent (dedupAdj l ++ w) = lastContent (l ++ w)
    ∧ (∀ t, lastContent (upTo t (dedupAdj l ++ w)) = lastContent (upTo t (l ++ w))) :=
  let r := racing_writer_invisible w (partial_dedupAdj l) hs
  ⟨r.2.1, r.2.2.1⟩

theorem lookup_setAssoc_other {κ β} [BEq κ] [LawfulBEq κ] (k k2 : κ) (v : β) (hne : k2 ≠ k) :
    ∀ l : List (κ × β), (setAssoc k v l).lookup k2 = l.lookup k2
  | [] => by
    have : (k2 == k) = false := by simpa using hne
    simp [setAssoc, List.lookup, this]
  | (k', v') :: rest => by
    simp only [setAssoc]
    by_cases h1 : (k' == k) = true
    · have hk : k' = k := by simpa using h1
      have : (k2 == k) = false := by simpa using hne
      simp [h1, List.lookup, hk, this]
    · have h1' : (k' == k) = false := by simpa using h1
      simp only [h1', Bool.false_eq_true, if_false, List.lookup]
      rw [lookup_setAssoc_other k k2 v hne rest]

/-- key level: a guarded flush never moves the latest pointer of an entity the writer has written since
the snapshot — whatever the compactor computed on its snapshot. -/
theorem raced_pointer_written (db0 dbw : DB) (ds : Nat) (key : Nat × Nat)
    (hw : dbw.latest.lookup key ≠ db0.latest.lookup key) :
    (compactRaced true db0 dbw ds).latest.lookup key = dbw.latest.lookup key := by
  simp only [compactRaced]
  generalize ((compact db0 ds).latest.filter fun p => db0.latest.lookup p.1 != some p.2) = rew
  suffices h : ∀ (l : List ((Nat × Nat) × VKey)), l.lookup key = dbw.latest.lookup key →
      (rew.foldl (fun l p => if (!true || l.lookup p.1 == db0.latest.lookup p.1) = true then setAssoc p.1 p.2 l else l) l).lookup key
        = dbw.latest.lookup key from h _ rfl
  induction rew with
  | nil => intro l hl; exact hl
  | cons p rest ih =>
    intro l hl
    simp only [List.foldl_cons]
    apply ih
    by_cases hk : p.1 = key
    · have : (l.lookup p.1 == db0.latest.lookup p.1) = false := by
        rw [hk, hl]; simpa using hw
      simp [this, hl]
    · by_cases hc : (!true || l.lookup p.1 == db0.latest.lookup p.1) = true
      · simp only [hc, if_true]
        rw [lookup_setAssoc_other p.1 key p.2 (fun h => hk h.symm) l]; exact hl
      · simp only [hc]; exact hl

-- the defect the guard repairs (D14), on the model: entity 1 has a legacy duplicate as its newest version; the
-- compactor's snapshot is taken, a writer stores a new version, the flush lands. Unguarded, the entity's latest
-- content is the old one again although the writer's version is in the feed; guarded, it is the writer's.
example : let a : Ent := ⟨1, false, [], "1", []⟩; let b : Ent := ⟨1, false, [], "2", []⟩
    let db0 := injectVersion (storeBatch {} 2 10 [a]) 2 20 a
    let dbw := storeBatch db0 2 30 [b]
    (compactRaced false db0 dbw 2).stored 2 1 = some a ∧ (compactRaced true db0 dbw 2).stored 2 1 = some b
    ∧ (changesPage (compactRaced true db0 dbw 2) 2 0 0 false).1 = [a, b] := by decide

-- D34 on the key-level model: entity 1 deleted (batch 10), then one batch 20 with deleted / live / deleted versions that all
-- reference 2: the two deleted versions of batch 20 share one reference key; compaction keeps it (the first of them is not the
-- last version of its batch), so the relation stays removed after compaction, now and at instant 20
example : let d1 : Ent := ⟨1, true, [(5, 2)], "1", []⟩; let d2 : Ent := ⟨1, true, [(5, 2)], "2", []⟩
    let l3 : Ent := ⟨1, false, [(5, 2)], "3", []⟩; let d3 : Ent := ⟨1, true, [(5, 2)], "3", []⟩
    let db := storeBatch (storeBatch {} 2 10 [d1]) 2 20 [d2, l3, d3]
    (relatedOut db 1 0 99 0 [] none).1 = [] ∧ (relatedOut (compact db 2) 1 0 99 0 [] none).1 = []
    ∧ (relatedOut (compact db 2) 1 0 20 0 [] none).1 = [] := by decide

/-! ## tie to the Go source (regenerated facts) -/
open Hub.Facts.Compact in
theorem facts_shape :
    evalFirst = ["isFirstVersion"]
    ∧ dupCond = ["server.IsEntityEqual(d.prevEntityBytes, entityBytes, d.prev, e)"]
    ∧ baseAdvance = ["!isDuplicate"]
    ∧ latestRewrite = ["isLatestVersion"]
    ∧ refDedupCond = ["e.IsDeleted == d.prev.IsDeleted && !laterVersionInSameBatch(jsonKey, txn)", "e.IsDeleted == d.prev.IsDeleted && !laterVersionInSameBatch(jsonKey, txn)", "reflect.DeepEqual(d.prev.References[k], stringOrArrayValue)", "e.IsDeleted == d.prev.IsDeleted && !laterVersionInSameBatch(jsonKey, txn)", "!identical"]
    ∧ flushOrder = ["strategy.flush", "txn.Get", "txn.Delete", "txn.Get", "txn.Set"]
    -- a latest pointer is re-pointed only when it still holds the json key the snapshot showed (the removed version)
    ∧ rewriteLoop = ["txn.Get", "ret-on-err", "item.ValueCopy", "ret-on-err", "bytes.Equal",
        "if !bytes.Equal(current, ops.RewriteExpected[i]) {", "continue", "}", "txn.Set", "ret-on-err"]
    ∧ rewriteExpected = ["append(rewriteExpected, jsonKey)"]
    -- reference keys are only given up by the last version of a batch: the look-ahead seeks this version's json key under the
    -- prefix (entity, dataset, txn time) and asks whether another key follows
    ∧ laterInBatch = ["opts := badger.DefaultIteratorOptions", "opts.PrefetchValues = false", "opts.Prefix = jsonKey[:22]", "it := txn.NewIterator(opts)",
        "defer it.Close()", "it.Seek(jsonKey)", "if it.ValidForPrefix(opts.Prefix) && bytes.Equal(it.Item().Key(), jsonKey) { it.Next() }",
        "return it.ValidForPrefix(opts.Prefix)"]
    ∧ flushEveryTime = "bufferedKeys, err := strategy.flush(txn)"
    ∧ resetAfterFlush = ["reset"] := by decide

/-- the strategy's decision procedure statement by statement (what `compactFrom` models): the first version only
sets the base; a version equal to the base is removed with all its reference keys (and the latest pointer re-pointed
when it was the newest); otherwise, delete state unchanged, the reference keys of a predicate whose value equals the
base's are compared with the keys *computed from the base itself* and removed unless identical; the base advances
exactly when the version stays. -/
theorem facts_eval_skeleton : Hub.Facts.Compact.skeleton_eval = ["if isFirstVersion {", "set d.prevJsonKey = jsonKey", "set d.prevEntityBytes = entityBytes", "set d.prev = e", "return", "}", "set isDuplicate = false", "server.IsEntityEqual", "if server.IsEntityEqual(d.prevEntityBytes, entityBytes, d.prev, e) {", "set isDuplicate = true", "if isLatestVersion {", "mkLatestKey", "}", "findRefs", "ret-on-err", "} else {", "if e.IsDeleted == d.prev.IsDeleted && !laterVersionInSameBatch(jsonKey, txn) {", "for {", "reflect.DeepEqual", "if reflect.DeepEqual(d.prev.References[k], stringOrArrayValue) {", "processRefs", "ret-on-err", "processRefs", "ret-on-err", "set identical = false", "if len(refsToDel) == len(refsToDelPrev) {", "set identical = true", "for {", "bytes.Equal", "if !bytes.Equal(ref, refsToDelPrev[i]) {", "set identical = false", "break", "}", "}", "}", "}", "}", "}", "}", "if !isDuplicate {", "set d.prevJsonKey = jsonKey", "set d.prevEntityBytes = entityBytes", "set d.prev = e", "}", "if len(del) > 0 {", "return", "}", "return"] := by
  set_option maxRecDepth 8000 in decide

-- a partial compaction of 1,2,2,1,1: only the first duplicate was removed before the kill
example : let a : Ent := ⟨1, false, [], "1", []⟩; let b : Ent := ⟨1, false, [], "2", []⟩
    Partial [(1, a), (2, b), (3, b), (4, a), (5, a)] [(1, a), (2, b), (4, a), (5, a)] :=
  .step _ _ _ (.there _ _ _ (.here _ _ _ rfl)) (.refl _)

-- non-vacuity: 1,2,2,1,1 keeps 1,2,1; the key-level model agrees on a dataset with a legacy duplicate
example : let a : Ent := ⟨1, false, [], "1", []⟩; let b : Ent := ⟨1, false, [], "2", []⟩
    dedupAdj [(1, a), (2, b), (3, b), (4, a), (5, a)] = [(1, a), (2, b), (4, a)] := by decide
example : let a : Ent := ⟨1, false, [(5, 2)], "1", []⟩
    let db := injectVersion (storeBatch {} 2 10 [a]) 2 20 a
    db.versions.length = 2 ∧ (compact db 2).versions.length = 1 ∧ (compact db 2).stored 2 1 = some a
    ∧ (changesPage (compact db 2) 2 0 0 false).1 = [a] ∧ (relatedOut (compact db 2) 1 0 99 0 [] none).1.length = 1 := by decide

end Hub.C12
