import Hub.Model.FullSync
import Hub.Generated.FullSync
/-!
# C09 — a full sync deletes exactly what the completed sync did not contain

Property theorems only. Model: `Hub/Model/FullSync.lean`.
-/
namespace Hub.C09
open Hub.FullSync

theorem mem_addLive {l es : List Nat} {x : Nat} : x ∈ addLive l es ↔ x ∈ l ∨ x ∈ es := by
  unfold addLive
  induction es generalizing l with
  | nil => simp
  | cons e es ih =>
    simp only [List.foldl_cons]
    rw [ih]
    by_cases h : l.contains e = true
    · have he : e ∈ l := by simpa using h
      simp only [h, if_true, List.mem_cons]
      constructor
      · rintro (h1 | h1)
        · exact Or.inl h1
        · exact Or.inr (Or.inr h1)
      · rintro (h1 | h1 | h1)
        · exact Or.inl h1
        · exact Or.inl (h1 ▸ he)
        · exact Or.inr h1
    · have h' : l.contains e = false := by simpa using h
      simp only [h', Bool.false_eq_true, if_false, List.mem_append, List.mem_cons, List.mem_nil_iff, or_false]
      constructor
      · rintro ((h1 | h1) | h1)
        · exact Or.inl h1
        · exact Or.inr (Or.inl h1)
        · exact Or.inr (Or.inr h1)
      · rintro (h1 | h1 | h1)
        · exact Or.inl (Or.inl h1)
        · exact Or.inl (Or.inr h1)
        · exact Or.inr h1

/-- while a sync is started: what is recorded as seen is exactly what was written since its
start, all of it is live, and a lease is only ever armed for a started sync. -/
structure Inv (s : St) : Prop where
  seen_since : s.started = true → ∀ x, x ∈ s.seen ↔ x ∈ s.since
  since_live : ∀ x, x ∈ s.since → x ∈ s.live
  lease_started : s.lease = true → s.started = true

theorem inv_init : Inv {} := ⟨by simp, by simp, by simp⟩

theorem write_inv {s : St} (h : Inv s) (es : List Nat) : Inv (s.write es) := by
  refine ⟨?_, ?_, ?_⟩
  · intro hs x
    simp only [St.write] at hs ⊢
    simp only [hs, if_true, mem_addLive]
    rw [h.seen_since hs x]
  · intro x hx
    simp only [St.write, mem_addLive] at hx ⊢
    rcases hx with hx | hx
    · exact Or.inl (h.since_live x hx)
    · exact Or.inr hx
  · exact h.lease_started

theorem start_inv {s : St} (h : Inv s) : Inv s.start := by
  refine ⟨by intro _ x; simp [St.start], by intro x hx; simp [St.start] at hx, ?_⟩
  intro _; simp [St.start]

theorem complete_inv {s : St} (h : Inv s) : Inv s.complete.1 := by
  unfold St.complete
  split
  · exact h
  · refine ⟨by intro hs; simp at hs, ?_, by intro hl; simp at hl⟩
    intro x hx
    simp only [List.mem_filter, List.contains_eq_mem, decide_eq_true_eq]
    rename_i hst
    have hst' : s.started = true := by simpa using hst
    exact ⟨h.since_live x hx, (h.seen_since hst' x).2 hx⟩

theorem body_inv {s : St} (h : Inv s) (ents : List Nat) : Inv (body s ents) := by
  unfold body; split; exact h; exact write_inv h ents

theorem pre_inv {s s1 : St} (h : Inv s) (start : Bool) (id : String) (hp : httpPre s start id = some s1) : Inv s1 := by
  unfold httpPre at hp
  split at hp
  · cases hp
    have := start_inv h
    exact ⟨this.seen_since, this.since_live, by intro _; simp [St.start]⟩
  · split at hp
    · rename_i hst
      split at hp
      · cases hp; exact ⟨h.seen_since, h.since_live, by intro _; exact hst⟩
      · cases hp
    · cases hp; exact h

theorem post_inv {s : St} (h : Inv s) (fin : Bool) : Inv (httpPost s fin).1 := by
  unfold httpPost
  split
  · split
    · exact complete_inv h
    · exact h
  · exact h

theorem step_inv {s : St} (h : Inv s) (e : Ev) : Inv (step s e).1 := by
  cases e with
  | http start id fin ents =>
    simp only [step]
    cases hp : httpPre s start id with
    | none => exact h
    | some s1 => exact post_inv (body_inv (pre_inv h start id hp) ents) fin
  | jobStart => exact start_inv h
  | jobBatch ents => exact body_inv h ents
  | jobEnd => exact complete_inv h
  | expire =>
    simp only [step]
    split
    · exact ⟨by intro hs; simp at hs, h.since_live, by intro hl; simp at hl⟩
    · exact h

theorem run_inv (evs : List Ev) : Inv (run evs {}) := by
  unfold run
  have h0 := inv_init
  generalize ({} : St) = s at h0
  induction evs generalizing s with
  | nil => exact h0
  | cons e es ih => exact ih _ (step_inv h0 e)

/-- T-C09-1 (completion is exact): in every reachable state, when a completion proceeds, every
entity written since the start of the active sync stays live, every other previously live entity
gets exactly one tombstone, and nothing else changes. -/
theorem completion_exact (evs : List Ev) (hst : (run evs {}).started = true) :
    (∀ x, x ∈ (run evs {}).complete.1.live ↔ x ∈ (run evs {}).live ∧ x ∈ (run evs {}).since)
    ∧ (∀ x, x ∈ (run evs {}).since → x ∈ (run evs {}).complete.1.live)
    ∧ (run evs {}).complete.1.tombs
        = (run evs {}).tombs ++ (run evs {}).live.filter (fun e => !(run evs {}).since.contains e)
    ∧ (run evs {}).complete.1.started = false := by
  have h := run_inv evs
  generalize run evs {} = s at *
  have hseen := h.seen_since hst
  have hf : (fun e => !s.seen.contains e) = (fun e => !s.since.contains e) := by
    funext e
    have := hseen e
    by_cases h1 : e ∈ s.seen
    · have h2 := this.1 h1; simp [h1, h2]
    · have h2 : e ∉ s.since := fun hh => h1 (this.2 hh); simp [h1, h2]
  simp only [St.complete, hst, Bool.not_true, Bool.false_eq_true, if_false]
  refine ⟨?_, ?_, ?_, trivial⟩
  · intro x; simp only [List.mem_filter, List.contains_eq_mem, decide_eq_true_eq]; rw [hseen x]
  · intro x hx
    simp only [List.mem_filter, List.contains_eq_mem, decide_eq_true_eq]
    exact ⟨h.since_live x hx, (hseen x).2 hx⟩
  · rw [hf]

/-- a tombstone is written for an entity at most once per completion (the deleted entities are
distinct when the live list is). -/
theorem tombstones_once (s : St) (hl : s.live.Nodup) :
    (s.live.filter (fun e => !s.seen.contains e)).Nodup := hl.filter _

/-- T-C09-2 (foreign batches are rejected without effect): while a sync with id `x` is active, a
request that is not a start and carries another id changes nothing — no entity, no seen entry, no
lease — whatever it contains, including an end marker. -/
theorem foreign_rejected (s : St) (id : String) (fin : Bool) (ents : List Nat)
    (hst : s.started = true) (hid : id ≠ s.fsid) :
    step s (.http false id fin ents) = (s, .conflict) := by
  simp [step, httpPre, hst, hid]

theorem body_tombs (s : St) (ents : List Nat) : (body s ents).tombs = s.tombs := by
  unfold body; split <;> simp [St.write]

theorem pre_tombs {s s1 : St} (start : Bool) (id : String) (hp : httpPre s start id = some s1) : s1.tombs = s.tombs := by
  unfold httpPre at hp
  split at hp
  · cases hp; simp [St.start]
  · split at hp
    · split at hp
      · cases hp; rfl
      · cases hp
    · cases hp; rfl

/-- T-C09-3 (HTTP): only a sync that is active with a live lease deletes anything. If an HTTP
request wrote a tombstone then it carried the end marker and either started the sync itself or the
sync with exactly its id was the started one. Hence a superseded, abandoned or expired HTTP sync
deletes nothing, at its completion attempt or later. -/
theorem dead_sync_deletes_nothing_http (s : St) (start : Bool) (id : String) (fin : Bool) (ents : List Nat)
    (h : (step s (.http start id fin ents)).1.tombs ≠ s.tombs) :
    fin = true ∧ (start = true ∨ (s.started = true ∧ s.fsid = id)) := by
  simp only [step] at h
  cases hp : httpPre s start id with
  | none => simp [hp] at h
  | some s1 =>
    simp only [hp] at h
    have ht : (body s1 ents).tombs = s.tombs := by rw [body_tombs, pre_tombs start id hp]
    refine ⟨?_, ?_⟩
    · cases fin
      · simp [httpPost, ht] at h
      · rfl
    · unfold httpPre at hp
      by_cases hs : start = true
      · exact Or.inl hs
      · right
        simp only [hs, Bool.false_eq_true, if_false] at hp
        by_cases hst : s.started = true
        · simp only [hst, if_true] at hp
          by_cases hid : id = s.fsid
          · exact ⟨hst, hid.symm⟩
          · simp [hid] at hp
        · -- no sync started: the end marker finds no lease or completion refuses
          exfalso
          simp only [hst, Bool.false_eq_true, if_false, Option.some.injEq] at hp
          subst hp
          apply h
          unfold httpPost
          have hb : (body s ents).started = false := by
            unfold body; split <;> simp_all [St.write]
          split
          · split
            · simp [St.complete, hb, ht]
            · exact ht
          · exact ht

/-- expiry, batches and starts never write tombstones: only an end marker or a job end can. -/
theorem only_completion_deletes (s : St) (e : Ev)
    (h : (step s e).1.tombs ≠ s.tombs) : (∃ st id ents, e = .http st id true ents) ∨ e = .jobEnd := by
  cases e with
  | http start id fin ents =>
    cases fin
    · exfalso; apply h; simp only [step]
      cases hp : httpPre s start id with
      | none => rfl
      | some s1 => simp [httpPost, body_tombs, pre_tombs start id hp]
    · exact Or.inl ⟨_, _, _, rfl⟩
  | jobStart => exact absurd (by simp [step, St.start]) h
  | jobBatch ents => exact absurd (by simp [step, body_tombs]) h
  | jobEnd => exact Or.inr rfl
  | expire => exfalso; apply h; simp only [step]; split <;> rfl

/-- T-C09-3 (jobs, after the D10a fix): a job whose sync state was cleared by a lease expiry
cannot complete — `jobEnd` is refused and nothing is deleted. -/
theorem expired_job_sync_deletes_nothing (s : St) (h : s.started = false) :
    step s .jobEnd = (s, .err) := by
  simp [step, St.complete, h]

/-! ## tie to the Go source (regenerated facts) -/
open Hub.Facts.FullSync in
theorem facts_shape :
    completeGuard = ["!ds.fullSyncStarted"]
    ∧ refreshConds = ["ds.fullSyncStarted", "fullSyncID == ds.fullSyncID", "fullSyncID != \"\""]
    ∧ releaseGuard = ["ds.fullSyncLease == nil"]
    ∧ seenMark = ["ds.fullSyncStarted"] ∧ seenMarkFunc = "StoreEntitiesWithTransaction"
    ∧ handlerOrder = ["dataset.StartFullSyncWithLease", "dataset.RefreshFullSyncLease", "dataset.StoreEntities", "dataset.StoreEntities",
        "dataset.ReleaseFullSyncLease", "dataset.CompleteFullSync"]
    ∧ handlerRefreshCond = ["dataset.FullSyncStarted()"]
    ∧ deleteCond = ["!e.IsDeleted", "!ok"] := by decide

-- non-vacuity: a complete HTTP sync that deletes entity 2 and keeps 1 and 3
example : let s := run [.http false "" false [1, 2], .http true "x" false [1], .http false "y" false [9],
               .http false "x" true [3]] {}
    s.live = [1, 3] ∧ s.tombs = [2] ∧ s.started = false := by decide

/-! ## known finding D10b: a job-driven sync has no identity. A job sync that was superseded by an
HTTP start still completes — by the HTTP sync's seen-set — and closes the HTTP sync. -/
theorem job_sync_superseded_deletes :
    let s := run [.http false "" false [1, 2], .jobStart, .jobBatch [1], .http true "x" false [2], .jobEnd] {}
    s.tombs = [1] ∧ s.started = false := by decide

/-! ## negative witness for the pinned commit (D10a, fixed): with completion not checking
`started`, plain write + expiry + jobEnd tombstones everything (see known_findings.json). -/

end Hub.C09
