import Hub.Model.MultiSource
import Hub.Proofs.StoreInv
import Hub.Model.Pipeline
import Hub.Generated.MultiSource
/-!
# C18 — dependency tracking re-emits every affected main entity

Property theorems only. Model: `Hub/Model/MultiSource.lean` (the join loop of `processDependency`, generic in
the relation it follows; the dependency builder). The relation is either the index scans of the store model
(the code) or the graph implied by the latest versions (the specification); `chain_congr` says that the chain
only depends on the relation *as a set*, so what C03 establishes about one query carries over to every chain.
-/
namespace Hub.C18
open Hub.Multi Hub.Store

/-- `x` is reached from `s` along the joins: the relational image composed hop by hop; the first hop, when it
is not inverse, may also use the graph as it stood at the previous run (`prevAt`). -/
inductive Reach (rel : Rel) (predId : String → Option Nat) (dsId : String → Option Nat) (now : Nat) (prevAt : Option Nat) :
    Nat → String → Nat → List Join → Nat → Prop
  | done (idx : Nat) (prevDs : String) (s : Nat) : Reach rel predId dsId now prevAt idx prevDs s [] s
  | hop (idx : Nat) (prevDs : String) (s : Nat) (j : Join) (rest : List Join) (p m x : Nat)
      (hp : predId j.pred = some p)
      (hm : m ∈ rel s p j.inv ([prevDs, j.ds].filterMap dsId) now ∨
            (idx = 0 ∧ j.inv = false ∧ ∃ t, prevAt = some t ∧ m ∈ rel s p false ([prevDs, j.ds].filterMap dsId) t))
      (hr : Reach rel predId dsId now prevAt (idx + 1) j.ds m rest x) :
      Reach rel predId dsId now prevAt idx prevDs s (j :: rest) x

theorem chainFrom_nil_starts (rel : Rel) (predId dsId now prevAt) :
    ∀ (joins : List Join) (idx : Nat) (prevDs : String), chainFrom rel predId dsId now prevAt idx prevDs [] joins = []
  | [], _, _ => rfl
  | j :: rest, idx, prevDs => by
    unfold chainFrom
    cases predId j.pred with
    | none => exact chainFrom_nil_starts rel predId dsId now prevAt rest _ _
    | some p => simpa using chainFrom_nil_starts rel predId dsId now prevAt rest _ _

/-- **chain image** (T-C18-1): the ids that come out of the join loop are exactly those reachable from one of
the changed entities along the declared joins. -/
theorem chainFrom_mem (rel : Rel) (predId dsId now prevAt) :
    ∀ (joins : List Join) (idx : Nat) (prevDs : String) (starts : List Nat) (x : Nat),
      x ∈ chainFrom rel predId dsId now prevAt idx prevDs starts joins ↔
        ∃ s ∈ starts, Reach rel predId dsId now prevAt idx prevDs s joins x
  | [], idx, prevDs, starts, x => by
    unfold chainFrom
    constructor
    · intro h; exact ⟨x, h, .done _ _ _⟩
    · rintro ⟨s, hs, hr⟩; cases hr; exact hs
  | j :: rest, idx, prevDs, starts, x => by
    unfold chainFrom
    cases hp : predId j.pred with
    | none =>
      simp only
      rw [chainFrom_nil_starts]
      constructor
      · intro h; cases h
      · rintro ⟨s, _, hr⟩
        cases hr with
        | hop _ _ _ _ _ p m _ hp' _ _ => rw [hp] at hp'; cases hp'
    | some p =>
      simp only
      rw [chainFrom_mem rel predId dsId now prevAt rest]
      constructor
      · rintro ⟨m, hm, hr⟩
        rw [List.mem_eraseDups, List.mem_flatMap] at hm
        obtain ⟨s, hs, hms⟩ := hm
        refine ⟨s, hs, .hop _ _ _ _ _ p m x hp ?_ hr⟩
        rcases List.mem_append.1 hms with h | h
        · exact Or.inl h
        · right
          by_cases hc : (idx = 0 && !j.inv) = true
          · rw [if_pos hc] at h
            simp only [Bool.and_eq_true, decide_eq_true_eq, Bool.not_eq_true'] at hc
            cases hpa : prevAt with
            | none => rw [hpa] at h; cases h
            | some t => rw [hpa] at h; exact ⟨hc.1, hc.2, t, rfl, h⟩
          · rw [if_neg hc] at h; cases h
      · rintro ⟨s, hs, hr⟩
        cases hr with
        | hop _ _ _ _ _ p' m _ hp' hm hr' =>
          rw [hp] at hp'; cases hp'
          refine ⟨m, ?_, hr'⟩
          rw [List.mem_eraseDups, List.mem_flatMap]
          refine ⟨s, hs, List.mem_append.2 ?_⟩
          rcases hm with h | ⟨h0, hinv, t, ht, h⟩
          · exact Or.inl h
          · right
            have hc : (idx = 0 && !j.inv) = true := by simp [h0, hinv]
            rw [if_pos hc, ht]; exact h

theorem reach_congr {rel1 rel2 : Rel} (h : ∀ s p inv scope t x, x ∈ rel1 s p inv scope t ↔ x ∈ rel2 s p inv scope t)
    (predId dsId now prevAt) {idx prevDs s joins x} :
    Reach rel1 predId dsId now prevAt idx prevDs s joins x → Reach rel2 predId dsId now prevAt idx prevDs s joins x := by
  intro hr
  induction hr with
  | done => exact .done _ _ _
  | hop idx prevDs s j rest p m x hp hm _ ih =>
    refine .hop _ _ _ _ _ p m x hp ?_ ih
    rcases hm with hm | ⟨h0, hi, t, ht, hm⟩
    · exact Or.inl ((h _ _ _ _ _ _).1 hm)
    · exact Or.inr ⟨h0, hi, t, ht, (h _ _ _ _ _ _).1 hm⟩

/-- **the chain depends on the relation only as a set**: two relations with the same members (say, the paged
index scan and the graph of the latest versions, C03) give chains with the same members — for every chain
length, every direction mix, every set of changed entities. -/
theorem chain_congr {rel1 rel2 : Rel} (h : ∀ s p inv scope t x, x ∈ rel1 s p inv scope t ↔ x ∈ rel2 s p inv scope t)
    (predId dsId now prevAt) (dep : Dep) (starts : List Nat) (x : Nat) :
    x ∈ chain rel1 predId dsId now prevAt dep starts ↔ x ∈ chain rel2 predId dsId now prevAt dep starts := by
  unfold chain
  split
  · exact Iff.rfl
  · rw [chainFrom_mem, chainFrom_mem]
    constructor
    · rintro ⟨s, hs, hr⟩; exact ⟨s, hs, reach_congr h _ _ _ _ hr⟩
    · rintro ⟨s, hs, hr⟩; exact ⟨s, hs, reach_congr (fun a b c d e f => (h a b c d e f).symm) _ _ _ _ hr⟩

/-- **completeness of one window**: every id reachable from a changed entity along the joins comes out. -/
theorem window_complete (rel : Rel) (predId dsId now prevAt) (dep : Dep) (hj : dep.joins ≠ []) (starts : List Nat) (s x : Nat)
    (hs : s ∈ starts) (hr : Reach rel predId dsId now prevAt 0 dep.ds s dep.joins x) :
    x ∈ chain rel predId dsId now prevAt dep starts := by
  unfold chain
  have : dep.joins.isEmpty = false := by cases h : dep.joins with | nil => exact absurd h hj | cons _ _ => rfl
  rw [this]; simp only [Bool.false_eq_true, if_false]
  exact (chainFrom_mem _ _ _ _ _ _ _ _ _ _).2 ⟨s, hs, hr⟩

/-! ## tokens and origin of the emitted entities -/

/-- **emitted entities come from the main dataset** (T-C18-4) and **the dependency token moves to the end of the
window that was processed** (T-C18-3, one dependency): everything a pass adds to `acc` has a live version in
the main dataset, and the dependency's token afterwards is the continuation of the page read from the old one. -/
theorem depsPass_single (rel : Rel) (db : DB) (predId dsId) (cfg : Cfg) (now : Nat) (dep : Dep) (tok : Tok) (dd mainId : Nat)
    (hd : dsId dep.ds = some dd) (hm : dsId cfg.main = some mainId) :
    let r := depsPass rel db predId dsId cfg now [dep] tok [] []
    (∀ e ∈ r.1, mainLive db mainId e now = true)
    ∧ r.2.dep dep.ds = some (changesPage db dd ((tok.dep dep.ds).getD 0) cfg.batch cfg.latestOnly).2 := by
  simp only [depsPass, hd, hm, List.lookup, List.nil_append]
  constructor
  · intro e he
    exact (List.mem_filter.1 he).2
  · simp only [Tok.dep, Tok.setDep]
    exact Hub.StoreInv.lookup_setAssoc_self _ _ _

/-- everything emitted by a whole pass (any number of dependencies) has a live version in the main dataset. -/
theorem depsPass_main_origin (rel : Rel) (db : DB) (predId dsId) (cfg : Cfg) (now : Nat) (mainId : Nat)
    (hm : dsId cfg.main = some mainId) :
    ∀ (deps : List Dep) (tok : Tok) (cache : List (String × (List Nat × Nat))) (acc : List Nat),
      (∀ e ∈ acc, mainLive db mainId e now = true) →
      ∀ e ∈ (depsPass rel db predId dsId cfg now deps tok cache acc).1, mainLive db mainId e now = true
  | [], _, _, acc, hacc => by simpa [depsPass] using hacc
  | dep :: rest, tok, cache, acc, hacc => by
    unfold depsPass
    cases hd : dsId dep.ds with
    | none => simpa using hacc
    | some dd =>
      simp only [hm]
      apply depsPass_main_origin rel db predId dsId cfg now mainId hm
      intro e he
      rcases List.mem_append.1 he with h | h
      · exact hacc e h
      · exact (List.mem_filter.1 h).2

/-- **a dataset's token is held while a dependency on it is still to come**: when several dependencies watch
the same dataset (they share the cached page of changes), processing one of them that is not the last leaves the
token exactly as it was — so whatever batch is delivered, and whatever token is stored with it, before the last of
them is through, a run that is interrupted there starts the whole page again (nothing is skipped; defect D33 was the
token moving with the first of them). -/
theorem depsPass_token_held (rel : Rel) (db : DB) (predId dsId) (cfg : Cfg) (now : Nat) (dep : Dep) (rest : List Dep)
    (tok : Tok) (cache : List (String × (List Nat × Nat))) (acc : List Nat)
    (h : rest.any (·.ds == dep.ds) = true) :
    ∃ cache' acc', depsPass rel db predId dsId cfg now (dep :: rest) tok cache acc
      = depsPass rel db predId dsId cfg now rest tok cache' acc' ∨
      depsPass rel db predId dsId cfg now (dep :: rest) tok cache acc = (acc, tok) := by
  cases hd : dsId dep.ds with
  | none => exact ⟨cache, acc, .inr (by rw [depsPass]; simp [hd])⟩
  | some dd =>
    cases hm : dsId cfg.main with
    | none => exact ⟨cache, acc, .inr (by rw [depsPass]; simp [hd, hm])⟩
    | some mainId =>
      refine ⟨?c, ?a, .inl ?eq⟩
      case eq =>
        rw [depsPass]
        simp only [hd, hm, h, if_true]
        rfl

/-- a pass never touches the token of a dataset no dependency watches, nor the main token. -/
theorem depsPass_tok_frame (rel : Rel) (db : DB) (predId dsId) (cfg : Cfg) (now : Nat) (ds : String) :
    ∀ (deps : List Dep) (tok : Tok) (cache : List (String × (List Nat × Nat))) (acc : List Nat),
      (∀ d ∈ deps, d.ds ≠ ds) →
      (depsPass rel db predId dsId cfg now deps tok cache acc).2.dep ds = tok.dep ds
      ∧ (depsPass rel db predId dsId cfg now deps tok cache acc).2.main = tok.main
  | [], tok, _, _, _ => by simp [depsPass]
  | dep :: rest, tok, cache, acc, hne => by
    unfold depsPass
    cases hd : dsId dep.ds with
    | none => simp
    | some dd =>
      cases hm : dsId cfg.main with
      | none => simp
      | some mainId =>
        simp only []
        have hrest : ∀ d ∈ rest, d.ds ≠ ds := fun d hd' => hne d (List.mem_cons_of_mem _ hd')
        have hdep : dep.ds ≠ ds := hne dep List.mem_cons_self
        have key : ∀ (tok' : Tok) c a, tok'.dep ds = tok.dep ds → tok'.main = tok.main →
            (depsPass rel db predId dsId cfg now rest tok' c a).2.dep ds = tok.dep ds
            ∧ (depsPass rel db predId dsId cfg now rest tok' c a).2.main = tok.main := by
          intro tok' c a h1 h2
          have ih := depsPass_tok_frame rel db predId dsId cfg now ds rest tok' c a hrest
          exact ⟨ih.1.trans h1, ih.2.trans h2⟩
        apply key
        · split
          · rfl
          · simp only [Tok.dep, Tok.setDep]
            exact Hub.StoreInv.lookup_setAssoc_ne _ _ _ (fun h => hdep h.symm) _
        · split <;> rfl

/-! ## queries registered by the transform (`track_queries`): the reversed chain leads back to the main entity -/

/-- a forward path of hops from an entity of dataset `from`: hop `h` follows `h.pred` (inverse or not) into `h.ds`. -/
inductive Fwd (rel : Rel) (predId : String → Option Nat) (dsId : String → Option Nat) (now : Nat) :
    String → Nat → List Hop → Nat → Prop
  | done (from_ : String) (x : Nat) : Fwd rel predId dsId now from_ x [] x
  | hop (from_ : String) (x : Nat) (h : Hop) (rest : List Hop) (p m y : Nat)
      (hp : predId h.pred = some p)
      (hm : m ∈ rel x p h.inv ([from_, h.ds].filterMap dsId) now)
      (hr : Fwd rel predId dsId now h.ds m rest y) : Fwd rel predId dsId now from_ x (h :: rest) y

/-- the joins of the reversed path, recursively. -/
def revJoins (from_ : String) : List Hop → List Join
  | [] => []
  | h :: rest => revJoins h.ds rest ++ [{ ds := from_, pred := h.pred, inv := !h.inv }]

def lastHopDs (from_ : String) : List Hop → String
  | [] => from_
  | h :: rest => lastHopDs h.ds rest

def endDs (prevDs : String) : List Join → String
  | [] => prevDs
  | j :: rest => endDs j.ds rest

theorem endDs_append (prevDs : String) (js : List Join) (j : Join) : endDs prevDs (js ++ [j]) = j.ds := by
  induction js generalizing prevDs with
  | nil => rfl
  | cons a as ih => simp only [List.cons_append, endDs]; exact ih a.ds

theorem endDs_revJoins (d : String) (rest : List Hop) : endDs (lastHopDs d rest) (revJoins d rest) = d := by
  cases rest with
  | nil => rfl
  | cons r rs => simp only [revJoins]; rw [endDs_append]

theorem zipJoins_cons (main : String) (h : Hop) (rest : List Hop) :
    ((h :: rest).zip (main :: ((h :: rest).map (·.ds)).dropLast)).map (fun hf => ({ ds := hf.2, pred := hf.1.pred, inv := !hf.1.inv } : Join))
      = { ds := main, pred := h.pred, inv := !h.inv } ::
        (rest.zip (h.ds :: (rest.map (·.ds)).dropLast)).map (fun hf => ({ ds := hf.2, pred := hf.1.pred, inv := !hf.1.inv } : Join)) := by
  cases rest with
  | nil => simp
  | cons r rs => simp [List.dropLast]

theorem zipJoins_rev (main : String) : ∀ (hops : List Hop),
    ((hops.zip (main :: (hops.map (·.ds)).dropLast)).map (fun hf => ({ ds := hf.2, pred := hf.1.pred, inv := !hf.1.inv } : Join))).reverse
      = revJoins main hops
  | [] => by simp [revJoins]
  | h :: rest => by
    rw [zipJoins_cons, List.reverse_cons, zipJoins_rev h.ds rest]; rfl

theorem getLast_lastHopDs (main : String) : ∀ (hops : List Hop) (l : Hop), hops.getLast? = some l → lastHopDs main hops = l.ds
  | [], _, h => by simp at h
  | [a], l, h => by simp at h; subst h; rfl
  | a :: b :: rest, l, h => by
    have : (b :: rest).getLast? = some l := by simpa [List.getLast?_cons_cons] using h
    simp only [lastHopDs]
    exact getLast_lastHopDs b.ds (b :: rest) l this ▸ rfl

/-- what `reverseHops` builds, in recursive form. -/
theorem reverseHops_eq (main : String) (hops : List Hop) (hne : hops ≠ []) :
    reverseHops main hops = some { ds := lastHopDs main hops, joins := revJoins main hops } := by
  unfold reverseHops
  cases hl : hops.getLast? with
  | none => exact absurd (List.getLast?_eq_none_iff.1 hl) hne
  | some l =>
    simp only
    rw [zipJoins_rev, getLast_lastHopDs main hops l hl]

theorem reach_snoc {rel : Rel} {predId dsId now prevAt} {idx : Nat} {prevDs : String} {s m : Nat} {js : List Join}
    (hr : Reach rel predId dsId now prevAt idx prevDs s js m) (j : Join) (p x : Nat) (hp : predId j.pred = some p)
    (hx : x ∈ rel m p j.inv ([endDs prevDs js, j.ds].filterMap dsId) now) :
    Reach rel predId dsId now prevAt idx prevDs s (js ++ [j]) x := by
  induction hr with
  | done idx prevDs s => exact .hop _ _ _ j [] p x x hp (.inl hx) (.done _ _ _)
  | hop idx prevDs s j' rest p' m' x' hp' hm' _ ih =>
    exact .hop _ _ _ j' (rest ++ [j]) p' m' x hp' hm' (ih hx)

/-- **T-C18-5 (registered queries are tracked)**: let the relation be symmetric under transposition (what C03 proves of
the outgoing scan and states for the graph: `m` is related to `s` through `p` in one direction iff `s` is related to `m`
in the other, whatever the order of the two datasets in the scope). If the transform can get from a main entity `x` to an
entity `y` by a chain of hops it registered, then the dependency the builder derives from that chain — watching the
dataset of the last hop — leads from `y` back to `x`: with `window_complete`, a change of `y` re-emits `x`. -/
theorem reverseHops_reaches (rel : Rel) (predId dsId) (now : Nat) (prevAt : Option Nat)
    (hsym : ∀ s p inv a b t m, m ∈ rel s p inv ([a, b].filterMap dsId) t → s ∈ rel m p (!inv) ([b, a].filterMap dsId) t)
    (main : String) (hops : List Hop) (hne : hops ≠ []) (x y : Nat) (hf : Fwd rel predId dsId now main x hops y) :
    ∃ dep, reverseHops main hops = some dep ∧ dep.joins ≠ [] ∧ Reach rel predId dsId now prevAt 0 dep.ds y dep.joins x := by
  refine ⟨_, reverseHops_eq main hops hne, ?_, ?_⟩
  · cases hops with
    | nil => exact absurd rfl hne
    | cons h rest => simp [revJoins]
  · show Reach rel predId dsId now prevAt 0 (lastHopDs main hops) y (revJoins main hops) x
    have gen : ∀ (idx : Nat) (from_ : String) (x : Nat) (hops : List Hop) (y : Nat), Fwd rel predId dsId now from_ x hops y →
        Reach rel predId dsId now prevAt idx (lastHopDs from_ hops) y (revJoins from_ hops) x := by
      intro idx from_ x hops y hf
      induction hf with
      | done from_ x => exact .done _ _ _
      | hop from_ x h rest p m y hp hm _ ih =>
        show Reach rel predId dsId now prevAt idx (lastHopDs h.ds rest) y (revJoins h.ds rest ++ [{ ds := from_, pred := h.pred, inv := !h.inv }]) x
        refine reach_snoc ih _ p x hp ?_
        rw [endDs_revJoins]
        exact hsym _ _ _ _ _ _ _ hm
    exact gen 0 main x hops y hf

/-! ## the dependency builder -/

theorem dedupDeps_spec : ∀ (l : List Dep) (seen : List String),
    (∀ d ∈ dedupDeps l seen, d ∈ l ∧ depKey d ∉ seen)
    ∧ ((dedupDeps l seen).map depKey).Nodup
    ∧ (∀ d ∈ l, depKey d ∉ seen → ∃ d' ∈ dedupDeps l seen, depKey d' = depKey d)
  | [], seen => by simp [dedupDeps]
  | d :: ds, seen => by
    unfold dedupDeps
    by_cases hc : seen.contains (depKey d) = true
    · rw [if_pos hc]
      obtain ⟨h1, h2, h3⟩ := dedupDeps_spec ds seen
      refine ⟨fun x hx => ⟨List.mem_cons_of_mem _ (h1 x hx).1, (h1 x hx).2⟩, h2, ?_⟩
      intro x hx hns
      rcases List.mem_cons.1 hx with rfl | hx
      · exact absurd (by simpa using hc) hns
      · exact h3 x hx hns
    · rw [if_neg hc]
      have hc' : depKey d ∉ seen := by simpa using hc
      obtain ⟨h1, h2, h3⟩ := dedupDeps_spec ds (depKey d :: seen)
      refine ⟨?_, ?_, ?_⟩
      · intro x hx
        rcases List.mem_cons.1 hx with rfl | hx
        · exact ⟨List.mem_cons_self, hc'⟩
        · have := h1 x hx
          exact ⟨List.mem_cons_of_mem _ this.1, fun hh => this.2 (List.mem_cons_of_mem _ hh)⟩
      · simp only [List.map_cons, List.nodup_cons]
        refine ⟨?_, h2⟩
        intro hmem
        obtain ⟨x, hx, hk⟩ := List.mem_map.1 hmem
        exact (h1 x hx).2 (by rw [hk]; exact List.mem_cons_self)
      · intro x hx hns
        rcases List.mem_cons.1 hx with rfl | hx
        · exact ⟨_, List.mem_cons_self, rfl⟩
        · by_cases hk : depKey x = depKey d
          · exact ⟨d, List.mem_cons_self, hk.symm⟩
          · obtain ⟨d', hd', hk'⟩ := h3 x hx (by
              intro hh; rcases List.mem_cons.1 hh with h | h
              · exact hk h
              · exact hns h)
            exact ⟨d', List.mem_cons_of_mem _ hd', hk'⟩

/-- **the dependency list the builder produces** (T-C18-5): no two dependencies with the same dataset and
joins; every declared dependency is kept; and for every declared dependency and every intermediate join
dataset other than the main dataset there is a dependency on that dataset with the remaining joins
(so a change in a link dataset is tracked as well). -/
theorem buildDeps_spec (main : String) (declared : List Dep) :
    ((buildDeps main declared).map depKey).Nodup
    ∧ (∀ d ∈ declared, ∃ d' ∈ buildDeps main declared, depKey d' = depKey d)
    ∧ (∀ d ∈ declared, ∀ (i : Nat) (j : Join), d.joins[i]? = some j → j.ds ≠ main →
        ∃ d' ∈ buildDeps main declared, depKey d' = depKey { ds := j.ds, joins := d.joins.drop (i + 1) }) := by
  obtain ⟨_, h2, h3⟩ := dedupDeps_spec (declared ++ declared.flatMap (implicitOf main)) []
  refine ⟨h2, ?_, ?_⟩
  · intro d hd
    exact h3 d (List.mem_append_left _ hd) (by simp)
  · intro d hd i j hj hne
    apply h3 _ _ (by simp)
    apply List.mem_append_right
    rw [List.mem_flatMap]
    refine ⟨d, hd, ?_⟩
    unfold implicitOf
    rw [List.mem_map]
    refine ⟨(j, i), ?_, rfl⟩
    rw [List.mem_filter]
    refine ⟨?_, by simpa using hne⟩
    rw [List.mem_zipIdx_iff_getElem?]
    simpa using hj

-- the example of the builder's own test: product ← order ← person, declared in JSON and through track_queries
example :
    buildDeps "person" ([{ ds := "product", joins := [⟨"order", "ordered", true⟩, ⟨"person", "ordering", false⟩] }]
        ++ ([[⟨"order", "ordering", true⟩, ⟨"product", "ordered", false⟩]] : List (List Hop)).filterMap (reverseHops "person"))
      = [{ ds := "product", joins := [⟨"order", "ordered", true⟩, ⟨"person", "ordering", false⟩] },
         { ds := "order", joins := [⟨"person", "ordering", false⟩] }] := by decide

-- non-vacuity of Reach: a two-hop chain over a concrete relation
example : (7 : Nat) ∈ chain (fun s p inv _ _ => if s = 1 ∧ p = 10 ∧ inv then [2] else if s = 2 ∧ p = 11 ∧ !inv then [7] else [])
    (fun p => if p = "p" then some 10 else if p = "q" then some 11 else none) (fun _ => some 1) 100 none
    { ds := "b", joins := [⟨"c", "p", true⟩, ⟨"a", "q", false⟩] } [1] := by decide

/-! ## the tie to multi_source.go (regenerated skeletons) -/

set_option maxRecDepth 16000 in
open Hub.Facts.MultiSource Hub.Pipe in
/-- dependencies are processed before the main dataset's page and only outside a full sync (which stamps the
watermarks instead); a dependency's token is advanced after the join loop — the emissions made from inside the
loop still carry the old token — and before the final emission, and only by the last dependency on that dataset; the back-dated query is made for the first
join when it is not inverse and a previous window exists, at the time of the change before the token; the
candidate is looked up in the main dataset; the page of changes is cached per dataset. -/
theorem facts_multisource :
    proj ["if !multiSource.isFullSync {", "multiSource.processDependency", "} else {", "set d.activeDS = \"\"", "multiSource.incrementalRead"] skeleton_ReadEntities
      = ["if !multiSource.isFullSync {", "multiSource.processDependency", "} else {", "set d.activeDS = \"\"", "multiSource.incrementalRead"]
    ∧ proj ["multiSource.findChanges", "multiSource.Store.GetPredicateID", "multiSource.Store.GetRelatedAtTime", "if idx == 0 && !join.Inverse {",
            "if depSince.AsIncrToken() > 0 {", "set since = depSince.AsIncrToken() - 1", "depDataset.GetChanges", "set prevRelatedFrom.At = timestamp",
            "multiSource.Store.GetEntityWithInternalID", "processEntities", "if advanceToken {",
            "set d.DependencyTokens[dep.Dataset] = &StringDatasetContinuation{Token: strconv.Itoa(int(continuation))}"] skeleton_processDependency
      = ["multiSource.findChanges", "multiSource.Store.GetPredicateID", "multiSource.Store.GetRelatedAtTime", "if idx == 0 && !join.Inverse {",
         "if depSince.AsIncrToken() > 0 {", "set since = depSince.AsIncrToken() - 1", "depDataset.GetChanges", "set prevRelatedFrom.At = timestamp",
         "multiSource.Store.GetRelatedAtTime", "multiSource.Store.GetEntityWithInternalID", "processEntities", "if advanceToken {",
         "set d.DependencyTokens[dep.Dataset] = &StringDatasetContinuation{Token: strconv.Itoa(int(continuation))}", "processEntities"]
    -- the dataset's token moves only with the last dependency on that dataset (they share the cached page of changes)
    ∧ lastOfDataset = ["range multiSource.Dependencies", "range multiSource.Dependencies[i+1:]", "if later.Dataset == dep.Dataset",
        "call(ctx, dep, d, batchSize, lastOfDataset, processEntities)", "range multiSource.waterMarks"]
    ∧ proj ["set lastOfDataset = true", "if later.Dataset == dep.Dataset {", "set lastOfDataset = false", "multiSource.processDependency"] skeleton_ReadEntities
      = ["set lastOfDataset = true", "if later.Dataset == dep.Dataset {", "set lastOfDataset = false", "multiSource.processDependency"]
    ∧ skeleton_findChanges = ["if ok {", "return", "}", "depDataset.ProcessChanges", "set multiSource.changesCache[depDataset.ID] = changeURIData{ids, continuation}", "return"]
    ∧ skeleton_incrementalRead = ["dataset.ProcessChanges", "ret-on-err", "set d.MainToken = strconv.Itoa()", "processEntities", "ret-on-err", "return"]
    ∧ skeleton_StartFullSync = ["set multiSource.isFullSync = true", "multiSource.grabWatermarks"]
    ∧ skeleton_EndFullSync = ["set multiSource.isFullSync = false"]
    ∧ watermarkIfs = ["item == nil || !bytes.HasPrefix(item.Key(), searchBuffer[:6])"]
    ∧ readArgs = ["processDependency: multiSource.Store.GetRelatedAtTime(nextRelatedFrom, batchSize)",
        "processDependency: depDataset.GetChanges(since, 1, false)",
        "processDependency: multiSource.Store.GetRelatedAtTime(prevRelatedFrom, batchSize)",
        "processDependency: multiSource.Store.GetEntityWithInternalID(e, targetDs, true)",
        "findChanges: depDataset.ProcessChanges(depSince.AsIncrToken(), batchSize, multiSource.LatestOnly, func)",
        "incrementalRead: dataset.ProcessChanges(since.AsIncrToken(), batchSize, multiSource.LatestOnly, func)"] := by decide

end Hub.C18
