import Hub.Proofs.ListPaging
import Hub.Proofs.StoreInv
import Hub.Proofs.SortPerm
import Hub.Proofs.Lookup
import Hub.Proofs.Frame
import Hub.Proofs.TxnRefine
import Hub.Generated.Layout
/-!
# C01 — the latest view equals the last stored version of every entity

Property theorems only. Model: `Hub/Model/Store.lean`; refinement: `Hub/Proofs/StoreInv.lean`.
-/
namespace Hub.C01
open Hub.Store Hub.StoreInv

/-- T-C01-5a (the write path refines the specification, every batch): for every state satisfying
the invariant and every batch — any length, repeated ids, delete/un-delete flips — committed later
than everything in its dataset, versions, latest pointers, change log and counters follow `specFrom`. -/
theorem refinement {db : DB} {S : Spec} (h : Inv db S) (ds t : Nat)
    (hfresh : ∀ v ∈ db.versions, v.1.ds = ds → v.1.t < t) (b : List Ent) :
    Inv (storeBatch db ds t b) (specFrom ds t 0 b S) := inv_storeBatch h ds t hfresh b

/-- the empty store satisfies the invariant (so every state reached by such batches does). -/
theorem refinement_init : Inv {} {} := inv_empty

/-- T-C01-5b (no silent drop): an element is dropped iff it is identical to the version it would
replace (the in-batch predecessor if there is one, else the stored latest); otherwise it becomes
the new last version. -/
theorem no_silent_drop (S : Spec) (ds t i : Nat) (e : Ent) :
    (specOne ds t S (i, e)).vers ds e.rid =
      if lastEnt (S.vers ds e.rid) = some e then S.vers ds e.rid else S.vers ds e.rid ++ [⟨t, i, e⟩] := by
  unfold specOne
  split <;> simp [specAppend, specCount_vers]

/-- … and after the element the last version of its entity is the element, always. -/
theorem last_is_written (S : Spec) (ds t i : Nat) (e : Ent) :
    lastEnt ((specOne ds t S (i, e)).vers ds e.rid) = some e := by
  rw [no_silent_drop]
  split
  · assumption
  · simp [lastEnt]

/-- other entities and other datasets are untouched by an element. -/
theorem others_untouched (S : Spec) (ds t i : Nat) (e : Ent) (d j : Nat) (h : ¬ (d = ds ∧ j = e.rid)) :
    (specOne ds t S (i, e)).vers d j = S.vers d j := by
  unfold specOne
  split <;> simp [specAppend, specCount_vers, h]

/-- T-C01-3 (the current version): what the write path — and every reader that follows the latest
pointer: listing, latest-only feed — resolves as the stored version of (dataset, id) is the last
accepted version. -/
theorem stored_is_last {db : DB} {S : Spec} (h : Inv db S) (ds id : Nat) :
    db.stored ds id = lastEnt (S.vers ds id) := stored_eq_last h.v ds id

theorem mem_of_lookup {κ β} [BEq κ] [LawfulBEq κ] : ∀ (l : List (κ × β)) (k : κ) (v : β), l.lookup k = some v → (k, v) ∈ l
  | [], _, _, h => by simp at h
  | (k', v') :: rest, k, v, h => by
    simp only [List.lookup] at h
    by_cases hk : k = k'
    · subst hk; simp at h; subst h; simp
    · have : (k == k') = false := by simpa using hk
      rw [this] at h
      exact List.mem_cons_of_mem _ (mem_of_lookup rest k v h)

/-- T-C01-1 (listing = latest view): an entity is in the listing of a dataset iff it is the last
accepted version of its id there — every stored id, deleted or not. -/
theorem listing_eq_latest {db : DB} {S : Spec} (h : Inv db S) (ds rid : Nat) (e : Ent) :
    (rid, e) ∈ listAll db ds ↔ lastEnt (S.vers ds rid) = some e := by
  unfold listAll
  simp only [List.mem_filterMap, Hub.SortPerm.mem_sortBy, List.mem_filter]
  rw [← stored_is_last h ds rid]
  constructor
  · rintro ⟨p, ⟨hp, hds⟩, hpe⟩
    obtain ⟨⟨d, r⟩, k⟩ := p
    simp only [beq_iff_eq] at hds
    simp only [Option.map_eq_some_iff, Prod.mk.injEq] at hpe
    obtain ⟨e', hget, hr, he⟩ := hpe
    subst hds hr he
    have hl : db.latestOf d r = some k := lookup_of_mem_nodup db.latest h.v.latNodup hp
    simp [DB.stored, hl, hget]
  · intro hst
    unfold DB.stored at hst
    cases hl : db.latestOf ds rid with
    | none => simp [hl] at hst
    | some k =>
      simp only [hl, Option.bind_some] at hst
      exact ⟨((ds, rid), k), ⟨mem_of_lookup _ _ _ hl, by simp⟩, by simp [hst]⟩

/-- T-C01-1' (each entity exactly once): the listing has no id twice. -/
theorem listing_once {db : DB} {S : Spec} (h : Inv db S) (ds : Nat) : ((listAll db ds).map (·.1)).Nodup := by
  unfold listAll
  have hsub : ∀ (l : List ((Nat × Nat) × VKey)),
      ((l.filterMap fun (p : (Nat × Nat) × VKey) => (db.get p.2).map fun e => (p.1.2, e)).map (·.1)
        = (l.filter fun p => (db.get p.2).isSome).map (·.1.2)) := by
    intro l
    induction l with
    | nil => rfl
    | cons p ps ih =>
      simp only [List.filterMap_cons, List.filter_cons]
      cases hg : db.get p.2 <;> simp [ih]
  have hkeys : ((sortBy (fun (a b : (Nat × Nat) × VKey) => a.1.2 < b.1.2)
      (db.latest.filter fun p => p.1.1 == ds)).map (·.1)).Nodup := by
    have hp := Hub.SortPerm.sortBy_perm (fun (a b : (Nat × Nat) × VKey) => a.1.2 < b.1.2) (db.latest.filter fun p => p.1.1 == ds)
    refine (hp.map _).nodup_iff.2 ?_
    exact (h.v.latNodup.sublist ((List.filter_sublist).map _))
  rw [hsub _]
  -- ids of one dataset: (ds, rid) pairs with the same ds are distinct iff the rids are
  have hinj : ∀ (l : List ((Nat × Nat) × VKey)), (∀ p ∈ l, p.1.1 = ds) → (l.map (·.1)).Nodup → (l.map (·.1.2)).Nodup := by
    intro l
    induction l with
    | nil => intro _ _; simp
    | cons p ps ih =>
      intro hds hnd
      simp only [List.map_cons, List.nodup_cons] at hnd ⊢
      refine ⟨?_, ih (fun q hq => hds q (List.mem_cons_of_mem _ hq)) hnd.2⟩
      intro hm
      obtain ⟨q, hq, hqe⟩ := List.mem_map.1 hm
      apply hnd.1
      have h1 := hds p (by simp)
      have h2 := hds q (List.mem_cons_of_mem _ hq)
      exact List.mem_map.2 ⟨q, hq, Prod.ext (h2.trans h1.symm) hqe⟩
  apply hinj
  · intro p hp
    have := (Hub.SortPerm.mem_sortBy _ _ p).1 (List.mem_filter.1 hp).1
    simpa using (List.mem_filter.1 this).2
  · exact hkeys.sublist ((List.filter_sublist).map _)


/-! ## paging of the listing -/

theorem pairwise_le_nodup_lt : ∀ (L : List (Nat × Ent)), L.Pairwise (fun a b => a.1 ≤ b.1) → (L.map (·.1)).Nodup →
    L.Pairwise (fun a b => a.1 < b.1)
  | [], _, _ => List.Pairwise.nil
  | x :: xs, hp, hn => by
    have hp' := List.pairwise_cons.1 hp
    have hn' : x.1 ∉ xs.map (·.1) ∧ (xs.map (·.1)).Nodup := List.nodup_cons.1 hn
    refine List.pairwise_cons.2 ⟨?_, pairwise_le_nodup_lt xs hp'.2 hn'.2⟩
    intro y hy
    have hle := hp'.1 y hy
    have hne : x.1 ≠ y.1 := fun e => hn'.1 (e ▸ List.mem_map.2 ⟨y, hy, rfl⟩)
    omega

/-- the listing is in strictly increasing key order (under the refinement invariant). -/
theorem listing_incr {db : DB} {S : Spec} (h : Inv db S) (ds : Nat) : Hub.ListPaging.Incr (listAll db ds) := by
  apply pairwise_le_nodup_lt _ _ (listing_once h ds)
  unfold listAll
  have hs := Hub.ListPaging.sortBy_sorted' (fun (a b : (Nat × Nat) × VKey) => decide (a.1.2 < b.1.2))
    (by intro a b c h1 h2; simp only [decide_eq_true_eq] at *; omega)
    (by intro a b h1; simp only [decide_eq_true_eq, decide_eq_false_iff_not] at *; omega)
    (db.latest.filter (fun (p : (Nat × Nat) × VKey) => p.1.1 == ds))
  refine List.Pairwise.filterMap _ ?_ hs
  intro a a' haa b hb b' hb'
  simp only [Option.mem_def, Option.map_eq_some_iff] at hb hb'
  obtain ⟨_, _, rfl⟩ := hb
  obtain ⟨_, _, rfl⟩ := hb'
  simp only [decide_eq_false_iff_not, Nat.not_lt] at haa
  exact haa

/-- **T-C01-2 (paged listing)**: in every state reached through the write path, reading a dataset's entities with any
list of page sizes (each ≥ 1) by following the continuation tokens, and then reading the rest, returns exactly the
listing — the last version of every stored id, each exactly once, none missing — from wherever the reader stood. -/
theorem listing_paged {db : DB} {S : Spec} (h : Inv db S) (ds : Nat) (cs : List Nat) (hcs : ∀ c ∈ cs, 0 < c) :
    (Hub.ListPaging.pages db ds none (cs ++ [0])).flatten = (listAll db ds).map (·.2) := by
  have := Hub.ListPaging.pages_tile db ds (listing_incr h ds) cs 0 (Nat.zero_le _) hcs
  simpa [Hub.ListPaging.tokAt] using this

/-! ## lookups: the per-dataset partials of `GetEntityAtPointInTime…` -/

/-- **T-C01-6 (what a lookup merges)**: for every store state with unique version keys (`Inv` gives that), every
entity, instant and scope, the live partials a lookup merges are exactly the versions `p` that (1) are visible —
of this entity, recorded at or before the instant, in a dataset that is not deleted and in scope —, (2) are not
deleted and (3) are the newest visible version of their dataset. So a scoped lookup returns the newest version of
that dataset at the instant, an unscoped one merges the newest live version of every dataset, and a version that was
superseded or deleted by then contributes nothing. -/
theorem lookup_partials_spec (db : DB) (hk : (db.versions.map (·.1)).Nodup) (rid at_ : Nat) (scope : List Nat) (p : VKey × Ent) :
    p ∈ (partialsAt db rid at_ scope).1 ↔
      p ∈ visibleVersions db rid at_ scope ∧ p.2.deleted = false
      ∧ ∀ q ∈ visibleVersions db rid at_ scope, q.1.ds = p.1.ds → p.1.lt q.1 = false := by
  have hs := Hub.Lookup.visible_sorted db rid at_ scope
  unfold partialsAt
  simp only [List.mem_filter, Bool.not_eq_true']
  constructor
  · rintro ⟨hp, hd⟩
    exact ⟨Hub.Lookup.mem_lastPerDs _ p hp, hd, Hub.Lookup.lastPerDs_newest rid _ hs p hp⟩
  · rintro ⟨hv, hd, hnew⟩
    obtain ⟨p', hp', hds⟩ := Hub.Lookup.lastPerDs_complete _ p hv
    have hv' := Hub.Lookup.mem_lastPerDs _ p' hp'
    have h1 := Hub.Lookup.lastPerDs_newest rid _ hs p' hp' p hv hds.symm
    have h2 := hnew p' hv' hds
    have hkey : p'.1 = p.1 := Hub.Lookup.lt_total _ _ h1 h2
    have := Hub.Lookup.visible_key_unique db hk rid at_ scope p' p hv' hv hkey
    exact ⟨this ▸ hp', hd⟩

/-- the invariant of the write path provides the hypothesis of `lookup_partials_spec`. -/
theorem lookup_partials_of_inv {db : DB} {S : Spec} (h : Inv db S) : (db.versions.map (·.1)).Nodup := h.v.nodup

-- non-vacuity: entity 1 in datasets 2 and 3; at instant 25 the lookup merges version 20 of dataset 2 and nothing of dataset 3 (deleted there)
example : let a : Ent := ⟨1, false, [], "1", []⟩; let b : Ent := ⟨1, false, [], "2", []⟩; let d : Ent := ⟨1, true, [], "2", []⟩
    let db := storeBatch (storeBatch (storeBatch (storeBatch {} 2 10 [a]) 2 20 [b]) 3 15 [a]) 3 22 [d]
    (partialsAt db 1 25 []).1.map (·.1.t) = [20] ∧ (partialsAt db 1 21 []).1.map (·.1.t) = [20, 15] ∧ (partialsAt db 1 25 []).2 = true := by decide

/-- T-C01-8 (one partial per dataset): whatever the history, instant and scope, a lookup never merges two
versions of the same dataset — a scoped lookup of one dataset therefore returns a single version. -/
theorem lookup_one_partial_per_dataset (db : DB) (hk : (db.versions.map (·.1)).Nodup) (rid at_ : Nat) (scope : List Nat)
    (p q : VKey × Ent) (hp : p ∈ (partialsAt db rid at_ scope).1) (hq : q ∈ (partialsAt db rid at_ scope).1)
    (hds : p.1.ds = q.1.ds) : p = q := by
  obtain ⟨hpv, _, hpn⟩ := (lookup_partials_spec db hk rid at_ scope p).1 hp
  obtain ⟨hqv, _, hqn⟩ := (lookup_partials_spec db hk rid at_ scope q).1 hq
  have hkey : p.1 = q.1 := Hub.Lookup.lt_total _ _ (hpn q hqv hds.symm) (hqn p hpv hds)
  exact Hub.Lookup.visible_key_unique db hk rid at_ scope p q hpv hqv hkey

/-- T-C01-9 (a superseded version contributes nothing): a version with a newer visible version of the same dataset —
live or deleted — is not merged. -/
theorem lookup_superseded_invisible (db : DB) (hk : (db.versions.map (·.1)).Nodup) (rid at_ : Nat) (scope : List Nat)
    (p q : VKey × Ent) (hq : q ∈ visibleVersions db rid at_ scope) (hds : q.1.ds = p.1.ds) (hlt : p.1.lt q.1 = true) :
    p ∉ (partialsAt db rid at_ scope).1 := by
  intro hp
  have := ((lookup_partials_spec db hk rid at_ scope p).1 hp).2.2 q hq hds
  rw [hlt] at this
  exact Bool.noConfusion this

/-- T-C01-10 (what a merged version is): it is a stored version of this entity, recorded at or before the instant, live,
of a dataset that is not deleted and — for a scoped lookup — in scope. Nothing from the future, from a deleted dataset
or from outside the scope is ever returned. -/
theorem lookup_partial_sound (db : DB) (hk : (db.versions.map (·.1)).Nodup) (rid at_ : Nat) (scope : List Nat)
    (p : VKey × Ent) (hp : p ∈ (partialsAt db rid at_ scope).1) :
    p ∈ db.versions ∧ p.1.rid = rid ∧ p.1.t ≤ at_ ∧ p.2.deleted = false ∧ p.1.ds ∉ db.deletedDs ∧ (scope = [] ∨ p.1.ds ∈ scope) := by
  obtain ⟨hv, hd, _⟩ := (lookup_partials_spec db hk rid at_ scope p).1 hp
  obtain ⟨h1, h2, h3, h4, h5⟩ := (Hub.Lookup.mem_visible db rid at_ scope p).1 hv
  exact ⟨h1, h2, h3, hd, h4, h5⟩

/-- T-C01-11 (completeness per dataset): a dataset whose newest visible version of the entity is live contributes exactly
that version — a lookup cannot lose a dataset's live state. -/
theorem lookup_newest_live_returned (db : DB) (hk : (db.versions.map (·.1)).Nodup) (rid at_ : Nat) (scope : List Nat)
    (p : VKey × Ent) (hv : p ∈ visibleVersions db rid at_ scope) (hlive : p.2.deleted = false)
    (hnew : ∀ q ∈ visibleVersions db rid at_ scope, q.1.ds = p.1.ds → p.1.lt q.1 = false) :
    p ∈ (partialsAt db rid at_ scope).1 :=
  (lookup_partials_spec db hk rid at_ scope p).2 ⟨hv, hlive, hnew⟩

-- non-vacuity: two datasets, the scoped lookup returns one version, the unscoped one a version per dataset
example : let a : Ent := ⟨1, false, [], "1", []⟩; let b : Ent := ⟨1, false, [], "2", []⟩
    let db := storeBatch (storeBatch (storeBatch {} 2 10 [a]) 2 20 [b]) 3 15 [a]
    (partialsAt db 1 25 [2]).1.map (·.1.t) = [20] ∧ (partialsAt db 1 25 []).1.map (·.1.ds) = [2, 3]
    ∧ (db.versions.map (·.1)).Nodup := by decide

/-! ## every history -/

/-- a history of batches `(dataset, commit time, entities)` applied to the store … -/
def runHist (h : List (Nat × Nat × List Ent)) (db : DB) : DB := h.foldl (fun db w => storeBatch db w.1 w.2.1 w.2.2) db
/-- … and to the specification. -/
def specHist (h : List (Nat × Nat × List Ent)) (S : Spec) : Spec := h.foldl (fun S w => specFrom w.1 w.2.1 0 w.2.2 S) S

/-- T-C01-5b (every reachable state): from the empty store, after any history of batches — any number, any datasets, any
content — whose commit times increase (they are taken from the clock under the dataset lock, `facts_shape`), the store
satisfies the invariant against the specification of that history; every `Inv` hypothesis of this file (listing = latest
versions, listed once, paging, lookups) is therefore met by every state the write path can reach. -/
theorem refinement_history (h : List (Nat × Nat × List Ent)) (hinc : h.Pairwise (fun a b => a.2.1 < b.2.1)) :
    Inv (runHist h {}) (specHist h {}) := by
  suffices g : ∀ (h : List (Nat × Nat × List Ent)) (db : DB) (S : Spec), Inv db S →
      (∀ v ∈ db.versions, ∀ w ∈ h, v.1.t < w.2.1) → h.Pairwise (fun a b => a.2.1 < b.2.1) →
      Inv (runHist h db) (specHist h S) from
    g h {} {} inv_empty (by intro v hv; simp at hv) hinc
  intro h
  induction h with
  | nil => intro db S hI _ _; exact hI
  | cons w ws ih =>
    intro db S hI hb hp
    have hw := List.pairwise_cons.1 hp
    simp only [runHist, specHist, List.foldl_cons]
    apply ih
    · exact refinement hI w.1 w.2.1 (fun v hv _ => hb v hv w (List.mem_cons_self ..)) w.2.2
    · intro v hv w' hw'
      obtain ⟨_, ⟨new, hvs, hn⟩, _⟩ := Hub.Frame.writeFrom_frame db w.1 w.2.1 [] w.2.2 0 (db, [])
      have hvs' : (storeBatch db w.1 w.2.1 w.2.2).versions = db.versions ++ new := hvs
      rw [hvs'] at hv
      rcases List.mem_append.1 hv with hv | hv
      · exact hb v hv w' (List.mem_cons_of_mem _ hw')
      · rw [(hn v hv).1]; exact hw.1 w' hw'
    · exact hw.2

-- non-vacuity: three batches over two datasets
example : let e : Ent := ⟨1, false, [], "a", []⟩; let d : Ent := ⟨1, true, [], "a", []⟩
    let h := [(2, 10, [e, e, d]), (3, 15, [e]), (2, 20, [d, e])]
    h.Pairwise (fun a b => a.2.1 < b.2.1) ∧ (runHist h {}).versions.length = 4 := by decide

/-! ## transactions -/
open Hub.TxnRefine in
/-- T-C01-5c (a transaction is its batches, at one instant): `ExecuteTransaction` lets every dataset's write loop read the
snapshot taken before the transaction. For every state satisfying the invariant and every transaction — any number of
datasets (one part per dataset: the request is a map), any content — committed later than everything in its datasets, the
result is exactly that of its per-dataset batches one after the other at the same commit time, and it satisfies the
invariant against the specification of those batches: the latest view, listings and lookups after a transaction are those
of its last stored versions. -/
theorem txn_refinement {db : DB} {S : Spec} (h : Inv db S) (t : Nat) (parts : List (Nat × List Ent))
    (hd : (parts.map (·.1)).Nodup) (hfresh : ∀ p ∈ parts, ∀ v ∈ db.versions, v.1.ds = p.1 → v.1.t < t) :
    execTxn db t parts = batches db t parts ∧ Inv (execTxn db t parts) (specTxn t parts S) :=
  txn_refines db S h t parts hd hfresh

open Hub.TxnRefine in
/-- T-C01-5d (every reachable state, transactions included): from the empty store, after any history of transactions and
batches (a batch is a transaction with one part) with increasing commit times, the store satisfies the invariant against
the specification of that history. -/
theorem refinement_history_txn (h : List (Nat × List (Nat × List Ent))) (hinc : h.Pairwise (fun a b => a.1 < b.1))
    (hd : ∀ w ∈ h, (w.2.map (·.1)).Nodup) : Inv (runTxns h {}) (specTxns h {}) :=
  txns_refine h {} {} inv_empty (by intro v hv; simp at hv) hinc hd

/-- a batch is the transaction with one part. -/
theorem batch_is_txn (db : DB) (ds t : Nat) (b : List Ent) : execTxn db t [(ds, b)] = storeBatch db ds t b := rfl

open Hub.Facts.Layout in
/-- tie of `txn_refinement`'s premises to the Go source: a transaction request is a *map* from dataset name to entities (one part
per dataset — the `Nodup` hypothesis), `ExecuteTransaction` opens one badger transaction and hands it, with one commit time, to
every part's write loop (the parts share one read snapshot and one instant). -/
theorem facts_txn_shape :
    txnPartsType = "map[string][]*Entity" ∧ txnWriteArgs = ["entities, txnTime, txn"]
    ∧ txnSnapshots = ["s.database.NewTransaction"] := by decide

-- non-vacuity: a transaction over two datasets after a batch; the second part reads the pre-transaction snapshot
open Hub.TxnRefine in
example : let e : Ent := ⟨1, false, [], "a", []⟩; let d : Ent := ⟨1, true, [], "a", []⟩
    let h := [(10, [(2, [e])]), (20, [(2, [d, e, d]), (3, [e, e])])]
    h.Pairwise (fun a b => a.1 < b.1) ∧ (∀ w ∈ h, (w.2.map (·.1)).Nodup) ∧ ((runTxns h {}).versions.map (·.1.t)) = [10, 20, 20, 20, 20] := by decide

/-! ## tie to the Go source (regenerated facts) -/
open Hub.Facts.Layout in
theorem facts_shape :
    entityKey = [("EntityIDToJSONIndexID", 0, 16), ("rid", 2, 64), ("ds.InternalID", 10, 32), ("uint64(txnTime)", 14, 64), ("uint16(batchSeqNum)", 22, 16)]
    ∧ latestKey = [("DatasetLatestEntities", 0, 16), ("ds.InternalID", 2, 32), ("rid", 6, 64)]
    ∧ skipCond = ["!isnew && !isDifferent && !isDifferentLocally"]
    ∧ localSupersedes = ["true", "false", "isDifferentLocally"]
    ∧ listSeek = [("DatasetLatestEntities", 0, 16), ("ds.InternalID", 2, 32)]
    ∧ listSkipToken = ["from != \"\""] ∧ listLimitTest = ["taken == count"]
    ∧ lookupReads = ["binary.BigEndian.Uint64(key[14:])", "binary.BigEndian.Uint32(key[10:])"]
    ∧ lookupTimeSkip = ["at < recordedTime", "datasetDeleted || !datasetIncluded"]
    -- commit times are taken under the dataset lock(s): the order "lock, time, write loop, id commit, data commit, counters"
    ∧ storeSteps = ["ds.WriteLock.Lock", "time.Sleep", "time.Now().UnixNano", "ds.StoreEntitiesWithTransaction", "ds.store.commitIDTxn", "txn.Commit", "ds.updateDataset"]
    ∧ txnSteps = ["sort.Strings", "dataset.(*Dataset).WriteLock.Lock", "time.Now().UnixNano", "ds.StoreEntitiesWithTransaction", "s.commitIDTxn", "txn.Commit", "ds.(*Dataset).updateDataset"] := by decide

-- non-vacuity: a batch with a repeated id, an identical re-post, and a delete/un-delete flip
example : let e : Ent := ⟨1, false, [], "a", []⟩; let d : Ent := ⟨1, true, [], "a", []⟩
    let db := storeBatch (storeBatch {} 2 10 [e, e, d]) 2 20 [d, e]
    (listAll db 2) = [(1, e)] ∧ db.versions.length = 3 ∧ (listPage db 2 none 1).2 = some 1
    ∧ (listPage db 2 (some 1) 1) = ([], some 1) := by decide

end Hub.C01
