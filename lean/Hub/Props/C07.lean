import Hub.Model.Store
import Hub.Props.C19
import Hub.Generated.Gc
/-!
# C07 — deleting a dataset hides all its data everywhere, at once and for good

Property theorems only. Model: `Hub/Model/Store.lean` (`markDeleted`, `eraseDs`, `gc`), registry:
`Hub/Model/Registry.lean` (fresh ids: `Hub.C19.fresh_ids`).
-/
namespace Hub.C07
open Hub.Store

/-- what lookups look at after deleting dataset `d` = what they look at when every key of `d` is
erased: for every entity, instant and scope. -/
theorem delete_hides_lookup (db : DB) (d rid at_ : Nat) (scope : List Nat) :
    visibleVersions (markDeleted db d) rid at_ scope = visibleVersions (eraseDs db [d]) rid at_ scope := by
  unfold visibleVersions markDeleted eraseDs
  simp only [List.filter_filter]
  congr 1
  apply List.filter_congr
  intro v _
  by_cases hv : v.1.ds = d <;> simp [hv, Bool.and_comm, Bool.and_left_comm]

/-- T-C07-1 (delete hides, lookups and outgoing queries): after `DeleteDataset d` every as-of
lookup and every outgoing relationship query — any instant, scope, limit, continuation — answers
exactly as if all keys of `d` had been erased. -/
theorem delete_hides_partials (db : DB) (d rid at_ : Nat) (scope : List Nat) :
    partialsAt (markDeleted db d) rid at_ scope = partialsAt (eraseDs db [d]) rid at_ scope := by
  unfold partialsAt; rw [delete_hides_lookup]

theorem delete_hides_outgoing (db : DB) (d src pred at_ limit : Nat) (scope : List Nat) (sk : Option RefKey)
    (hd : db.deletedDs.contains d = false) :
    (relatedOut (markDeleted db d) src pred at_ limit scope sk).1
      = (relatedOut { eraseDs db [d] with deletedDs := d :: db.deletedDs } src pred at_ limit scope sk).1 := by
  have hstep : outStep (markDeleted db d) scope pred at_ limit sk
      = outStep { eraseDs db [d] with deletedDs := d :: db.deletedDs } scope pred at_ limit sk := by
    funext s k; simp only [outStep, inScope, markDeleted, eraseDs]
  have _ := hd
  unfold relatedOut
  simp only [hstep]
  congr 3
  simp only [markDeleted, eraseDs, List.filter_filter, inScope]
  apply List.filter_congr
  intro r _
  by_cases hr : r.ds = d <;> simp [hr, Bool.and_comm, Bool.and_left_comm]

/-- T-C07-2 (GC is exact): garbage collection removes, from each of the five key families, exactly
the keys whose dataset id is in the deleted set — no key of any other dataset. -/
theorem gc_exact (db : DB) :
    (∀ v, v ∈ (gc db).versions ↔ v ∈ db.versions ∧ v.1.ds ∉ db.deletedDs)
    ∧ (∀ c, c ∈ (gc db).changes ↔ c ∈ db.changes ∧ c.1 ∉ db.deletedDs)
    ∧ (∀ l, l ∈ (gc db).latest ↔ l ∈ db.latest ∧ l.1.1 ∉ db.deletedDs)
    ∧ (∀ r, r ∈ (gc db).refs ↔ r ∈ db.refs ∧ r.ds ∉ db.deletedDs) := by
  simp [gc, eraseDs, List.mem_filter]

/-- GC changes no observation: lookups already filter deleted datasets. -/
theorem gc_invisible_lookup (db : DB) (rid at_ : Nat) (scope : List Nat) :
    visibleVersions (gc db) rid at_ scope = visibleVersions db rid at_ scope := by
  unfold visibleVersions gc eraseDs
  simp only [List.filter_filter]
  congr 1
  apply List.filter_congr
  intro v _
  by_cases hv : v.1.ds ∈ db.deletedDs <;> simp [hv]

/-- T-C07-5 (other datasets are unaffected): a lookup scoped to datasets other than `d` does not
change when `d` is deleted (or its keys erased). -/
theorem others_unaffected (db : DB) (d rid at_ : Nat) (scope : List Nat) (hs : scope ≠ []) (hd : d ∉ scope) :
    visibleVersions (markDeleted db d) rid at_ scope = visibleVersions db rid at_ scope := by
  simp only [visibleVersions, markDeleted]
  congr 1
  apply List.filter_congr
  intro v _
  have hne : scope.isEmpty = false := by cases scope <;> simp_all
  by_cases hv : v.1.ds = d
  · have hn : v.1.ds ∉ scope := by rw [hv]; exact hd
    simp [hne, hn]
  · simp [hv, List.contains_cons]

/-! ## tie to the Go source (regenerated facts) -/
open Hub.Facts.Gc in
theorem facts_shape :
    gcSelectors = ["EntityIDToJSONIndexID:binary.BigEndian.Uint32(key[10:])", "DatasetEntityChangeLog:prefix6:deletedDsID",
        "DatasetLatestEntities:prefix6:deletedDsID", "OutgoingRefIndex:binary.BigEndian.Uint32(key[36:])",
        "IncomingRefIndex:binary.BigEndian.Uint32(key[36:])"]
    ∧ deleteSteps = ["dsm.store.datasets.Delete", "dsm.store.datasetsByInternalID.Delete", "dsm.store.deleteValueAndStoreObject", "dsm.storeEntity"]
    ∧ createSteps = ["dsm.store.storeValue", "dsm.store.storeValue", "dsm.store.datasets.Store", "dsm.store.datasetsByInternalID.Store", "dsm.storeEntity"]
    ∧ createFirstStore = "StoreNextDatasetIDBytes"
    ∧ renameSteps = ["dsm.store.moveValue", "dsm.store.datasets.Delete", "dsm.store.datasets.Store", "dsm.store.datasetsByInternalID.Store", "dsm.storeEntity", "dsm.storeEntity"]
    ∧ lookupDeletedFilter = ["at < recordedTime", "datasetDeleted || !datasetIncluded"]
    ∧ relatedDeletedFilter = ["s.deletedDatasets[datasetID] || !datasetIncluded", "s.deletedDatasets[datasetID] || !datasetIncluded"] := by decide

-- non-vacuity: data of a deleted dataset is gone from unscoped lookups, other datasets stay
example : let e : Ent := ⟨1, false, [(5, 2)], "a", []⟩
    let db := storeBatch (storeBatch {} 2 10 [e]) 3 20 [e]
    (partialsAt (markDeleted db 2) 1 99 []).1.length = 1 ∧ (partialsAt db 1 99 []).1.length = 2
    ∧ (gc (markDeleted db 2)).versions.length = 1
    ∧ (relatedOut (markDeleted db 3) 1 0 99 0 [] none).1 = [⟨5, 2, 2, 10⟩] := by decide

end Hub.C07
