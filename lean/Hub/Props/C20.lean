import Hub.Model.Backup
import Hub.Proofs.Backup
import Hub.Generated.BackupFacts
/-!
# C20 — a backup contains everything committed before it ran

Property theorems only. Model: `Hub/Model/Backup.lean` (badger as a versioned log).
-/
namespace Hub.C20
open Hub.Backup

/-- the cursor never moves backwards, whatever the log looks like (an empty dump reports 0). -/
theorem cursor_monotone (m : Mgr) (l : Log) : m.cursor ≤ (run m l).cursor := by
  unfold run; simp only; split <;> omega

/-- a run only appends to the backup file (an existing file is never truncated or rewritten). -/
theorem run_appends (m : Mgr) (l : Log) : ∃ d, (run m l).file = m.file ++ d := ⟨_, rfl⟩

/-- what a run appends are genuine entries of the log at or after the cursor, each the newest of
its key — and every such entry is appended. -/
theorem dump_exact (l : Log) (since : Nat) (v : Nat) (e : Entry) :
    (v, e) ∈ backup l since ↔ (since ≤ v ∧ l[v]? = some e ∧ isNewest l v e = true) :=
  ⟨dump_sound l since v e, fun ⟨hs, hv, hn⟩ => dump_complete l since v e hv hs hn⟩

/-- **the property**: take backups at arbitrary points of an arbitrary history (`ds` are the writes —
stores, overwrites, deletes — between consecutive runs, any number of runs, any of them empty);
restoring the backup file gives, for every key, exactly the value committed before the last run
started: nothing missing, nothing stale, deletes included. -/
theorem restore_eq_snapshot (ds : List Log) (k : Nat) :
    loadOf (runs {} [] ds).1.file k = stateOf (runs {} [] ds).2 k :=
  let h := inv_runs ds {} [] inv_init
  restore_of_sound_full _ _ h.sound h.full k

/-- the same from any state in which the file is sound and full for what has been written so far
(e.g. after a restart of the hub: cursor and file are read back from the backup location). -/
theorem restore_after_more_runs (m : Mgr) (l : Log) (h : Inv m l) (ds : List Log) (k : Nat) :
    loadOf (runs m l ds).1.file k = stateOf (runs m l ds).2 k :=
  let h' := inv_runs ds m l h
  restore_of_sound_full _ _ h'.sound h'.full k

/-- a cursor that moved backwards (or was lost: the pre-fix behaviour wrote it under a different name
than it was read from) only makes the next increment larger; a cursor AHEAD of what the file holds
loses data — shown on a concrete history. -/
theorem cursor_ahead_loses_data :
    let l : Log := [(1, some 10), (2, some 20)]
    let m : Mgr := { file := [], cursor := 1 }
    loadOf (run m l).file 1 ≠ stateOf l 1 := by decide

/-- **commits while a run is streaming**: a run dumps the snapshot taken when it started (`l ++ d1`) and moves the cursor to
the largest version it wrote; whatever is committed while it streams (`d2`) has larger versions and is picked up by the next
run — after that run the restored hub equals the source as it stood when that run started. -/
theorem overlapped_then_quiet (m : Mgr) (l : Log) (h : Inv m l) (d1 d2 : Log) (k : Nat) :
    loadOf (run (run m (l ++ d1)) (l ++ d1 ++ d2)).file k = stateOf (l ++ d1 ++ d2) k :=
  let h1 := inv_run m l d1 h
  let h2 := inv_run _ (l ++ d1) d2 h1
  restore_of_sound_full _ _ h2.sound h2.full k

/-- a run that streams the snapshot `snap` but takes its cursor from the database's newest version when it returns
(the log has grown to `full` by then) — NOT what the code does. -/
def runCursorFromDb (m : Mgr) (snap full : Log) : Mgr :=
  { file := m.file ++ backup snap m.cursor, cursor := full.length - 1 }

/-- why the cursor must come from the dump: with the cursor taken from the database, a key committed while the run streamed
is in no dump — the next (quiet) run starts behind it. -/
theorem cursor_from_db_loses_overlapped_commit :
    let snap : Log := [(1, some 10)]
    let full : Log := [(1, some 10), (2, some 20), (3, some 30)]
    let m := run (runCursorFromDb {} snap full) full
    loadOf m.file 2 ≠ stateOf full 2 ∧ loadOf (run (run {} snap) full).file 2 = stateOf full 2 := by decide

/-! ## tie to the Go source (regenerated facts) -/
open Hub.Facts.BackupFacts in
theorem facts_shape :
    openMode = ["os.OpenFile(backupFilename, os.O_APPEND|os.O_WRONLY|os.O_CREATE, 0o600)"]
    ∧ backupCall = ["backupManager.store.database.Backup(file, backupManager.lastID)"]
    ∧ cursorUpdate = ["since > backupManager.lastID"]
    ∧ cursorFiles = ["StoreLastID:\"datahub-backup.lastseen\"", "LoadLastID:\"datahub-backup.lastseen\""]
    ∧ cursorEncoding = ["binary.LittleEndian.PutUint64(data, backupManager.lastID)", "binary.LittleEndian.Uint64(data)"]
    ∧ errorsChecked = 2
    ∧ locationGuard = ["else(backupManager.validLocation())"]
    ∧ idCompare = "return dhID == buDhID" := by decide

-- two runs with writes, a delete and an overwrite in between: the restored state is the state at
-- the start of the last run (a test of the model, the unbounded statement is validated by the
-- correspondence: real BackupManager.Run + badger Load compared with the snapshot)
example :
    let l1 : Log := [(1, some 10), (2, some 20), (1, some 11)]
    let l2 : Log := l1 ++ [(2, none), (3, some 30), (1, some 12)]
    let m1 := run {} l1
    let m2 := run m1 l2
    (∀ k ∈ [1, 2, 3, 4], loadOf m1.file k = stateOf l1 k) ∧ (∀ k ∈ [1, 2, 3, 4], loadOf m2.file k = stateOf l2 k)
    ∧ m1.cursor = 2 ∧ m2.cursor = 5 ∧ (run m2 l2).cursor = 5 := by decide

end Hub.C20
