import Hub.Proofs.IdTxn
import Hub.Generated.IdTxn
/-!
# Identifiers under concurrent writers (C13 race-free identifiers; C04 acknowledged ⇒ identifiers durable;
C05 writers serialise on the identifier transaction)

Property theorems about `Hub.IdTxn`: every interleaving of any number of writers, rejected batches and
process deaths, at the granularity of the two critical sections the code has (`assertIDForURI`,
`commitIDTxn`, both under `idmux`). The tie to the source is `facts_shape` below plus the forced schedules
of the correspondence check (`store-c05`: a second writer started at every point around these sections).
-/
namespace Hub.IdTxnProps
open Hub.IdTxn

/-- **acknowledged ⇒ durable**: whatever the other writers do, and whenever the process dies, the identifiers an
acknowledged batch refers to are in the durable identifier table. -/
theorem acked_ids_durable (l : List Step) :
    ∀ x ∈ (run false {} l).ws, x.pc = .acked → ∀ p ∈ x.mine, p ∈ (run false {} l).durable :=
  fun x hx hp p hpm => (inv_run l {} inv_init).safe x hx (.inr hp) p hpm

/-- **one identifier per URI, race-free**: at every moment the identifier table (committed and uncommitted part
together) is a function and injective, and any two writers that are still alive agree on the identifier of every
URI both have drawn — so two racing batches that introduce the same URI store it under one identifier. -/
theorem one_id_per_uri (l : List Step) :
    let s := run false {} l
    (∀ p ∈ s.pending ++ s.durable, ∀ q ∈ s.pending ++ s.durable, p.1 = q.1 ↔ p.2 = q.2)
    ∧ (∀ x ∈ s.ws, ∀ y ∈ s.ws, x.pc ≠ .gone → y.pc ≠ .gone → ∀ p ∈ x.mine, ∀ q ∈ y.mine, p.1 = q.1 → p.2 = q.2) := by
  intro s
  have h := inv_run l {} inv_init
  refine ⟨fun p hp q hq => ⟨h.func p hp q hq, h.inj p hp q hq⟩, ?_⟩
  intro x hx y hy hxg hyg p hp q hq hpq
  have mem : ∀ z ∈ s.ws, z.pc ≠ .gone → ∀ r ∈ z.mine, r ∈ s.pending ++ s.durable := by
    intro z hz hzg r hr
    cases hpc : z.pc with
    | filling => exact List.mem_append.2 (h.filling z hz hpc r hr)
    | idsCommitted => exact List.mem_append_right _ (h.safe z hz (.inl hpc) r hr)
    | acked => exact List.mem_append_right _ (h.safe z hz (.inr hpc) r hr)
    | gone => exact absurd hpc hzg
  exact h.func p (mem x hx hxg p hp) q (mem y hy hyg q hq) hpq

/-- identifiers are never reused, also across process deaths (the sequence only moves forward). -/
theorem ids_below_next (l : List Step) : ∀ p ∈ (run false {} l).pending ++ (run false {} l).durable, p.2 < (run false {} l).next :=
  (inv_run l {} inv_init).below

-- non-vacuity: two writers introduce URI 7 concurrently, writer 1 commits the shared transaction, both are acknowledged
example : let s := run false {} [.start, .start, .assign 0 7, .assign 1 7, .assign 1 8, .commitIds 1, .commitData 1, .commitIds 0, .commitData 0]
    s.ws.map (·.pc) = [.acked, .acked] ∧ s.durable = [(8, 2), (7, 1)] ∧ s.ws.map (·.mine) = [[(7, 1)], [(8, 2), (7, 1)]] := by decide

-- why a rejected batch must leave the rolling transaction alone: if it were discarded, the other writer's
-- identifiers would be gone although its batch is acknowledged (the model of a seeded change)
example : let s := run true {} [.start, .start, .assign 0 7, .assign 1 9, .reject 1, .commitIds 0, .commitData 0]
    s.ws.map (·.pc) = [.acked, .gone] ∧ (7, 1) ∉ s.durable := by decide

/-! ## tie to the Go source (regenerated facts) -/
open Hub.Facts.IdTxn in
set_option maxRecDepth 8000 in
/-- Only `assertIDForURI` and `commitIDTxn` touch the rolling transaction, both between `idmux.Lock` and the deferred
`Unlock`, both on the owner's transaction (one per database: a contextual store shares its owner's, together with the mutex
and the sequence); look-up precedes assignment inside one critical section; commit and reset are in one critical section;
the writers call `commitIDTxn` after filling and before `txn.Commit`, each followed by an error return. -/
theorem facts_shape :
    users = [".NewContextualStore:idmux", ".NewContextualStore:init-idmux", ".NewStore:init-idmux", "Store.assertIDForURI:idmux", "Store.assertIDForURI:idtxn", "Store.commitIDTxn:idmux", "Store.commitIDTxn:idtxn"]
    ∧ skeleton_assert = ["set isnew = false", "if uri == \"\" {", "return", "}", "if exists {", "return", "}", "s.idmux.Lock", "defer {", "s.idmux.Unlock", "}", "set o = s.idTxnOwner()", "if o.idtxn == nil {", "s.database.NewTransaction", "set o.idtxn = s.database.NewTransaction()", "}", "o.idtxn.Get", "if err != nil {", "if err == badger.ErrKeyNotFound {", "s.idseq.Next", "o.idtxn.Set", "ret-on-err", "o.idtxn.Set", "ret-on-err", "set isnew = true", "}", "} else {", "func {", "return", "}", "ret-on-err", "}", "set localTxnCache[uri] = rid", "return"]
    ∧ skeleton_commit = ["s.idmux.Lock", "defer {", "s.idmux.Unlock", "}", "set o = s.idTxnOwner()", "if o.idtxn == nil {", "return", "}", "o.idtxn.Commit", "ret-on-err", "set o.idtxn = nil", "return"]
    ∧ owner = ["if s.idowner != nil { return s.idowner }", "return s"]
    ∧ ownerInit = ["idseq: store.idseq", "idowner: store.idTxnOwner()", "idmux: store.idmux"]
    ∧ writer_StoreEntities = ["if len(entities) == 0 {", "return", "}", "defer {", "txn.Discard", "}", "ds.StoreEntitiesWithTransaction", "ret-on-err", "ds.store.commitIDTxn", "ret-on-err", "txn.Commit", "ret-on-err", "ret-on-err", "return"]
    ∧ writer_ExecuteTransaction = ["for {", "if !ok {", "return", "}", "}", "defer {", "txn.Discard", "}", "for {", "ds.StoreEntitiesWithTransaction", "ret-on-err", "}", "s.commitIDTxn", "ret-on-err", "txn.Commit", "ret-on-err", "for {", "if !ok {", "return", "}", "ret-on-err", "}", "return"] := by decide

end Hub.IdTxnProps
