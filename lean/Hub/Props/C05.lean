import Hub.Proofs.Locks
import Hub.Model.LockOrder
import Hub.Generated.LockFacts
/-!
# C05 — concurrent writers serialize per dataset, are atomically visible, never deadlock

Property theorems only. Protocol: `Hub/Proofs/Locks.lean`; acquisition order: `Hub/Model/LockOrder.lean`.
-/
namespace Hub.C05
open Hub.Locks Hub.LockOrder

/-- T-C05-1 (ordered locking never deadlocks): any number of threads, any number of locks; if every
thread takes its locks in strictly ascending rank order then, as long as some thread is unfinished,
some thread can take a step. -/
theorem ordered_locking_no_deadlock (ts : List Thread) (hord : ∀ t ∈ ts, t.ordered)
    (hun : ∃ t ∈ ts, ¬ t.finished) : ∃ t ∈ ts, canStep ts t := progress ts hord hun

theorem insertSorted_sorted (x : Nat) : ∀ l : List Nat, l.Pairwise (· ≤ ·) → (insertSorted x l).Pairwise (· ≤ ·)
  | [], _ => by simp [insertSorted]
  | y :: ys, h => by
    simp only [insertSorted]
    split
    · rename_i hxy
      refine List.pairwise_cons.2 ⟨?_, h⟩
      intro z hz
      rcases List.mem_cons.1 hz with rfl | hz
      · exact hxy
      · exact Nat.le_trans hxy ((List.pairwise_cons.1 h).1 z hz)
    · rename_i hxy
      have ih := insertSorted_sorted x ys (List.pairwise_cons.1 h).2
      refine List.pairwise_cons.2 ⟨?_, ih⟩
      intro z hz
      have : z = x ∨ z ∈ ys := by
        clear ih h
        induction ys with
        | nil => simp [insertSorted] at hz; exact Or.inl hz
        | cons w ws ihw =>
          simp only [insertSorted] at hz
          split at hz
          · rcases List.mem_cons.1 hz with rfl | hz
            · exact Or.inl rfl
            · exact Or.inr hz
          · rcases List.mem_cons.1 hz with rfl | hz
            · exact Or.inr (by simp)
            · rcases ihw hz with h1 | h1
              · exact Or.inl h1
              · exact Or.inr (List.mem_cons_of_mem _ h1)
      rcases this with rfl | hz'
      · omega
      · exact (List.pairwise_cons.1 h).1 z hz'

theorem sortNat_sorted (l : List Nat) : (sortNat l).Pairwise (· ≤ ·) := by
  unfold sortNat
  suffices h : ∀ (l acc : List Nat), acc.Pairwise (· ≤ ·) → (l.foldl (fun acc x => insertSorted x acc) acc).Pairwise (· ≤ ·) from
    h l [] List.Pairwise.nil
  intro l
  induction l with
  | nil => intro acc h; exact h
  | cons x xs ih => intro acc h; exact ih _ (insertSorted_sorted x acc h)

/-- T-C05-2 (single-dataset and management operations take their locks in ascending rank). -/
theorem lockseq_ascending_simple (d : Nat) (hd : d < 999999) :
    ascending (lockSeq true (.store d)) ∧ ascending (lockSeq true .create) ∧ ascending (lockSeq true .delete)
    ∧ ascending (lockSeq true (.rename d)) := by
  simp [ascending, lockSeq, Lock.rank]; omega

/-- … and so does a transaction that sorts the datasets it names (two datasets: the ABBA case). -/
theorem lockseq_ascending_txn2 (a b : Nat) (hab : a ≠ b) (ha : a < 999999) (hb : b < 999999) :
    ascending (lockSeq true (.txn [a, b])) ∧ ascending (lockSeq true (.txn [b, a])) := by
  have key : ∀ x y : Nat, x ≠ y → x < 999999 → y < 999999 → ascending (lockSeq true (.txn [x, y])) := by
    intro x y hxy hx hy
    have hs : sortNat [x, y] = if y ≤ x then [y, x] else [x, y] := by
      simp [sortNat, insertSorted]
    simp only [ascending, lockSeq, if_true, hs]
    by_cases hle : y ≤ x
    · simp only [hle, if_true]
      simp [Lock.rank]; omega
    · simp only [hle, if_false]
      simp [Lock.rank]; omega
  exact ⟨key a b hab ha hb, key b a (fun e => hab e.symm) hb ha⟩

/-- without the sort (Go map iteration order) two transactions over {a, b} can take the locks in
opposite orders: the acquisition sequence of one of them is not ascending (D20, fixed). -/
theorem unsorted_txn_not_ascending : ¬ ascending (lockSeq false (.txn [2, 1])) := by
  simp [ascending, lockSeq, Lock.rank]

/-- a deadlocked state exists for two threads that take two locks in opposite orders. -/
theorem abba_deadlocks :
    let ts : List Thread := [⟨[1], [2]⟩, ⟨[2], [1]⟩]
    (∃ t ∈ ts, ¬ t.finished) ∧ ¬ ∃ t ∈ ts, canStep ts t := by
  refine ⟨⟨⟨[1], [2]⟩, by simp, by simp [Thread.finished]⟩, ?_⟩
  rintro ⟨t, ht, hc⟩
  simp only [List.mem_cons, List.mem_nil_iff, or_false] at ht
  rcases ht with rfl | rfl
  · rcases hc with ⟨h, _⟩ | ⟨l, rest, hl, hf⟩
    · simp at h
    · simp only [List.cons.injEq] at hl
      obtain ⟨rfl, _⟩ := hl
      exact hf ⟨[2], [1]⟩ (by simp) (by simp)
  · rcases hc with ⟨h, _⟩ | ⟨l, rest, hl, hf⟩
    · simp at h
    · simp only [List.cons.injEq] at hl
      obtain ⟨rfl, _⟩ := hl
      exact hf ⟨[1], [2]⟩ (by simp) (by simp)

/-! ## tie to the Go source (regenerated facts) -/
open Hub.Facts.LockFacts in
theorem facts_shape :
    txnLockLoop = "sorted" ∧ txnLocksBeforeTime = true ∧ txnUnlock = "deferred"
    -- core.Dataset is moved behind the sorted names (every writer takes its own dataset's lock first and core.Dataset's inside it)
    -- and its lock is given back after the data commit, before the transaction's own counter updates (defect D36 was the
    -- transaction waiting for itself there)
    ∧ txnCoreLock = ["datasetNames = append(datasetNames, k)", "if k == \"core.Dataset\"",
        "datasetNames = append(append(datasetNames[:i:i], datasetNames[i+1:]...), k)", "coreLocked := false", "if k == \"core.Dataset\"",
        "coreLocked = true", "if coreLocked", "if coreLocked", "datasets[\"core.Dataset\"].WriteLock.Unlock()", "coreLocked = false"]
    ∧ storeLock = ["ds.WriteLock.Lock()", "defer:ds.WriteLock.Unlock()"]
    ∧ dsmLocks = ["CreateDataset:dsm.lock.Lock()", "UpdateDataset:dsm.lock.Lock()", "UpdateDataset:ds.WriteLock.Lock()", "DeleteDataset:dsm.lock.Lock()"]
    ∧ idmuxLeaf = ["commitIDTxn:s.idmux.Lock()", "assertIDForURI:s.idmux.Lock()"]
    ∧ metaUpdateUnderLock = "updateDataset-before-unlock"
    ∧ renameLock = ["ds.WriteLock.Lock()", "defer ds.WriteLock.Unlock()", "rename-branch"]
    ∧ singleDataTxn = 1 := by decide

end Hub.C05
