import Hub.Proofs.Frame
import Hub.Generated.Layout
/-!
# C06 — history is immutable: answers pinned to a past instant never change

Property theorems only. Model: `Hub/Model/Store.lean`; frame lemmas: `Hub/Proofs/Frame.lean`.
-/
namespace Hub.C06
open Hub.Store Hub.Frame

/-- T-C06-1 (frame): a batch committed at time `t` changes no reference key of another time, adds
only version keys of time `t`, and leaves the set of deleted datasets alone. -/
theorem frame (db : DB) (ds t : Nat) (b : List Ent) (nw : List Nat := []) :
    (storeBatch db ds t b nw).refs.filter (fun r => decide (r.t ≠ t)) = db.refs.filter (fun r => decide (r.t ≠ t))
    ∧ (∃ new, (storeBatch db ds t b nw).versions = db.versions ++ new ∧ ∀ v ∈ new, v.1.t = t ∧ v.1.ds = ds)
    ∧ (storeBatch db ds t b nw).deletedDs = db.deletedDs :=
  writeFrom_frame db ds t nw b 0 (db, [])

/-- the same for a multi-dataset transaction. -/
theorem frame_txn (db : DB) (t : Nat) (parts : List (Nat × List Ent)) (nw : List Nat := []) :
    (execTxn db t parts nw).refs.filter (fun r => decide (r.t ≠ t)) = db.refs.filter (fun r => decide (r.t ≠ t))
    ∧ (∃ new, (execTxn db t parts nw).versions = db.versions ++ new ∧ ∀ v ∈ new, v.1.t = t)
    ∧ (execTxn db t parts nw).deletedDs = db.deletedDs := by
  unfold execTxn
  suffices h : ∀ (ps : List (Nat × List Ent)) (acc : DB),
      (ps.foldl (fun acc p => (writeFrom db p.1 t nw 0 p.2 (acc, [])).1) acc).refs.filter (fun r => decide (r.t ≠ t))
          = acc.refs.filter (fun r => decide (r.t ≠ t))
      ∧ (∃ new, (ps.foldl (fun acc p => (writeFrom db p.1 t nw 0 p.2 (acc, [])).1) acc).versions = acc.versions ++ new
            ∧ ∀ v ∈ new, v.1.t = t)
      ∧ (ps.foldl (fun acc p => (writeFrom db p.1 t nw 0 p.2 (acc, [])).1) acc).deletedDs = acc.deletedDs from h parts db
  intro ps
  induction ps with
  | nil => intro acc; exact ⟨rfl, ⟨[], by simp, by simp⟩, rfl⟩
  | cons p ps ih =>
    intro acc
    simp only [List.foldl_cons]
    obtain ⟨h1, ⟨n1, hv1, hn1⟩, hd1⟩ := writeFrom_frame db p.1 t nw p.2 0 (acc, [])
    obtain ⟨h2, ⟨n2, hv2, hn2⟩, hd2⟩ := ih (writeFrom db p.1 t nw 0 p.2 (acc, [])).1
    refine ⟨by rw [h2, h1], ⟨n1 ++ n2, by rw [hv2, hv1, List.append_assoc], ?_⟩, by rw [hd2, hd1]⟩
    intro v hv
    rcases List.mem_append.1 hv with hv | hv
    · exact (hn1 v hv).1
    · exact hn2 v hv

/-- T-C06-2 (lookups are local to the past): the versions an as-of lookup looks at depend only on
the version keys with time ≤ `at` and on the set of deleted datasets. -/
theorem visible_local (db db' : DB) (rid at_ : Nat) (scope : List Nat) (new : List (VKey × Ent))
    (hv : db'.versions = db.versions ++ new) (hn : ∀ v ∈ new, at_ < v.1.t) (hd : db'.deletedDs = db.deletedDs) :
    visibleVersions db' rid at_ scope = visibleVersions db rid at_ scope := by
  unfold visibleVersions
  rw [hv, hd, List.filter_append]
  have : new.filter (fun v => v.1.rid == rid && decide (v.1.t ≤ at_) && !db.deletedDs.contains v.1.ds
      && (scope.isEmpty || scope.contains v.1.ds)) = [] := by
    apply List.filter_eq_nil_iff.2
    intro v hvn
    have := hn v hvn
    have h2 : decide (v.1.t ≤ at_) = false := by simp; omega
    simp [h2]
  rw [this, List.append_nil]

/-- T-C06-3 (entity lookups are immutable): for every batch committed after `at`, into any
dataset, the as-of lookup at `at` — per-dataset partials, deleted flag — is what it was. By
induction the same holds for every suffix of later writes. -/
theorem lookup_immutable (db : DB) (ds t : Nat) (b : List Ent) (rid at_ : Nat) (scope : List Nat) (h : at_ < t) :
    partialsAt (storeBatch db ds t b) rid at_ scope = partialsAt db rid at_ scope := by
  obtain ⟨_, ⟨new, hv, hn⟩, hd⟩ := frame db ds t b
  unfold partialsAt
  rw [visible_local db _ rid at_ scope new hv (fun v hvn => by rw [(hn v hvn).1]; exact h) hd]

theorem lookup_immutable_txn (db : DB) (t : Nat) (parts : List (Nat × List Ent)) (rid at_ : Nat) (scope : List Nat)
    (h : at_ < t) : partialsAt (execTxn db t parts) rid at_ scope = partialsAt db rid at_ scope := by
  obtain ⟨_, ⟨new, hv, hn⟩, hd⟩ := frame_txn db t parts
  unfold partialsAt
  rw [visible_local db _ rid at_ scope new hv (fun v hvn => by rw [hn v hvn]; exact h) hd]

/-- a lookup exactly at a commit time already sees that commit (`at < recordedTime` skips, so
equality is included): the comparison operator comes from the regenerated facts. -/
theorem lookup_includes_commit_instant (db : DB) (v : VKey × Ent) (hv : v ∈ db.versions)
    (hd : db.deletedDs.contains v.1.ds = false) :
    v ∈ visibleVersions db v.1.rid v.1.t [] := by
  unfold visibleVersions
  have hm : v ∈ db.versions.filter (fun w => w.1.rid == v.1.rid && decide (w.1.t ≤ v.1.t) && !db.deletedDs.contains w.1.ds
      && (([] : List Nat).isEmpty || ([] : List Nat).contains w.1.ds)) := by
    apply List.mem_filter.2
    refine ⟨hv, ?_⟩
    simp only [beq_self_eq_true, Nat.le_refl, decide_true, hd, Bool.not_false, Bool.and_self, List.isEmpty_nil, Bool.true_or]
  -- sorting is a permutation
  have perm : ∀ (l : List (VKey × Ent)), v ∈ l → v ∈ sortBy (fun a b => a.1.lt b.1) l := by
    intro l
    have ins : ∀ (x : VKey × Ent) (acc : List (VKey × Ent)), (v ∈ insertBy (fun a b => a.1.lt b.1) x acc ↔ v = x ∨ v ∈ acc) := by
      intro x acc
      induction acc with
      | nil => simp [insertBy]
      | cons y ys ih =>
        simp only [insertBy]
        split
        · simp
        · simp only [List.mem_cons, ih]
          constructor
          · rintro (h | h | h)
            · exact Or.inr (Or.inl h)
            · exact Or.inl h
            · exact Or.inr (Or.inr h)
          · rintro (h | h | h)
            · exact Or.inr (Or.inl h)
            · exact Or.inl h
            · exact Or.inr (Or.inr h)
    unfold sortBy
    suffices h : ∀ (l acc : List (VKey × Ent)), (v ∈ l ∨ v ∈ acc) → v ∈ l.foldl (fun acc x => insertBy (fun a b => a.1.lt b.1) x acc) acc from
      fun hl => h l [] (Or.inl hl)
    intro l
    induction l with
    | nil => intro acc h; simpa using h
    | cons x xs ih =>
      intro acc h
      simp only [List.foldl_cons]
      apply ih
      rcases h with h | h
      · rcases List.mem_cons.1 h with h | h
        · exact Or.inr ((ins x acc).2 (Or.inl h))
        · exact Or.inl h
      · exact Or.inr ((ins x acc).2 (Or.inr h))
  exact perm _ hm

/-! ### relationship queries -/

/-- T-C06-2' (outgoing queries are local to the past): the outgoing scan pinned to `at` only
depends on the reference keys with time ≤ `at` (and on the set of deleted datasets). -/
theorem relatedOut_local (db db' : DB) (src pred at_ limit : Nat) (scope : List Nat) (sk : Option RefKey)
    (hr : db'.refs.filter (fun r => decide (r.t ≤ at_)) = db.refs.filter (fun r => decide (r.t ≤ at_)))
    (hd : db'.deletedDs = db.deletedDs) :
    relatedOut db' src pred at_ limit scope sk = relatedOut db src pred at_ limit scope sk := by
  have hstep : outStep db' scope pred at_ limit sk = outStep db scope pred at_ limit sk := by
    funext s k; simp only [outStep, inScope, hd]
  have hscope : (fun r : RefKey => inScope db' scope r.ds) = (fun r : RefKey => inScope db scope r.ds) := by
    funext r; simp only [inScope, hd]
  unfold relatedOut
  simp only [hr, hstep, hscope]

/-- T-C06-3' (outgoing relationship queries are immutable): for every batch committed after `at`
the outgoing query pinned to `at` — results and continuation, for every limit and every
continuation key — is what it was. -/
theorem relatedOut_immutable (db : DB) (ds t : Nat) (b : List Ent) (src pred at_ limit : Nat) (scope : List Nat)
    (sk : Option RefKey) (h : at_ < t) :
    relatedOut (storeBatch db ds t b) src pred at_ limit scope sk = relatedOut db src pred at_ limit scope sk := by
  obtain ⟨hf, _, hd⟩ := frame db ds t b
  apply relatedOut_local _ _ _ _ _ _ _ _ _ hd
  have key : ∀ rs : List RefKey, rs.filter (fun r => decide (r.t ≤ at_))
      = (rs.filter (fun r => decide (r.t ≠ t))).filter (fun r => decide (r.t ≤ at_)) := by
    intro rs
    rw [List.filter_filter]
    apply List.filter_congr
    intro r _
    by_cases hr : r.t ≤ at_
    · have : r.t ≠ t := by omega
      simp [hr, this]
    · simp [hr]
  rw [key, hf, ← key]

/-- the same for a multi-dataset transaction committed after `at`. -/
theorem relatedOut_immutable_txn (db : DB) (t : Nat) (parts : List (Nat × List Ent)) (src pred at_ limit : Nat)
    (scope : List Nat) (sk : Option RefKey) (h : at_ < t) :
    relatedOut (execTxn db t parts) src pred at_ limit scope sk = relatedOut db src pred at_ limit scope sk := by
  obtain ⟨hf, _, hd⟩ := frame_txn db t parts
  apply relatedOut_local _ _ _ _ _ _ _ _ _ hd
  have key : ∀ rs : List RefKey, rs.filter (fun r => decide (r.t ≤ at_))
      = (rs.filter (fun r => decide (r.t ≠ t))).filter (fun r => decide (r.t ≤ at_)) := by
    intro rs
    rw [List.filter_filter]
    apply List.filter_congr
    intro r _
    by_cases hr : r.t ≤ at_
    · have : r.t ≠ t := by omega
      simp [hr, this]
    · simp [hr]
  rw [key, hf, ← key]

/-! ### every later history -/

/-- a later write: a batch into one dataset, or a transaction over several. -/
inductive Write where
  | batch (ds t : Nat) (b : List Ent)
  | txn (t : Nat) (parts : List (Nat × List Ent))

def Write.time : Write → Nat
  | .batch _ t _ => t
  | .txn t _ => t

def Write.apply (db : DB) : Write → DB
  | .batch ds t b => storeBatch db ds t b
  | .txn t parts => execTxn db t parts

/-- T-C06-4 (history is immutable, every suffix): whatever is written after the instant `at` — any number of batches and
transactions, into any datasets, in any order, each committed later than `at` — an entity lookup pinned to `at` (live
partials and deleted flag, any scope) and an outgoing relationship query pinned to `at` (results and continuation, any
limit, predicate, scope and continuation key) answer exactly what they answered before. -/
theorem history_immutable (db : DB) (ws : List Write) (at_ : Nat) (h : ∀ w ∈ ws, at_ < w.time) :
    (∀ rid scope, partialsAt (ws.foldl Write.apply db) rid at_ scope = partialsAt db rid at_ scope)
    ∧ (∀ src pred limit scope sk,
        relatedOut (ws.foldl Write.apply db) src pred at_ limit scope sk = relatedOut db src pred at_ limit scope sk) := by
  induction ws generalizing db with
  | nil => exact ⟨fun _ _ => rfl, fun _ _ _ _ _ => rfl⟩
  | cons w ws ih =>
    have hw : at_ < w.time := h w (List.mem_cons_self ..)
    obtain ⟨ih1, ih2⟩ := ih (Write.apply db w) (fun w' hw' => h w' (List.mem_cons_of_mem _ hw'))
    simp only [List.foldl_cons]
    constructor
    · intro rid scope
      rw [ih1]
      cases w with
      | batch ds t b => exact lookup_immutable db ds t b rid at_ scope hw
      | txn t parts => exact lookup_immutable_txn db t parts rid at_ scope hw
    · intro src pred limit scope sk
      rw [ih2]
      cases w with
      | batch ds t b => exact relatedOut_immutable db ds t b src pred at_ limit scope sk hw
      | txn t parts => exact relatedOut_immutable_txn db t parts src pred at_ limit scope sk hw

-- non-vacuity: two later writes (a batch that deletes the entity, a transaction that re-creates it) leave the lookup at 15 alone
example : let a : Ent := ⟨1, false, [], "1", []⟩; let d : Ent := ⟨1, true, [], "1", []⟩
    let db := storeBatch {} 2 10 [a]
    let ws := [Write.batch 2 20 [d], Write.txn 30 [(2, [a]), (3, [a])]]
    (∀ w ∈ ws, 15 < w.time) ∧ (partialsAt (ws.foldl Write.apply db) 1 15 []).1.map (·.1.t) = [10]
    ∧ (partialsAt (ws.foldl Write.apply db) 1 25 []).1.map (·.1.t) = [] := by decide

/-! ## tie to the Go source (regenerated facts) -/
open Hub.Facts.Layout in
theorem facts_shape :
    lookupTimeSkip = ["at < recordedTime", "datasetDeleted || !datasetIncluded"]
    ∧ lookupReads = ["binary.BigEndian.Uint64(key[14:])", "binary.BigEndian.Uint32(key[10:])"]
    ∧ entityKey = [("EntityIDToJSONIndexID", 0, 16), ("rid", 2, 64), ("ds.InternalID", 10, 32), ("uint64(txnTime)", 14, 64), ("uint16(batchSeqNum)", 22, 16)]
    ∧ relatedSkips = ["from.Inverse", "else(from.Inverse)", "s.deletedDatasets[datasetID] || !datasetIncluded", "et > from.At",
        "from.Predicate != predID && from.Predicate > 0", "s.deletedDatasets[datasetID] || !datasetIncluded", "et > from.At",
        "from.Predicate != predID && from.Predicate > 0", "dsSeen || isAdded"]
    ∧ storeSteps = ["ds.WriteLock.Lock", "time.Sleep", "time.Now().UnixNano", "ds.StoreEntitiesWithTransaction", "ds.store.commitIDTxn", "txn.Commit", "ds.updateDataset"]
    ∧ txnSteps = ["sort.Strings", "dataset.(*Dataset).WriteLock.Lock", "time.Now().UnixNano", "ds.StoreEntitiesWithTransaction", "s.commitIDTxn", "txn.Commit", "ds.(*Dataset).updateDataset"] := by decide

-- non-vacuity: a later write does not change a pinned lookup, an earlier instant does not see it
example : let e1 : Ent := ⟨1, false, [(5, 2)], "a", []⟩; let e1' : Ent := ⟨1, true, [], "b", []⟩
    let db := storeBatch {} 2 10 [e1]; let db' := storeBatch db 2 20 [e1']
    partialsAt db' 1 15 [] = partialsAt db 1 15 [] ∧ (partialsAt db' 1 15 []).1.length = 1
    ∧ (partialsAt db' 1 25 []).1.length = 0
    ∧ (relatedOut db' 1 0 15 0 [] none).1 = [⟨5, 2, 2, 10⟩] ∧ (relatedOut db' 1 0 25 0 [] none).1 = [] := by decide

end Hub.C06
