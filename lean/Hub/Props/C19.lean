import Hub.Proofs.StoreInv
import Hub.Proofs.TxnRefine
import Hub.Model.Registry
import Hub.Generated.Layout
import Hub.Generated.LockFacts
/-!
# C19 — dataset catalogue, core.Dataset and the datasets themselves agree

Property theorems only. Counter: `Hub/Proofs/StoreInv.lean`; catalogue: `Hub/Model/Registry.lean`.
-/
namespace Hub.C19
open Hub.Store Hub.StoreInv Hub.Registry

/-- T-C19-2 (items = number of distinct ids ever stored): in every state reached through the write
path the counter of a dataset is the length of a duplicate-free enumeration of exactly the ids that
have at least one version there — for batches and transactions, repeated and re-stored ids. -/
theorem items_eq_distinct {db : DB} {S : Spec} (h : Inv db S) (ds : Nat) :
    db.itemsOf ds = (S.ids ds).length ∧ (S.ids ds).Nodup ∧ ∀ id, id ∈ S.ids ds ↔ S.vers ds id ≠ [] :=
  ⟨h.c.items ds, h.c.nodup ds, h.c.mem ds⟩

open Hub.TxnRefine in
/-- T-C19-2b (every history, transactions included): from the empty store, after any history of batches and multi-dataset
transactions with increasing commit times, the counter of every dataset is the number of distinct ids that have at least one
version there. -/
theorem items_reachable (h : List (Nat × List (Nat × List Ent))) (hinc : h.Pairwise (fun a b => a.1 < b.1))
    (hd : ∀ w ∈ h, (w.2.map (·.1)).Nodup) (ds : Nat) :
    (runTxns h {}).itemsOf ds = ((specTxns h {}).ids ds).length ∧ ((specTxns h {}).ids ds).Nodup
    ∧ ∀ id, id ∈ (specTxns h {}).ids ds ↔ (specTxns h {}).vers ds id ≠ [] :=
  items_eq_distinct (txns_refine h {} {} inv_empty (by intro v hv; simp at hv) hinc hd) ds

-- non-vacuity: entity 1 stored twice in dataset 2 (once in a transaction that also creates it in dataset 3): one item each
open Hub.TxnRefine in
example : let e : Ent := ⟨1, false, [], "a", []⟩; let d : Ent := ⟨1, true, [], "a", []⟩
    let h := [(10, [(2, [e])]), (20, [(2, [d, e]), (3, [e, e])])]
    (runTxns h {}).itemsOf 2 = 1 ∧ (runTxns h {}).itemsOf 3 = 1 := by decide

/-- the counter moves by exactly the number of ids whose first ever version is in the batch. -/
theorem items_step (S : Spec) (ds t i : Nat) (e : Ent) :
    ((specOne ds t S (i, e)).ids ds).length = (S.ids ds).length + (if S.vers ds e.rid = [] then 1 else 0) := by
  unfold specOne specCount
  by_cases h : S.vers ds e.rid = []
  · have h2 : ¬ lastEnt ([] : List SVer) = some e := by simp [lastEnt]
    simp [h, h2, specAppend]
  · by_cases h2 : lastEnt (S.vers ds e.rid) = some e <;> simp [h, h2, specAppend]

/-! ### catalogue -/

structure RInv (r : Reg) : Prop where
  liveMeta : ∀ n, (r.live.lookup n).isSome ↔ r.metas.lookup n = some false
  idsBelow : ∀ p ∈ r.live, p.2 < r.nextId
  delBelow : ∀ d ∈ r.deleted, d < r.nextId
  liveNotDeleted : ∀ p ∈ r.live, p.2 ∉ r.deleted
  namesNodup : (r.live.map (·.1)).Nodup
  idsNodup : (r.live.map (·.2)).Nodup

theorem lookup_setMeta (n : String) (d : Bool) (m : List (String × Bool)) (x : String) :
    (setMeta n d m).lookup x = if x = n then some d else m.lookup x := by
  unfold setMeta
  by_cases h : x = n
  · subst h; simp [List.lookup]
  · have h1 : (x == n) = false := by simpa using h
    simp only [List.lookup, h1, h, if_false]
    induction m with
    | nil => rfl
    | cons y ys ih =>
      simp only [List.filter_cons]
      by_cases hy : y.1 = n
      · have : (y.1 != n) = false := by simp [hy]
        have hxy : (x == y.1) = false := by simpa [hy] using h
        simp [this, List.lookup, hxy, ih]
      · have : (y.1 != n) = true := by simpa using hy
        simp only [this, if_true, List.lookup]
        split <;> simp_all

theorem lookup_filter_ne (l : List (String × Nat)) (n x : String) :
    (l.filter (·.1 != n)).lookup x = if x = n then none else l.lookup x := by
  induction l with
  | nil => simp
  | cons y ys ih =>
    simp only [List.filter_cons]
    by_cases hy : y.1 = n
    · have : (y.1 != n) = false := by simp [hy]
      simp only [this, Bool.false_eq_true, if_false, ih, List.lookup]
      by_cases hx : x = n
      · simp [hx]
      · have : (x == y.1) = false := by simpa [hy] using hx
        simp [hx, this]
    · have : (y.1 != n) = true := by simpa using hy
      simp only [this, if_true, List.lookup, ih]
      by_cases hx : x = n
      · subst hx
        have : (x == y.1) = false := by simpa using fun e => hy e.symm
        simp [this]
      · simp [hx]

theorem mem_of_lookupSN : ∀ (l : List (String × Nat)) (k : String) (v : Nat), l.lookup k = some v → (k, v) ∈ l
  | [], _, _, h => by simp at h
  | (k', v') :: rest, k, v, h => by
    simp only [List.lookup] at h
    by_cases hk : k = k'
    · subst hk; simp at h; subst h; simp
    · have : (k == k') = false := by simpa using hk
      rw [this] at h
      exact List.mem_cons_of_mem _ (mem_of_lookupSN rest k v h)

theorem eq_of_same_id {l : List (String × Nat)} (h : (l.map (·.2)).Nodup) {p q : String × Nat}
    (hp : p ∈ l) (hq : q ∈ l) (hid : p.2 = q.2) : p = q := by
  induction l with
  | nil => simp at hp
  | cons y ys ih =>
    simp only [List.map_cons, List.nodup_cons] at h
    rcases List.mem_cons.1 hp with rfl | hp' <;> rcases List.mem_cons.1 hq with rfl | hq'
    · rfl
    · exact absurd (List.mem_map.2 ⟨q, hq', hid.symm⟩) h.1
    · exact absurd (List.mem_map.2 ⟨p, hp', hid⟩) h.1
    · exact ih h.2 hp' hq'

theorem rinv_init : RInv {} := ⟨by intro n; simp, by simp, by simp, by simp, by simp, by simp⟩

theorem rinv_step {r : Reg} (h : RInv r) (op : Op) : RInv (step r op) := by
  cases op with
  | create n =>
    simp only [step]
    split
    · exact h
    · rename_i hn
      have hnone : r.live.lookup n = none := by
        cases hh : r.live.lookup n with
        | none => rfl
        | some v => exact absurd (by simp [hh]) hn
      refine ⟨?_, ?_, ?_, ?_, ?_, ?_⟩
      · intro x
        simp only [List.lookup, lookup_setMeta]
        by_cases hx : x = n
        · subst hx; simp
        · have : (x == n) = false := by simpa using hx
          simp [this, hx, h.liveMeta x]
      · intro p hp
        simp only [List.mem_cons] at hp
        rcases hp with rfl | hp
        · simp
        · have := h.idsBelow p hp; simp only; omega
      · intro d hd; have := h.delBelow d hd; simp only; omega
      · intro p hp
        simp only [List.mem_cons] at hp
        rcases hp with rfl | hp
        · intro hd; have := h.delBelow _ hd; simp at this
        · exact h.liveNotDeleted p hp
      · simp only [List.map_cons, List.nodup_cons]
        refine ⟨?_, h.namesNodup⟩
        intro hm
        obtain ⟨p, hp, hpn⟩ := List.mem_map.1 hm
        have : r.live.lookup p.1 = some p.2 := StoreInv.lookup_of_mem_nodup r.live h.namesNodup hp
        rw [hpn, hnone] at this; cases this
      · simp only [List.map_cons, List.nodup_cons]
        refine ⟨?_, h.idsNodup⟩
        intro hm
        obtain ⟨p, hp, hpn⟩ := List.mem_map.1 hm
        have h1 := h.idsBelow p hp
        have h2 : p.2 = r.nextId := hpn
        omega
  | delete n =>
    simp only [step]
    cases hl : r.live.lookup n with
    | none => exact h
    | some id =>
      simp only
      have hm : (n, id) ∈ r.live := mem_of_lookupSN _ _ _ hl
      refine ⟨?_, ?_, ?_, ?_, ?_, ?_⟩
      · intro x
        rw [lookup_filter_ne, lookup_setMeta]
        by_cases hx : x = n
        · simp [hx]
        · simp [hx, h.liveMeta x]
      · intro p hp; exact h.idsBelow p (List.mem_filter.1 hp).1
      · intro d hd
        simp only [List.mem_cons] at hd
        rcases hd with rfl | hd
        · exact h.idsBelow _ hm
        · exact h.delBelow d hd
      · intro p hp
        have hpl := (List.mem_filter.1 hp).1
        have hpn : p.1 ≠ n := by simpa using (List.mem_filter.1 hp).2
        simp only [List.mem_cons, not_or]
        refine ⟨?_, h.liveNotDeleted p hpl⟩
        intro hid
        have := eq_of_same_id h.idsNodup hpl hm hid
        exact hpn (by rw [this])
      · exact (h.namesNodup.sublist ((List.filter_sublist).map _))
      · exact (h.idsNodup.sublist ((List.filter_sublist).map _))
  | rename a b =>
    simp only [step]
    cases hl : r.live.lookup a with
    | none => exact h
    | some id =>
      simp only
      split
      · exact h
      · rename_i hb
        have hbn : r.live.lookup b = none ∧ a ≠ b := by
          constructor
          · cases hbl : r.live.lookup b with
            | none => rfl
            | some _ => exact absurd (Or.inl (by simp [hbl])) hb
          · exact fun e => hb (Or.inr e)
        have hm : (a, id) ∈ r.live := mem_of_lookupSN _ _ _ hl
        refine ⟨?_, ?_, ?_, ?_, ?_, ?_⟩
        · intro x
          simp only [List.lookup, lookup_setMeta, lookup_filter_ne]
          by_cases hxb : x = b
          · subst hxb; simp
          · have h1 : (x == b) = false := by simpa using hxb
            simp only [h1, hxb, if_false]
            by_cases hxa : x = a
            · simp [hxa]
            · simp [hxa, h.liveMeta x]
        · intro p hp
          simp only [List.mem_cons] at hp
          rcases hp with rfl | hp
          · exact h.idsBelow (a, id) hm
          · exact h.idsBelow p (List.mem_filter.1 hp).1
        · exact h.delBelow
        · intro p hp
          simp only [List.mem_cons] at hp
          rcases hp with rfl | hp
          · exact h.liveNotDeleted (a, id) hm
          · exact h.liveNotDeleted p (List.mem_filter.1 hp).1
        · simp only [List.map_cons, List.nodup_cons]
          refine ⟨?_, h.namesNodup.sublist ((List.filter_sublist).map _)⟩
          intro hmm
          obtain ⟨p, hp, hpn⟩ := List.mem_map.1 hmm
          have hpl := (List.mem_filter.1 hp).1
          have : r.live.lookup p.1 = some p.2 := StoreInv.lookup_of_mem_nodup r.live h.namesNodup hpl
          rw [hpn, hbn.1] at this; cases this
        · simp only [List.map_cons, List.nodup_cons]
          refine ⟨?_, h.idsNodup.sublist ((List.filter_sublist).map _)⟩
          intro hmm
          obtain ⟨p, hp, hpn⟩ := List.mem_map.1 hmm
          have hpl := (List.mem_filter.1 hp).1
          have hpa : p.1 ≠ a := by simpa using (List.mem_filter.1 hp).2
          have := eq_of_same_id h.idsNodup hpl hm hpn
          exact hpa (by rw [this])

theorem rinv_run (ops : List Op) : RInv (run ops) := by
  unfold run
  have h0 := rinv_init
  generalize ({} : Reg) = r at h0
  induction ops generalizing r with
  | nil => exact h0
  | cons op ops ih => exact ih _ (rinv_step h0 op)

/-- T-C19-1 (catalogue): after every history of create / delete / rename / re-create, a name is
listed iff its meta entity is live; names that were deleted or renamed away have a deleted meta
entity; no two listed names share an internal id. -/
theorem catalogue (ops : List Op) (n : String) :
    ((run ops).live.lookup n).isSome ↔ (run ops).metas.lookup n = some false :=
  (rinv_run ops).liveMeta n

/-- T-C07-3 / C19 (fresh ids): every listed dataset has an id below the persisted next id, never an
id of a deleted dataset, and ids are never shared — so a re-created name starts empty. -/
theorem fresh_ids (ops : List Op) :
    (∀ p ∈ (run ops).live, p.2 < (run ops).nextId ∧ p.2 ∉ (run ops).deleted)
    ∧ ((run ops).live.map (·.2)).Nodup ∧ ∀ d ∈ (run ops).deleted, d < (run ops).nextId :=
  ⟨fun p hp => ⟨(rinv_run ops).idsBelow p hp, (rinv_run ops).liveNotDeleted p hp⟩,
   (rinv_run ops).idsNodup, (rinv_run ops).delBelow⟩

/-! ## tie to the Go source (regenerated facts) -/
open Hub.Facts.Layout in
theorem facts_shape :
    newItemsCond = ["prevEntity == nil", "isnew"]
    ∧ skipCond = ["!isnew && !isDifferent && !isDifferentLocally"]
    ∧ storeSteps = ["ds.WriteLock.Lock", "time.Sleep", "time.Now().UnixNano", "ds.StoreEntitiesWithTransaction", "ds.store.commitIDTxn", "txn.Commit", "ds.updateDataset"] := by decide

/-- the counter is a read-modify-write of the meta-entity; both writers of it (a batch's
`updateDataset` and a rename's copy to the new name) run under the dataset's write lock, held from
before the read to after the write. -/
theorem facts_counter_lock :
    Hub.Facts.LockFacts.renameLock = ["ds.WriteLock.Lock()", "defer ds.WriteLock.Unlock()", "rename-branch"]
    ∧ Hub.Facts.LockFacts.metaUpdateUnderLock = "updateDataset-before-unlock"
    ∧ Hub.Facts.LockFacts.storeLock = ["ds.WriteLock.Lock()", "defer:ds.WriteLock.Unlock()"] := by decide

-- non-vacuity
example : let r := run [.create "a", .create "b", .delete "a", .create "a", .rename "b" "c"]
    r.live = [("c", 2), ("a", 3)] ∧ r.deleted = [1] ∧ r.metas.lookup "b" = some true ∧ r.metas.lookup "a" = some false := by decide
example : let e1 : Ent := ⟨1, false, [], "a", []⟩; let e2 : Ent := ⟨2, false, [], "a", []⟩
    (storeBatch (storeBatch {} 2 10 [e1, e1, e2]) 2 20 [e1, e2]).itemsOf 2 = 2 := by decide

end Hub.C19
