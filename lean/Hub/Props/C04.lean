import Hub.Model.Crash
import Hub.Model.Pipeline
import Hub.Generated.CrashPoints
import Hub.Generated.CrashFacts
/-!
# C04 — batches and transactions are all-or-nothing and durable across a crash

Property theorems only. Model: `Hub/Model/Crash.lean`. The order of the durable steps of
`Dataset.StoreEntities` and `Store.ExecuteTransaction` is a regenerated fact (`Hub.Facts.Crash.points_*`,
written by `tools/instr`, the tool that also inserts the crash points the harness kills the hub at).
-/
namespace Hub.C04
open Hub.Crash

/-! ## the step model -/

theorem crashAt_data (steps : List Step) (p : Pending) (d : Disk) (k : Nat) :
    (crashAt steps p d k).data = d.data ++ List.replicate ((steps.take k).count .dataCommit) p.batch := by
  unfold crashAt
  generalize steps.take k = l
  induction l generalizing d with
  | nil => simp
  | cons s l ih =>
    rw [List.foldl_cons, ih]
    cases s <;> simp [apply, List.count_cons, List.replicate_succ]

/-- **all-or-nothing**: when the keys of a batch (of all datasets of a transaction) are committed by one
data step, a crash at *any* point leaves the committed data either as it was or with the whole batch
appended — never anything in between, in every dataset the call touches at once. -/
theorem all_or_nothing (steps : List Step) (h1 : steps.count .dataCommit ≤ 1) (p : Pending) (d : Disk) (k : Nat) :
    (crashAt steps p d k).data = d.data ∨ (crashAt steps p d k).data = d.data ++ [p.batch] := by
  rw [crashAt_data]
  have hle : (steps.take k).count .dataCommit ≤ steps.count .dataCommit :=
    (List.take_sublist k steps).count_le _
  have : (steps.take k).count .dataCommit = 0 ∨ (steps.take k).count .dataCommit = 1 := by omega
  rcases this with h | h <;> rw [h] <;> simp

/-- **acknowledged ⇒ present**: a call that returned (all steps done) has its batch on disk. -/
theorem acknowledged_present (steps : List Step) (h1 : steps.count .dataCommit = 1) (p : Pending) (d : Disk) (k : Nat)
    (hk : steps.length ≤ k) : (crashAt steps p d k).data = d.data ++ [p.batch] := by
  rw [crashAt_data, List.take_of_length_le hk, h1]; simp

theorem crashAt_ids (steps : List Step) (p : Pending) (d : Disk) (k : Nat) :
    ∀ i, i ∈ (crashAt steps p d k).ids ↔ i ∈ d.ids ∨ (.idCommit ∈ steps.take k ∧ i ∈ p.newIds) := by
  unfold crashAt
  generalize steps.take k = l
  induction l generalizing d with
  | nil => simp
  | cons s l ih =>
    intro i
    rw [List.foldl_cons, ih]
    cases s <;> simp [apply]
    · intro _ h; exact Or.inr h

theorem crashAt_mem_data (steps : List Step) (p : Pending) (d : Disk) (k : Nat) (b : List Nat) :
    b ∈ (crashAt steps p d k).data → b ∈ d.data ∨ (.dataCommit ∈ steps.take k ∧ b = p.batch) := by
  rw [crashAt_data]
  intro h
  rcases List.mem_append.1 h with h | h
  · exact Or.inl h
  · right
    obtain ⟨hn, rfl⟩ := List.mem_replicate.1 h
    exact ⟨List.count_pos_iff.1 (Nat.pos_of_ne_zero hn), rfl⟩

/-- **ids before data**: if the id transaction is committed before the data transaction (every prefix of
the steps that contains the data commit contains the id commit), then at every crash point every internal
id mentioned by committed data has its committed uri↔id row. -/
theorem ids_before_data (steps : List Step)
    (horder : ∀ k, .dataCommit ∈ steps.take k → .idCommit ∈ steps.take k)
    (p : Pending) (d : Disk) (hd : IdsCover d)
    (hb : ∀ i ∈ p.batch, i ∈ d.ids ∨ i ∈ p.newIds) (k : Nat) : IdsCover (crashAt steps p d k) := by
  intro b hbm i hi
  rw [crashAt_ids]
  rcases crashAt_mem_data steps p d k b hbm with h | ⟨hc, rfl⟩
  · exact Or.inl (hd b h i hi)
  · rcases hb i hi with h | h
    · exact Or.inl h
    · exact Or.inr ⟨horder k hc, h⟩

/-! ## the order in the Go source (regenerated) -/

open Hub.Facts.Crash in
/-- the durable steps of `Dataset.StoreEntities` and `Store.ExecuteTransaction`, in source order:
fill the transactions, commit the ids, commit the data, update the metadata. -/
theorem facts_step_order :
    stepsOf callees_StoreEntities = [.prepare, .idCommit, .dataCommit, .metaUpdate]
    ∧ stepsOf callees_ExecuteTransaction = [.prepare, .idCommit, .dataCommit, .metaUpdate] := by decide

def writeSteps : List Step := [.prepare, .idCommit, .dataCommit, .metaUpdate]

theorem writeSteps_order : ∀ k, Step.dataCommit ∈ writeSteps.take k → Step.idCommit ∈ writeSteps.take k := by
  intro k
  match k with
  | 0 => simp [writeSteps]
  | 1 => simp [writeSteps]
  | 2 => simp [writeSteps]
  | k + 3 => simp [writeSteps]

open Hub.Facts.Crash in
/-- **C04 for the hub's write calls**: for `StoreEntities` and `ExecuteTransaction` as they are in the source
now, every crash point leaves the batch entirely absent or entirely present (in all datasets of a
transaction: their keys are one `Pending.batch`, see `facts_one_transaction`), a returned call is present, and
no committed key mentions an internal id without a committed uri↔id row. -/
theorem write_calls_atomic (p : Pending) (d : Disk) (hd : IdsCover d) (hb : ∀ i ∈ p.batch, i ∈ d.ids ∨ i ∈ p.newIds) (k : Nat) :
    let s1 := stepsOf callees_StoreEntities
    let s2 := stepsOf callees_ExecuteTransaction
    (∀ s ∈ [s1, s2], ((crashAt s p d k).data = d.data ∨ (crashAt s p d k).data = d.data ++ [p.batch])
        ∧ (s.length ≤ k → (crashAt s p d k).data = d.data ++ [p.batch])
        ∧ IdsCover (crashAt s p d k)) := by
  intro s1 s2 s hs
  have h1 : s1 = writeSteps := facts_step_order.1
  have h2 : s2 = writeSteps := facts_step_order.2
  have : s = writeSteps := by
    simp only [List.mem_cons, List.mem_nil_iff, or_false] at hs
    rcases hs with rfl | rfl <;> assumption
  subst this
  exact ⟨all_or_nothing _ (by decide) p d k, fun hk => acknowledged_present _ (by decide) p d k hk,
    ids_before_data _ writeSteps_order p d hd hb k⟩

set_option maxRecDepth 8000 in
open Hub.Facts.CrashFacts Hub.Pipe in
/-- one data transaction per call: it is created once, outside every loop, receives every key the write loop
produces (the loop only ever writes to the transaction it was handed and opens no other writable
transaction), and is committed once, after the unconditional commit of the id transaction; every failing
step leaves the function before the next one. -/
theorem facts_one_transaction :
    proj ["ds.store.database.NewTransaction", "ds.StoreEntitiesWithTransaction", "ds.store.commitIDTxn", "txn.Commit", "ds.updateDataset", "for {", "if len(entities) == 0 {"]
        skeleton_StoreEntities
      = ["if len(entities) == 0 {", "ds.store.database.NewTransaction", "ds.StoreEntitiesWithTransaction", "ds.store.commitIDTxn", "txn.Commit", "ds.updateDataset"]
    ∧ skeleton_ExecuteTransaction.dropWhile (· != "s.database.NewTransaction")
      = ["s.database.NewTransaction", "defer {", "txn.Discard", "}", "for {", "ds.StoreEntitiesWithTransaction", "ret-on-err", "}",
         "s.commitIDTxn", "ret-on-err", "txn.Commit", "ret-on-err",
         -- core.Dataset's lock (when the transaction took it) is released after the data commit and before the counter updates
         "if coreLocked {", "datasets[\"core.Dataset\"].WriteLock.Unlock", "}",
         "for {", "if !ok {", "return", "}", "ds.(*Dataset).updateDataset", "ret-on-err", "}", "return"]
    ∧ errChecked "ds.StoreEntitiesWithTransaction" skeleton_StoreEntities = true
    ∧ errChecked "ds.store.commitIDTxn" skeleton_StoreEntities = true
    ∧ errChecked "txn.Commit" skeleton_StoreEntities = true
    ∧ writeLoopReceivers = ["txn"]
    ∧ writeLoopTransactions = ["ds.store.database.NewTransaction(false)"]
    ∧ writeLoopParams = ["entities []*Entity", "txnTime int64", "txn *badger.Txn"]
    ∧ commitIDTxnBody = ["s.idmux.Lock()", "defer s.idmux.Unlock()", "o := s.idTxnOwner()", "if o.idtxn == nil { return nil }", "err := o.idtxn.Commit()",
        "if err != nil { return err }", "o.idtxn = nil", "return nil"] := by decide

/-! ## sequences: change positions and internal ids are never reused -/

/-- everything handed out so far is below `bound`, and the in-memory lease is covered by the stored one. -/
def SeqInv (s : Seq) : Prop :=
  0 < s.bw ∧ match s.mem with
  | none => True
  | some (n, l) => n ≤ l ∧ l ≤ s.disk

def bound (s : Seq) : Nat := match s.mem with | none => s.disk | some (n, _) => n

theorem seq_step (s : Seq) (hs : SeqInv s) (op : SeqOp) :
    SeqInv (s.step op).1 ∧ bound s ≤ bound (s.step op).1 ∧ ∀ x, (s.step op).2 = some x → bound s ≤ x ∧ x < bound (s.step op).1 := by
  obtain ⟨hbw, hm⟩ := hs
  cases op with
  | «open» => simp [Seq.step, SeqInv, bound, hbw]; cases h : s.mem with
    | none => simp
    | some nl => obtain ⟨n, l⟩ := nl; rw [h] at hm; simp at hm ⊢; omega
  | next =>
    cases h : s.mem with
    | none => simp [Seq.step, h, SeqInv, bound, hbw]
    | some nl =>
      obtain ⟨n, l⟩ := nl
      rw [h] at hm
      simp only at hm
      by_cases hlt : n < l
      · simp [Seq.step, h, hlt, SeqInv, bound, hbw]; omega
      · simp [Seq.step, h, hlt, SeqInv, bound, hbw]; omega
  | release =>
    cases h : s.mem with
    | none => simp [Seq.step, h, SeqInv, bound, hbw]
    | some nl => obtain ⟨n, l⟩ := nl; simp [Seq.step, h, SeqInv, bound, hbw]
  | crash =>
    cases h : s.mem with
    | none => simp [Seq.step, h, SeqInv, bound, hbw]
    | some nl => obtain ⟨n, l⟩ := nl; rw [h] at hm; simp at hm; simp [Seq.step, h, SeqInv, bound, hbw]; omega

/-- **no reuse**: over any history of opens, `Next` calls, graceful closes and crashes, the numbers a
sequence hands out are strictly increasing — a position or internal id handed out before a crash is never
handed out again after the restart (the restart resumes at the stored lease). -/
theorem seq_no_reuse : ∀ (ops : List SeqOp) (s : Seq), SeqInv s →
    (∀ x ∈ (s.run ops).2, bound s ≤ x) ∧ (s.run ops).2.Pairwise (· < ·)
  | [], s, _ => by simp [Seq.run]
  | op :: ops, s, hs => by
    obtain ⟨h1, h2, h3⟩ := seq_step s hs op
    obtain ⟨ih1, ih2⟩ := seq_no_reuse ops (s.step op).1 h1
    simp only [Seq.run]
    cases hr : (s.step op).2 with
    | none =>
      simp only [List.nil_append]
      exact ⟨fun x hx => Nat.le_trans h2 (ih1 x hx), ih2⟩
    | some y =>
      obtain ⟨hy1, hy2⟩ := h3 y hr
      simp only [List.singleton_append, List.mem_cons, List.pairwise_cons]
      refine ⟨?_, ?_, ih2⟩
      · rintro x (rfl | hx)
        · exact hy1
        · exact Nat.le_trans h2 (ih1 x hx)
      · intro x hx
        exact Nat.lt_of_lt_of_le hy2 (ih1 x hx)

/-- a fresh sequence satisfies the invariant. -/
theorem seq_init (bw : Nat) (h : 0 < bw) : SeqInv { bw := bw } := ⟨h, trivial⟩

open Hub.Facts.CrashFacts in
/-- change positions come from a Sequence that is opened per batch and released when the loop ends;
internal ids from a Sequence opened with the store and released on close. -/
theorem facts_sequences :
    writeLoopSequence = ["GetSequence bandwidth 1000", "defer logseq.Release", "logseq.Next"]
    ∧ idSequence = ["Close: s.idseq.Release", "assertIDForURI: s.idseq.Next"] := by decide

-- non-vacuity: a crash between the id commit and the data commit, and one after it
example : (crashAt writeSteps { newIds := [7], batch := [7, 3] } { ids := [3] } 2) = { ids := [3, 7], data := [], metaN := 0 } := by decide
example : (crashAt writeSteps { newIds := [7], batch := [7, 3] } { ids := [3] } 3).data = [[7, 3]] := by decide
example : (({ bw := 3 } : Seq).run [.open, .next, .next, .crash, .open, .next, .release, .open, .next]).2 = [0, 1, 3, 4] := by decide

/-- the order matters: with the data committed before the ids, a crash in between leaves keys whose ids
have no uri↔id row. -/
theorem data_before_ids_breaks_cover :
    ¬ IdsCover (crashAt [.prepare, .dataCommit, .idCommit] { newIds := [7], batch := [7] } {} 2) := by
  intro h
  have := h [7] (by decide) 7 (by decide)
  revert this; decide

end Hub.C04
