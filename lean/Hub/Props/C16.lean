import Hub.Model.Acl
import Hub.Generated.Acl
/-!
# C16 — no request is served beyond what the caller's token and ACL grant

Property theorems only. Model: `Hub/Model/Acl.lean`.
-/
namespace Hub.C16
open Hub.Acl

/-- the specification of an ACL decision: some applicable allow entry, and no applicable deny. -/
def GrantSpec (acl : List Ac) (path needed : String) : Prop :=
  (∃ ac ∈ acl, applies ac path needed = true ∧ ac.deny = false)
  ∧ (∀ ac ∈ acl, ac.deny = true → applies ac path needed = false)

theorem checkGranted_eq (ac : Ac) (path needed : String) :
    checkGranted ac path needed = (applies ac path needed && !ac.deny) := by
  unfold checkGranted applies resourceMatch
  cases h1 : (ac.resource == path) <;> cases h2 : covers ac.action needed <;>
    cases h3 : isPattern ac.resource <;> cases h4 : patternMatch ac.resource path <;>
    cases ac.deny <;> simp [h1, h2, h3, h4]

theorem loop_spec (path needed : String) (acl : List Ac) (g : Bool) :
    isGrantedLoop path needed acl g = true ↔
      ((g = true ∨ ∃ ac ∈ acl, applies ac path needed = true ∧ ac.deny = false)
       ∧ (∀ ac ∈ acl, ac.deny = true → applies ac path needed = false)) := by
  induction acl generalizing g with
  | nil => simp [isGrantedLoop]
  | cons ac rest ih =>
    have hap : applies { resource := ac.resource, action := ac.action, deny := false } path needed
        = applies ac path needed := rfl
    simp only [isGrantedLoop, checkGranted_eq, List.mem_cons, forall_eq_or_imp, exists_eq_or_imp, hap]
    cases ha : applies ac path needed <;> cases hd : ac.deny <;> simp [ha, hd, ih]

/-- T-C16-1 (ACL decision): for every method, path and ACL list, a non-admin request is allowed
iff some entry grants the path (exactly or by trailing-* prefix) for the needed action and no
applicable entry denies it; every method except GET/HEAD/OPTIONS needs write. -/
theorem acl_decision (method path : String) (acl : List Ac) :
    doAclCheck method path false acl = true ↔ GrantSpec acl path (actionFor method) := by
  simp [doAclCheck, isGranted, loop_spec, GrantSpec]

/-- an explicit deny entry is never overridden by an allow, wherever it stands in the list. -/
theorem deny_overrides (method path : String) (acl : List Ac) (d : Ac) (hd : d ∈ acl)
    (hdeny : d.deny = true) (happ : applies d path (actionFor method) = true) :
    doAclCheck method path false acl = false := by
  cases h : doAclCheck method path false acl with
  | false => rfl
  | true =>
    have := ((acl_decision method path acl).1 h).2 d hd hdeny
    rw [happ] at this; cases this

/-- read never suffices for a mutation: with only read entries no state-changing method is served. -/
theorem read_never_mutates (method path : String) (acl : List Ac)
    (hm : method ≠ "GET" ∧ method ≠ "HEAD" ∧ method ≠ "OPTIONS")
    (hr : ∀ ac ∈ acl, ac.action = "read") :
    doAclCheck method path false acl = false := by
  cases h : doAclCheck method path false acl with
  | false => rfl
  | true =>
    obtain ⟨⟨ac, hac, happ, _⟩, _⟩ := (acl_decision method path acl).1 h
    have hw : actionFor method = "write" := by simp [actionFor, hm.1, hm.2.1, hm.2.2]
    rw [hw] at happ
    simp [applies, covers, hr ac hac] at happ

/-- no ACL entries, no service. -/
theorem empty_acl_denied (method path : String) : doAclCheck method path false [] = false := by
  simp [doAclCheck, isGranted, isGrantedLoop]

/-- T-C16-2 (authentication decision): an accepted token is correctly signed (by the node key or,
when configured, a JWKS key), unexpired, RS256, and its audience and issuer — when present — are
among the accepted ones. -/
theorem authn_decision (c : Cfg) (t : Tok) (h : validate c t = true) :
    (t.sigNode = true ∨ (c.jwks = true ∧ t.sigJwks = true)) ∧ t.claimsValid = true ∧ t.alg = "RS256"
    ∧ (∀ a, t.aud = some a → a ∈ c.audiences) ∧ (∀ i, t.iss = some i → i ∈ c.issuers) := by
  simp only [validate, Bool.and_eq_true, Bool.or_eq_true, beq_iff_eq] at h
  obtain ⟨⟨⟨hp, ha⟩, hi⟩, halg⟩ := h
  refine ⟨?_, ?_, halg, ?_, ?_⟩
  · rcases hp with h1 | h2
    · exact Or.inl h1.1
    · exact Or.inr ⟨h2.1.1, h2.1.2⟩
  · rcases hp with h1 | h2
    · exact h1.2
    · exact h2.2
  · intro a hau
    simp only [claimOK, hau, List.any_eq_true, beq_iff_eq] at ha
    obtain ⟨x, hx, rfl⟩ := ha; exact hx
  · intro i his
    simp only [claimOK, his, List.any_eq_true, beq_iff_eq] at hi
    obtain ⟨x, hx, rfl⟩ := hi; exact hx

/-- T-C16-5 (dataset list filter): each dataset at most once, and only if read is granted. -/
theorem dataset_list_filter (names : List String) (acl : List Ac) (hn : names.Nodup) :
    (filterDatasets names acl).Nodup
    ∧ ∀ n ∈ filterDatasets names acl, n ∈ names ∧ GrantSpec acl ("/datasets/" ++ n) "read" := by
  refine ⟨hn.filter _, ?_⟩
  intro n hmem
  simp only [filterDatasets, List.mem_filter] at hmem
  refine ⟨hmem.1, ?_⟩
  have := hmem.2
  simpa [isGranted, loop_spec, GrantSpec] using this

/-- what is on disk is what is in memory. -/
def Mirror (s : Sec) : Prop := s.diskClients = s.mem.clients ∧ s.diskAcls = s.mem.acls

theorem mirror_step (s : Sec) (h : Mirror s) (op : SecOp) : Mirror (s.step op) := by
  cases op <;> simp_all [Sec.step, Mirror]

/-- T-C16-4 (registrations and ACLs survive a restart unchanged): after any history of
register / unregister / set / delete operations and restarts, a restart changes nothing. -/
theorem persist (ops : List SecOp) :
    let s := ops.foldl Sec.step {}
    (s.step .restart).mem = s.mem := by
  have h : Mirror (ops.foldl Sec.step {}) := by
    have h0 : Mirror {} := ⟨rfl, rfl⟩
    generalize ({} : Sec) = s at h0
    induction ops generalizing s with
    | nil => exact h0
    | cons op ops ih => exact ih _ (mirror_step s h0 op)
  simp only [Sec.step]
  obtain ⟨h1, h2⟩ := h
  rw [h1, h2]

/-! ## tie to the Go source (regenerated facts) -/
set_option maxRecDepth 20000 in
open Hub.Facts.Acl in
theorem facts_shape :
    readMethods = ["http.MethodGet", "http.MethodHead", "http.MethodOptions"]
    ∧ defaultAction = "\"write\"" ∧ readAction = "\"read\""
    ∧ adminShortCircuit = ["role == \"admin\""]
    ∧ decisionCall = ["core.IsGranted(acl, path, action)"]
    ∧ Hub.Facts.Acl.isGrantedLoop = ["if ac == nil { continue }",
        "if serviceCore.CheckGranted(ac, resource, action) { granted = true } else if ac.Deny { allow := &AccessControl{Resource: ac.Resource, Action: ac.Action} if serviceCore.CheckGranted(allow, resource, action) { return false } }"]
    ∧ isGrantedReturn = "return granted"
    ∧ checkGrantedConds = ["ac.Resource == resource", "action == \"read\" && (ac.Action == \"read\" || ac.Action == \"write\")",
        "action == ac.Action", "strings.HasSuffix(ac.Resource, \"*\")", "strings.HasPrefix(resource, pattern)",
        "action == \"read\" && (ac.Action == \"read\" || ac.Action == \"write\")", "action == ac.Action"]
    ∧ checkGrantedReturns = ["return !ac.Deny", "return !ac.Deny", "return !ac.Deny", "return !ac.Deny", "return false"]
    ∧ skipperPrefixes = ["\"/health\"", "mimiroIcon", "favIcon", "\"/api\"", "\"/static\"", "\"/security/token\""]
    ∧ validateErrAssigns = ["errors.New(\"invalid audience\")", "errors.New(\"invalid issuer\")", "errors.New(\"non matching signing method\")"]
    ∧ validateChecks = ["!checkAud", "!checkIss", "!checkSigningMethod"]
    ∧ aclsWriters = ["DeleteClientAccessControls:GetAllAccessControls", "SetClientAccessControls:GetAllAccessControls"]
    ∧ clientsWriters = ["RegisterClient:GetClients"]
    ∧ unregisterCalls = ["serviceCore.clients.Delete(clientInfo.ClientID)", "serviceCore.DeleteClientAccessControls(clientInfo.ClientID)"] := by decide

-- non-vacuity
example : doAclCheck "GET" "/datasets/a/changes" false [⟨"/datasets/a*", "read", false⟩] = true := by decide
example : doAclCheck "PUT" "/job/x/run" false [⟨"/job*", "read", false⟩] = false := by decide
example : doAclCheck "GET" "/datasets/a" false [⟨"/datasets/a", "read", true⟩, ⟨"/*", "write", false⟩] = false := by decide

/-! ## negative witnesses for the pinned commit (D15, D16; fixed) -/
theorem cur_put_needs_only_read :
    doAclCheckCur "PUT" "/job/x/run" false [⟨"/job*", "read", false⟩] = true := by decide
theorem cur_deny_overridden :
    doAclCheckCur "GET" "/datasets/a" false [⟨"/datasets/a", "read", true⟩, ⟨"/*", "write", false⟩] = true := by decide

end Hub.C16
