import Hub.Proofs.Parser
import Hub.Generated.ParserFacts
/-!
# C15 — what is POSTed is what is GET back; malformed payloads are rejected

Property theorems only. Model: `Hub/Model/Parser.lean` (the parser over `encoding/json`'s token
stream, branch for branch); helper lemmas: `Hub/Proofs/Parser.lean`.

"Never a panic" is a statement about the Go runtime and is not a theorem here: every function of the
model is total over arbitrary token lists (that is what Lean checks), the regenerated facts check that
streamparser.go contains no unchecked type assertion, and the correspondence runs the real parser on
arbitrary and grammar-mutated bytes in child processes.
-/
namespace Hub.C15
open Hub.Parser

variable (res : String → Except String String)

/-- an element of a collection is an entity (not a scalar or an array). -/
def isEnt : V → Bool
  | .ent .. => true
  | _ => false

/-- **round trip, value level**: the parser applied to the serialisation of any value tree (all value
shapes, nested entities and arrays to any depth) followed by anything returns exactly its denotation
under the payload's context and leaves the rest untouched. -/
theorem value_roundtrip (v v' : V) (f : Nat) (r : List Tok) (h : exp res v = some v')
    (hf : (toks v).length ≤ f) : pValue res (f + 1) (toks v ++ r) = .ok (some v', r) :=
  (rtV res v v' f r h hf).1

/-- **round trip, stream level**: a run of well-formed entities is emitted as exactly their
denotations, in order, whatever follows them in the stream (more entities, the closing bracket, or
garbage) — the parser then continues with what follows. -/
theorem elems_wellformed_prefix : ∀ (es es' : List V) (f : Nat) (acc : List V) (rest : List Tok),
    expL res es = some es' → (∀ e ∈ es, isEnt e = true) → (toksL es).length ≤ f →
    pElems res (f + es.length) acc (toksL es ++ rest) = pElems res f (acc ++ es') rest
  | [], es', f, acc, rest, h, _, _ => by simp [expL] at h; subst h; simp [toksL]
  | e :: es, es', f, acc, rest, h, hent, hf => by
    simp only [expL] at h
    cases he : exp res e with
    | none => simp [he] at h
    | some e1 =>
      cases hes : expL res es with
      | none => simp [he, hes] at h
      | some es1 =>
        simp [he, hes] at h; subst h
        have hlen : (toksL (e :: es)).length = (toks e).length + (toksL es).length := by simp [toksL]
        obtain ⟨body, hb⟩ : ∃ body, toks e = .lb :: body := by
          have := hent e (by simp)
          cases e with
          | ent id del p rf => exact ⟨_, by simp only [toks, List.cons_append]; rfl⟩
          | _ => simp [isEnt] at this
        have core := (rtV res e e1 (f + es.length) (toksL es ++ rest) he (by omega)).2.2 body hb
        simp only [toksL, List.append_assoc, hb, List.cons_append, List.length_cons]
        have : f + (es.length + 1) = (f + es.length) + 1 := by omega
        rw [this]
        simp only [pElems]
        rw [core]
        simp only
        have ih := elems_wellformed_prefix es es1 f (acc ++ [e1]) rest hes
          (fun x hx => hent x (List.mem_cons_of_mem _ hx)) (by omega)
        rw [ih]; simp

/-- **a whole well-formed collection**: after the context, `e₁ … eₙ ]` emits exactly the n denotations
and ends without an error. -/
theorem collection_roundtrip (es es' : List V) (h : expL res es = some es')
    (hent : ∀ e ∈ es, isEnt e = true) (f : Nat) (hf : (toksL es).length ≤ f) :
    pElems res (f + 2 + es.length) [] (toksL es ++ [.ra]) = { emitted := es', err := none } := by
  rw [elems_wellformed_prefix res es es' (f + 2) [] [.ra] h hent (by omega)]
  simp [pElems]

/-- **a malformed element stores nothing and stops the stream**: if the element after n well-formed
entities is rejected by the entity parser, exactly the n entities before it have been emitted, the
error is reported, and nothing after it is looked at. -/
theorem malformed_element_rejected (es es' : List V) (h : expL res es = some es')
    (hent : ∀ e ∈ es, isEnt e = true) (f : Nat) (hf : (toksL es).length ≤ f)
    (bad rest : List Tok) (msg : String) (hbad : pEntity res f {} (bad ++ rest) = .error msg) :
    pElems res (f + 1 + es.length) [] (toksL es ++ (.lb :: bad ++ rest)) = { emitted := es', err := some msg } := by
  have := elems_wellformed_prefix res es es' (f + 1) [] (.lb :: bad ++ rest) h hent (by omega)
  rw [this]
  simp only [List.nil_append, List.cons_append, pElems]
  rw [hbad]

/-- a truncated stream (no closing bracket) is an error, with the complete entities before the cut emitted. -/
theorem truncated_stream_is_error (es es' : List V) (h : expL res es = some es')
    (hent : ∀ e ∈ es, isEnt e = true) (f : Nat) (hf : (toksL es).length ≤ f) :
    (pElems res (f + 1 + es.length) [] (toksL es ++ [])).err = some "unexpected end of stream"
    ∧ (pElems res (f + 1 + es.length) [] (toksL es ++ [.bad])).err = some "bad token" := by
  rw [elems_wellformed_prefix res es es' (f + 1) [] [] h hent (by omega),
      elems_wellformed_prefix res es es' (f + 1) [] [.bad] h hent (by omega)]
  simp [pElems]

/-- anything after the closing bracket of the collection is an error (before the repair of D27 a second
array or a bare object after it was parsed and its entities emitted). -/
theorem trailing_data_rejected (es es' : List V) (h : expL res es = some es')
    (hent : ∀ e ∈ es, isEnt e = true) (f : Nat) (hf : (toksL es).length ≤ f) (t : Tok) (rest : List Tok) :
    pElems res (f + 1 + es.length) [] (toksL es ++ .ra :: t :: rest)
      = { emitted := es', err := some "unexpected data after the end of the entity array" } := by
  rw [elems_wellformed_prefix res es es' (f + 1) [] (.ra :: t :: rest) h hent (by omega)]
  simp [pElems]

/-! ## wrongly typed members are rejected (for every entity prefix parsed so far and every fuel) -/

theorem id_must_be_string (f : Nat) (a : Acc) (t : Tok) (r : List Tok) (h : ∀ s, t ≠ .str s) :
    pEntity res (f + 1) a (.str "id" :: t :: r) = .error "id must be a string" := by
  cases t <;> simp_all [pEntity]

theorem deleted_must_be_bool (f : Nat) (a : Acc) (t : Tok) (r : List Tok) (h : ∀ b, t ≠ .bool b) :
    pEntity res (f + 1) a (.str "deleted" :: t :: r) = .error "deleted must be a boolean" := by
  cases t <;> simp_all [pEntity]

theorem recorded_must_be_number (f : Nat) (a : Acc) (t : Tok) (r : List Tok) (h : ∀ n, t ≠ .num n) :
    pEntity res (f + 1) a (.str "recorded" :: t :: r) = .error "recorded must be a number" := by
  cases t <;> simp_all [pEntity]

theorem props_must_be_object (f : Nat) (a : Acc) (t : Tok) (r : List Tok) (h : t ≠ .lb) :
    ∃ msg, pEntity res (f + 2) a (.str "props" :: t :: r) = .error msg := by
  cases t <;> simp_all [pEntity, pProps]

theorem refs_must_be_object (f : Nat) (a : Acc) (t : Tok) (r : List Tok) (h : t ≠ .lb) :
    ∃ msg, pEntity res (f + 1) a (.str "refs" :: t :: r) = .error msg := by
  cases t <;> simp_all [pEntity, pRefs]

/-- a reference value is a string or an array of strings: an object, number, boolean or null is rejected. -/
theorem ref_value_must_be_string_or_array (f : Nat) (t : Tok) (r : List Tok)
    (h1 : ∀ s, t ≠ .str s) (h2 : t ≠ .la) : ∃ msg, pRefValue res f (t :: r) = .error msg := by
  cases t <;> simp_all [pRefValue]

/-- `token` is only accepted inside the continuation element. -/
theorem token_only_in_continuation (f : Nat) (a : Acc) (r : List Tok) (h : a.cont = false) :
    pEntity res (f + 1) a (.str "token" :: r) = .error "token property found but not a continuation entity" := by
  simp [pEntity, h]

/-- the namespaces of the context must be an object of strings. -/
theorem namespaces_must_be_strings (l : List (String × Option String)) (h : ∃ kv ∈ l, kv.2 = none) :
    ∃ msg, readNs (.obj l) = .error msg := by
  obtain ⟨kv, hm, hn⟩ := h
  have : l.any (·.2.isNone) = true := List.any_eq_true.2 ⟨kv, hm, by simp [hn]⟩
  exact ⟨"namespace expansion must be a string", by simp [readNs, this]⟩

theorem namespaces_must_be_object : ∃ msg, readNs .other = .error msg := ⟨_, rfl⟩

/-- a document that does not start with an array, or whose first element is not a context object, is rejected
with nothing emitted. -/
theorem no_context_rejected (t : Tok) (r : List Tok) (h : t ≠ .lb) :
    (parseStream (.la :: t :: r)).emitted = [] ∧ (parseStream (.la :: t :: r)).err ≠ none := by
  cases t <;> simp_all [parseStream]

/-! ## tie to the Go source (regenerated facts) -/
open Hub.Facts.ParserFacts in
theorem facts_shape :
    uncheckedTypeAssertions = 0 ∧ typeAssertions = 23
    ∧ indexedObjects = ["context", "e.Properties", "esp.localNamespaces", "esp.localPropertyMappings", "props", "refs", "txn.DatasetEntities"]
    ∧ entityKeys = ["id", "recorded", "deleted", "props", "refs", "token"] ∧ unknownKey = "skipValue"
    ∧ emitSteps = ["e, err := esp.parseEntity(decoder)", "if err != nil { return errors.New(\"parsing error: Unable to ", "err = emitEntity(e)", "if err != nil { return err }"]
    ∧ closingSteps = ["if _, err = decoder.Token(); err != io.EOF { retur", "return nil"]
    ∧ typedMembers = ["idVal:string", "recorded:float64", "deleted:bool"]
    ∧ nullPropDropped = true := by decide

/-! ## non-vacuity -/
def sampleRes : String → Except String String := resolve [("a", "http://a/"), ("_", "http://d/")]
def sample : V := .ent "a:1" false [("a:p", .arr [.num "1", .ent "x" true [] [], .arr [.str "s"]]), ("q", .bool true)]
    [("a:r", .one "a:2"), ("a:s", .many ["a:3", "http://z/9"])]

example : exp sampleRes sample = some (.ent "http://a/1" false
    [("http://a/p", .arr [.num "1", .ent "http://d/x" true [] [], .arr [.str "s"]]), ("http://d/q", .bool true)]
    [("http://a/r", .one "http://a/2"), ("http://a/s", .many ["http://a/3", "http://z/9"])]) := by rfl

end Hub.C15
