import Hub.Model.Namespace
import Hub.Generated.Namespace
/-!
# C13 — namespace prefixes and internal identifiers are one-to-one and permanent

Property theorems only. Model: `Hub/Model/Namespace.lean`.
-/
namespace Hub.C13
open Hub.Namespace

/-! ### helper facts about digits and splitting -/

theorem natDigits_inj {a b : Nat} (h : natDigits a = natDigits b) : a = b := by
  have ha := @Nat.ofDigitChars_ten_toDigits a
  have hb := @Nat.ofDigitChars_ten_toDigits b
  unfold natDigits at h
  rw [h] at ha; omega

theorem nsPrefix_inj {a b : Nat} (h : nsPrefix a = nsPrefix b) : a = b := by
  unfold nsPrefix at h
  exact natDigits_inj (List.append_cancel_left h)

theorem colon_not_in_nsPrefix (n : Nat) : ':' ∉ nsPrefix n := by
  unfold nsPrefix natDigits
  intro h
  rcases List.mem_append.1 h with h | h
  · simp at h
  · have := Nat.isDigit_of_mem_toDigits (by decide) (by decide) h
    simp [Char.isDigit] at this

theorem splitLast_append (c : Char) (u a b : Str) (h : splitLast c u = some (a, b)) : a ++ b = u := by
  induction u generalizing a b with
  | nil => simp [splitLast] at h
  | cons x xs ih =>
    simp only [splitLast] at h
    cases hs : splitLast c xs with
    | some r =>
      obtain ⟨a', b'⟩ := r
      simp only [hs, Option.some.injEq, Prod.mk.injEq] at h
      obtain ⟨rfl, rfl⟩ := h
      simp [ih a' b' hs]
    | none =>
      simp only [hs] at h
      split at h
      · simp only [Option.some.injEq, Prod.mk.injEq] at h
        obtain ⟨rfl, rfl⟩ := h; rfl
      · cases h

theorem splitLast_isSome (c : Char) (u : Str) (h : c ∈ u) : (splitLast c u).isSome = true := by
  induction u with
  | nil => simp at h
  | cons x xs ih =>
    simp only [splitLast]
    cases hs : splitLast c xs with
    | some r => simp
    | none =>
      simp only
      rcases List.mem_cons.1 h with rfl | h'
      · simp
      · have := ih h'; rw [hs] at this; cases this

theorem splitFirst_of_not_mem (c : Char) (p rest : Str) (h : c ∉ p) :
    splitFirst c (p ++ c :: rest) = some (p, rest) := by
  induction p with
  | nil => simp [splitFirst]
  | cons x xs ih =>
    have hx : x ≠ c := fun e => h (e ▸ List.mem_cons_self)
    have hxs : c ∉ xs := fun e => h (List.mem_cons_of_mem _ e)
    simp [splitFirst, hx, ih hxs]

theorem urlParts_append (u a b : Str) (h : urlParts u = some (a, b)) : a ++ b = u := by
  unfold urlParts at h
  cases hs : splitLast '#' u with
  | some r =>
    simp only [hs, Option.some.injEq] at h
    subst h; exact splitLast_append _ _ _ _ hs
  | none => simp only [hs] at h; exact splitLast_append _ _ _ _ h

/-- every http(s) URI can be split (it contains a '/'). -/
theorem urlParts_isSome (u : Str) (h : isHttp u = true) : (urlParts u).isSome = true := by
  have hs : '/' ∈ u := by
    unfold isHttp at h
    rcases (Bool.or_eq_true_iff).1 h with h1 | h1
    · obtain ⟨t, rfl⟩ := List.isPrefixOf_iff_prefix.1 h1; simp
    · obtain ⟨t, rfl⟩ := List.isPrefixOf_iff_prefix.1 h1; simp
  unfold urlParts
  cases splitLast '#' u with
  | some r => simp
  | none => exact splitLast_isSome _ _ hs

/-! ### the namespace invariant -/

structure WF (s : NS) : Prop where
  prefixes : ∀ i (h : i < s.pairs.length), (s.pairs[i]).1 = nsPrefix i
  expNodup : (s.pairs.map (·.2)).Nodup

theorem wf_empty : WF {} := ⟨by intro i h; simp at h, by simp⟩

theorem prefix_mem {s : NS} (h : WF s) {p e : Str} (hm : (p, e) ∈ s.pairs) : ∃ i, i < s.pairs.length ∧ p = nsPrefix i := by
  obtain ⟨i, hi, hget⟩ := List.getElem_of_mem hm
  exact ⟨i, hi, by have := h.prefixes i hi; rw [hget] at this; exact this⟩

theorem prefNodup {s : NS} (h : WF s) : (s.pairs.map (·.1)).Nodup := by
  rw [List.nodup_iff_pairwise_ne, List.pairwise_iff_getElem]
  intro i j hi hj hij heq
  simp only [List.length_map] at hi hj
  simp only [List.getElem_map] at heq
  rw [h.prefixes i hi, h.prefixes j hj] at heq
  have := nsPrefix_inj heq; omega

theorem find_snd {l : List (Str × Str)} (hnd : (l.map (·.2)).Nodup) {p e : Str} (hm : (p, e) ∈ l) :
    l.find? (·.2 == e) = some (p, e) := by
  induction l with
  | nil => simp at hm
  | cons x xs ih =>
    simp only [List.map_cons, List.nodup_cons] at hnd
    rcases List.mem_cons.1 hm with rfl | hm'
    · simp
    · have hne : x.2 ≠ e := fun h => hnd.1 (h ▸ List.mem_map.2 ⟨(p, e), hm', rfl⟩)
      simp [hne, ih hnd.2 hm']

theorem find_fst {l : List (Str × Str)} (hnd : (l.map (·.1)).Nodup) {p e : Str} (hm : (p, e) ∈ l) :
    l.find? (·.1 == p) = some (p, e) := by
  induction l with
  | nil => simp at hm
  | cons x xs ih =>
    simp only [List.map_cons, List.nodup_cons] at hnd
    rcases List.mem_cons.1 hm with rfl | hm'
    · simp
    · have hne : x.1 ≠ p := fun h => hnd.1 (h ▸ List.mem_map.2 ⟨(p, e), hm', rfl⟩)
      simp [hne, ih hnd.2 hm']

/-- T-C13-1a: in every reachable state the two maps are mutually inverse on every stored pair. -/
theorem ns_bijection {s : NS} (h : WF s) {p e : Str} (hm : (p, e) ∈ s.pairs) :
    s.prefixOf e = some p ∧ s.expansionOf p = some e := by
  unfold NS.prefixOf NS.expansionOf
  rw [find_snd h.expNodup hm, find_fst (prefNodup h) hm]; simp

theorem prefixOf_none {s : NS} {e : Str} (h : s.prefixOf e = none) : e ∉ s.pairs.map (·.2) := by
  intro hm
  obtain ⟨x, hx, rfl⟩ := List.mem_map.1 hm
  unfold NS.prefixOf at h
  simp only [Option.map_eq_none_iff, List.find?_eq_none] at h
  have := h x hx; simp at this

/-- T-C13-1b: asserting a namespace keeps the invariant; the new prefix is fresh (`"ns"+len`). -/
theorem assert_wf {s : NS} (h : WF s) (e : Str) : WF (s.assert e).1 := by
  unfold NS.assert
  cases hp : s.prefixOf e with
  | some p => simpa using h
  | none =>
    refine ⟨?_, ?_⟩
    · intro i hi
      simp only [List.length_append, List.length_cons, List.length_nil] at hi
      by_cases hlt : i < s.pairs.length
      · simp only [List.getElem_append_left hlt]; exact h.prefixes i hlt
      · have : i = s.pairs.length := by omega
        subst this; simp
    · simp only [List.map_append, List.map_cons, List.map_nil]
      rw [List.nodup_append]
      refine ⟨h.expNodup, by simp, ?_⟩
      intro a ha b hb
      simp only [List.mem_singleton] at hb
      subst hb
      intro hab; subst hab
      exact prefixOf_none hp ha

/-- T-C13-1c: the answer of an assertion is a stored mapping for that expansion. -/
theorem assert_mem (s : NS) (e : Str) : ((s.assert e).2, e) ∈ (s.assert e).1.pairs := by
  unfold NS.assert
  cases hp : s.prefixOf e with
  | some p =>
    simp only
    unfold NS.prefixOf at hp
    obtain ⟨x, hx, rfl⟩ := Option.map_eq_some_iff.1 hp
    have hm := List.mem_of_find?_eq_some hx
    have he := List.find?_some hx
    simp only [beq_iff_eq] at he
    rw [← he]; exact hm
  | none => simp

/-- T-C13-2 (permanent): a mapping, once handed out, is in every later state — through any
number of later assertions. (Persistence across restart: the whole state is stored inside the same
call, see `facts_shape`, and reloaded as is; restart is the identity on `NS`.) -/
theorem ns_permanent (s : NS) (es : List Str) {p e : Str} (hm : (p, e) ∈ s.pairs) :
    (p, e) ∈ (es.foldl (fun s e => (s.assert e).1) s).pairs := by
  induction es generalizing s with
  | nil => exact hm
  | cons x xs ih =>
    apply ih
    unfold NS.assert
    cases hp : s.prefixOf x <;> simp [hm]
    all_goals simp [hp, hm]

theorem wf_reachable (es : List Str) : WF (es.foldl (fun s e => (s.assert e).1) {}) := by
  have h0 := wf_empty
  generalize ({} : NS) = s at h0
  induction es generalizing s with
  | nil => exact h0
  | cons x xs ih => exact ih _ (assert_wf h0 x)

/-- T-C13-3 (CURIE round trip): for every http(s) URI — hash or slash namespace, empty local
part, colons/slashes/hashes inside the local part — compacting and expanding returns the original. -/
theorem curie_roundtrip {s : NS} (h : WF s) (u : Str) (hu : isHttp u = true) :
    ∃ s' c, s.compact u = some (s', c) ∧ WF s' ∧ s'.expand c = some u := by
  obtain ⟨⟨exp, loc⟩, hparts⟩ := Option.isSome_iff_exists.1 (urlParts_isSome u hu)
  refine ⟨(s.assert exp).1, (s.assert exp).2 ++ [':'] ++ loc, ?_, assert_wf h exp, ?_⟩
  · simp [NS.compact, hu, hparts]
  · have hwf := assert_wf h exp
    have hmem := assert_mem s exp
    obtain ⟨i, _, hpi⟩ := prefix_mem hwf hmem
    have hnc : ':' ∉ (s.assert exp).2 := hpi ▸ colon_not_in_nsPrefix i
    unfold NS.expand
    have : (s.assert exp).2 ++ [':'] ++ loc = (s.assert exp).2 ++ ':' :: loc := by simp
    rw [this, splitFirst_of_not_mem _ _ _ hnc]
    simp only [(ns_bijection hwf hmem).2, Option.map_some]
    rw [urlParts_append u exp loc hparts]

/-! ### internal ids -/

structure IdWF (s : Ids) : Prop where
  bound : ∀ x ∈ s.pairs, x.2 < s.next
  uriNodup : (s.pairs.map (·.1)).Nodup
  idNodup : (s.pairs.map (·.2)).Nodup

theorem idOf_none {s : Ids} {u : Str} (h : s.idOf u = none) : u ∉ s.pairs.map (·.1) := by
  intro hm
  obtain ⟨x, hx, rfl⟩ := List.mem_map.1 hm
  unfold Ids.idOf at h
  simp only [Option.map_eq_none_iff, List.find?_eq_none] at h
  have := h x hx; simp at this

/-- T-C13-4: `assertIDForURI` keeps uri↔id one-to-one; a new id is strictly greater than every id
handed out before. -/
theorem id_assert_wf {s : Ids} (h : IdWF s) (u : Str) : IdWF (s.assert u).1 := by
  unfold Ids.assert
  cases hi : s.idOf u with
  | some i => simpa using h
  | none =>
    refine ⟨?_, ?_, ?_⟩
    · intro x hx
      simp only [List.mem_append, List.mem_singleton] at hx
      rcases hx with hx | rfl
      · have := h.bound x hx; simp only; omega
      · simp
    · simp only [List.map_append, List.map_cons, List.map_nil]
      rw [List.nodup_append]
      refine ⟨h.uriNodup, by simp, ?_⟩
      intro a ha b hb hab
      simp only [List.mem_singleton] at hb
      subst hb; subst hab
      exact idOf_none hi ha
    · simp only [List.map_append, List.map_cons, List.map_nil]
      rw [List.nodup_append]
      refine ⟨h.idNodup, by simp, ?_⟩
      intro a ha b hb hab
      simp only [List.mem_singleton] at hb
      subst hb; subst hab
      obtain ⟨x, hx, hxa⟩ := List.mem_map.1 ha
      have := h.bound x hx; omega

theorem id_restart_wf {s : Ids} (h : IdWF s) (k : Nat) : IdWF (s.restart k) :=
  ⟨fun x hx => by have := h.bound x hx; simp only [Ids.restart]; omega, h.uriNodup, h.idNodup⟩

inductive IdOp | assert (u : Str) | restart (skip : Nat)

def idStep (s : Ids) : IdOp → Ids
  | .assert u => (s.assert u).1
  | .restart k => s.restart k

/-- T-C13-5 (ids permanent, never reused): over any history of assertions and restarts/crashes
(the sequence resumes at or beyond its lease) the invariant holds and every mapping ever handed
out is still there, unchanged. -/
theorem id_permanent (s : Ids) (h : IdWF s) (ops : List IdOp) :
    IdWF (ops.foldl idStep s) ∧ ∀ x ∈ s.pairs, x ∈ (ops.foldl idStep s).pairs := by
  induction ops generalizing s with
  | nil => exact ⟨h, fun x hx => hx⟩
  | cons op ops ih =>
    have hstep : IdWF (idStep s op) := by
      cases op with
      | assert u => exact id_assert_wf h u
      | restart k => exact id_restart_wf h k
    obtain ⟨h1, h2⟩ := ih _ hstep
    refine ⟨h1, fun x hx => h2 x ?_⟩
    cases op with
    | assert u =>
      simp only [idStep, Ids.assert]
      cases hi : s.idOf u <;> simp [hx]
      all_goals simp [hi, hx]
    | restart k => exact hx

/-! ## tie to the Go source (regenerated facts) -/
set_option maxRecDepth 40000 in
open Hub.Facts.Namespace in
theorem facts_shape :
    assertBody = ["prefix := namespaceManager.expansionToPrefixMapping[uriExpansion]",
      "if prefix == \"\" { prefix = \"ns\" + strconv.Itoa(len(namespaceManager.prefixToExpansionMapping)) namespaceManager.prefixToExpansionMapping[prefix] = uriExpansion namespaceManager.expansionToPrefixMapping[uriExpansion] = prefix state := &NamespacesState{} state.PrefixToExpansionMapping = namespaceManager.prefixToExpansionMapping state.ExpansionToPrefixMapping = namespaceManager.expansionToPrefixMapping err := namespaceManager.store.StoreObject(NamespacesIndex, \"namespacestate\", state) if err != nil { return \"\", err } }",
      "return prefix, nil"]
    ∧ assertLocked = true
    ∧ urlPartsSplits = ["strings.LastIndex(url, \"#\")", "strings.LastIndex(url, \"/\")"]
    ∧ expandSplit = ["strings.Index(curie, \":\")"]
    ∧ prefixMapAccessor = "copy" := by decide

-- non-vacuity
example : (({} : NS).assert "http://a/".toList).2 = "ns0".toList := by decide

end Hub.C13
