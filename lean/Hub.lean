import Hub.Props.C10
import Hub.Props.C17
import Hub.Props.C11
import Hub.Props.C16
import Hub.Props.C13
import Hub.Props.C09
