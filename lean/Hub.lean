import Hub.Props.C10
