// instr: writes instrumented copies of the hub's mutating functions for the crash-point harness (C04).
// /repo is never touched: the copies go to <outdir> and are mapped over the originals with
// `go build -overlay`. After every *durable step* of a target function (a statement that calls one of
// the step functions, together with the error check that follows it) a call
// `verifCrashPoint("<Func>:<k>:<callee>")` is inserted, and one at the start of the function
// ("<Func>:0:begin"). The list of points per function is printed as JSON (stdout) — the same list
// becomes a regenerated Lean fact (tools/factgen, family Crash) and the generator's menu of crash points.
package main

import (
	"bytes"
	"encoding/json"
	"fmt"
	"go/ast"
	"go/parser"
	"go/printer"
	"go/token"
	"os"
	"path/filepath"
	"strings"
)

type target struct {
	File  string
	Recv  string
	Func  string
	Steps []string // callee names (last selector element, or "recv.sel" for disambiguation)
	Pre   bool     // also a point in front of every step (schedule points: another writer is started there)
}

var targets = []target{
	{"internal/server/dataset.go", "Dataset", "StoreEntities", []string{"StoreEntitiesWithTransaction", "commitIDTxn", "txn.Commit", "updateDataset"}, false},
	{"internal/server/store.go", "Store", "ExecuteTransaction", []string{"StoreEntitiesWithTransaction", "commitIDTxn", "txn.Commit", "updateDataset"}, false},
	{"internal/server/dsmanager.go", "DsManager", "CreateDataset", []string{"storeValue", "storeEntity"}, false},
	{"internal/server/dsmanager.go", "DsManager", "UpdateDataset", []string{"moveValue", "storeEntity"}, false},
	{"internal/server/dsmanager.go", "DsManager", "DeleteDataset", []string{"deleteValue", "StoreObject", "deleteValueAndStoreObject", "storeEntity"}, false},
	// compaction: every flush is one badger transaction (C12: kills between flushes)
	{"internal/service/dataset/compact.go", "", "flushDeletes", []string{"Update"}, false},
	// the rolling id transaction shared by all writers: schedule points around its commit (C05/C13)
	{"internal/server/store.go", "Store", "commitIDTxn", []string{"Commit"}, true},
	// the namespace table: schedule points in front of every lock acquisition of the function that adds a prefix (C13)
	{"internal/server/store.go", "NamespaceManager", "AssertPrefixMappingForExpansion", []string{"lock.Lock", "lock.RLock"}, true},
}

var fset = token.NewFileSet()

func str(n ast.Node) string {
	var b bytes.Buffer
	printer.Fprint(&b, fset, n)
	return strings.Join(strings.Fields(b.String()), " ")
}

// stepOf returns the step callee called (directly, not inside a function literal) by the statement.
func stepOf(s ast.Stmt, steps []string) string {
	found := ""
	ast.Inspect(s, func(n ast.Node) bool {
		switch x := n.(type) {
		case *ast.FuncLit, *ast.BlockStmt:
			return false
		case *ast.CallExpr:
			f := str(x.Fun)
			for _, st := range steps {
				if f == st || strings.HasSuffix(f, "."+st) {
					if found == "" {
						found = st
					}
				}
			}
		}
		return true
	})
	return found
}

func isErrCheck(s ast.Stmt) bool {
	is, ok := s.(*ast.IfStmt)
	if !ok || is.Init != nil {
		return false
	}
	be, ok := is.Cond.(*ast.BinaryExpr)
	return ok && be.Op == token.NEQ && str(be.Y) == "nil"
}

func point(name string) ast.Stmt {
	return &ast.ExprStmt{X: &ast.CallExpr{Fun: ast.NewIdent("verifCrashPoint"), Args: []ast.Expr{&ast.BasicLit{Kind: token.STRING, Value: fmt.Sprintf("%q", name)}}}}
}

func instrument(fd *ast.FuncDecl, t target) []string {
	names := []string{t.Func + ":0:begin"}
	k := 0
	var walk func(list []ast.Stmt) []ast.Stmt
	walk = func(list []ast.Stmt) []ast.Stmt {
		out := []ast.Stmt{}
		for i := 0; i < len(list); i++ {
			s := list[i]
			// nested blocks first (loops, ifs without a step in their header)
			switch x := s.(type) {
			case *ast.ForStmt:
				x.Body.List = walk(x.Body.List)
			case *ast.RangeStmt:
				x.Body.List = walk(x.Body.List)
			case *ast.BlockStmt:
				x.List = walk(x.List)
			case *ast.IfStmt:
				if x.Init == nil || stepOf(x.Init, t.Steps) == "" {
					x.Body.List = walk(x.Body.List)
					if eb, ok := x.Else.(*ast.BlockStmt); ok {
						eb.List = walk(eb.List)
					}
				}
			}
			var callee string
			switch x := s.(type) {
			case *ast.AssignStmt, *ast.ExprStmt:
				callee = stepOf(s, t.Steps)
			case *ast.IfStmt:
				if x.Init != nil {
					callee = stepOf(x.Init, t.Steps) // `if err := step(); err != nil { return }`
				}
			}
			if rs, ok := s.(*ast.ReturnStmt); ok && t.Pre {
				// `return step()`: only a point in front of it
				if c := stepOf(rs, t.Steps); c != "" {
					name := fmt.Sprintf("%s:pre%d:%s", t.Func, k+1, c)
					names = append(names, name)
					out = append(out, point(name))
				}
			}
			if callee != "" && t.Pre {
				name := fmt.Sprintf("%s:pre%d:%s", t.Func, k+1, callee)
				names = append(names, name)
				out = append(out, point(name))
			}
			out = append(out, s)
			if callee == "" {
				continue
			}
			// keep the error check that belongs to the step in front of the point
			if i+1 < len(list) && isErrCheck(list[i+1]) {
				i++
				out = append(out, list[i])
			}
			k++
			name := fmt.Sprintf("%s:%d:%s", t.Func, k, callee)
			names = append(names, name)
			out = append(out, point(name))
		}
		return out
	}
	body := walk(fd.Body.List)
	// the begin point goes after the leading lock/defer statements would be nicer, but the very first
	// statement is simplest and equivalent for a crash (nothing durable has happened yet)
	fd.Body.List = append([]ast.Stmt{point(names[0])}, body...)
	return names
}

func main() {
	if len(os.Args) < 3 {
		fmt.Fprintln(os.Stderr, "usage: instr <repo> <outdir>")
		os.Exit(2)
	}
	repo, outdir := os.Args[1], os.Args[2]
	files := map[string]*ast.File{}
	res := map[string]interface{}{}
	points := map[string][]string{}
	for _, t := range targets {
		f := files[t.File]
		if f == nil {
			var err error
			f, err = parser.ParseFile(fset, filepath.Join(repo, t.File), nil, parser.ParseComments)
			if err != nil {
				fmt.Fprintln(os.Stderr, err)
				os.Exit(1)
			}
			files[t.File] = f
		}
		done := false
		for _, d := range f.Decls {
			fd, ok := d.(*ast.FuncDecl)
			if !ok || fd.Name.Name != t.Func || fd.Body == nil {
				continue
			}
			if t.Recv == "" {
				if fd.Recv != nil {
					continue
				}
			} else {
				if fd.Recv == nil {
					continue
				}
				rt := fd.Recv.List[0].Type
				if s, ok := rt.(*ast.StarExpr); ok {
					rt = s.X
				}
				if id, ok := rt.(*ast.Ident); !ok || id.Name != t.Recv {
					continue
				}
			}
			points[t.Func] = instrument(fd, t)
			done = true
		}
		if !done {
			fmt.Fprintf(os.Stderr, "instr: %s.%s not found in %s\n", t.Recv, t.Func, t.File)
			os.Exit(1)
		}
	}
	repl := map[string]string{}
	for rel, f := range files {
		f.Comments = nil // positions of comments no longer fit; the copy is only compiled
		var b bytes.Buffer
		if err := printer.Fprint(&b, fset, f); err != nil {
			fmt.Fprintln(os.Stderr, err)
			os.Exit(1)
		}
		out := filepath.Join(outdir, strings.ReplaceAll(rel, "/", "__"))
		if err := os.WriteFile(out, b.Bytes(), 0o644); err != nil {
			fmt.Fprintln(os.Stderr, err)
			os.Exit(1)
		}
		repl[filepath.Join(repo, rel)] = out
	}
	res["points"] = points
	res["replace"] = repl
	b, _ := json.MarshalIndent(res, "", " ")
	fmt.Println(string(b))
}
