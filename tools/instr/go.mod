module instr

go 1.23
