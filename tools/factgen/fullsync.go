package main

import (
	"go/ast"
	"strings"
)

func init() {
	families["FullSync"] = func() {
		const f = "internal/server/dataset.go"
		o := newOut("FullSync", "FullSync")
		c := mustFunc(f, "Dataset", "CompleteFullSync")
		o.p("def completeGuard : List String := %s\n", leanList(ifCondsWhoseBodyContains(c, "return errors.New(\"no fullsync in progress")))
		o.p("def deleteCond : List String := %s\n", leanList(append(ifCondsWhoseBodyContains(c, "_, ok := ds.fullSyncSeen[e.InternalID]"), ifCondsWhoseBodyContains(c, "e.IsDeleted = true")...)))
		r := mustFunc(f, "Dataset", "RefreshFullSyncLease")
		var conds []string
		ast.Inspect(r.Body, func(n ast.Node) bool {
			if _, ok := n.(*ast.FuncLit); ok {
				return false
			}
			if is, ok := n.(*ast.IfStmt); ok {
				conds = append(conds, oneLine(str(is.Cond)))
				if e, ok := is.Else.(*ast.IfStmt); ok {
					_ = e
				}
			}
			return true
		})
		// drop the lease-cancel nil checks, keep the decision conditions
		var dec []string
		for _, cnd := range conds {
			if !strings.Contains(cnd, "cancel") {
				dec = append(dec, cnd)
			}
		}
		o.p("def refreshConds : List String := %s\n", leanList(dec))
		rel := mustFunc(f, "Dataset", "ReleaseFullSyncLease")
		o.p("def releaseGuard : List String := %s\n", leanList(ifCondsWhoseBodyContains(rel, "return errors.New")))
		// where entities are recorded as seen
		fn := "none"
		var cond []string
		for _, name := range []string{"StoreEntitiesWithTransaction", "StoreEntities"} {
			fd := mustFunc(f, "Dataset", name)
			cs := ifCondsWhoseBodyContains(fd, "ds.fullSyncSeen[e.InternalID] = 1")
			if len(cs) > 0 && fn == "none" {
				fn = name
				cond = cs
			}
		}
		o.p("def seenMark : List String := %s\ndef seenMarkFunc : String := %s\n", leanList(cond), leanStr(fn))
		h := mustFunc("internal/web/datasethandler.go", "datasetHandler", "processEntities")
		o.p("def handlerOrder : List String := %s\n", leanList(callsIn(h.Body, "StartFullSyncWithLease", "RefreshFullSyncLease", "StoreEntities", "ReleaseFullSyncLease", "CompleteFullSync")))
		o.p("def handlerRefreshCond : List String := %s\n", leanList(append(ifCondsWhoseBodyContains(h, "err = dataset.RefreshFullSyncLease(fullSyncID)"), []string{}...)))
		o.write(outDir, "FullSync")
	}
}
