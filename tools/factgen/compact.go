package main

import "go/ast"

func init() {
	families["Compact"] = func() {
		o := newOut("Compact", "Compact")
		ev := mustFunc("internal/service/dataset/compact_stategy_deduplicate.go", "deduplicationStrategy", "eval")
		o.p("def evalFirst : List String := %s\n", leanList(ifCondsWhoseBodyContains(ev, "return nil, nil")[:1]))
		o.p("def dupCond : List String := %s\n", leanList(ifCondsWhoseBodyContains(ev, "isDuplicate = true")))
		o.p("def baseAdvance : List String := %s\n", leanList(ifCondsWhoseBodyContains(ev, "d.prev = e")[1:]))
		o.p("def latestRewrite : List String := %s\n", leanList(ifCondsWhoseBodyContains(ev, "latestKey := mkLatestKey(jsonKey)")))
		rd := append(ifCondsWhoseBodyContains(ev, "for k, stringOrArrayValue := range e.References"), ifCondsWhoseBodyContains(ev, "refsToDel, err := processRefs")...)
		rd = append(rd, ifCondsWhoseBodyContains(ev, "del = append(del, refsToDel...)")...)
		o.p("def refDedupCond : List String := %s\n", leanList(rd))
		fl := mustFunc("internal/service/dataset/compact.go", "", "flushDeletes")
		o.p("def flushOrder : List String := %s\n", leanList(callsIn(fl.Body, "flush", "Get", "Delete", "Set")))
		// the loop that re-points latest pointers: compare with the snapshot's value before the Set
		rw := []string{"?"}
		ast.Inspect(fl.Body, func(n ast.Node) bool {
			if r, ok := n.(*ast.RangeStmt); ok && oneLine(str(r.X)) == "ops.RewriteKeys" {
				rw = skeleton(r.Body, suffixIn("Get", "ValueCopy", "Equal", "Set"), func(l string) bool { return l == "continue" || l == "break" })
			}
			return true
		})
		o.p("def rewriteLoop : List String := %s\n", leanList(rw))
		o.p("def rewriteExpected : List String := %s\n", leanList(assignRHS(ev, "rewriteExpected")))
		// the whole decision procedure of the strategy, as a skeleton: which helper is called on which base, and what is remembered
		o.p("def skeleton_eval : List String := %s\n", leanList(skeleton(ev.Body,
			suffixIn("IsEntityEqual", "findRefs", "processRefs", "DeepEqual", "bytes.Equal", "mkLatestKey"),
			func(l string) bool {
				return l == "d.prev" || l == "d.prevJsonKey" || l == "d.prevEntityBytes" || l == "identical" || l == "isDuplicate" || l == "break" || l == "continue"
			})))
		// the look-ahead that protects the reference keys versions of one batch share
		lv := mustFunc("internal/service/dataset/compact_stategy_deduplicate.go", "", "laterVersionInSameBatch")
		o.p("def laterInBatch : List String := %s\n", leanList(topStatements(lv)))
		fe := mustFunc("internal/service/dataset/compact.go", "CompactionWorker", "forEntity")
		// the change-log scan (strategy.flush) runs in EVERY flush transaction, unconditionally: first
		// statement of the Update closure
		first := "?"
		ast.Inspect(fl.Body, func(n ast.Node) bool {
			if f, ok := n.(*ast.FuncLit); ok && first == "?" && len(f.Body.List) > 0 {
				first = oneLine(str(f.Body.List[0]))
			}
			return true
		})
		o.p("def flushEveryTime : String := %s\n", leanStr(first))
		o.p("def resetAfterFlush : List String := %s\n", leanList(ifCondsWhoseBodyContains(fe, "ops.reset()")))
		o.write(outDir, "Compact")
	}
}
