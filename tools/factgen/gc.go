package main

import (
	"go/ast"
	"strings"
)

func init() {
	families["Gc"] = func() {
		o := newOut("Gc", "Gc")
		cd := mustFunc("internal/server/garbagecollector.go", "GarbageCollector", "Cleandeleted")
		// walk the statements in order: remember the last index constant and prefix length, record each
		// deleteByPrefixAndSelectorFunction call with its selector
		var sel []string
		lastIdx, lastLen := "?", "?"
		ast.Inspect(cd.Body, func(n ast.Node) bool {
			switch x := n.(type) {
			case *ast.AssignStmt:
				if len(x.Lhs) == 1 && str(x.Lhs[0]) == "index" {
					if ce, ok := x.Rhs[0].(*ast.CallExpr); ok && str(ce.Fun) == "make" && len(ce.Args) == 2 {
						lastLen = str(ce.Args[1])
					}
				}
			case *ast.CallExpr:
				f := str(x.Fun)
				if f == "binary.BigEndian.PutUint16" && len(x.Args) == 2 && str(x.Args[0]) == "index" {
					lastIdx = str(x.Args[1])
				}
				if strings.HasSuffix(f, "deleteByPrefixAndSelectorFunction") && len(x.Args) == 2 {
					body := oneLine(str(x.Args[1]))
					s := "unknown"
					if lastLen == "6" && strings.Contains(body, "return true") {
						s = "prefix6:deletedDsID"
					} else if fl, ok := x.Args[1].(*ast.FuncLit); ok {
						for _, r := range readerOffsetsNode(fl.Body) {
							s = r
						}
						if !strings.Contains(body, "deletedDatasets[dsInternalID]") {
							s = "unknown"
						}
					}
					sel = append(sel, lastIdx+":"+s)
				}
			}
			return true
		})
		o.p("def gcSelectors : List String := %s\n", leanList(sel))
		const dm = "internal/server/dsmanager.go"
		del := mustFunc(dm, "DsManager", "DeleteDataset")
		o.p("def deleteSteps : List String := %s\n", leanList(callsIn(del.Body, "Delete", "deleteValue", "StoreObject", "deleteValueAndStoreObject", "storeEntity")))
		cr := mustFunc(dm, "DsManager", "CreateDataset")
		o.p("def createSteps : List String := %s\n", leanList(callsIn(cr.Body, "storeValue", "Store", "storeEntity")))
		first := "?"
		ast.Inspect(cr.Body, func(n ast.Node) bool {
			if ce, ok := n.(*ast.CallExpr); ok && strings.HasSuffix(str(ce.Fun), "storeValue") && first == "?" && len(ce.Args) == 2 {
				first = str(ce.Args[0])
			}
			return true
		})
		o.p("def createFirstStore : String := %s\n", leanStr(first))
		up := mustFunc(dm, "DsManager", "UpdateDataset")
		o.p("def renameSteps : List String := %s\n", leanList(callsIn(up.Body, "moveValue", "Delete", "Store", "storeEntity")))
		ge := mustFunc("internal/server/store.go", "Store", "GetEntityAtPointInTimeWithInternalID")
		o.p("def lookupDeletedFilter : List String := %s\n", leanList(ifCondsWhoseBodyContains(ge, "continue")))
		gr := mustFunc("internal/server/store.go", "Store", "GetRelatedAtTime")
		var rf []string
		for _, c := range ifCondsWhoseBodyContains(gr, "continue") {
			if strings.Contains(c, "deletedDatasets") {
				rf = append(rf, c)
			}
		}
		o.p("def relatedDeletedFilter : List String := %s\n", leanList(rf))
		o.write(outDir, "Gc")
	}
}

func readerOffsetsNode(n ast.Node) []string {
	var res []string
	ast.Inspect(n, func(n ast.Node) bool {
		ce, ok := n.(*ast.CallExpr)
		if !ok || len(ce.Args) != 1 {
			return true
		}
		if strings.HasPrefix(str(ce.Fun), "binary.BigEndian.Uint") {
			res = append(res, oneLine(str(ce)))
		}
		return true
	})
	return res
}
