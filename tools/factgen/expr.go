package main

import (
	"fmt"
	"go/ast"
	"go/token"
	"strings"
)

// Tiny translator for straight-line Go integer code into Lean `Int` definitions.
// Identifiers are prefixed with v_ (several Go names are Lean keywords); len(x) becomes len_x.

type tr struct {
	params map[string]bool // free variables encountered
	order  []string
}

func (t *tr) use(n string) string {
	if !t.params[n] {
		t.params[n] = true
		t.order = append(t.order, n)
	}
	return n
}

func (t *tr) expr(e ast.Expr, bound map[string]bool) string {
	switch x := e.(type) {
	case *ast.BasicLit:
		if x.Kind == token.INT {
			return x.Value
		}
	case *ast.Ident:
		n := "v_" + x.Name
		if !bound[n] {
			t.use(n)
		}
		return n
	case *ast.ParenExpr:
		return "(" + t.expr(x.X, bound) + ")"
	case *ast.CallExpr:
		if id, ok := x.Fun.(*ast.Ident); ok && id.Name == "len" && len(x.Args) == 1 {
			n := "len_" + sanitize(str(x.Args[0]))
			if !bound[n] {
				t.use(n)
			}
			return n
		}
		if id, ok := x.Fun.(*ast.Ident); ok && (id.Name == "int" || id.Name == "int64" || id.Name == "uint64") && len(x.Args) == 1 {
			return t.expr(x.Args[0], bound)
		}
	case *ast.BinaryExpr:
		a, b := t.expr(x.X, bound), t.expr(x.Y, bound)
		switch x.Op {
		case token.ADD:
			return "(" + a + " + " + b + ")"
		case token.SUB:
			return "(" + a + " - " + b + ")"
		case token.MUL:
			return "(" + a + " * " + b + ")"
		case token.QUO:
			return "(Int.tdiv " + a + " " + b + ")"
		case token.REM:
			return "(Int.tmod " + a + " " + b + ")"
		case token.LSS:
			return "(decide (" + a + " < " + b + "))"
		case token.LEQ:
			return "(decide (" + a + " ≤ " + b + "))"
		case token.GTR:
			return "(decide (" + a + " > " + b + "))"
		case token.GEQ:
			return "(decide (" + a + " ≥ " + b + "))"
		case token.EQL:
			return "(decide (" + a + " = " + b + "))"
		case token.NEQ:
			return "(decide (" + a + " ≠ " + b + "))"
		case token.LOR:
			return "(" + a + " || " + b + ")"
		case token.LAND:
			return "(" + a + " && " + b + ")"
		}
	case *ast.UnaryExpr:
		if x.Op == token.NOT {
			return "(!" + t.expr(x.X, bound) + ")"
		}
		if x.Op == token.SUB {
			return "(-" + t.expr(x.X, bound) + ")"
		}
	}
	panic(fmt.Sprintf("untranslatable expression %q at %s", str(e), pos(e)))
}

func sanitize(s string) string {
	var b strings.Builder
	for _, c := range s {
		if (c >= 'a' && c <= 'z') || (c >= 'A' && c <= 'Z') || (c >= '0' && c <= '9') || c == '_' {
			b.WriteRune(c)
		} else {
			b.WriteRune('_')
		}
	}
	return b.String()
}

// block translates a run of statements of the forms
//   x := e | x = e | x += e | if c { x = e ... }   (no else)
// into nested lets and returns the tuple of `results`. It stops (successfully) at the first
// statement outside that language.
func (t *tr) block(stmts []ast.Stmt, results []string) (string, int) {
	bound := map[string]bool{}
	var sb strings.Builder
	n := 0
	assign := func(as *ast.AssignStmt, cond string) bool {
		if len(as.Lhs) != 1 || len(as.Rhs) != 1 {
			return false
		}
		id, ok := as.Lhs[0].(*ast.Ident)
		if !ok {
			return false
		}
		name := "v_" + id.Name
		var rhs string
		switch as.Tok {
		case token.DEFINE, token.ASSIGN:
			rhs = t.expr(as.Rhs[0], bound)
		case token.ADD_ASSIGN:
			rhs = "(" + t.expr(id, bound) + " + " + t.expr(as.Rhs[0], bound) + ")"
		default:
			return false
		}
		if cond != "" {
			old := t.expr(id, bound)
			rhs = "(if " + cond + " then " + rhs + " else " + old + ")"
		}
		fmt.Fprintf(&sb, "  let %s : Int := %s\n", name, rhs)
		bound[name] = true
		return true
	}
	for _, s := range stmts {
		ok := func() (ok bool) {
			defer func() {
				if r := recover(); r != nil {
					ok = false
				}
			}()
			switch x := s.(type) {
			case *ast.AssignStmt:
				return assign(x, "")
			case *ast.IfStmt:
				if x.Else != nil || x.Init != nil {
					return false
				}
				// check the body first (all simple assignments), then emit
				for _, bs := range x.Body.List {
					as, isAs := bs.(*ast.AssignStmt)
					if !isAs || as.Tok != token.ASSIGN {
						return false
					}
				}
				cond := t.expr(x.Cond, bound)
				for _, bs := range x.Body.List {
					if !assign(bs.(*ast.AssignStmt), cond+" = true") {
						return false
					}
				}
				return true
			}
			return false
		}()
		if !ok {
			break
		}
		n++
	}
	rs := make([]string, len(results))
	for i, r := range results {
		name := "v_" + r
		if !bound[name] {
			t.use(name)
		}
		rs[i] = name
	}
	sb.WriteString("  (" + strings.Join(rs, ", ") + ")\n")
	return sb.String(), n
}

func (t *tr) paramList() string {
	var sb strings.Builder
	for _, p := range t.order {
		fmt.Fprintf(&sb, " (%s : Int)", p)
	}
	return sb.String()
}
