package main

import (
	"go/ast"
	"sort"
	"strings"
)

// Shapes the crash model (C04) relies on: one data transaction per batch / per multi-dataset
// transaction that receives every key, the id transaction committed unconditionally before it, the
// metadata update after it, change positions from a Sequence that is released when the loop ends.
func init() {
	families["CrashFacts"] = func() {
		o := newOut("CrashFacts", "CrashFacts")
		calls := suffixIn("NewTransaction", "StoreEntitiesWithTransaction", "commitIDTxn", "txn.Commit", "updateDataset", "WriteLock.Lock", "WriteLock.Unlock", "txn.Discard")
		se := mustFunc("internal/server/dataset.go", "Dataset", "StoreEntities")
		o.p("def skeleton_StoreEntities : List String := %s\n", leanList(skeleton(se.Body, calls, nil)))
		et := mustFunc("internal/server/store.go", "Store", "ExecuteTransaction")
		o.p("def skeleton_ExecuteTransaction : List String := %s\n", leanList(skeleton(et.Body, calls, nil)))
		// every key of the write loop goes to the transaction it was handed
		w := mustFunc("internal/server/dataset.go", "Dataset", "StoreEntitiesWithTransaction")
		recv := map[string]bool{}
		var newTxn []string
		var seq []string
		ast.Inspect(w.Body, func(n ast.Node) bool {
			switch x := n.(type) {
			case *ast.DeferStmt:
				if strings.Contains(str(x.Call), "logseq.Release()") {
					seq = append(seq, "defer logseq.Release")
				}
			case *ast.CallExpr:
				if se, ok := x.Fun.(*ast.SelectorExpr); ok {
					switch se.Sel.Name {
					case "Set", "Delete", "SetEntry":
						recv[oneLine(str(se.X))] = true
					case "NewTransaction", "Update":
						newTxn = append(newTxn, oneLine(str(x)))
					case "GetSequence":
						if len(x.Args) == 2 {
							seq = append(seq, "GetSequence bandwidth "+oneLine(str(x.Args[1])))
						}
					case "Next":
						if oneLine(str(se.X)) == "logseq" {
							seq = append(seq, "logseq.Next")
						}
					}
				}
			}
			return true
		})
		var rs []string
		for r := range recv {
			rs = append(rs, r)
		}
		sort.Strings(rs)
		o.p("def writeLoopReceivers : List String := %s\n", leanList(rs))
		o.p("def writeLoopTransactions : List String := %s\n", leanList(newTxn))
		o.p("def writeLoopSequence : List String := %s\n", leanList(seq))
		// the parameter the keys go to is the function's transaction parameter
		var params []string
		for _, f := range w.Type.Params.List {
			for _, n := range f.Names {
				params = append(params, n.Name+" "+oneLine(str(f.Type)))
			}
		}
		o.p("def writeLoopParams : List String := %s\n", leanList(params))
		// the rolling id transaction: commit, then forget
		ci := mustFunc("internal/server/store.go", "Store", "commitIDTxn")
		o.p("def commitIDTxnBody : List String := %s\n", leanList(topStatements(ci)))
		// the id sequence: leased at open, released at close
		o.p("def idSequence : List String := %s\n", leanList(grepCalls("internal/server/store.go", "idseq")))
		o.write(outDir, "CrashFacts")
	}
}

// grepCalls lists "<func>: <call>" for every call on a selector chain containing `needle` in a file.
func grepCalls(rel, needle string) []string {
	f := load(rel)
	var res []string
	if f == nil {
		return res
	}
	for _, d := range f.f.Decls {
		fd, ok := d.(*ast.FuncDecl)
		if !ok || fd.Body == nil {
			continue
		}
		ast.Inspect(fd.Body, func(n ast.Node) bool {
			if ce, ok := n.(*ast.CallExpr); ok {
				fn := oneLine(str(ce.Fun))
				if strings.Contains(fn, needle) {
					res = append(res, fd.Name.Name+": "+fn)
				}
			}
			return true
		})
	}
	return res
}
