package main

import (
	"go/ast"
	"strings"
)

func init() {
	families["Namespace"] = func() {
		const f = "internal/server/store.go"
		o := newOut("Namespace", "Namespace")
		a := mustFunc(f, "NamespaceManager", "AssertPrefixMappingForExpansion")
		stmts := topStatements(a)
		locked := len(stmts) >= 2 && stmts[0] == "namespaceManager.lock.Lock()" && stmts[1] == "defer namespaceManager.lock.Unlock()"
		body := stmts
		if locked {
			body = stmts[2:]
		}
		o.p("def assertBody : List String := %s\ndef assertLocked : Bool := %v\n", leanList(body), locked)
		up := mustFunc(f, "", "getURLParts")
		o.p("def urlPartsSplits : List String := %s\n", leanList(assignRHS(up, "index")))
		ex := mustFunc(f, "NamespaceManager", "ExpandCurie")
		o.p("def expandSplit : List String := %s\n", leanList(assignRHS(ex, "splitOffset")))
		g := mustFunc(f, "NamespaceManager", "GetPrefixToExpansionMap")
		kind := "live"
		if strings.Contains(str(g.Body), "make(map[string]string") {
			kind = "copy"
		}
		o.p("def prefixMapAccessor : String := %s\n", leanStr(kind))
		_ = ast.Inspect
		o.write(outDir, "Namespace")
	}
}
