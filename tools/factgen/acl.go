package main

import (
	"go/ast"
	"go/token"
	"strings"
)

func init() {
	families["Acl"] = func() {
		o := newOut("Acl", "Acl")
		d := mustFunc("internal/web/middlewares/authorization.go", "", "doAclCheck")
		// action := <default>; if method == A || method == B ... { action = <other> }
		def, other := "unknown", "unknown"
		var methods []string
		ast.Inspect(d.Body, func(n ast.Node) bool {
			switch x := n.(type) {
			case *ast.AssignStmt:
				if len(x.Lhs) == 1 && str(x.Lhs[0]) == "action" && x.Tok == token.DEFINE {
					def = str(x.Rhs[0])
				}
			case *ast.IfStmt:
				if len(x.Body.List) == 1 {
					if as, ok := x.Body.List[0].(*ast.AssignStmt); ok && str(as.Lhs[0]) == "action" {
						other = str(as.Rhs[0])
						// collect `method == X` disjuncts
						var walk func(e ast.Expr)
						walk = func(e ast.Expr) {
							if b, ok := e.(*ast.BinaryExpr); ok {
								if b.Op == token.LOR {
									walk(b.X)
									walk(b.Y)
									return
								}
								if b.Op == token.EQL && str(b.X) == "method" {
									methods = append(methods, str(b.Y))
									return
								}
							}
							methods = append(methods, "unknown:"+oneLine(str(e)))
						}
						walk(x.Cond)
					}
				}
			}
			return true
		})
		if def == "\"write\"" {
			o.p("def defaultAction : String := %s\ndef readAction : String := %s\ndef readMethods : List String := %s\n", leanStr(def), leanStr(other), leanList(methods))
		} else {
			// shape "action := read; if … { action = write }": report as write methods
			o.p("def defaultAction : String := %s\ndef readAction : String := %s\ndef readMethods : List String := %s\n", leanStr(def), leanStr(other), leanList(append([]string{"WRITE-LIST"}, methods...)))
		}
		o.p("def adminShortCircuit : List String := %s\n", leanList(ifCondsWhoseBodyContains(d, "return nil")[:1]))
		o.p("def decisionCall : List String := %s\n", leanList(ifCondsWhoseBodyContains(d, "return nil")[1:]))
		ig := mustFunc("internal/security/manager.go", "ServiceCore", "IsGranted")
		var loop []string
		ret := ""
		for _, s := range ig.Body.List {
			if rs, ok := s.(*ast.RangeStmt); ok {
				for _, b := range rs.Body.List {
					loop = append(loop, oneLine(str(b)))
				}
			}
			if r, ok := s.(*ast.ReturnStmt); ok {
				ret = oneLine(str(r))
			}
		}
		o.p("def isGrantedLoop : List String := %s\ndef isGrantedReturn : String := %s\n", leanList(loop), leanStr(ret))
		cg := mustFunc("internal/security/manager.go", "ServiceCore", "CheckGranted")
		var conds, rets []string
		ast.Inspect(cg.Body, func(n ast.Node) bool {
			switch x := n.(type) {
			case *ast.IfStmt:
				conds = append(conds, oneLine(str(x.Cond)))
			case *ast.ReturnStmt:
				rets = append(rets, oneLine(str(x)))
			}
			return true
		})
		o.p("def checkGrantedConds : List String := %s\ndef checkGrantedReturns : List String := %s\n", leanList(conds), leanList(rets))
		// skipper prefixes
		nm := mustFunc("internal/web/middleware.go", "", "NewMiddleware")
		var prefixes []string
		ast.Inspect(nm.Body, func(n ast.Node) bool {
			if ce, ok := n.(*ast.CallExpr); ok && str(ce.Fun) == "strings.HasPrefix" && len(ce.Args) == 2 {
				prefixes = append(prefixes, str(ce.Args[1]))
			}
			return true
		})
		o.p("def skipperPrefixes : List String := %s\n", leanList(prefixes))
		// ValidateToken: assignments to err after `claims :=` and their guards; any `err = nil`?
		vt := mustFunc("internal/web/middlewares/authentication.go", "JwtConfig", "ValidateToken")
		var assigns, checks []string
		after := false
		for _, s := range vt.Body.List {
			if as, ok := s.(*ast.AssignStmt); ok && strings.HasPrefix(str(as), "claims :=") {
				after = true
			}
			if !after {
				continue
			}
			ast.Inspect(s, func(n ast.Node) bool {
				if is, ok := n.(*ast.IfStmt); ok {
					for _, b := range is.Body.List {
						if as, ok := b.(*ast.AssignStmt); ok && str(as.Lhs[0]) == "err" {
							assigns = append(assigns, oneLine(str(as.Rhs[0])))
							checks = append(checks, oneLine(str(is.Cond)))
						}
					}
				}
				return true
			})
		}
		o.p("def validateErrAssigns : List String := %s\ndef validateChecks : List String := %s\n", leanList(assigns), leanList(checks))
		// persistence: which getter feeds which file
		var aw, cw []string
		for _, fn := range []string{"DeleteClientAccessControls", "SetClientAccessControls", "RegisterClient"} {
			fd := mustFunc("internal/security/manager.go", "ServiceCore", fn)
			var lastGetter string
			ast.Inspect(fd.Body, func(n ast.Node) bool {
				if ce, ok := n.(*ast.CallExpr); ok {
					f := str(ce.Fun)
					if f == "json.Marshal" && len(ce.Args) == 1 {
						lastGetter = strings.TrimSuffix(strings.TrimPrefix(str(ce.Args[0]), "serviceCore."), "()")
					}
					if strings.HasSuffix(f, "WriteFile") && len(ce.Args) >= 1 {
						if strings.Contains(str(ce.Args[0]), "acls.json") {
							aw = append(aw, fn+":"+lastGetter)
						}
						if strings.Contains(str(ce.Args[0]), "clients.json") {
							cw = append(cw, fn+":"+lastGetter)
						}
					}
				}
				return true
			})
		}
		rc := mustFunc("internal/security/manager.go", "ServiceCore", "RegisterClient")
		var unreg []string
		ast.Inspect(rc.Body, func(n ast.Node) bool {
			if is, ok := n.(*ast.IfStmt); ok && oneLine(str(is.Cond)) == "clientInfo.Deleted" {
				for _, b := range is.Body.List {
					unreg = append(unreg, oneLine(str(b)))
				}
			}
			return true
		})
		o.p("def unregisterCalls : List String := %s\n", leanList(unreg))
		o.p("def aclsWriters : List String := %s\ndef clientsWriters : List String := %s\n", leanList(aw), leanList(cw))
		o.write(outDir, "Acl")
	}
}
