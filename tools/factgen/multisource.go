package main

import (
	"go/ast"
	"strings"
)

// Shapes of MultiSource (C18): order of dependency windows and the main page, where the dependency token is
// advanced relative to the emissions, the conditions of the back-dated first-hop query, the scope of the
// final lookup.
func init() {
	families["MultiSource"] = func() {
		o := newOut("MultiSource", "MultiSource")
		calls := suffixIn("findChanges", "GetRelatedAtTime", "GetEntityWithInternalID", "processEntities", "GetChanges", "processDependency",
			"incrementalRead", "ProcessChanges", "GetPredicateID", "DatasetsToInternalIDs", "grabWatermarks", "GetChangesWatermark", "getDatasetFor")
		watch := func(l string) bool {
			switch l {
			case "d.DependencyTokens[dep.Dataset]", "d.DependencyTokens[depName]", "d.DependencyTokens[d.activeDS]", "startPoints", "d.activeDS", "d.MainToken", "prevDataset",
				"multiSource.changesCache[depDataset.ID]", "multiSource.waterMarks[dep.Dataset]", "prevRelatedFrom.At", "since", "multiSource.isFullSync", "lastOfDataset":
				return true
			}
			return false
		}
		for _, fn := range []string{"ReadEntities", "processDependency", "findChanges", "incrementalRead", "grabWatermarks", "StartFullSync", "EndFullSync"} {
			fd := mustFunc("internal/jobs/source/multi_source.go", "MultiSource", fn)
			o.p("def skeleton_%s : List String := %s\n", fn, leanList(skeleton(fd.Body, calls, watch)))
		}
		// which dependency may move its dataset's token: the call's arguments and the loop that computes the flag
		rd := mustFunc("internal/jobs/source/multi_source.go", "MultiSource", "ReadEntities")
		var lastOf []string
		ast.Inspect(rd.Body, func(n ast.Node) bool {
			switch x := n.(type) {
			case *ast.RangeStmt:
				lastOf = append(lastOf, "range "+oneLine(str(x.X)))
			case *ast.IfStmt:
				if strings.Contains(str(x.Cond), "Dataset") {
					lastOf = append(lastOf, "if "+oneLine(str(x.Cond)))
				}
			case *ast.CallExpr:
				if strings.HasSuffix(oneLine(str(x.Fun)), "processDependency") {
					a := []string{}
					for _, e := range x.Args {
						a = append(a, oneLine(str(e)))
					}
					lastOf = append(lastOf, "call("+strings.Join(a, ", ")+")")
				}
			}
			return true
		})
		o.p("def lastOfDataset : List String := %s\n", leanList(lastOf))
		// the arguments of the reads (limits, latest-only flags, scopes)
		var args []string
		for _, fn := range []string{"processDependency", "findChanges", "incrementalRead"} {
			fd := mustFunc("internal/jobs/source/multi_source.go", "MultiSource", fn)
			ast.Inspect(fd.Body, func(n ast.Node) bool {
				if ce, ok := n.(*ast.CallExpr); ok {
					f := oneLine(str(ce.Fun))
					if suffixIn("GetChanges", "ProcessChanges", "GetEntityWithInternalID", "GetRelatedAtTime")(f) {
						as := []string{}
						for _, a := range ce.Args {
							if _, isLit := a.(*ast.FuncLit); isLit {
								as = append(as, "func")
							} else {
								as = append(as, oneLine(str(a)))
							}
						}
						args = append(args, fn+": "+f+"("+strings.Join(as, ", ")+")")
					}
				}
				return true
			})
		}
		o.p("def readArgs : List String := %s\n", leanList(args))
		b := mustFunc("internal/jobs/source/multi_source_dep_builder.go", "MultiSource", "DedupAndTrackImplicitDependencies")
		o.p("def dedupAndTrack : List String := %s\n", leanList(topStatements(b)))
		w := mustFunc("internal/server/dataset.go", "Dataset", "GetChangesWatermark")
		o.p("def watermarkIfs : List String := %s\n", leanList(ifCondsWhoseBodyContains(w, "empty = true")))
		o.write(outDir, "MultiSource")
	}
}
