module factgen

go 1.23
