package main

import (
	"go/ast"
	"strings"
)

func init() {
	families["Restart"] = func() {
		o := newOut("Restart", "Restart")
		op := mustFunc("internal/server/store.go", "Store", "Open")
		o.p("def openLoads : List String := %s\n", leanList(callExprs(op.Body, "readValue", "loadDatasets", "GetObject", "GetSequence")))
		cl := mustFunc("internal/server/store.go", "Store", "Close")
		o.p("def closeReleases : List String := %s\n", leanList(callExprs(cl.Body, "Release", "Close")))
		in := mustFunc("internal/security/manager.go", "ServiceCore", "Init")
		o.p("def initLoads : List String := %s\n", leanList(callExprs(in.Body, "loadClients", "loadAcls")))
		aj := mustFunc("internal/jobs/scheduler.go", "Scheduler", "AddJob")
		var jw []string
		for _, c := range callExprs(aj.Body, "StoreObject") {
			jw = append(jw, "AddJob:"+c)
		}
		o.p("def jobWrites : List String := %s\n", leanList(jw))
		// the retry delay is rescaled (seconds -> ns) by verification and scaled back for the stored form
		var sc []string
		sc = append(sc, assignRHS(mustFunc("internal/jobs/error_handler.go", "", "verifyErrorHandlers"), "eh.RetryDelay")...)
		if sf := findFunc("internal/jobs/scheduler.go", "", "storedForm"); sf != nil {
			sc = append(sc, assignRHS(sf, "c.RetryDelay")...)
		} else {
			sc = append(sc, "no-storedForm")
		}
		o.p("def retryDelayScaling : List String := %s\n", leanList(sc))
		st := mustFunc("internal/jobs/scheduler.go", "Scheduler", "Start")
		o.p("def jobLoadsOnStart : List String := %s\n", leanList(callExprs(st.Body, "loadConfigurations")))
		as := mustFunc("internal/server/store.go", "NamespaceManager", "AssertPrefixMappingForExpansion")
		o.p("def nsWriteThrough : Bool := %v\n", strings.Contains(str(as.Body), "StoreObject(NamespacesIndex"))
		o.write(outDir, "Restart")
	}
}

// callExprs lists the full text of calls whose function name matches one of names, in source order.
func callExprs(n ast.Node, names ...string) []string {
	var res []string
	ast.Inspect(n, func(n ast.Node) bool {
		if ce, ok := n.(*ast.CallExpr); ok {
			f := oneLine(str(ce.Fun))
			for _, nm := range names {
				if f == nm || strings.HasSuffix(f, "."+nm) {
					res = append(res, oneLine(str(ce)))
				}
			}
		}
		return true
	})
	return res
}
