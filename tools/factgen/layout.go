package main

import (
	"go/ast"
	"strings"
)

// Key layouts: for each named buffer in a function, the list of (value expr, offset, width) of
// binary.BigEndian.PutUintNN(buf[off:], expr) calls, plus reader offsets.
func putLayout(fd *ast.FuncDecl, buf string) [][3]string {
	var res [][3]string
	ast.Inspect(fd.Body, func(n ast.Node) bool {
		ce, ok := n.(*ast.CallExpr)
		if !ok || len(ce.Args) != 2 {
			return true
		}
		f := str(ce.Fun)
		if !strings.HasPrefix(f, "binary.BigEndian.PutUint") {
			return true
		}
		b, off := splitSlice(ce.Args[0])
		if b != buf {
			return true
		}
		for _, r := range res { // first occurrence of an offset only (the loops repeat the layout)
			if r[1] == off {
				return true
			}
		}
		res = append(res, [3]string{oneLine(str(ce.Args[1])), off, strings.TrimPrefix(f, "binary.BigEndian.PutUint")})
		return true
	})
	return res
}

func splitSlice(e ast.Expr) (string, string) {
	switch x := e.(type) {
	case *ast.SliceExpr:
		off := "0"
		if x.Low != nil {
			off = str(x.Low)
		}
		return str(x.X), off
	case *ast.Ident:
		return x.Name, "0"
	}
	return str(e), "?"
}

func leanLayout(l [][3]string) string {
	var parts []string
	for _, r := range l {
		parts = append(parts, "("+leanStr(r[0])+", "+r[1]+", "+r[2]+")")
	}
	return "[" + strings.Join(parts, ", ") + "]"
}

func readerOffsets(fd *ast.FuncDecl) []string {
	var res []string
	ast.Inspect(fd.Body, func(n ast.Node) bool {
		ce, ok := n.(*ast.CallExpr)
		if !ok || len(ce.Args) != 1 {
			return true
		}
		f := str(ce.Fun)
		if strings.HasPrefix(f, "binary.BigEndian.Uint") {
			res = append(res, oneLine(str(ce)))
		}
		return true
	})
	return res
}

func returnsOf(fd *ast.FuncDecl) []string {
	var res []string
	for _, s := range fd.Body.List {
		ast.Inspect(s, func(n ast.Node) bool {
			if _, ok := n.(*ast.FuncLit); ok {
				return false
			}
			if r, ok := n.(*ast.ReturnStmt); ok {
				res = append(res, oneLine(str(r)))
			}
			return true
		})
	}
	return res
}

func init() {
	families["Layout"] = func() {
		const f = "internal/server/dataset.go"
		o := newOut("Layout", "Layout")
		w := mustFunc(f, "Dataset", "StoreEntitiesWithTransaction")
		o.p("def entityKey : List (String × Nat × Nat) := %s\n", leanLayout(putLayout(w, "entityIDBuffer")))
		o.p("def latestKey : List (String × Nat × Nat) := %s\n", leanLayout(putLayout(w, "datasetEntitiesLatestVersionKey")))
		o.p("def changeKey : List (String × Nat × Nat) := %s\n", leanLayout(putLayout(w, "entityIDChangeTimeBuffer")))
		o.p("def outKey : List (String × Nat × Nat) := %s\n", leanLayout(putLayout(w, "outgoingBuffer")))
		o.p("def inKey : List (String × Nat × Nat) := %s\n", leanLayout(putLayout(w, "incomingBuffer")))
		// the skip rule and the in-batch predecessor
		o.p("def skipCond : List String := %s\n", leanList(ifCondsWhoseBodyContains(w, "continue")))
		o.p("def localSupersedes : List String := %s\n", leanList(assignRHS(w, "isDifferent")))
		o.p("def newItemsCond : List String := %s\n", leanList(ifCondsWhoseBodyContains(w, "newitems++")))
		o.p("def tombstoneRemovalCond : List String := %s\n", leanList(ifCondsWhoseBodyContains(w, "prevOutgoing := make([]byte, len(outgoingBuffer))")))
		pc := mustFunc(f, "Dataset", "ProcessChangesRaw")
		o.p("def changesSeek : List (String × Nat × Nat) := %s\n", leanLayout(putLayout(pc, "searchBuffer")))
		pfx := "unknown"
		ast.Inspect(pc.Body, func(n ast.Node) bool {
			if as, ok := n.(*ast.AssignStmt); ok && len(as.Lhs) == 1 && str(as.Lhs[0]) == "opts1.Prefix" {
				pfx = str(as.Rhs[0])
			}
			return true
		})
		o.p("def changesPrefixLen : String := %s\n", leanStr(pfx))
		o.p("def changesToken : List String := %s\n", leanList(returnsOf(pc)[len(returnsOf(pc))-2:]))
		o.p("def changesLimitTest : List String := %s\n", leanList(ifCondsWhoseBodyContains(pc, "break")))
		lo := mustFunc(f, "", "latestOnlyWrapper")
		o.p("def latestOnlyCompare : List String := %s\n", leanList(ifCondsWhoseBodyContains(lo, "return next(entityChangeID)")))
		rd := readerOffsets(lo)
		first := ""
		if len(rd) > 0 {
			first = rd[0]
		}
		o.p("def latestOnlyRid : String := %s\n", leanStr(first))
		me := mustFunc(f, "Dataset", "MapEntitiesRaw")
		o.p("def listSeek : List (String × Nat × Nat) := %s\n", leanLayout(putLayout(me, "searchBufferPrefix")))
		o.p("def listSkipToken : List String := %s\n", leanList(ifCondsWhoseBodyContains(me, "entityIterator.Next()")))
		o.p("def listLimitTest : List String := %s\n", leanList(ifCondsWhoseBodyContains(me, "break")))
		const sf = "internal/server/store.go"
		ge := mustFunc(sf, "Store", "GetEntityAtPointInTimeWithInternalID")
		o.p("def lookupReads : List String := %s\n", leanList(readerOffsets(ge)))
		o.p("def lookupTimeSkip : List String := %s\n", leanList(ifCondsWhoseBodyContains(ge, "continue")))
		gr := mustFunc(sf, "Store", "GetRelatedAtTime")
		o.p("def relatedReads : List String := %s\n", leanList(readerOffsets(gr)))
		o.p("def relatedSkips : List String := %s\n", leanList(ifCondsWhoseBodyContains(gr, "continue")))
		o.p("def relatedAddedMarks : List String := %s\n", leanList(ifCondsWhoseBodyContains(gr, "added[predID][relatedID] = true")))
		et := mustFunc(sf, "Store", "ExecuteTransaction")
		o.p("def txnSteps : List String := %s\n", leanList(callsIn(et.Body, "Lock", "Strings", "UnixNano", "StoreEntitiesWithTransaction", "commitIDTxn", "Commit", "updateDataset")))
		// a transaction is a map from dataset name to entities (one part per dataset), and every part's write loop is handed the
		// same badger transaction (= the same read snapshot) and the same commit time
		o.p("def txnPartsType : String := %s\n", leanStr(structFieldType(sf, "Transaction", "DatasetEntities")))
		o.p("def txnWriteArgs : List String := %s\n", leanList(callArgsOf(et.Body, "StoreEntitiesWithTransaction")))
		o.p("def txnSnapshots : List String := %s\n", leanList(callsIn(et.Body, "NewTransaction")))
		se := mustFunc(f, "Dataset", "StoreEntities")
		o.p("def storeSteps : List String := %s\n", leanList(callsIn(se.Body, "Lock", "Sleep", "UnixNano", "StoreEntitiesWithTransaction", "commitIDTxn", "Commit", "updateDataset")))
		o.write(outDir, "Layout")
	}
}

// structFieldType returns the printed type of field `field` of struct type `typ` declared in rel ("unknown" if absent).
func structFieldType(rel, typ, field string) string {
	f := load(rel)
	res := "unknown"
	if f == nil {
		return res
	}
	ast.Inspect(f.f, func(n ast.Node) bool {
		ts, ok := n.(*ast.TypeSpec)
		if !ok || ts.Name.Name != typ {
			return true
		}
		if st, ok := ts.Type.(*ast.StructType); ok {
			for _, fl := range st.Fields.List {
				for _, nm := range fl.Names {
					if nm.Name == field {
						res = str(fl.Type)
					}
				}
			}
		}
		return false
	})
	return res
}

// callArgsOf lists, in source order, the printed argument lists of every call of a function or method named `name`.
func callArgsOf(body ast.Node, name string) []string {
	var res []string
	ast.Inspect(body, func(n ast.Node) bool {
		c, ok := n.(*ast.CallExpr)
		if !ok {
			return true
		}
		fn := ""
		switch x := c.Fun.(type) {
		case *ast.SelectorExpr:
			fn = x.Sel.Name
		case *ast.Ident:
			fn = x.Name
		}
		if fn == name {
			var as []string
			for _, a := range c.Args {
				as = append(as, str(a))
			}
			res = append(res, strings.Join(as, ", "))
		}
		return true
	})
	return res
}
