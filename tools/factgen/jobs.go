package main

import (
	"go/ast"
	"strings"
)

// Shapes of job.Run, Scheduler.verify, raffle accessors and the pipelines' step order.
func init() {
	families["Jobs"] = func() {
		o := newOut("Jobs", "Jobs")
		// verify: number of `return nil` inside the loop over Triggers; where verifyErrorHandlers is called
		v := mustFunc("internal/jobs/scheduler.go", "Scheduler", "verify")
		retNil := 0
		depth := "none"
		ast.Inspect(v.Body, func(n ast.Node) bool {
			if rs, ok := n.(*ast.RangeStmt); ok && strings.Contains(str(rs.X), "Triggers") {
				ast.Inspect(rs.Body, func(m ast.Node) bool {
					if r, ok := m.(*ast.ReturnStmt); ok && len(r.Results) == 1 && str(r.Results[0]) == "nil" {
						retNil++
					}
					return true
				})
				// is verifyErrorHandlers called at the top level of the loop body (not under an if/else)?
				for _, s := range rs.Body.List {
					if as, ok := s.(*ast.AssignStmt); ok && strings.Contains(str(as), "verifyErrorHandlers(") {
						depth = "loop"
					}
				}
				if depth == "none" && strings.Contains(str(rs.Body), "verifyErrorHandlers(") {
					depth = "nested"
				}
			}
			return true
		})
		o.p("def verifyReturnNilInLoop : Nat := %d\ndef verifyHandlersCallDepth : String := %s\n", retNil, leanStr(depth))
		// Runner.killJob and every place that gives a ticket back: a kill only cancels the run's context, the ticket is
		// returned by the run itself (job.Run's deferred returnTicket) and by nobody else
		kj := mustFunc("internal/jobs/runner.go", "Runner", "killJob")
		o.p("def skeleton_killJob : List String := %s\n", leanList(skeleton(kj.Body,
			suffixIn("runningJob", "cancel", "returnTicket", "AfterFunc", "Sleep", "borrowTicket"), nil)))
		var returners []string
		for _, rel := range []string{"internal/jobs/runner.go", "internal/jobs/job.go", "internal/jobs/scheduler.go", "internal/jobs/raffle.go", "internal/jobs/error_handler.go"} {
			f := load(rel)
			if f == nil {
				continue
			}
			for _, d := range f.f.Decls {
				fd, ok := d.(*ast.FuncDecl)
				if !ok || fd.Body == nil {
					continue
				}
				ast.Inspect(fd.Body, func(n ast.Node) bool {
					if ce, ok := n.(*ast.CallExpr); ok && strings.HasSuffix(oneLine(str(ce.Fun)), "returnTicket") {
						returners = append(returners, recvName(fd)+"."+fd.Name.Name)
					}
					return true
				})
			}
		}
		o.p("def ticketReturners : List String := %s\n", leanList(returners))
		// job.Run: deferred calls in order of appearance
		run := mustFunc("internal/jobs/job.go", "job", "Run")
		var defers []string
		for _, s := range run.Body.List {
			if d, ok := s.(*ast.DeferStmt); ok {
				if fl, ok := d.Call.Fun.(*ast.FuncLit); ok {
					for _, bs := range fl.Body.List {
						defers = append(defers, oneLine(str(bs)))
					}
				} else {
					defers = append(defers, oneLine(str(d.Call)))
				}
			}
		}
		o.p("def runDefers : List String := %s\n", leanList(defers))
		// job.Run: the order ticket -> (refused: leave) -> error-handler instrumentation/reset -> pipeline
		o.p("def skeleton_Run : List String := %s\n", leanList(skeleton(run.Body,
			suffixIn("borrowTicket", "returnTicket", "instrumentErrorHandling", "handleJobError", "pipeline.sync", "isFullSync"), nil)))
		// raffle accessors
		var acc []string
		g := mustFunc("internal/jobs/raffle.go", "raffle", "getRunningJobs")
		kind := "live"
		body := str(g.Body)
		if strings.Contains(body, "make(map[string]*runState") && strings.Contains(body, "runningMu.Lock()") {
			kind = "copy"
		}
		acc = append(acc, "getRunningJobs:"+kind)
		rj := mustFunc("internal/jobs/raffle.go", "raffle", "runningJob")
		kind = "unlocked"
		if strings.Contains(str(rj.Body), "runningMu.Lock()") {
			kind = "locked"
		}
		acc = append(acc, "runningJob:"+kind)
		o.p("def raffleAccessorsCopy : List String := %s\n", leanList(acc))
		// borrow/return: the guards
		b := mustFunc("internal/jobs/raffle.go", "raffle", "borrowTicket")
		o.p("def borrowGuards : List String := %s\n", leanList(append(ifCondsWhoseBodyContains(b, "return nil"), append(ifCondsWhoseBodyContains(b, "r.ticketsFull--"), ifCondsWhoseBodyContains(b, "r.ticketsIncr--")...)...)))
		// the whole of borrowTicket runs under the mutex: Lock + deferred Unlock come before any read of the map
		bs := topStatements(b)
		lockFirst := "no"
		for i, st := range bs {
			if strings.Contains(st, "runningJobs") || strings.Contains(st, "runningJob(") {
				break
			}
			if st == "r.runningMu.Lock()" && i+1 < len(bs) && bs[i+1] == "defer r.runningMu.Unlock()" {
				lockFirst = "yes"
				break
			}
		}
		o.p("def borrowLockedFirst : String := %s\n", leanStr(lockFirst))
		// pipelines: order of sink write and token store
		for _, pl := range []string{"IncrementalPipeline", "FullSyncPipeline"} {
			fd := mustFunc("internal/jobs/pipeline.go", pl, "sync")
			calls := callsIn(fd.Body, "processEntities", "StoreObject", "endFullSync", "startFullSync", "transformEntities", "EndStoreContext", "Encode")
			var filtered []string
			for _, c := range calls {
				if c == "processEntities" { // the local closure
					continue
				}
				filtered = append(filtered, c)
			}
			o.p("def stepOrder_%s : List String := %s\n", pl, leanList(filtered))
		}
		o.write(outDir, "Jobs")
	}
}
