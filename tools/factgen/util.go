package main

import (
	"go/ast"
	"sort"
	"strings"
)

func mustFunc(rel, recv, name string) *ast.FuncDecl {
	fd := findFunc(rel, recv, name)
	if fd == nil {
		panic(recv + "." + name + " not found in " + rel)
	}
	return fd
}

// ifCondsWhoseBodyContains returns the conditions (source text) of all if statements in fd whose
// *direct* body (not nested ifs' else parts) contains substr as a statement prefix.
func ifCondsWhoseBodyContains(fd *ast.FuncDecl, substr string) []string {
	var res []string
	scan := func(list []ast.Stmt, label string) {
		for _, s := range list {
			if _, nested := s.(*ast.IfStmt); nested {
				continue
			}
			if strings.Contains(oneLine(str(s)), substr) {
				res = append(res, label)
				return
			}
		}
	}
	ast.Inspect(fd.Body, func(n ast.Node) bool {
		if is, ok := n.(*ast.IfStmt); ok {
			scan(is.Body.List, oneLine(str(is.Cond)))
			if eb, ok := is.Else.(*ast.BlockStmt); ok {
				scan(eb.List, "else("+oneLine(str(is.Cond))+")")
			}
		}
		return true
	})
	return res
}

func oneLine(s string) string {
	return strings.Join(strings.Fields(s), " ")
}

// assignRHS returns the right-hand sides of assignments/definitions to the named variable.
func assignRHS(fd *ast.FuncDecl, lhs string) []string {
	var res []string
	ast.Inspect(fd.Body, func(n ast.Node) bool {
		if as, ok := n.(*ast.AssignStmt); ok && len(as.Lhs) == 1 && len(as.Rhs) == 1 && str(as.Lhs[0]) == lhs {
			res = append(res, oneLine(str(as.Rhs[0])))
		}
		return true
	})
	return res
}

// topStatements lists the top-level statements of a function body, one line each.
func topStatements(fd *ast.FuncDecl) []string {
	var res []string
	for _, s := range fd.Body.List {
		res = append(res, oneLine(str(s)))
	}
	return res
}

func leanList(xs []string) string {
	q := make([]string, len(xs))
	for i, x := range xs {
		q[i] = leanStr(x)
	}
	return "[" + strings.Join(q, ", ") + "]"
}

func sorted(xs []string) []string {
	r := append([]string{}, xs...)
	sort.Strings(r)
	return r
}

// callsIn lists, in source order, the calls (by selector/ident text) made in fd that match any of names.
func callsIn(n ast.Node, names ...string) []string {
	var res []string
	ast.Inspect(n, func(n ast.Node) bool {
		if ce, ok := n.(*ast.CallExpr); ok {
			f := oneLine(str(ce.Fun))
			for _, nm := range names {
				if f == nm || strings.HasSuffix(f, "."+nm) {
					res = append(res, f)
				}
			}
		}
		return true
	})
	return res
}
