package main

import (
	"go/ast"
	"strings"
)

// skeleton linearises a function body into the order of its *interesting* calls and assignments with
// the control structure around them:
//
//	<call>                      an interesting call (selector text)
//	set <lhs> = <rhs>           an assignment to a watched variable
//	ret-on-err                  `if <x> != nil { return … }` (an error check that leaves the function)
//	if <cond> { … } else { … }  any other if that contains a token
//	for { … }, func { … }       loops / function literals that contain a token
//	return                      any other return
func skeleton(n ast.Node, call func(string) bool, watch func(string) bool) []string {
	var res []string
	var stmts func(list []ast.Stmt)
	var expr func(e ast.Node)
	expr = func(e ast.Node) {
		if e == nil {
			return
		}
		ast.Inspect(e, func(m ast.Node) bool {
			switch x := m.(type) {
			case *ast.FuncLit:
				before := len(res)
				res = append(res, "func {")
				stmts(x.Body.List)
				if len(res) == before+1 {
					res = res[:before]
				} else {
					res = append(res, "}")
				}
				return false
			case *ast.CallExpr:
				// arguments first (evaluation order), then the call
				for _, a := range x.Args {
					expr(a)
				}
				f := oneLine(str(x.Fun))
				if call(f) {
					res = append(res, f)
				}
				if _, isLit := x.Fun.(*ast.FuncLit); isLit {
					expr(x.Fun)
				}
				return false
			}
			return true
		})
	}
	isErrReturn := func(is *ast.IfStmt) bool {
		be, ok := is.Cond.(*ast.BinaryExpr)
		if !ok || be.Op.String() != "!=" || str(be.Y) != "nil" || is.Else != nil || len(is.Body.List) != 1 {
			return false
		}
		_, ok = is.Body.List[0].(*ast.ReturnStmt)
		return ok
	}
	block := func(open string, body func()) {
		before := len(res)
		res = append(res, open)
		body()
		if len(res) == before+1 {
			res = res[:before]
		} else {
			res = append(res, "}")
		}
	}
	stmts = func(list []ast.Stmt) {
		for _, s := range list {
			switch x := s.(type) {
			case *ast.IfStmt:
				if x.Init != nil {
					stmts([]ast.Stmt{x.Init})
				}
				expr(x.Cond)
				if isErrReturn(x) {
					res = append(res, "ret-on-err")
					continue
				}
				before := len(res)
				res = append(res, "if "+oneLine(str(x.Cond))+" {")
				stmts(x.Body.List)
				inner := len(res) > before+1
				if x.Else != nil {
					mark := len(res)
					res = append(res, "} else {")
					switch e := x.Else.(type) {
					case *ast.BlockStmt:
						stmts(e.List)
					case *ast.IfStmt:
						stmts([]ast.Stmt{e})
					}
					if len(res) == mark+1 {
						res = res[:mark]
					} else {
						inner = true
					}
				}
				if !inner {
					res = res[:before]
				} else {
					res = append(res, "}")
				}
			case *ast.ForStmt:
				block("for {", func() {
					if x.Init != nil {
						stmts([]ast.Stmt{x.Init})
					}
					expr(x.Cond)
					stmts(x.Body.List)
				})
			case *ast.RangeStmt:
				block("for {", func() { expr(x.X); stmts(x.Body.List) })
			case *ast.BlockStmt:
				stmts(x.List)
			case *ast.SelectStmt:
				for _, c := range x.Body.List {
					cc := c.(*ast.CommClause)
					label := "default"
					if cc.Comm != nil {
						label = oneLine(str(cc.Comm))
					}
					block("case "+label+" {", func() { stmts(cc.Body) })
				}
			case *ast.SwitchStmt:
				for _, c := range x.Body.List {
					cc := c.(*ast.CaseClause)
					block("case {", func() { stmts(cc.Body) })
				}
			case *ast.ReturnStmt:
				for _, r := range x.Results {
					expr(r)
				}
				res = append(res, "return")
			case *ast.AssignStmt:
				for _, r := range x.Rhs {
					expr(r)
				}
				if len(x.Lhs) >= 1 && watch != nil && watch(oneLine(str(x.Lhs[0]))) {
					rhs := ""
					if len(x.Rhs) == 1 {
						rhs = oneLine(str(x.Rhs[0]))
						if _, isLit := x.Rhs[0].(*ast.FuncLit); isLit {
							rhs = "func"
						}
						if ce, ok := x.Rhs[0].(*ast.CallExpr); ok {
							rhs = oneLine(str(ce.Fun)) + "()"
						}
					}
					res = append(res, "set "+oneLine(str(x.Lhs[0]))+" = "+rhs)
				}
			case *ast.DeferStmt:
				block("defer {", func() { expr(x.Call) })
			case *ast.GoStmt:
				block("go {", func() { expr(x.Call) })
			case *ast.ExprStmt:
				expr(x.X)
			case *ast.DeclStmt:
				expr(x)
			case *ast.BranchStmt:
				if watch != nil && watch(x.Tok.String()) {
					res = append(res, x.Tok.String())
				}
			case *ast.IncDecStmt, *ast.EmptyStmt:
			default:
				expr(s)
			}
		}
	}
	if b, ok := n.(*ast.BlockStmt); ok {
		stmts(b.List)
	} else {
		expr(n)
	}
	return res
}

func suffixIn(names ...string) func(string) bool {
	return func(f string) bool {
		for _, nm := range names {
			if f == nm || strings.HasSuffix(f, "."+nm) {
				return true
			}
		}
		return false
	}
}

func init() {
	families["Pipeline"] = func() {
		o := newOut("Pipeline", "Pipeline")
		calls := suffixIn("sink.processEntities", "StoreObject", "GetObject", "endFullSync", "startFullSync", "EndFullSync", "StartFullSync",
			"ReadEntities", "Encode", "EndStoreContext", "DecodeToken", "ctx.Done")
		watch := func(l string) bool {
			return l == "syncJobState.ContinuationToken" || l == "keepReading" || l == "storeSyncState" || l == "processEntities"
		}
		for _, pl := range []string{"IncrementalPipeline", "FullSyncPipeline"} {
			fd := mustFunc("internal/jobs/pipeline.go", pl, "sync")
			o.p("def skeleton_%s : List String := %s\n", pl, leanList(skeleton(fd.Body, calls, watch)))
		}
		u := mustFunc("internal/jobs/source/union_source.go", "UnionDatasetSource", "ReadEntities")
		o.p("def skeleton_UnionRead : List String := %s\n", leanList(skeleton(u.Body,
			suffixIn("ProcessChanges", "MapEntities", "d.Update", "processEntities", "ctx.Err", "d.AsIncrToken", "d.GetToken"),
			func(l string) bool { return l == "keepGoing" || l == "d.activeIdx" || l == "err" })))
		up := mustFunc("internal/jobs/source/union_source.go", "UnionDatasetContinuation", "Update")
		o.p("def unionUpdate : List String := %s\n", leanList(topStatements(up)))
		ds := mustFunc("internal/jobs/source/dataset_source.go", "DatasetSource", "ReadEntities")
		o.p("def skeleton_DatasetRead : List String := %s\n", leanList(skeleton(ds.Body,
			suffixIn("ProcessChanges", "MapEntities", "processEntities", "IsProxy", "StreamChangesRaw", "StreamEntitiesRaw"),
			func(l string) bool { return l == "cont" })))
		sk := mustFunc("internal/jobs/sink.go", "datasetSink", "processEntities")
		o.p("def skeleton_datasetSinkProcess : List String := %s\n", leanList(skeleton(sk.Body, suffixIn("StoreEntities", "IsDataset", "GetDataset"), nil)))
		o.write(outDir, "Pipeline")
	}
}
