package main

import (
	"go/ast"
	"strings"
)

func init() {
	families["BackupFacts"] = func() {
		const f = "internal/server/backup.go"
		o := newOut("BackupFacts", "BackupFacts")
		nb := mustFunc(f, "BackupManager", "DoNativeBackup")
		o.p("def openMode : List String := %s\n", leanList(callExprs(nb.Body, "OpenFile", "Open", "Create")))
		o.p("def backupCall : List String := %s\n", leanList(callExprs(nb.Body, "Backup")))
		o.p("def cursorUpdate : List String := %s\n", leanList(ifCondsWhoseBodyContains(nb, "backupManager.lastID = since")))
		errChecks := 0
		ast.Inspect(nb.Body, func(n ast.Node) bool {
			if is, ok := n.(*ast.IfStmt); ok && oneLine(str(is.Cond)) == "err != nil" {
				for _, s := range is.Body.List {
					if strings.HasPrefix(oneLine(str(s)), "return err") {
						errChecks++
					}
				}
			}
			return true
		})
		// the MkdirAll check plus the two that matter: opening the file and db.Backup
		o.p("def errorsChecked : Nat := %d\n", errChecks-1)
		var files, enc []string
		for _, fn := range []string{"StoreLastID", "LoadLastID"} {
			fd := mustFunc(f, "BackupManager", fn)
			ast.Inspect(fd.Body, func(n ast.Node) bool {
				if bl, ok := n.(*ast.BasicLit); ok && strings.Contains(bl.Value, "lastseen") {
					files = append(files, fn+":"+bl.Value)
				}
				return true
			})
			enc = append(enc, callExprs(fd.Body, "PutUint64", "Uint64")...)
		}
		o.p("def cursorFiles : List String := %s\ndef cursorEncoding : List String := %s\n", leanList(files), leanList(enc))
		rn := mustFunc(f, "BackupManager", "Run")
		o.p("def locationGuard : List String := %s\n", leanList(ifCondsWhoseBodyContains(rn, "backupManager.logger.Panicf")))
		vl := mustFunc(f, "BackupManager", "validLocation")
		rets := returnsOf(vl)
		o.p("def idCompare : String := %s\n", leanStr(rets[len(rets)-1]))
		o.write(outDir, "BackupFacts")
	}
}
