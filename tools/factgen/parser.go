package main

import (
	"go/ast"
	"go/parser"
	"go/token"
	"path/filepath"
	"strings"
)

func init() {
	families["ParserFacts"] = func() {
		o := newOut("ParserFacts", "ParserFacts")
		const sp = "internal/server/streamparser.go"
		// every type assertion in the parser is either the two-value form or a type switch
		fset := token.NewFileSet()
		f, err := parser.ParseFile(fset, filepath.Join(repo, sp), nil, 0)
		if err != nil {
			panic(err)
		}
		checked := map[*ast.TypeAssertExpr]bool{}
		total := 0
		ast.Inspect(f, func(n ast.Node) bool {
			switch x := n.(type) {
			case *ast.AssignStmt:
				if len(x.Lhs) == 2 && len(x.Rhs) == 1 {
					if ta, ok := x.Rhs[0].(*ast.TypeAssertExpr); ok {
						checked[ta] = true
					}
				}
			case *ast.ValueSpec:
				if len(x.Names) == 2 && len(x.Values) == 1 {
					if ta, ok := x.Values[0].(*ast.TypeAssertExpr); ok {
						checked[ta] = true
					}
				}
			case *ast.TypeAssertExpr:
				total++
				if x.Type == nil { // x.(type) of a type switch
					checked[x] = true
				}
			}
			return true
		})
		o.p("def typeAssertions : Nat := %d\ndef uncheckedTypeAssertions : Nat := %d\n", total, total-len(checked))
		// index expressions: all of them are lookups or stores in maps the parser made itself (a map
		// lookup cannot fail); no slice expression, no indexing into what was read
		var idx []string
		ast.Inspect(f, func(n ast.Node) bool {
			switch x := n.(type) {
			case *ast.IndexExpr:
				idx = append(idx, strings.Join(strings.Fields(str(x.X)), ""))
			case *ast.SliceExpr:
				idx = append(idx, "slice:"+str(x.X))
			}
			return true
		})
		o.p("def indexedObjects : List String := %s\n", leanList(sorted(dedup(idx))))
		// the member names parseEntity dispatches on, in order, and what the default does
		pe := mustFunc(sp, "EntityStreamParser", "parseEntity")
		var keys []string
		def := "unknown"
		ast.Inspect(pe.Body, func(n ast.Node) bool {
			if cc, ok := n.(*ast.CaseClause); ok {
				for _, e := range cc.List {
					if bl, ok := e.(*ast.BasicLit); ok && bl.Kind == token.STRING {
						keys = append(keys, strings.Trim(bl.Value, "\""))
					}
				}
				if cc.List == nil && strings.Contains(str(cc), "skipValue(decoder)") {
					def = "skipValue"
				}
			}
			return true
		})
		o.p("def entityKeys : List String := %s\ndef unknownKey : String := %s\n", leanList(keys), leanStr(def))
		// ParseStream: an entity is emitted only after parseEntity returned without error
		ps := mustFunc(sp, "EntityStreamParser", "ParseStream")
		var emit []string
		ast.Inspect(ps.Body, func(n ast.Node) bool {
			if is, ok := n.(*ast.IfStmt); ok && oneLine(str(is.Cond)) == "v == '{'" {
				for _, s := range is.Body.List {
					t := oneLine(str(s))
					if len(t) > 60 {
						t = t[:60]
					}
					emit = append(emit, t)
				}
			}
			return true
		})
		o.p("def emitSteps : List String := %s\n", leanList(emit))
		// ... and the collection ends at its closing bracket: only the end of the input may follow
		var closing []string
		ast.Inspect(ps.Body, func(n ast.Node) bool {
			if is, ok := n.(*ast.IfStmt); ok && oneLine(str(is.Cond)) == "v == '{'" {
				if el, ok := is.Else.(*ast.IfStmt); ok && oneLine(str(el.Cond)) == "v == ']'" {
					for _, s := range el.Body.List {
						t := oneLine(str(s))
						if len(t) > 50 {
							t = t[:50]
						}
						closing = append(closing, t)
					}
				}
			}
			return true
		})
		o.p("def closingSteps : List String := %s\n", leanList(closing))
		// typed members: the checked assertion and the error for each
		var typed []string
		ast.Inspect(pe.Body, func(n ast.Node) bool {
			if as, ok := n.(*ast.AssignStmt); ok && len(as.Lhs) == 2 && len(as.Rhs) == 1 {
				if ta, ok := as.Rhs[0].(*ast.TypeAssertExpr); ok {
					typed = append(typed, str(as.Lhs[0])+":"+str(ta.Type))
				}
			}
			return true
		})
		o.p("def typedMembers : List String := %s\n", leanList(typed))
		// null property values are dropped, null array members rejected
		pp := mustFunc(sp, "EntityStreamParser", "parseProperties")
		o.p("def nullPropDropped : Bool := %v\n", strings.Contains(str(pp.Body), "if val != nil {"))
		o.write(outDir, "ParserFacts")
	}
}

func dedup(xs []string) []string {
	seen := map[string]bool{}
	var r []string
	for _, x := range xs {
		if !seen[x] {
			seen[x] = true
			r = append(r, x)
		}
	}
	return r
}
