package main

import (
	"go/ast"
	"strings"
)

// Shapes of internal/jobs/error_handler.go that the Bisect model (C17) and the wrapper
// forwarding theorem (C11) assume.
func init() {
	families["ErrHandler"] = func() {
		const f = "internal/jobs/error_handler.go"
		o := newOut("ErrHandler", "ErrHandler")
		pe := mustFunc(f, "wrappedSink", "processEntities")
		o.p("def splitPoint : List String := %s\n", leanList(assignRHS(pe, "splitPoint")))
		o.p("def leafCond : List String := %s\n", leanList(ifCondsWhoseBodyContains(pe, "for _, eh := range w.failingEntityHandlers")))
		o.p("def clearCond : List String := %s\n", leanList(ifCondsWhoseBodyContains(pe, "w.lastError = nil")))
		o.p("def failedMark : List String := %s\n", leanList(ifCondsWhoseBodyContains(pe, "w.failedInRun = true")))
		o.p("def depthIncr : List String := %s\n", leanList(ifCondsWhoseBodyContains(pe, "w.recursionDepth++")))
		o.p("def rightGuard : List String := %s\n", leanList(ifCondsWhoseBodyContains(pe, "right := entities[splitPoint:]")))
		o.p("def halves : List String := %s\n", leanList(append(assignRHS(pe, "left"), assignRHS(pe, "right")...)))
		o.p("def recursiveCalls : List String := %s\n", leanList(append(assignRHS(pe, "leftErr"), assignRHS(pe, "rightErr")...)))
		hf := mustFunc(f, "LogFailingEntityHandler", "handleFailingEntity")
		o.p("def maxItemsCond : List String := %s\n", leanList(ifCondsWhoseBodyContains(hf, "return MaxItemsExceededError")))
		o.p("def handlerBody : List String := %s\n", leanList(topStatements(hf)[1:]))
		rs := mustFunc(f, "wrappedSink", "reset")
		o.p("def sinkReset : List String := %s\n", leanList(topStatements(rs)))
		lr := mustFunc(f, "LogFailingEntityHandler", "reset")
		o.p("def logReset : List String := %s\n", leanList(topStatements(lr)))
		hj := mustFunc(f, "job", "handleJobError")
		o.p("def rerunCond : List String := %s\n", leanList(ifCondsWhoseBodyContains(hj, "eh.MaxRetries = eh.MaxRetries - 1")))
		// body of `if eh.MaxRetries > 0 { … }`: the budget is decremented before the timer is armed
		var rerunBody []string
		ast.Inspect(hj.Body, func(n ast.Node) bool {
			if is, ok := n.(*ast.IfStmt); ok && oneLine(str(is.Cond)) == "eh.MaxRetries > 0" {
				for _, b := range is.Body.List {
					t := oneLine(str(b))
					if i := strings.Index(t, "("); i > 0 && strings.HasPrefix(t, "time.AfterFunc") {
						t = "time.AfterFunc(…)"
					}
					rerunBody = append(rerunBody, t)
				}
			}
			return true
		})
		o.p("def rerunBody : List String := %s\n", leanList(rerunBody))
		o.p("def interruptCond : List String := %s\n", leanList(ifCondsWhoseBodyContains(hj, "interrupted")))
		// wrapper forwarding targets: for each method of wrappedTransform / wrappedSink the receiver of the forwarded call
		for _, w := range [][2]string{{"wrappedTransform", "t"}, {"wrappedSink", "s"}} {
			var lines []string
			for _, m := range []string{"GetConfig", "transformEntities", "getParallelism", "EndStoreContext", "processEntities", "startFullSync", "endFullSync"} {
				fd := findFunc(f, w[0], m)
				if fd == nil {
					continue
				}
				target := "none"
				for _, c := range callsIn(fd.Body, m) {
					switch c {
					case "w." + w[1] + "." + m:
						if target == "none" {
							target = "inner"
						}
					case "w." + m:
						if m != "processEntities" { // the bisection recurses on purpose
							target = "self"
						}
					}
				}
				lines = append(lines, m+":"+target)
			}
			o.p("def forward_%s : List String := %s\n", w[0], leanList(lines))
		}
		o.write(outDir, "ErrHandler")
	}
}
