package main

import (
	"go/ast"
	"os"
	"path/filepath"
	"sort"
	"strings"
)

// IdTxn: the rolling identifier transaction shared by all writers (Hub.IdTxn). Which functions of the
// server package touch `idtxn` at all, and the shape of the two that do: everything between Lock and the
// deferred Unlock is one critical section.
func init() {
	families["IdTxn"] = func() {
		o := newOut("IdTxn", "IdTxn")
		dir := filepath.Join(repo, "internal/server")
		ents, err := os.ReadDir(dir)
		if err != nil {
			panic(err)
		}
		users := map[string]bool{}
		for _, e := range ents {
			if !strings.HasSuffix(e.Name(), ".go") || strings.HasSuffix(e.Name(), "_test.go") {
				continue
			}
			f := load("internal/server/" + e.Name())
			if f == nil {
				continue
			}
			for _, d := range f.f.Decls {
				fd, ok := d.(*ast.FuncDecl)
				if !ok || fd.Body == nil {
					continue
				}
				ast.Inspect(fd.Body, func(n ast.Node) bool {
					if se, ok := n.(*ast.SelectorExpr); ok && (se.Sel.Name == "idtxn" || se.Sel.Name == "idmux") {
						users[recvName(fd)+"."+fd.Name.Name+":"+se.Sel.Name] = true
					}
					if kv, ok := n.(*ast.KeyValueExpr); ok {
						if id, ok := kv.Key.(*ast.Ident); ok && (id.Name == "idtxn" || id.Name == "idmux") {
							users[recvName(fd)+"."+fd.Name.Name+":init-"+id.Name] = true
						}
					}
					return true
				})
			}
		}
		var ul []string
		for u := range users {
			ul = append(ul, u)
		}
		sort.Strings(ul)
		o.p("def users : List String := %s\n", leanList(ul))
		sf := "internal/server/store.go"
		calls := suffixIn("idmux.Lock", "idmux.Unlock", "idtxn.Get", "idtxn.Set", "idtxn.Commit", "idtxn.Discard", "idseq.Next", "NewTransaction")
		watch := func(l string) bool {
			return l == "s.idtxn" || l == "o.idtxn" || l == "o" || l == "localTxnCache[uri]" || l == "isnew"
		}
		o.p("def skeleton_assert : List String := %s\n", leanList(skeleton(mustFunc(sf, "Store", "assertIDForURI").Body, calls, watch)))
		o.p("def skeleton_commit : List String := %s\n", leanList(skeleton(mustFunc(sf, "Store", "commitIDTxn").Body, calls, watch)))
		o.p("def owner : List String := %s\n", leanList(topStatements(mustFunc(sf, "Store", "idTxnOwner"))))
		o.p("def ownerInit : List String := %s\n", leanList(keyValues(mustFunc(sf, "", "NewContextualStore"), "idowner", "idtxn", "idmux", "idseq")))
		// where the writers call commitIDTxn: after filling, before the data commit (also in CrashPoints)
		for _, fn := range [][3]string{{"internal/server/dataset.go", "Dataset", "StoreEntities"}, {sf, "Store", "ExecuteTransaction"}} {
			o.p("def writer_%s : List String := %s\n", fn[2], leanList(skeleton(mustFunc(fn[0], fn[1], fn[2]).Body,
				suffixIn("StoreEntitiesWithTransaction", "commitIDTxn", "txn.Commit", "txn.Discard"), nil)))
		}
		o.write(outDir, "IdTxn")
	}
}

// keyValues lists `key: value` pairs of composite literals in fd for the given keys.
func keyValues(fd *ast.FuncDecl, keys ...string) []string {
	var res []string
	ast.Inspect(fd.Body, func(n ast.Node) bool {
		if kv, ok := n.(*ast.KeyValueExpr); ok {
			if id, ok := kv.Key.(*ast.Ident); ok {
				for _, k := range keys {
					if id.Name == k {
						res = append(res, k+": "+oneLine(str(kv.Value)))
					}
				}
			}
		}
		return true
	})
	return res
}
