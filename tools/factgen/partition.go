package main

import (
	"go/ast"
	"strings"
)

// Partition arithmetic of IncrementalPipeline.sync (internal/jobs/pipeline.go).
func init() {
	families["Partition"] = func() {
		o := newOut("Partition", "Partition")
		fd := findFunc("internal/jobs/pipeline.go", "IncrementalPipeline", "sync")
		if fd == nil {
			panic("IncrementalPipeline.sync not found")
		}
		var guard *ast.IfStmt
		var psize *ast.AssignStmt
		var loop *ast.ForStmt
		ast.Inspect(fd.Body, func(n ast.Node) bool {
			switch x := n.(type) {
			case *ast.IfStmt:
				if guard == nil && len(x.Body.List) == 1 {
					if as, ok := x.Body.List[0].(*ast.AssignStmt); ok && len(as.Lhs) == 1 && str(as.Lhs[0]) == "parallelisms" {
						guard = x
					}
				}
			case *ast.AssignStmt:
				if psize == nil && len(x.Lhs) == 1 && str(x.Lhs[0]) == "psize" {
					psize = x
				}
			case *ast.ForStmt:
				if loop == nil && x.Cond != nil && strings.Contains(str(x.Cond), "parallelisms") && psize != nil {
					// the first loop over parallelisms after psize: the split loop
					for _, s := range x.Body.List {
						if as, ok := s.(*ast.AssignStmt); ok && len(as.Lhs) == 1 && str(as.Lhs[0]) == "from" {
							loop = x
						}
					}
				}
			}
			return true
		})
		if guard == nil || psize == nil || loop == nil {
			panic("split shape not recognised (guard/psize/loop)")
		}
		o.p("/-- source positions: guard %s, psize %s, loop %s -/\ndef positions : List String := [%s, %s, %s]\n\n",
			pos(guard), pos(psize), pos(loop), leanStr(pos(guard)), leanStr(pos(psize)), leanStr(pos(loop)))
		// guard: if <cond> { parallelisms = <e> }
		t := &tr{params: map[string]bool{}}
		t.use("v_parallelisms")
		t.use("len_entities")
		body, n := t.block([]ast.Stmt{guard}, []string{"parallelisms"})
		if n != 1 {
			panic("guard not translatable")
		}
		o.p("/-- `%s` -/\ndef workers%s : Int :=\n%s\n", strings.ReplaceAll(str(guard.Cond), "-/", ""), t.paramList(), strings.Replace(body, "(v_parallelisms)", "v_parallelisms", 1))
		// psize
		t = &tr{params: map[string]bool{}}
		t.use("len_entities")
		t.use("v_parallelisms")
		e := t.expr(psize.Rhs[0], map[string]bool{})
		o.p("/-- `%s` -/\ndef psize%s : Int :=\n  %s\n\n", str(psize), t.paramList(), e)
		// loop body prefix: from/to with clipping
		t = &tr{params: map[string]bool{}}
		t.use("v_index")
		t.use("v_psize")
		t.use("len_entities")
		body, n = t.block(loop.Body.List, []string{"from", "to"})
		o.p("/-- first %d statements of the split loop body at %s -/\ndef bound%s : Int × Int :=\n%s\n", n, pos(loop), t.paramList(), body)
		// how index advances and how many iterations
		var adv string
		for _, s := range loop.Body.List {
			if as, ok := s.(*ast.AssignStmt); ok && len(as.Lhs) == 1 && str(as.Lhs[0]) == "index" {
				adv = str(as)
			}
		}
		o.p("def indexAdvance : String := %s\ndef loopCond : String := %s\ndef loopInit : String := %s\n", leanStr(adv), leanStr(str(loop.Cond)), leanStr(str(loop.Init)))
		// result concatenation order: `entities = append(entities, res.entities...)` inside a loop over i with workResults[i]
		joined := "unknown"
		ast.Inspect(fd.Body, func(n ast.Node) bool {
			if fs, ok := n.(*ast.ForStmt); ok && fs != loop && fs.Cond != nil && strings.Contains(str(fs.Cond), "parallelisms") {
				b := str(fs.Body)
				if strings.Contains(b, "workResults[i]") && strings.Contains(b, "append(entities, res.entities...)") {
					joined = "byWorkerIndex"
				}
			}
			return true
		})
		o.p("def joinOrder : String := %s\n", leanStr(joined))
		// every worker gets its own copy of its chunk (no shared backing array between workers)
		var chunkStmts []string
		for _, s := range loop.Body.List {
			t := oneLine(str(s))
			if strings.Contains(t, "chunk") {
				chunkStmts = append(chunkStmts, t)
			}
		}
		o.p("def chunkStmts : List String := %s\n", leanList(chunkStmts))
		// termination test of the read loop uses the number of *source* entities
		var countDefs []string
		for _, pl := range []string{"IncrementalPipeline", "FullSyncPipeline"} {
			f := mustFunc("internal/jobs/pipeline.go", pl, "sync")
			countDefs = append(countDefs, assignRHS(f, "incomingEntityCount")...)
			countDefs = append(countDefs, ifCondsWhoseBodyContains(f, "keepReading = false")...)
		}
		o.p("def readLoopStop : List String := %s\n", leanList(countDefs))
		o.write(outDir, "Partition")
	}
}
