package main

import (
	"go/ast"
	"strings"
)

func init() {
	families["LockFacts"] = func() {
		o := newOut("LockFacts", "LockFacts")
		const sf = "internal/server/store.go"
		et := mustFunc(sf, "Store", "ExecuteTransaction")
		// the loop that takes the WriteLocks: does it range over a sorted slice or over a map?
		loop := "unknown"
		unlock := "unknown"
		lockPos, timePos := -1, -1
		ast.Inspect(et.Body, func(n ast.Node) bool {
			if rs, ok := n.(*ast.RangeStmt); ok && strings.Contains(str(rs.Body), "WriteLock.Lock()") {
				x := str(rs.X)
				if x == "datasetNames" && strings.Contains(str(et.Body), "sort.Strings(datasetNames)") {
					loop = "sorted"
				} else {
					loop = "range:" + x
				}
				if strings.Contains(str(rs.Body), "defer dataset.(*Dataset).WriteLock.Unlock()") {
					unlock = "deferred"
				}
				lockPos = int(rs.Pos())
			}
			if ce, ok := n.(*ast.CallExpr); ok && strings.HasSuffix(str(ce.Fun), "UnixNano") && timePos < 0 {
				timePos = int(ce.Pos())
			}
			return true
		})
		o.p("def txnLockLoop : String := %s\ndef txnLocksBeforeTime : Bool := %v\ndef txnUnlock : String := %s\n", leanStr(loop), lockPos >= 0 && timePos > lockPos, leanStr(unlock))
		// core.Dataset is locked last (it is the inner lock of every writer's counter update) and released before the
		// transaction's own counter updates: the statements that mention it, in source order
		var coreLock []string
		ast.Inspect(et.Body, func(n ast.Node) bool {
			switch x := n.(type) {
			case *ast.IfStmt:
				c := oneLine(str(x.Cond))
				if strings.Contains(c, "core.Dataset") || strings.Contains(c, "coreLocked") {
					coreLock = append(coreLock, "if "+c)
				}
			case *ast.AssignStmt:
				t := oneLine(str(x))
				if strings.Contains(t, "coreLocked") || (strings.Contains(t, "datasetNames = append") && len(t) < 120) {
					coreLock = append(coreLock, t)
				}
			case *ast.ExprStmt:
				t := oneLine(str(x))
				if strings.Contains(t, "core.Dataset") {
					coreLock = append(coreLock, t)
				}
			}
			return true
		})
		o.p("def txnCoreLock : List String := %s\n", leanList(coreLock))
		nTxn := 0
		ast.Inspect(et.Body, func(n ast.Node) bool {
			if ce, ok := n.(*ast.CallExpr); ok && strings.HasSuffix(str(ce.Fun), "NewTransaction") {
				nTxn++
			}
			return true
		})
		o.p("def singleDataTxn : Nat := %d\n", nTxn)
		se := mustFunc("internal/server/dataset.go", "Dataset", "StoreEntities")
		var sl []string
		for _, s := range se.Body.List {
			t := oneLine(str(s))
			if t == "ds.WriteLock.Lock()" {
				sl = append(sl, t)
			}
			if d, ok := s.(*ast.DeferStmt); ok && strings.Contains(str(d), "ds.WriteLock.Unlock()") {
				sl = append(sl, "defer:ds.WriteLock.Unlock()")
			}
		}
		o.p("def storeLock : List String := %s\n", leanList(sl))
		// updateDataset is called before the function returns (i.e. under the deferred unlock)
		mu := "unknown"
		if strings.Contains(str(se.Body), "ds.updateDataset(newitems, entities)") {
			mu = "updateDataset-before-unlock"
		}
		o.p("def metaUpdateUnderLock : String := %s\n", leanStr(mu))
		var dl []string
		for _, fn := range []string{"CreateDataset", "UpdateDataset", "DeleteDataset"} {
			fd := mustFunc("internal/server/dsmanager.go", "DsManager", fn)
			for _, c := range callExprs(fd.Body, "Lock") {
				dl = append(dl, fn+":"+c)
			}
		}
		o.p("def dsmLocks : List String := %s\n", leanList(dl))
		// a rename holds the dataset's write lock from the lookup to its return (top-level statements)
		var rl []string
		for _, s := range mustFunc("internal/server/dsmanager.go", "DsManager", "UpdateDataset").Body.List {
			t := oneLine(str(s))
			if strings.Contains(t, "WriteLock") && len(t) < 60 {
				rl = append(rl, t)
			}
			if strings.HasPrefix(t, "if config.ID != name") {
				rl = append(rl, "rename-branch")
			}
		}
		o.p("def renameLock : List String := %s\n", leanList(rl))
		var il []string
		for _, fn := range []string{"commitIDTxn", "assertIDForURI"} {
			fd := mustFunc(sf, "Store", fn)
			for _, c := range callExprs(fd.Body, "Lock") {
				il = append(il, fn+":"+c)
			}
		}
		o.p("def idmuxLeaf : List String := %s\n", leanList(il))
		o.write(outDir, "LockFacts")
	}
}
