//go:build verif

package web

import "github.com/labstack/echo/v4"

// VerifEcho exposes the router so that the harness can serve requests in-process (httptest).
func (ws *WebService) VerifEcho() *echo.Echo { return ws.echo }
