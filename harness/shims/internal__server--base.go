//go:build verif

package server

// VerifIDForURI returns the internal id of an identifier (false when it never got one).
func (s *Store) VerifIDForURI(uri string) (uint64, bool) {
	txn := s.database.NewTransaction(false)
	defer txn.Discard()
	id, ok, err := s.getIDForURI(txn, uri)
	if err != nil {
		return 0, false
	}
	return id, ok
}

// VerifURIForID is the inverse lookup.
func (s *Store) VerifURIForID(id uint64) string {
	u, _ := s.getURIForID(id)
	return u
}

// VerifDeletedDatasets returns the ids in the persisted/in-memory deleted set.
func (s *Store) VerifDeletedDatasets() []uint32 {
	r := []uint32{}
	for k, v := range s.deletedDatasets {
		if v {
			r = append(r, k)
		}
	}
	return r
}
