//go:build verif

package server

import (
	"encoding/binary"
	"encoding/json"
	"errors"
	"time"

	"go.uber.org/zap"
)

// VerifIDForURI returns the internal id of an identifier (false when it never got one).
func (s *Store) VerifIDForURI(uri string) (uint64, bool) {
	txn := s.database.NewTransaction(false)
	defer txn.Discard()
	id, ok, err := s.getIDForURI(txn, uri)
	if err != nil {
		return 0, false
	}
	return id, ok
}

// VerifURIForID is the inverse lookup.
func (s *Store) VerifURIForID(id uint64) string {
	u, _ := s.getURIForID(id)
	return u
}

// VerifDeletedDatasets returns the ids in the persisted/in-memory deleted set.
func (s *Store) VerifDeletedDatasets() []uint32 {
	r := []uint32{}
	for k, v := range s.deletedDatasets {
		if v {
			r = append(r, k)
		}
	}
	return r
}

// VerifInjectDuplicate writes a new version of an entity WITHOUT the write-time equality check,
// the way hub versions before the deduplication did: entity json, change log entry, latest
// pointer and (for a live entity) its reference keys at the new commit time.
func (ds *Dataset) VerifInjectDuplicate(e *Entity) (uint64, error) {
	ds.WriteLock.Lock()
	defer ds.WriteLock.Unlock()
	time.Sleep(time.Nanosecond)
	txnTime := time.Now().UnixNano()
	rid, ok := ds.store.VerifIDForURI(e.ID)
	if !ok {
		return 0, errors.New("unknown id")
	}
	e.InternalID = rid
	e.Recorded = uint64(txnTime)
	jsonData, _ := json.Marshal(e)
	txn := ds.store.database.NewTransaction(true)
	defer txn.Discard()
	key := make([]byte, 24)
	binary.BigEndian.PutUint16(key, EntityIDToJSONIndexID)
	binary.BigEndian.PutUint64(key[2:], rid)
	binary.BigEndian.PutUint32(key[10:], ds.InternalID)
	binary.BigEndian.PutUint64(key[14:], uint64(txnTime))
	binary.BigEndian.PutUint16(key[22:], 0)
	if err := txn.Set(key, jsonData); err != nil {
		return 0, err
	}
	seqKey := make([]byte, 6)
	binary.BigEndian.PutUint16(seqKey, SysDatasetsSequences)
	binary.BigEndian.PutUint32(seqKey[2:], ds.InternalID)
	seq, _ := ds.store.database.GetSequence(seqKey, 1000)
	defer seq.Release()
	n, _ := seq.Next()
	ck := make([]byte, 22)
	binary.BigEndian.PutUint16(ck, DatasetEntityChangeLog)
	binary.BigEndian.PutUint32(ck[2:], ds.InternalID)
	binary.BigEndian.PutUint64(ck[6:], n)
	binary.BigEndian.PutUint64(ck[14:], rid)
	if err := txn.Set(ck, key); err != nil {
		return 0, err
	}
	lk := make([]byte, 14)
	binary.BigEndian.PutUint16(lk, DatasetLatestEntities)
	binary.BigEndian.PutUint32(lk[2:], ds.InternalID)
	binary.BigEndian.PutUint64(lk[6:], rid)
	if err := txn.Set(lk, key); err != nil {
		return 0, err
	}
	for p, v := range e.References {
		var targets []string
		switch t := v.(type) {
		case string:
			targets = []string{t}
		case []interface{}:
			for _, x := range t {
				if s, ok := x.(string); ok {
					targets = append(targets, s)
				}
			}
		case []string:
			targets = t
		}
		pid, ok1 := ds.store.VerifIDForURI(p)
		for _, tg := range targets {
			tid, ok2 := ds.store.VerifIDForURI(tg)
			if !ok1 || !ok2 {
				continue
			}
			del := uint16(0)
			if e.IsDeleted {
				del = 1
			}
			out := make([]byte, 40)
			binary.BigEndian.PutUint16(out, OutgoingRefIndex)
			binary.BigEndian.PutUint64(out[2:], rid)
			binary.BigEndian.PutUint64(out[10:], uint64(txnTime))
			binary.BigEndian.PutUint64(out[18:], pid)
			binary.BigEndian.PutUint64(out[26:], tid)
			binary.BigEndian.PutUint16(out[34:], del)
			binary.BigEndian.PutUint32(out[36:], ds.InternalID)
			in := make([]byte, 40)
			binary.BigEndian.PutUint16(in, IncomingRefIndex)
			binary.BigEndian.PutUint64(in[2:], tid)
			binary.BigEndian.PutUint64(in[10:], rid)
			binary.BigEndian.PutUint64(in[18:], uint64(txnTime))
			binary.BigEndian.PutUint64(in[26:], pid)
			binary.BigEndian.PutUint16(in[34:], del)
			binary.BigEndian.PutUint32(in[36:], ds.InternalID)
			if err := txn.Set(out, []byte("")); err != nil {
				return 0, err
			}
			if err := txn.Set(in, []byte("")); err != nil {
				return 0, err
			}
		}
	}
	return uint64(txnTime), txn.Commit()
}

// VerifNewBackupManager builds a BackupManager without registering a cron job (what
// NewBackupManager does besides that: fields + LoadLastID).
func VerifNewBackupManager(store *Store, location string, useRsync bool, logger *zap.SugaredLogger) (*BackupManager, error) {
	b := &BackupManager{}
	b.backupLocation = location
	b.backupSourceLocation = store.storeLocation
	b.useRsync = useRsync
	b.store = store
	b.logger = logger
	lastID, err := b.LoadLastID()
	if err != nil {
		return nil, err
	}
	b.lastID = lastID
	return b, nil
}

func (b *BackupManager) VerifLastID() uint64 { return b.lastID }
