//go:build verif

package server

import (
	"time"
	"os"
	"sync"
	"syscall"
)

// Crash points (C04). The instrumented copies of dataset.go / store.go / dsmanager.go that
// tools/instr writes (mapped over the originals with -overlay) call verifCrashPoint after every
// durable step of the mutating functions. An armed point kills the process the hard way at its
// n-th hit: no deferred function runs, the store is not closed, the sequences are not released.

var verifCrashMu sync.Mutex
var verifCrashAt string
var verifCrashHit int
var verifCrashHits = map[string]int{}
var verifCrashTrace []string

// VerifArmCrash arms one point; hit counts from the moment of arming.
func VerifArmCrash(name string, hit int) {
	verifCrashMu.Lock()
	defer verifCrashMu.Unlock()
	verifCrashAt, verifCrashHit = name, hit
	verifCrashHits = map[string]int{}
	verifCrashTrace = nil
}

// VerifCrashTrace returns the points passed since arming.
func VerifCrashTrace() []string {
	verifCrashMu.Lock()
	defer verifCrashMu.Unlock()
	return append([]string{}, verifCrashTrace...)
}

// VerifAtPoint arms an in-process callback (forced schedules: a writer that commits between two steps of
// another operation, C12): f runs once, on the calling goroutine, at the n-th hit of the point.
func VerifAtPoint(name string, hit int, f func()) {
	verifCrashMu.Lock()
	defer verifCrashMu.Unlock()
	verifAtName, verifAtHit, verifAtFn = name, hit, f
	verifCrashAt = ""
	verifCrashHits = map[string]int{}
	verifCrashTrace = nil
}

var verifAtName string
var verifAtHit int
var verifAtFn func()

func verifCrashPoint(name string) {
	verifCrashMu.Lock()
	verifCrashTrace = append(verifCrashTrace, name)
	verifCrashHits[name]++
	die := name == verifCrashAt && verifCrashHits[name] == verifCrashHit
	var cb func()
	if verifAtFn != nil && name == verifAtName && verifCrashHits[name] == verifAtHit {
		cb, verifAtFn = verifAtFn, nil
	}
	verifCrashMu.Unlock()
	if cb != nil {
		cb()
	}
	if die {
		_ = syscall.Kill(os.Getpid(), syscall.SIGKILL)
		select {} // never continue past the point
	}
}

// VerifCrashPoint is the entry for instrumented copies in other packages (compaction).
func VerifCrashPoint(name string) { verifCrashPoint(name) }

// VerifLock / VerifUnlock take a dataset's write lock from the harness (forced schedules, C05).
func (ds *Dataset) VerifLock()   { ds.WriteLock.Lock() }
func (ds *Dataset) VerifUnlock() { ds.WriteLock.Unlock() }

// VerifStoreHoldingLock is what a writer that already holds the dataset's write lock does (the body of
// StoreEntities without the locking): draw the commit time, fill the transaction, commit ids, commit data.
func (ds *Dataset) VerifStoreHoldingLock(entities []*Entity) error {
	time.Sleep(time.Nanosecond)
	txnTime := time.Now().UnixNano()
	txn := ds.store.database.NewTransaction(true)
	defer txn.Discard()
	newitems, err := ds.StoreEntitiesWithTransaction(entities, txnTime, txn)
	if err != nil {
		return err
	}
	if err = ds.store.commitIDTxn(); err != nil {
		return err
	}
	if err = txn.Commit(); err != nil {
		return err
	}
	return ds.updateDataset(newitems, entities)
}
