//go:build verif

package dataset

import "github.com/mimiro-io/datahub/internal/server"

func verifCrashPoint(name string) { server.VerifCrashPoint(name) }

// VerifCompact runs the deduplicating compaction synchronously with the given flush threshold.
func (c *CompactionWorker) VerifCompact(datasetID string, flushAfter int) error {
	s := DeduplicationStrategy().(*deduplicationStrategy)
	s.flushAfter = flushAfter
	return c.compact(datasetID, s)
}
