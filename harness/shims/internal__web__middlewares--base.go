//go:build verif

package middlewares

import (
	"github.com/golang-jwt/jwt/v4"

	"github.com/mimiro-io/datahub/internal/security"
)

// VerifDoAclCheck calls the real doAclCheck.
func VerifDoAclCheck(method string, path string, token *jwt.Token, core *security.ServiceCore) error {
	return doAclCheck(method, path, token, core)
}
