//go:build verif

package jobs

import (
	"strings"
	"context"
	"errors"
	"sync/atomic"
	"time"

	jobSource "github.com/mimiro-io/datahub/internal/jobs/source"
	"github.com/mimiro-io/datahub/internal/server"
)

// VerifRecHandler records which entities reach the failing-entity handler, then delegates to
// the real LogFailingEntityHandler.
type VerifRecHandler struct {
	inner    failingEntityHandler
	Reported []string
}

func (h *VerifRecHandler) handleFailingEntity(runner *Runner, entity *server.Entity, jobID string) error {
	h.Reported = append(h.Reported, entity.ID)
	return h.inner.handleFailingEntity(runner, entity, jobID)
}
func (h *VerifRecHandler) reset() { h.inner.reset() }

type VerifWrapped struct {
	W     *wrappedSink
	Rec   *VerifRecHandler
	Inner *VerifSink
}

// NewVerifWrappedSink builds the real wrappedSink around a scripted sink with one log handler.
func NewVerifWrappedSink(inner *VerifSink, maxItems int, jobID string) *VerifWrapped {
	rec := &VerifRecHandler{inner: &LogFailingEntityHandler{MaxItems: maxItems, jobId: jobID, jobTitle: jobID}}
	w := &wrappedSink{s: inner, failingEntityHandlers: []failingEntityHandler{rec}, jobId: jobID}
	return &VerifWrapped{W: w, Rec: rec, Inner: inner}
}

func (v *VerifWrapped) Process(runner *Runner, entities []*server.Entity) error {
	return v.W.processEntities(runner, entities)
}
func (v *VerifWrapped) Reset()          { v.W.reset() }
func (v *VerifWrapped) LastError() bool { return v.W.lastError != nil }
func (v *VerifWrapped) SetStaleError()  { v.W.lastError = errors.New("stale error of an earlier run") }

func VerifIsMaxItems(err error) bool { return errors.Is(err, MaxItemsExceededError) }

// VerifJob is a real *job with a synthetic pipeline, run through the real job.Run (raffle,
// instrumentErrorHandling, handleJobError, stored result).
type VerifJob struct {
	J    *job
	Runs int64
}

// NewVerifJob builds a job. handlersJSON-like config: logHandler (with maxItems) and reRun (maxRetries, delay).
func NewVerifJob(runner *Runner, jobID string, src jobSource.Source, tr Transform, sink Sink, batch int, fullsync bool,
	logHandler bool, maxItems int, rerun bool, maxRetries int, retryDelay time.Duration, isEvent bool,
) (*VerifJob, error) {
	spec := PipelineSpec{source: src, sink: sink, transform: tr, batchSize: batch}
	var p Pipeline
	if fullsync {
		p = &FullSyncPipeline{spec}
	} else {
		p = &IncrementalPipeline{spec}
	}
	ehs := ErrorHandlers{}
	if logHandler {
		ehs = append(ehs, &ErrorHandler{Type: "log", MaxItems: maxItems})
	}
	if rerun {
		ehs = append(ehs, &ErrorHandler{Type: "reRun", MaxRetries: maxRetries, RetryDelay: 1})
	}
	// the real validation/defaulting
	if err := verifyErrorHandlers(JobTrigger{ErrorHandlers: ehs}, jobID, jobID); err != nil {
		return nil, err
	}
	for _, eh := range ehs {
		if eh.Type == ErrorHandlerReRun {
			eh.RetryDelay = int64(retryDelay) // scaled down from seconds
		}
	}
	j := &job{id: jobID, title: jobID, pipeline: p, runner: runner, errorHandlers: ehs, isEvent: isEvent}
	return &VerifJob{J: j}, nil
}

func (v *VerifJob) Run() {
	atomic.AddInt64(&v.Runs, 1)
	v.J.Run()
}

// VerifLastResult returns the stored result of the last run of a job id.
func VerifLastResult(runner *Runner, jobID string) (lastError string, processed int, found bool) {
	r := &jobResult{}
	_ = runner.store.GetObject(server.JobResultIndex, jobID, r)
	return r.LastError, r.Processed, r.ID != ""
}

// VerifRaffleState exposes the ticket bookkeeping.
func VerifRaffleState(runner *Runner) (ticketsFull int, ticketsIncr int, running []string) {
	runner.raffle.runningMu.Lock()
	defer runner.raffle.runningMu.Unlock()
	for k := range runner.raffle.runningJobs {
		running = append(running, k)
	}
	return runner.raffle.ticketsFull, runner.raffle.ticketsIncr, running
}

// ---- raffle (C11) ----

type VerifRaffle struct {
	r       *raffle
	tickets map[string]*ticket
}

func NewVerifRaffle(runner *Runner, poolFull, poolIncr int) *VerifRaffle {
	return &VerifRaffle{r: NewRaffle(poolFull, poolIncr, runner.logger, runner.statsdClient), tickets: map[string]*ticket{}}
}

func (v *VerifRaffle) Borrow(id string, full bool) bool {
	var p Pipeline
	if full {
		p = &FullSyncPipeline{}
	} else {
		p = &IncrementalPipeline{}
	}
	t := v.r.borrowTicket(&job{id: id, title: id, pipeline: p})
	if t == nil {
		return false
	}
	v.tickets[id] = t
	return true
}

// Return gives back the outstanding ticket of id (if any); reports whether there was one.
func (v *VerifRaffle) Return(id string) bool {
	t, ok := v.tickets[id]
	if !ok {
		return false
	}
	delete(v.tickets, id)
	v.r.returnTicket(t)
	return true
}

func (v *VerifRaffle) State() (int, int, map[string]bool) {
	running := map[string]bool{}
	for k, st := range v.r.getRunningJobs() {
		running[k] = st.isFull
	}
	return v.r.ticketsFull, v.r.ticketsIncr, running
}

// ---- dataset sink (C08, C09) ----

// VerifDatasetSink builds the real datasetSink.
func VerifDatasetSink(store *server.Store, dsm *server.DsManager, name string) Sink {
	return &datasetSink{DatasetName: name, Store: store, DatasetManager: dsm}
}

func VerifSinkStart(s Sink, r *Runner) error                           { return s.startFullSync(r) }
func VerifSinkEnd(s Sink, r *Runner) error                             { return s.endFullSync(context.Background(), r) }
func VerifSinkProcess(s Sink, r *Runner, es []*server.Entity) error    { return s.processEntities(r, es) }

// ---- job configurations across restarts (C14) ----

// VerifJobView is what the API shows of a stored job configuration.
type VerifJobView struct {
	ID         string
	Title      string
	Paused     bool
	RetryDelay []int64 // of every reRun handler, as persisted
	MaxRetries []int
}

func VerifListJobs(s *Scheduler) []VerifJobView {
	res := []VerifJobView{}
	for _, c := range s.ListJobs() {
		v := VerifJobView{ID: c.ID, Title: c.Title, Paused: c.Paused}
		for _, t := range c.Triggers {
			for _, eh := range t.ErrorHandlers {
				if eh.Type == ErrorHandlerReRun {
					v.RetryDelay = append(v.RetryDelay, eh.RetryDelay)
					v.MaxRetries = append(v.MaxRetries, eh.MaxRetries)
				}
			}
		}
		res = append(res, v)
	}
	return res
}

// VerifEffectiveRetryDelay returns the delay (ns) the reRun handler of a job would wait if its stored
// definition were scheduled now, the way loading at start-up, resume and restart do (load, verify, build).
func VerifEffectiveRetryDelays(s *Scheduler, jobID string) []int64 {
	cfg, err := s.LoadJob(jobID)
	if err != nil || cfg == nil {
		return nil
	}
	if err := s.verify(cfg); err != nil {
		return nil
	}
	jobs, err := s.toTriggeredJobs(cfg)
	if err != nil {
		return nil
	}
	res := []int64{}
	for _, j := range jobs {
		for _, eh := range j.errorHandlers {
			if eh.Type == ErrorHandlerReRun {
				res = append(res, eh.RetryDelay)
			}
		}
	}
	return res
}

// VerifSetToken persists a continuation token for a job id the way a finished run does.
func VerifSetToken(r *Runner, jobID string, token string) error {
	return r.store.StoreObject(server.JobDataIndex, jobID, &SyncJobState{ID: jobID, ContinuationToken: token})
}

// VerifVerify runs the scheduler's own validation of a job definition and reports whether it was accepted and whether
// every per-entity error handler (log, reQueue) of every trigger got its handler object (verifyErrorHandlers sets it).
func VerifVerify(s *Scheduler, cfg *JobConfiguration) (accepted bool, ready bool) {
	if err := s.verify(cfg); err != nil {
		return false, false
	}
	ready = true
	for _, t := range cfg.Triggers {
		for _, eh := range t.ErrorHandlers {
			tp := strings.ToLower(eh.Type)
			if (tp == ErrorHandlerLog || tp == ErrorHandlerReQueue) && eh.failingEntityHandler == nil {
				ready = false
			}
		}
	}
	return true, ready
}

// VerifRaffleRace: `rounds` times, `n` goroutines ask for a ticket for the SAME job id at the same moment; returns the
// largest number of tickets granted in one round (must be 1) and whether the pool bookkeeping is back to full afterwards.
func VerifRaffleRace(runner *Runner, rounds, n int) (maxGranted int, poolOk bool) {
	r := NewRaffle(5, 10, runner.logger, runner.statsdClient)
	for k := 0; k < rounds; k++ {
		start := make(chan struct{})
		res := make(chan *ticket, n)
		for g := 0; g < n; g++ {
			go func() {
				<-start
				res <- r.borrowTicket(&job{id: "same-job", title: "same-job", pipeline: &IncrementalPipeline{}})
			}()
		}
		close(start)
		granted := []*ticket{}
		for g := 0; g < n; g++ {
			if t := <-res; t != nil {
				granted = append(granted, t)
			}
		}
		if len(granted) > maxGranted {
			maxGranted = len(granted)
		}
		for _, t := range granted {
			r.returnTicket(t)
		}
	}
	return maxGranted, r.ticketsFull == 5 && r.ticketsIncr == 10
}

// VerifKillJob is Runner.killJob (the scheduler's kill of a running job).
func VerifKillJob(runner *Runner, jobID string) { runner.killJob(jobID) }
