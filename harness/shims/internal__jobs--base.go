//go:build verif

package jobs

import (
	"context"
	"sync"

	jobSource "github.com/mimiro-io/datahub/internal/jobs/source"
	"github.com/mimiro-io/datahub/internal/server"
)

// VerifTransform is a scripted, non-javascript Transform used by the verification harness.
type VerifTransform struct {
	P     int
	F     func([]*server.Entity) ([]*server.Entity, error)
	Pre   func([]*server.Entity) // runs before the call is recorded
	mu    sync.Mutex
	Calls [][]string // ids seen per transformEntities call
}

func (t *VerifTransform) GetConfig() map[string]interface{} {
	return map[string]interface{}{"Type": "VerifTransform"}
}

func (t *VerifTransform) transformEntities(runner *Runner, entities []*server.Entity, jobTag string) ([]*server.Entity, error) {
	if t.Pre != nil {
		t.Pre(entities)
	}
	ids := make([]string, len(entities))
	for i, e := range entities {
		ids[i] = e.ID
	}
	t.mu.Lock()
	t.Calls = append(t.Calls, ids)
	t.mu.Unlock()
	if t.F == nil {
		return entities, nil
	}
	return t.F(entities)
}
func (t *VerifTransform) getParallelism() int          { return t.P }
func (t *VerifTransform) EndStoreContext(string) error { return nil }

// VerifSink is a scripted Sink: Fail decides per call (0-based call index, batch) whether the call fails.
type VerifSink struct {
	Fail       func(call int, entities []*server.Entity) error
	Batches    [][]*server.Entity
	CallCount  int
	Started    int
	Ended      int
	Inner      Sink // optional real sink to forward accepted batches to
	OnAccepted func()
}

func (s *VerifSink) GetConfig() map[string]interface{} {
	if s.Inner != nil {
		return s.Inner.GetConfig()
	}
	return map[string]interface{}{"Type": "VerifSink"}
}

func (s *VerifSink) processEntities(runner *Runner, entities []*server.Entity) error {
	call := s.CallCount
	s.CallCount++
	if s.Fail != nil {
		if err := s.Fail(call, entities); err != nil {
			return err
		}
	}
	if s.Inner != nil {
		if err := s.Inner.processEntities(runner, entities); err != nil {
			return err
		}
	}
	cp := make([]*server.Entity, len(entities))
	copy(cp, entities)
	s.Batches = append(s.Batches, cp)
	if s.OnAccepted != nil {
		s.OnAccepted()
	}
	return nil
}

func (s *VerifSink) startFullSync(runner *Runner) error {
	s.Started++
	if s.Inner != nil {
		return s.Inner.startFullSync(runner)
	}
	return nil
}

func (s *VerifSink) endFullSync(ctx context.Context, runner *Runner) error {
	s.Ended++
	if s.Inner != nil {
		return s.Inner.endFullSync(ctx, runner)
	}
	return nil
}

// VerifPipelineSync runs the real IncrementalPipeline/FullSyncPipeline.sync for a synthetic job.
func VerifPipelineSync(runner *Runner, jobID string, src jobSource.Source, tr Transform, sink Sink, batch int, fullsync bool, ctx context.Context) (int, error) {
	spec := PipelineSpec{source: src, sink: sink, transform: tr, batchSize: batch}
	var p Pipeline
	if fullsync {
		p = &FullSyncPipeline{spec}
	} else {
		p = &IncrementalPipeline{spec}
	}
	j := &job{id: jobID, title: jobID, pipeline: p, runner: runner}
	return p.sync(j, ctx)
}

// VerifJobToken reads the persisted continuation token of a job.
func VerifJobToken(runner *Runner, jobID string) string {
	st := &SyncJobState{}
	_ = runner.store.GetObject(server.JobDataIndex, jobID, st)
	return st.ContinuationToken
}

// VerifParseSource builds a source from its JSON configuration the way the scheduler does for a job.
func VerifParseSource(s *Scheduler, cfg map[string]interface{}, transform map[string]interface{}) (jobSource.Source, error) {
	return s.parseSource(&JobConfiguration{Source: cfg, Transform: transform})
}
