package main

import (
	"fmt"
	"net/http/httptest"
	"path/filepath"
	"sort"
	"strings"
	"sync"
	"time"

	"github.com/mimiro-io/datahub/internal/jobs"
	"github.com/mimiro-io/datahub/internal/server"
)

var c09 *FullHub
var c09N int
var c09Mu sync.Mutex

const c09Lease = 400 * time.Millisecond
const c09Sleep = 900 * time.Millisecond

func c09Hub(c *Ctx) *FullHub {
	c09Mu.Lock()
	defer c09Mu.Unlock()
	if c09 == nil {
		fullHubLeaseTimeout = c09Lease
		c09 = OpenFullHub(filepath.Join(c.Dir, "c09"), false)
		fullHubLeaseTimeout = 0
	}
	return c09
}

func c09Body(ids []interface{}) string {
	var sb strings.Builder
	sb.WriteString(`[{"id":"@context","namespaces":{"_":"http://c09/"}}`)
	for _, v := range ids {
		fmt.Fprintf(&sb, `,{"id":"e%d","props":{"_:v":"x"},"refs":{}}`, int(v.(float64)))
	}
	sb.WriteString("]")
	return sb.String()
}

// c09.script: a sequence of HTTP full-sync requests, job-sink calls, plain writes and lease
// expiries on one dataset of a real hub; after every event: result class, live ids, tombstones per id.
func runC09(c *Ctx, in M) (out interface{}) {
	defer func() {
		if r := recover(); r != nil {
			out = M{"panic": fmt.Sprint(r)}
		}
	}()
	h := c09Hub(c)
	c09Mu.Lock()
	c09N++
	name := fmt.Sprintf("fs%d", c09N)
	c09Mu.Unlock()
	if _, err := h.Dsm.CreateDataset(name, nil); err != nil {
		return M{"err": err.Error()}
	}
	ds := h.Dsm.GetDataset(name)
	sink := jobs.VerifDatasetSink(h.Store, h.Dsm, name)
	res := []M{}
	for _, o := range getl(in, "evs") {
		ev := o.(map[string]interface{})
		rc := "ok"
		switch gets(ev, "e") {
		case "http":
			req := httptest.NewRequest("POST", "/datasets/"+name+"/entities", strings.NewReader(c09Body(getl(ev, "ents"))))
			req.Header.Set("Content-Type", "application/json")
			if getb(ev, "start") {
				req.Header.Set("universal-data-api-full-sync-start", "true")
			}
			if gets(ev, "id") != "" {
				req.Header.Set("universal-data-api-full-sync-id", gets(ev, "id"))
			}
			if getb(ev, "fin") {
				req.Header.Set("universal-data-api-full-sync-end", "true")
			}
			rec := httptest.NewRecorder()
			h.Echo.ServeHTTP(rec, req)
			switch rec.Code {
			case 200:
				rc = "ok"
			case 409:
				rc = "conflict"
			case 410:
				rc = "gone"
			default:
				rc = "err"
			}
		case "jobStart":
			if err := jobs.VerifSinkStart(sink, h.Runner); err != nil {
				rc = "err"
			}
		case "jobBatch":
			ids := getl(ev, "ents")
			if len(ids) > 0 {
				es := []*server.Entity{}
				for _, v := range ids {
					e := server.NewEntity(fmt.Sprintf("ns3:e%d", int(v.(float64))), 0)
					e.Properties["ns3:v"] = "x"
					es = append(es, e)
				}
				if err := jobs.VerifSinkProcess(sink, h.Runner, es); err != nil {
					rc = "err"
				}
			}
		case "txn":
			ids := getl(ev, "ents")
			if len(ids) > 0 {
				es := []*server.Entity{}
				for _, v := range ids {
					e := server.NewEntity(fmt.Sprintf("ns3:e%d", int(v.(float64))), 0)
					e.Properties["ns3:v"] = "x"
					es = append(es, e)
				}
				txn := &server.Transaction{DatasetEntities: map[string][]*server.Entity{name: es}}
				if err := h.Store.ExecuteTransaction(txn); err != nil {
					rc = "err"
				}
			}
		case "jobEnd":
			if err := jobs.VerifSinkEnd(sink, h.Runner); err != nil {
				rc = "err"
			}
		case "expire":
			time.Sleep(c09Sleep)
		}
		// observation
		live := []int{}
		tombs := map[int]int{}
		chg, err := ds.GetChanges(0, 0, false)
		if err != nil {
			return M{"err": err.Error()}
		}
		latest := map[int]bool{}
		for _, e := range chg.Entities {
			var n int
			fmt.Sscanf(e.ID[strings.LastIndex(e.ID, ":e")+2:], "%d", &n)
			if e.IsDeleted {
				tombs[n]++
			}
			latest[n] = !e.IsDeleted
		}
		for k, v := range latest {
			if v {
				live = append(live, k)
			}
		}
		sort.Ints(live)
		tl := []int{}
		for k, v := range tombs {
			for i := 0; i < v; i++ {
				tl = append(tl, k)
			}
		}
		sort.Ints(tl)
		res = append(res, M{"rc": rc, "live": live, "tombs": tl, "started": ds.FullSyncStarted()})
	}
	return res
}

func genC09(c *Ctx) {
	h := c09Hub(c)
	// make sure the namespace used by the job batches (ns3) is the one of the http bodies
	h.Store.NamespaceManager.AssertPrefixMappingForExpansion("http://c09/")
	ids := []string{"x", "y", ""}
	mk := func(withExpire bool, n int) M {
		evs := []M{}
		expires := 0
		for k := 0; k < n; k++ {
			ents := []int{}
			for j := 0; j < c.Rng.Intn(3); j++ {
				ents = append(ents, 1+c.Rng.Intn(4))
			}
			switch r := c.Rng.Intn(20); {
			case r < 3:
				evs = append(evs, M{"e": "http", "start": true, "id": ids[c.Rng.Intn(2)], "fin": c.Rng.Intn(6) == 0, "ents": ents})
			case r < 8:
				evs = append(evs, M{"e": "http", "start": false, "id": ids[c.Rng.Intn(3)], "fin": false, "ents": ents})
			case r < 11:
				evs = append(evs, M{"e": "http", "start": false, "id": ids[c.Rng.Intn(3)], "fin": true, "ents": ents})
			case r < 13:
				evs = append(evs, M{"e": "http", "start": false, "id": "", "fin": false, "ents": ents}) // plain write
			case r < 15:
				evs = append(evs, M{"e": "jobStart"})
			case r < 16:
				evs = append(evs, M{"e": "jobBatch", "ents": ents})
			case r < 17:
				evs = append(evs, M{"e": "txn", "ents": ents})
			case r < 19:
				evs = append(evs, M{"e": "jobEnd"})
			default:
				if withExpire && expires < 2 {
					expires++
					evs = append(evs, M{"e": "expire"})
				} else {
					evs = append(evs, M{"e": "jobBatch", "ents": ents})
				}
			}
		}
		return M{"evs": evs}
	}
	nPlain, nExp := 500, 64
	if c.Thorough {
		nPlain, nExp = 6000, 480
	}
	// seed with some initial content so that completions have something to delete
	for i := 0; i < nPlain; i++ {
		in := mk(false, 3+c.Rng.Intn(7))
		in["evs"] = append([]M{{"e": "http", "start": false, "id": "", "fin": false, "ents": []int{1, 2, 3}}}, in["evs"].([]M)...)
		c.Do("c09.script", in)
	}
	// scripts with real lease expiries (sleeps) run concurrently on separate datasets
	var wg sync.WaitGroup
	sem := make(chan bool, 16)
	for i := 0; i < nExp; i++ {
		in := mk(true, 4+c.Rng.Intn(6))
		in["evs"] = append([]M{{"e": "http", "start": false, "id": "", "fin": false, "ents": []int{1, 2, 3}}}, in["evs"].([]M)...)
		wg.Add(1)
		sem <- true
		go func() {
			defer wg.Done()
			c.Do("c09.script", in)
			<-sem
		}()
	}
	wg.Wait()
}

func init() {
	register("c09", genC09)
	registerKind("c09.script", runC09)
}
