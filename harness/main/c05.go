package main

import (
	"fmt"
	"math/rand"
	"path/filepath"
	"runtime"
	"sort"
	"sync"
	"sync/atomic"
	"time"

	"github.com/mimiro-io/datahub/internal/server"
)

// c05.conc (runs in a child process): N writers store batches and multi-dataset transactions over
// overlapping dataset sets (named in different orders), some batches are invalid and rejected,
// readers look entities up and page feeds, a manager creates and deletes other datasets. A hang is
// a deadlock (the parent kills the child), a fatal error is a crash. Afterwards the final state is
// checked for internal consistency.
func runC05(c *Ctx, in M) (out interface{}) {
	if p := geti(in, "procs"); p > 0 {
		runtime.GOMAXPROCS(p)
	}
	seed := int64(geti(in, "seed"))
	h := OpenHub(filepath.Join(c.Dir, "c05"), false)
	defer h.Destroy()
	dss := []string{"a", "b", "c"}
	for _, d := range dss {
		h.Dsm.CreateDataset(d, nil)
	}
	h.Store.NamespaceManager.AssertPrefixMappingForExpansion(storeNS)
	writers, perWriter := geti(in, "writers"), geti(in, "ops")
	var wg sync.WaitGroup
	var acked, rejected, tornReads, lookupErrs int64
	stop := make(chan bool)
	type ack struct {
		ds  string
		id  string
		val int
	}
	acks := make([][]ack, writers)
	var counter int64
	for w := 0; w < writers; w++ {
		wg.Add(1)
		go func(w int) {
			defer wg.Done()
			rng := rand.New(rand.NewSource(seed*1000 + int64(w)))
			for k := 0; k < perWriter; k++ {
				v := int(atomic.AddInt64(&counter, 1))
				switch rng.Intn(10) {
				case 0: // a batch that must be rejected (nil reference) — must not disturb anybody else
					e := server.NewEntity(fmt.Sprintf("ns3:bad%d", v), 0)
					e.References["ns3:r"] = nil
					good := server.NewEntity(fmt.Sprintf("ns3:w%d-%d", w, k), 0)
					good.Properties["ns3:v"] = v
					if err := h.Dsm.GetDataset(dss[rng.Intn(3)]).StoreEntities([]*server.Entity{good, e}); err != nil {
						atomic.AddInt64(&rejected, 1)
					}
				case 1, 2, 3: // transaction over two datasets, named in either order, same value in both
					i, j := rng.Intn(3), rng.Intn(3)
					if i == j {
						j = (j + 1) % 3
					}
					id := fmt.Sprintf("ns3:t%d", rng.Intn(4))
					txn := &server.Transaction{DatasetEntities: map[string][]*server.Entity{}}
					for _, d := range []string{dss[i], dss[j]} {
						e := server.NewEntity(id, 0)
						e.Properties["ns3:v"] = v
						e.References["ns3:r"] = fmt.Sprintf("ns3:x%d", v) // a brand-new identifier every time
						txn.DatasetEntities[d] = []*server.Entity{e}
					}
					if err := h.Store.ExecuteTransaction(txn); err == nil {
						atomic.AddInt64(&acked, 1)
						acks[w] = append(acks[w], ack{dss[i], id, v}, ack{dss[j], id, v})
					}
				default:
					d := dss[rng.Intn(3)]
					id := fmt.Sprintf("ns3:e%d", rng.Intn(5))
					e := server.NewEntity(id, 0)
					e.Properties["ns3:v"] = v
					e2 := server.NewEntity(fmt.Sprintf("ns3:w%d-%d", w, k), 0) // an id only this writer uses
					e2.Properties["ns3:v"] = v
					if err := h.Dsm.GetDataset(d).StoreEntities([]*server.Entity{e, e2}); err == nil {
						atomic.AddInt64(&acked, 1)
						acks[w] = append(acks[w], ack{d, id, v}, ack{d, e2.ID, v})
					}
				}
			}
		}(w)
	}
	// readers: an unscoped lookup of a transaction-written id merges the datasets; a transaction sets
	// the same value everywhere it writes, so within ONE transaction's datasets values agree — a
	// reader that pins one instant must never see a half-applied transaction (checked on the feed below)
	var rwg sync.WaitGroup
	for r := 0; r < geti(in, "readers"); r++ {
		rwg.Add(1)
		go func(r int) {
			defer rwg.Done()
			rng := rand.New(rand.NewSource(seed*7777 + int64(r)))
			for {
				select {
				case <-stop:
					return
				default:
				}
				id := fmt.Sprintf("ns3:t%d", rng.Intn(4))
				if _, err := h.Store.GetEntity(id, nil, true); err != nil {
					atomic.AddInt64(&lookupErrs, 1)
				}
				ds := h.Dsm.GetDataset(dss[rng.Intn(3)])
				if ds != nil {
					_, _ = ds.GetChanges(0, 5, false)
					_, _ = ds.GetEntities("", 3)
				}
				_ = h.Store.GetGlobalContext(false)
			}
		}(r)
	}
	// manager: creates and deletes unrelated datasets
	rwg.Add(1)
	go func() {
		defer rwg.Done()
		for k := 0; ; k++ {
			select {
			case <-stop:
				return
			default:
			}
			name := fmt.Sprintf("tmp%d", k%3)
			h.Dsm.CreateDataset(name, nil)
			_ = h.Dsm.DeleteDataset(name)
			time.Sleep(time.Millisecond)
		}
	}()
	wg.Wait()
	close(stop)
	rwg.Wait()
	_ = tornReads

	// ---- final state: consistency --------------------------------------------------------------
	problems := []string{}
	for _, d := range dss {
		ds := h.Dsm.GetDataset(d)
		chg, err := ds.GetChanges(0, 0, false)
		if err != nil {
			problems = append(problems, "feed unreadable: "+err.Error())
			continue
		}
		last := map[string]*server.Entity{}
		for _, e := range chg.Entities {
			last[e.ID] = e
		}
		// the latest view (listing) and the scoped lookup agree with the last feed entry of every id
		res, err := ds.GetEntities("", 0)
		if err != nil {
			problems = append(problems, "listing unreadable")
			continue
		}
		if len(res.Entities) != len(last) {
			problems = append(problems, fmt.Sprintf("%s: listing has %d entities, feed has %d ids", d, len(res.Entities), len(last)))
		}
		for _, e := range res.Entities {
			l := last[e.ID]
			if l == nil || fmt.Sprint(l.Properties["ns3:v"]) != fmt.Sprint(e.Properties["ns3:v"]) {
				problems = append(problems, fmt.Sprintf("%s/%s: listing shows v=%v, last feed entry v=%v", d, e.ID, e.Properties["ns3:v"], l))
			}
			lk, err := h.Store.GetEntity(e.ID, []string{d}, true)
			if err != nil || lk == nil {
				problems = append(problems, fmt.Sprintf("%s/%s: scoped lookup fails (identifier mapping lost?)", d, e.ID))
			} else if fmt.Sprint(lk.Properties["ns3:v"]) != fmt.Sprint(e.Properties["ns3:v"]) {
				problems = append(problems, fmt.Sprintf("%s/%s: lookup shows v=%v, listing v=%v", d, e.ID, lk.Properties["ns3:v"], e.Properties["ns3:v"]))
			}
		}
		// every acknowledged write is in the feed, in each writer's own order per (dataset,id)
		pos := map[string]int{}
		for i, e := range chg.Entities {
			pos[fmt.Sprintf("%s|%v", e.ID, e.Properties["ns3:v"])] = i + 1
		}
		for w := range acks {
			lastPos := map[string]int{}
			for _, a := range acks[w] {
				if a.ds != d {
					continue
				}
				p := pos[fmt.Sprintf("%s|%v", a.id, a.val)]
				if p == 0 {
					problems = append(problems, fmt.Sprintf("%s/%s v=%d acknowledged but not in the feed", d, a.id, a.val))
				} else if p < lastPos[a.id] {
					problems = append(problems, fmt.Sprintf("%s/%s v=%d precedes an earlier write of the same client", d, a.id, a.val))
				}
				lastPos[a.id] = p
			}
		}
		// commit order = time order: recorded times never decrease along the feed
		var prev uint64
		for _, e := range chg.Entities {
			if e.Recorded < prev {
				problems = append(problems, fmt.Sprintf("%s: feed entry %s recorded %d after %d (commit order ≠ time order)", d, e.ID, e.Recorded, prev))
				break
			}
			prev = e.Recorded
		}
	}
	sort.Strings(problems)
	if len(problems) > 5 {
		problems = append(problems[:5], fmt.Sprintf("… %d more", len(problems)-5))
	}
	return M{"completed": true, "problems": problems, "lookupErrors": lookupErrs > 0}
}

// c05.stale (child process): a FORCED schedule. A writer X (a batch, or a two-dataset transaction) is started while the
// dataset's write lock is held by another writer; that writer then commits W0 and releases the lock, X commits after it.
// Commit order is W0, X — so X must be the latest version for every reader: listing, scoped lookup (newest commit time)
// and the feed's recorded times must agree. A writer that draws its commit time before it owns the lock breaks that.
func runC05Stale(c *Ctx, in M) (out interface{}) {
	h := OpenHub(filepath.Join(c.Dir, "c05s"), false)
	defer h.Destroy()
	for _, d := range []string{"a", "b"} {
		h.Dsm.CreateDataset(d, nil)
	}
	h.Store.NamespaceManager.AssertPrefixMappingForExpansion(storeNS)
	a := h.Dsm.GetDataset("a")
	mk := func(v int) *server.Entity {
		e := server.NewEntity("ns3:e1", 0)
		e.Properties["ns3:v"] = v
		return e
	}
	if err := a.StoreEntities([]*server.Entity{mk(1)}); err != nil {
		return M{"completed": false, "problems": []string{"setup: " + err.Error()}}
	}
	a.VerifLock()
	done := make(chan error, 1)
	go func() {
		if gets(in, "x") == "txn" {
			done <- h.Store.ExecuteTransaction(&server.Transaction{DatasetEntities: map[string][]*server.Entity{"a": {mk(3)}, "b": {mk(3)}}})
		} else {
			done <- a.StoreEntities([]*server.Entity{mk(3)})
		}
	}()
	time.Sleep(time.Duration(geti(in, "parkMs")) * time.Millisecond) // X parks on the lock
	errW := a.VerifStoreHoldingLock([]*server.Entity{mk(2)})
	a.VerifUnlock()
	var errX error
	select {
	case errX = <-done:
	case <-time.After(20 * time.Second):
		return M{"completed": false, "problems": []string{"X never finished"}}
	}
	problems := []string{}
	if errW != nil || errX != nil {
		problems = append(problems, fmt.Sprintf("write failed: %v %v", errW, errX))
	}
	chg, _ := a.GetChanges(0, 0, false)
	vals := []string{}
	var prev uint64
	for _, e := range chg.Entities {
		vals = append(vals, fmt.Sprint(e.Properties["ns3:v"]))
		if e.Recorded < prev {
			problems = append(problems, "feed: recorded times decrease (commit order ≠ time order)")
		}
		prev = e.Recorded
	}
	if fmt.Sprint(vals) != "[1 2 3]" {
		problems = append(problems, "feed is "+fmt.Sprint(vals)+", expected [1 2 3]")
	}
	res, _ := a.GetEntities("", 0)
	if len(res.Entities) != 1 || fmt.Sprint(res.Entities[0].Properties["ns3:v"]) != "3" {
		problems = append(problems, "listing does not show the last committed version")
	}
	lk, err := h.Store.GetEntity("ns3:e1", []string{"a"}, true)
	if err != nil || lk == nil || fmt.Sprint(lk.Properties["ns3:v"]) != "3" {
		v := interface{}(nil)
		if lk != nil {
			v = lk.Properties["ns3:v"]
		}
		problems = append(problems, fmt.Sprintf("scoped lookup shows v=%v, the last committed version is v=3", v))
	}
	sort.Strings(problems)
	return M{"completed": true, "problems": problems, "lookupErrors": false}
}

func genC05Stale(c *Ctx) {
	for _, x := range []string{"batch", "txn"} {
		for _, park := range []int{60, 150} {
			c.DoChild("c05.stale", M{"x": x, "parkMs": park}, 40*time.Second)
		}
	}
}

func genC05(c *Ctx) {
	runs := 6
	if c.Thorough {
		runs = 24
	}
	for i := 0; i < runs; i++ {
		c.DoChild("c05.conc", M{"seed": int(c.Seed)*100 + i, "writers": 4 + i%5, "ops": 60, "readers": 2, "procs": []int{1, 4, 16}[i%3]}, 45*time.Second)
	}
}

func init() {
	register("c05", genC05)
	registerKind("c05.conc", runC05)
	childKinds["c05.conc"] = true
	register("c05stale", genC05Stale)
	registerKind("c05.stale", runC05Stale)
	childKinds["c05.stale"] = true
}

// c19.renamerace (child process): a FORCED schedule. While a rename of dataset x is parked between "record moved" and
// "meta entity of the new name stored" (core.Dataset's write lock is held by the harness), a writer stores a new entity
// into the dataset. The rename holds the dataset's own write lock for its whole duration, so the writer waits and its
// counter update finds the new meta entity: afterwards items(y) = number of distinct ids in y.
func runC19RenameRace(c *Ctx, in M) (out interface{}) {
	h := OpenHub(filepath.Join(c.Dir, "c19r"), false)
	defer h.Destroy()
	h.Dsm.CreateDataset("x", nil)
	h.Store.NamespaceManager.AssertPrefixMappingForExpansion(storeNS)
	mk := func(id string) *server.Entity {
		e := server.NewEntity(id, 0)
		e.Properties["ns3:v"] = 1
		return e
	}
	x := h.Dsm.GetDataset("x")
	if err := x.StoreEntities([]*server.Entity{mk("ns3:e1"), mk("ns3:e2")}); err != nil {
		return M{"completed": false, "problems": []string{"setup: " + err.Error()}}
	}
	core := h.Dsm.GetDataset("core.Dataset")
	core.VerifLock()
	rdone := make(chan error, 1)
	go func() {
		_, err := h.Dsm.UpdateDataset("x", &server.UpdateDatasetConfig{ID: "y"})
		rdone <- err
	}()
	time.Sleep(time.Duration(geti(in, "parkMs")) * time.Millisecond) // the rename parks on core.Dataset's lock
	wdone := make(chan error, 1)
	go func() {
		ds := h.Dsm.GetDataset("y")
		if ds == nil {
			ds = x
		}
		wdone <- ds.StoreEntities([]*server.Entity{mk("ns3:e3")})
	}()
	time.Sleep(time.Duration(geti(in, "parkMs")) * time.Millisecond)
	core.VerifUnlock()
	problems := []string{}
	for _, ch := range []chan error{rdone, wdone} {
		select {
		case err := <-ch:
			if err != nil {
				problems = append(problems, "operation failed: "+err.Error())
			}
		case <-time.After(20 * time.Second):
			return M{"completed": false, "problems": []string{"hang"}}
		}
	}
	y := h.Dsm.GetDataset("y")
	if y == nil {
		return M{"completed": true, "problems": []string{"dataset y missing after the rename"}, "lookupErrors": false}
	}
	res, _ := y.GetEntities("", 0)
	meta, err := h.Store.GetEntity("ns0:y", []string{"core.Dataset"}, true)
	if err != nil || meta == nil {
		problems = append(problems, "no meta entity for y")
	} else if fmt.Sprint(meta.Properties["ns0:items"]) != fmt.Sprint(len(res.Entities)) {
		problems = append(problems, fmt.Sprintf("items counter of y is %v, the dataset holds %d distinct ids", meta.Properties["ns0:items"], len(res.Entities)))
	}
	sort.Strings(problems)
	return M{"completed": true, "problems": problems, "lookupErrors": false}
}

func genC19RenameRace(c *Ctx) {
	for _, park := range []int{80, 200} {
		c.DoChild("c19.renamerace", M{"parkMs": park}, 40*time.Second)
	}
}

func init() {
	register("c19race", genC19RenameRace)
	registerKind("c19.renamerace", runC19RenameRace)
	childKinds["c19.renamerace"] = true
}

// c05.coretxn (child process): one transaction that writes the meta entity of a dataset in core.Dataset (the documented way
// to change its public namespaces) together with new entities of that dataset. The counter update at the end of the
// transaction stores into core.Dataset again: the call must return (no self-deadlock), and both parts must be visible.
func runC05CoreTxn(c *Ctx, in M) (out interface{}) {
	h := OpenHub(filepath.Join(c.Dir, "c05core"), false)
	defer h.Destroy()
	h.Dsm.CreateDataset("a", nil)
	h.Store.NamespaceManager.AssertPrefixMappingForExpansion(storeNS)
	meta, err := h.Store.GetEntity("ns0:a", []string{"core.Dataset"}, true)
	if err != nil || meta == nil {
		return M{"completed": false, "problem": "no meta entity"}
	}
	meta.Properties["ns0:publicNamespaces"] = []interface{}{storeNS}
	n := geti(in, "new")
	ents := []*server.Entity{}
	for i := 0; i < n; i++ {
		e := server.NewEntity(fmt.Sprintf("ns3:k%d", i), 0)
		e.Properties["ns3:v"] = i
		ents = append(ents, e)
	}
	txn := &server.Transaction{DatasetEntities: map[string][]*server.Entity{"core.Dataset": {meta}, "a": ents}}
	done := make(chan error, 1)
	go func() { done <- h.Store.ExecuteTransaction(txn) }()
	select {
	case err := <-done:
		if err != nil {
			return M{"completed": true, "accepted": false}
		}
	case <-time.After(10 * time.Second):
		return M{"completed": false}
	}
	res, _ := h.Dsm.GetDataset("a").GetEntities("", 100)
	cnt := 0
	if res != nil {
		cnt = len(res.Entities)
	}
	// the public namespaces written with the meta entity are what the dataset serves
	pub := 0
	if ds := h.Dsm.GetDataset("a"); ds != nil {
		pub = len(ds.PublicNamespaces)
	}
	return M{"completed": true, "accepted": true, "listed": cnt, "public": pub}
}

func init() {
	register("c05core", func(c *Ctx) {
		for _, n := range []int{0, 1, 3} {
			c.DoChild("c05.coretxn", M{"new": n}, 40*time.Second)
		}
	})
	registerKind("c05.coretxn", runC05CoreTxn)
	childKinds["c05.coretxn"] = true
}
