package main

import (
	"context"
	"encoding/json"
	"fmt"
	"sort"
	"strconv"

	"github.com/mimiro-io/datahub/internal/jobs"
	jobSource "github.com/mimiro-io/datahub/internal/jobs/source"
	"github.com/mimiro-io/datahub/internal/server"
)

// ---------------------------------------------------------------------------------------------
// C08: a job copying one or several datasets into a dataset, driven through the real
// IncrementalPipeline.sync / FullSyncPipeline.sync with the real DatasetSource / UnionDatasetSource
// and the real datasetSink (behind a scripted wrapper that can reject the k-th call, cancel the run
// context after the k-th accepted batch, or die — panic — between the sink write and the token store).
//
// input  {"members":n,"latestOnly":b,"batch":k,"events":[{"w":{"ds":i,"ents":[[id,c,del],…]}} | {"run":{"full":b,"failAt":k,"killAfter":k,"dieAfter":k}}]}
// c08.run  → per run: {"res","tok":[rank per member]|[],"sinkLen","sink":[[id,c,del]…]}
// c08.prop → flat, three entries per run: eq (bool|null), behind ([ids]), idle (bool|null): the property evaluated on the real state

var c08Hub *Hub
var c08HubUses int
var c08Case int

type c08Ver struct {
	id, c int
	del   bool
}

func c08Entity(v c08Ver) *server.Entity {
	e := server.NewEntity("http://c08/e"+strconv.Itoa(v.id), 0)
	e.IsDeleted = v.del
	e.Properties["http://c08/p"] = v.c
	return e
}

func c08FromEntity(e *server.Entity) c08Ver {
	// stored entities carry compacted names ("ns3:e105", "ns3:p"): the id is the number after the last 'e'
	id := 0
	for i := len(e.ID) - 1; i >= 0; i-- {
		if e.ID[i] == 'e' {
			id, _ = strconv.Atoi(e.ID[i+1:])
			break
		}
	}
	c := 0
	for _, v := range e.Properties {
		switch x := v.(type) {
		case float64:
			c = int(x)
		case int:
			c = x
		}
	}
	return c08Ver{id: id, c: c, del: e.IsDeleted}
}

// full change feed of a dataset (all versions in position order); ok=false when positions are not 0..n-1
func c08Feed(ds *server.Dataset) ([]c08Ver, bool) {
	ch, err := ds.GetChanges(0, 0, false)
	if err != nil {
		return nil, false
	}
	out := make([]c08Ver, len(ch.Entities))
	for i, e := range ch.Entities {
		out[i] = c08FromEntity(e)
	}
	return out, int(ch.NextToken) == len(out)
}

func c08View(ds *server.Dataset) map[int]c08Ver {
	m := map[int]c08Ver{}
	_, _ = ds.MapEntities("", -1, func(e *server.Entity) error {
		v := c08FromEntity(e)
		m[v.id] = v
		return nil
	})
	return m
}

func c08ViewList(m map[int]c08Ver) [][]interface{} {
	ids := []int{}
	for id := range m {
		ids = append(ids, id)
	}
	sort.Ints(ids)
	out := [][]interface{}{}
	for _, id := range ids {
		out = append(out, []interface{}{id, m[id].c, m[id].del})
	}
	return out
}

type c08Died struct{}

func runC08(c *Ctx, in M) (obs []interface{}, props []interface{}) {
	if c08Hub == nil || c08HubUses > 150 {
		if c08Hub != nil {
			c08Hub.Destroy()
		}
		c08Hub = NewHub(c, true)
		c08HubUses = 0
	}
	c08HubUses++
	c08Case++
	h := c08Hub
	n := geti(in, "members")
	latestOnly := getb(in, "latestOnly")
	batch := geti(in, "batch")
	names := make([]string, n)
	srcDs := make([]*server.Dataset, n)
	members := make([]*jobSource.DatasetSource, n)
	for i := 0; i < n; i++ {
		names[i] = fmt.Sprintf("c08s%d_%d", c08Case, i)
		ds, err := h.Dsm.CreateDataset(names[i], nil)
		if err != nil {
			panic(err)
		}
		srcDs[i] = ds
		members[i] = &jobSource.DatasetSource{DatasetName: names[i], Store: h.Store, DatasetManager: h.Dsm, LatestOnly: latestOnly}
	}
	sinkName := fmt.Sprintf("c08k%d", c08Case)
	sinkDs, err := h.Dsm.CreateDataset(sinkName, nil)
	if err != nil {
		panic(err)
	}
	realSink := jobs.VerifDatasetSink(h.Store, h.Dsm, sinkName)
	var src jobSource.Source
	if getb(in, "union") || n > 1 {
		src = &jobSource.UnionDatasetSource{DatasetSources: members}
	} else {
		src = members[0]
	}
	jobID := fmt.Sprintf("c08-%d-%d", c.Seed, c08Case)

	prevOk := false // the previous event was a run that ended ok
	prevTok := ""
	prevLen := -1
	for _, evI := range getl(in, "events") {
		ev := evI.(map[string]interface{})
		if w := getm(ev, "w"); w != nil {
			es := []*server.Entity{}
			for _, t := range getl(w, "ents") {
				tt := t.([]interface{})
				es = append(es, c08Entity(c08Ver{id: int(tt[0].(float64)), c: int(tt[1].(float64)), del: tt[2].(bool)}))
			}
			if err := srcDs[geti(w, "ds")].StoreEntities(es); err != nil {
				panic(err)
			}
			prevOk = false
			c.Count("c08:writes", 1)
			continue
		}
		r := getm(ev, "run")
		full := getb(r, "full")
		failAt, killAfter, dieAfter := geti(r, "failAt"), geti(r, "killAfter"), geti(r, "dieAfter")
		ctx, cancel := context.WithCancel(context.Background())
		accepted := 0
		vs := &jobs.VerifSink{Inner: realSink}
		vs.Fail = func(call int, es []*server.Entity) error {
			if call == failAt {
				return fmt.Errorf("scripted sink failure at call %d", call)
			}
			return nil
		}
		vs.OnAccepted = func() {
			accepted++
			if accepted == killAfter {
				cancel()
			}
			if accepted == dieAfter {
				panic(c08Died{})
			}
		}
		if killAfter == 0 {
			cancel()
		}
		res := "ok"
		func() {
			defer func() {
				if rec := recover(); rec != nil {
					if _, ok := rec.(c08Died); ok {
						res = "died"
					} else {
						res = "panic:" + fmt.Sprint(rec)
					}
				}
			}()
			_, err := jobs.VerifPipelineSync(h.Runner, jobID, src, nil, vs, batch, full, ctx)
			if err != nil {
				res = "err"
			}
		}()
		cancel()
		c.Count("c08:runs:"+res, 1)
		if full {
			c.Count("c08:runs:full", 1)
		}
		// ---- observation ----
		tokStr := jobs.VerifJobToken(h.Runner, jobID)
		feeds := make([][]c08Ver, n)
		contiguous := true
		for i := range srcDs {
			f, ok := c08Feed(srcDs[i])
			feeds[i] = f
			contiguous = contiguous && ok
		}
		toks := []int{}
		if tokStr != "" {
			if _, isUnion := src.(*jobSource.UnionDatasetSource); isUnion {
				var u struct {
					Tokens []struct{ Token string }
				}
				if err := json.Unmarshal([]byte(tokStr), &u); err != nil {
					toks = []int{-99}
				}
				for _, t := range u.Tokens {
					if t.Token == "" {
						toks = append(toks, -1)
					} else {
						v, _ := strconv.Atoi(t.Token)
						toks = append(toks, v)
					}
				}
			} else {
				v, err := strconv.Atoi(tokStr)
				if err != nil {
					v = -99
				}
				toks = []int{v}
			}
		}
		sinkFeed, _ := c08Feed(sinkDs)
		sinkView := c08View(sinkDs)
		o := M{"res": res, "tok": toks, "sinkLen": len(sinkFeed), "sink": c08ViewList(sinkView)}
		if !contiguous {
			o["noncontiguous"] = true
		}
		obs = append(obs, o)
		// ---- the property on the real state ----
		srcView := map[int]c08Ver{}
		behind := []int{}
		for i := range srcDs {
			last := map[int]int{}
			for p, v := range feeds[i] {
				last[v.id] = p
			}
			tk := 0
			if i < len(toks) && toks[i] > 0 {
				tk = toks[i]
			}
			for id, p := range last {
				srcView[id] = feeds[i][p]
				if sv, ok := sinkView[id]; (!ok || sv != feeds[i][p]) && p < tk {
					behind = append(behind, id)
				}
			}
		}
		sort.Ints(behind)
		var eq interface{}
		if res == "ok" {
			same := len(srcView) == len(sinkView)
			for id, v := range srcView {
				if sinkView[id] != v {
					same = false
				}
			}
			eq = same
			if !same {
				c.Count("c08:ok-but-different", 1)
			}
		}
		var idle interface{}
		if res == "ok" && prevOk {
			idle = prevTok == tokStr && prevLen == len(sinkFeed)
			c.Count("c08:idle-runs", 1)
		}
		props = append(props, eq, behind, idle)
		prevOk = res == "ok"
		prevTok = tokStr
		prevLen = len(sinkFeed)
	}
	return obs, props
}

// ---- generator ----

func genC08(c *Ctx) {
	cases := 1200
	if c.Thorough {
		cases = 6000
	}
	for i := 0; i < cases; i++ {
		n := 1
		if c.Rng.Intn(3) == 0 {
			n = 2 + c.Rng.Intn(2)
		}
		union := n > 1 || c.Rng.Intn(6) == 0
		batch := []int{1, 1, 2, 2, 3, 5, 100}[c.Rng.Intn(7)]
		in := M{"members": n, "union": union, "latestOnly": c.Rng.Intn(3) == 0, "batch": batch}
		events := []M{}
		content := 10
		state := make([]map[int][2]int, n) // member -> id -> (c, del) as last written
		for j := range state {
			state[j] = map[int][2]int{}
		}
		nev := 4 + c.Rng.Intn(8)
		for e := 0; e < nev; e++ {
			if e == 0 || c.Rng.Intn(5) < 2 {
				m := c.Rng.Intn(n)
				k := 1 + c.Rng.Intn(5)
				ents := [][]interface{}{}
				for x := 0; x < k; x++ {
					id := m*100 + c.Rng.Intn(4)
					prev, had := state[m][id]
					var cc, del int
					switch r := c.Rng.Intn(10); {
					case had && r == 0: // identical re-post (dropped by the store)
						cc, del = prev[0], prev[1]
					case had && r <= 2: // delete / un-delete, same content
						cc, del = prev[0], 1-prev[1]
					default:
						content++
						cc, del = content, 0
						if c.Rng.Intn(8) == 0 {
							del = 1
						}
					}
					state[m][id] = [2]int{cc, del}
					ents = append(ents, []interface{}{id, cc, del == 1})
				}
				events = append(events, M{"w": M{"ds": m, "ents": ents}})
				continue
			}
			run := M{"full": c.Rng.Intn(4) == 0, "failAt": -1, "killAfter": -1, "dieAfter": -1}
			switch c.Rng.Intn(8) {
			case 0, 1:
				run["failAt"] = c.Rng.Intn(4)
			case 2:
				run["killAfter"] = c.Rng.Intn(4)
			case 3:
				run["dieAfter"] = 1 + c.Rng.Intn(3)
			}
			events = append(events, M{"run": run})
			if c.Rng.Intn(3) == 0 { // an undisturbed run right after (recovery / idle re-run)
				events = append(events, M{"run": M{"full": false, "failAt": -1, "killAfter": -1, "dieAfter": -1}})
			}
		}
		// always finish with an undisturbed incremental run and an idle re-run
		events = append(events, M{"run": M{"full": false, "failAt": -1, "killAfter": -1, "dieAfter": -1}},
			M{"run": M{"full": c.Rng.Intn(5) == 0, "failAt": -1, "killAfter": -1, "dieAfter": -1}})
		in["events"] = events
		doC08(c, in)
	}
}

func doC08(c *Ctx, in M) {
	b, _ := json.Marshal(in)
	var in2 M
	_ = json.Unmarshal(b, &in2)
	obs, props := runC08(c, in2)
	c.Emit("c08.run", json.RawMessage(b), obs)
	c.Emit("c08.prop", json.RawMessage(b), props)
}

func init() {
	register("c08", genC08)
	registerKind("c08.run", func(c *Ctx, in M) interface{} { o, _ := runC08(c, in); return o })
	registerKind("c08.prop", func(c *Ctx, in M) interface{} { _, p := runC08(c, in); return p })
}
