package main

import (
	"fmt"
	"strings"
	"path/filepath"
	"sort"

	"github.com/mimiro-io/datahub/internal/server"
)

var c13Counter int

// c13.ns: namespace assertions, CURIE compaction/expansion and restarts against the real
// NamespaceManager of a fresh store.
func runC13Ns(c *Ctx, in M) (out interface{}) {
	c13Counter++
	dir := filepath.Join(c.Dir, fmt.Sprintf("c13-%d", c13Counter))
	h := OpenHub(dir, false)
	defer func() {
		if r := recover(); r != nil {
			out = M{"panic": fmt.Sprint(r)}
		}
		h.Destroy()
	}()
	res := []interface{}{}
	for _, o := range getl(in, "ops") {
		op := o.([]interface{})
		switch op[0].(string) {
		case "assert":
			p, err := h.Store.NamespaceManager.AssertPrefixMappingForExpansion(op[1].(string))
			if err != nil {
				res = append(res, "err")
			} else {
				res = append(res, p)
			}
		case "assertNested":
			// forced schedule: while one caller is in front of a lock acquisition of AssertPrefixMappingForExpansion
			// (a point inserted by tools/instr), a second caller runs the whole function (usually for the same expansion)
			fired, inner := false, "-"
			server.VerifAtPoint(op[3].(string), 1, func() {
				fired = true
				q, err := h.Store.NamespaceManager.AssertPrefixMappingForExpansion(op[2].(string))
				if err != nil {
					inner = "err"
				} else {
					inner = q
				}
			})
			p, err := h.Store.NamespaceManager.AssertPrefixMappingForExpansion(op[1].(string))
			server.VerifAtPoint("", 0, nil)
			if err != nil {
				p = "err"
			}
			res = append(res, []interface{}{p, inner, fired})
			if fired {
				c.Count("c13.nested-assert", 1)
			}
		case "compact":
			p, err := h.Store.GetNamespacedIdentifierFromURI(op[1].(string))
			if err != nil {
				res = append(res, "err")
			} else {
				res = append(res, p)
			}
		case "expand":
			p, err := h.Store.ExpandCurie(op[1].(string))
			if err != nil {
				res = append(res, "err")
			} else {
				res = append(res, p)
			}
		case "restart":
			h.Close()
			h = OpenHub(dir, false)
			res = append(res, "ok")
		}
	}
	m := h.Store.NamespaceManager.GetPrefixToExpansionMap()
	keys := []string{}
	for k := range m {
		keys = append(keys, k)
	}
	sort.Strings(keys)
	final := [][]string{}
	for _, k := range keys {
		final = append(final, []string{k, m[k]})
	}
	return M{"res": res, "final": final}
}

// c13.ids: identifiers are introduced as entity ids (one per entity, so the order of first use is
// defined), with restarts in between; observation: for every op the rank of each uri's internal id.
func runC13Ids(c *Ctx, in M) (out interface{}) {
	c13Counter++
	dir := filepath.Join(c.Dir, fmt.Sprintf("c13-%d", c13Counter))
	h := OpenHub(dir, false)
	defer func() {
		if r := recover(); r != nil {
			out = M{"panic": fmt.Sprint(r)}
		}
		h.Destroy()
	}()
	dsname := "ids"
	h.Dsm.CreateDataset(dsname, nil)
	known := []string{}
	seen := map[string]bool{}
	res := []interface{}{}
	for _, o := range getl(in, "ops") {
		op := o.([]interface{})
		switch op[0].(string) {
		case "store":
			ents := []*server.Entity{}
			for _, u := range op[1].([]interface{}) {
				uri := u.(string)
				e := server.NewEntity(uri, 0)
				e.Properties["ns0:v"] = len(known)
				ents = append(ents, e)
				if !seen[uri] {
					seen[uri] = true
					known = append(known, uri)
				}
			}
			if err := h.Dsm.GetDataset(dsname).StoreEntities(ents); err != nil {
				res = append(res, "err")
				continue
			}
		case "restart":
			h.Close()
			h = OpenHub(dir, false)
		}
		// observe ids of all known uris
		type pair struct {
			uri string
			id  uint64
		}
		ps := []pair{}
		for _, u := range known {
			e, err := h.Store.GetEntity(u, []string{dsname}, true)
			if err != nil || e == nil {
				ps = append(ps, pair{u, 0})
			} else {
				ps = append(ps, pair{u, e.InternalID})
			}
		}
		sort.SliceStable(ps, func(i, j int) bool { return ps[i].id < ps[j].id })
		ranked := []string{}
		for _, p := range ps {
			if p.id == 0 {
				ranked = append(ranked, "MISSING:"+p.uri)
			} else {
				ranked = append(ranked, p.uri)
			}
		}
		// duplicates would show as equal ids: report them explicitly
		for i := 1; i < len(ps); i++ {
			if ps[i].id == ps[i-1].id && ps[i].id != 0 {
				ranked = append(ranked, "DUPLICATE-ID")
			}
		}
		res = append(res, ranked)
	}
	return res
}

// nsPoints: the schedule points in front of the lock acquisitions of AssertPrefixMappingForExpansion.
func nsPoints() []string {
	res := []string{}
	for _, p := range loadCrashPoints().Points["AssertPrefixMappingForExpansion"] {
		if strings.Contains(p, ":pre") {
			res = append(res, p)
		}
	}
	return res
}

func genC13(c *Ctx) {
	exps := []string{"http://a.io/x/", "http://a.io/x#", "https://b.org/", "http://a.io/", "http://c.net/p/q/", "http://c.net/p/q#", "http://d/"}
	locals := []string{"e1", "", "a:b", "x/y", "p#q", "1", "ns3:z", "☃"}
	n := 60
	if c.Thorough {
		n = 900
	}
	for i := 0; i < n; i++ {
		ops := [][]interface{}{}
		curies := []string{}
		for k := 0; k < 4+c.Rng.Intn(12); k++ {
			switch r := c.Rng.Intn(10); {
			case r < 3:
				e := exps[c.Rng.Intn(len(exps))]
				if pts := nsPoints(); len(pts) > 0 && c.Rng.Intn(2) == 0 {
					e2 := e
					if c.Rng.Intn(4) == 0 {
						e2 = exps[c.Rng.Intn(len(exps))]
					}
					ops = append(ops, []interface{}{"assertNested", e, e2, pts[c.Rng.Intn(len(pts))]})
				} else {
					ops = append(ops, []interface{}{"assert", e})
				}
			case r < 7:
				ops = append(ops, []interface{}{"compact", exps[c.Rng.Intn(len(exps))] + locals[c.Rng.Intn(len(locals))]})
			case r < 8:
				ops = append(ops, []interface{}{"expand", fmt.Sprintf("ns%d:%s", c.Rng.Intn(6), locals[c.Rng.Intn(len(locals))])})
			default:
				ops = append(ops, []interface{}{"restart"})
			}
		}
		_ = curies
		c.Do("c13.ns", M{"ops": ops})
	}
	uris := []string{"ns0:a", "ns0:b", "ns0:c", "ns0:d", "ns0:e", "ns0:f", "ns0:g", "ns0:h"}
	m := 25
	if c.Thorough {
		m = 300
	}
	for i := 0; i < m; i++ {
		ops := [][]interface{}{}
		for k := 0; k < 3+c.Rng.Intn(7); k++ {
			if c.Rng.Intn(4) == 0 {
				ops = append(ops, []interface{}{"restart"})
				continue
			}
			batch := []string{}
			for b := 0; b < 1+c.Rng.Intn(4); b++ {
				batch = append(batch, uris[c.Rng.Intn(len(uris))])
			}
			ops = append(ops, []interface{}{"store", batch})
		}
		c.Do("c13.ids", M{"ops": ops})
	}
}

func init() {
	register("c13", genC13)
	registerKind("c13.ns", runC13Ns)
	registerKind("c13.ids", runC13Ids)
}
