package main

import (
	"bytes"
	"encoding/base64"
	"encoding/json"
	"fmt"
	"io"
	"math/rand"
	"net/http"
	"net/http/httptest"
	"path/filepath"
	"sort"
	"strconv"
	"strings"

	"github.com/mimiro-io/datahub/internal/server"
)

// ---- tokens: an independent walk over the body with encoding/json's tokenizer ---------------------

func c15Tokens(body []byte) []string {
	dec := json.NewDecoder(bytes.NewReader(body))
	toks := []string{}
	for len(toks) < 200000 {
		t, err := dec.Token()
		if err == io.EOF {
			return toks
		}
		if err != nil {
			return append(toks, "!")
		}
		switch v := t.(type) {
		case json.Delim:
			toks = append(toks, string(rune(v)))
		case string:
			toks = append(toks, "s:"+v)
		case float64:
			toks = append(toks, "n:"+strconv.FormatFloat(v, 'g', -1, 64))
		case bool:
			if v {
				toks = append(toks, "t")
			} else {
				toks = append(toks, "f")
			}
		case nil:
			toks = append(toks, "z")
		}
	}
	return append(toks, "!")
}

// ---- canonical form of what the parser produced ------------------------------------------------------

type c15Canon struct{ ns map[string]string }

func (cc c15Canon) uri(curie string) string {
	if curie == "@continuation" {
		return curie
	}
	i := strings.Index(curie, ":")
	if i < 0 {
		return curie
	}
	if ex, ok := cc.ns[curie[:i]]; ok {
		return ex + curie[i+1:]
	}
	return curie
}

func (cc c15Canon) val(v interface{}) interface{} {
	switch x := v.(type) {
	case nil:
		return nil
	case string:
		return x
	case bool:
		return x
	case float64:
		return M{"n": strconv.FormatFloat(x, 'g', -1, 64)}
	case int:
		return M{"n": strconv.Itoa(x)}
	case json.Delim:
		return M{"n": strconv.Itoa(int(x))}
	case []interface{}:
		l := []interface{}{}
		for _, y := range x {
			l = append(l, cc.val(y))
		}
		return l
	case *server.Entity:
		return cc.ent(x)
	}
	return fmt.Sprintf("?%T", v)
}

func (cc c15Canon) ent(e *server.Entity) M {
	props := M{}
	for k, v := range e.Properties {
		if e.ID == "@continuation" {
			props[k] = cc.val(v)
		} else {
			props[cc.uri(k)] = cc.val(v)
		}
	}
	refs := M{}
	for k, v := range e.References {
		switch x := v.(type) {
		case string:
			refs[cc.uri(k)] = cc.uri(x)
		case []string:
			l := []string{}
			for _, y := range x {
				l = append(l, cc.uri(y))
			}
			refs[cc.uri(k)] = l
		case []interface{}:
			l := []string{}
			for _, y := range x {
				s, _ := y.(string)
				l = append(l, cc.uri(s))
			}
			refs[cc.uri(k)] = l
		default:
			refs[cc.uri(k)] = fmt.Sprintf("?%T", v)
		}
	}
	return M{"id": cc.uri(e.ID), "deleted": e.IsDeleted, "props": props, "refs": refs}
}

var c15Hub *Hub

func c15TheHub(c *Ctx) *Hub {
	if c15Hub == nil {
		c15Hub = OpenHub(filepath.Join(c.Dir, "c15"), false)
	}
	return c15Hub
}

// c15.stream: the real ParseStream over the body; the model gets the token stream of the same bytes.
func runC15Stream(c *Ctx, in M) (out interface{}) {
	body, _ := base64.StdEncoding.DecodeString(gets(in, "b64"))
	h := c15TheHub(c)
	emitted := []*server.Entity{}
	var perr error
	func() {
		defer func() {
			if r := recover(); r != nil {
				out = M{"panic": fmt.Sprint(r)}
			}
		}()
		esp := server.NewEntityStreamParser(h.Store)
		perr = esp.ParseStream(bytes.NewReader(body), func(e *server.Entity) error {
			emitted = append(emitted, e)
			return nil
		})
	}()
	if out != nil {
		return out
	}
	cc := c15Canon{ns: h.Store.NamespaceManager.GetPrefixToExpansionMap()}
	l := []interface{}{}
	for _, e := range emitted {
		l = append(l, cc.ent(e))
	}
	return M{"emitted": l, "err": perr != nil}
}

func doC15(c *Ctx, in M) {
	body, _ := base64.StdEncoding.DecodeString(gets(in, "b64"))
	aug := M{}
	for k, v := range in {
		aug[k] = v
	}
	aug["toks"] = c15Tokens(body)
	aug["validJson"] = json.Valid(body)
	aug["text"] = clip(string(body), 300)
	b, _ := json.Marshal(aug)
	var in2 M
	_ = json.Unmarshal(b, &in2)
	c.Emit("c15.stream", json.RawMessage(b), runC15Stream(c, in2))
}

func clip(s string, n int) string {
	if len(s) > n {
		return s[:n] + "…"
	}
	return s
}

// ---- generator of source trees ------------------------------------------------------------------------

type c15Gen struct {
	r  *rand.Rand
	ns [][]string
}

var c15Prefixes = [][]string{{"a", "http://a.example/x/"}, {"b", "http://b.example/ns#"}, {"_", "http://default.example/"}, {"long", "https://very.long.example/with/path/"}}

func (g *c15Gen) id() string {
	r := g.r
	local := []string{"1", "homer", "x-y_z", "Ünï", "a b", "42", "e" + strconv.Itoa(r.Intn(6))}[r.Intn(7)]
	switch r.Intn(6) {
	case 0:
		return "http://abs.example/things/" + local
	case 1:
		return "https://abs.example/voc#" + local
	case 2:
		if g.has("_") {
			return local
		}
	}
	p := g.ns[r.Intn(len(g.ns))][0]
	if p == "_" {
		return local
	}
	return p + ":" + local
}

func (g *c15Gen) has(p string) bool {
	for _, kv := range g.ns {
		if kv[0] == p {
			return true
		}
	}
	return false
}

func (g *c15Gen) value(depth int) interface{} {
	r := g.r
	k := r.Intn(9)
	if depth > 3 && k >= 6 {
		k = r.Intn(6)
	}
	switch k {
	case 0:
		return []string{"", "text", "with \"quotes\" and \\ and \n", "<html>&amp;</html>", "æøå 日本語 😀", "a:b", "http://looks.like/a#uri"}[r.Intn(7)]
	case 1:
		return M{"n": []string{"0", "1", "-1", "3.5", "1e+21", "1e-07", "123456", "2.5e-09", "-0"}[r.Intn(9)]}
	case 2:
		return r.Intn(2) == 0
	case 3:
		return M{"n": strconv.Itoa(r.Intn(1000))}
	case 4, 5:
		return []string{"s1", "s2", "s3"}[r.Intn(3)]
	case 6:
		n := r.Intn(4)
		l := []interface{}{}
		for i := 0; i < n; i++ {
			l = append(l, g.value(depth+1))
		}
		return l
	case 7:
		return g.entity(depth + 1)
	default:
		n := 1 + r.Intn(3)
		l := []interface{}{}
		for i := 0; i < n; i++ {
			l = append(l, g.entity(depth+2))
		}
		return l
	}
}

func (g *c15Gen) entity(depth int) M {
	r := g.r
	props := []interface{}{}
	for i := 0; i < r.Intn(4); i++ {
		var v interface{} = g.value(depth)
		if r.Intn(12) == 0 {
			v = nil // a null-valued property denotes "absent"
		}
		props = append(props, []interface{}{g.id(), v})
	}
	if len(props) > 0 && r.Intn(10) == 0 { // a repeated property name: the later value wins
		props = append(props, []interface{}{props[0].([]interface{})[0], g.value(depth)})
	}
	refs := []interface{}{}
	for i := 0; i < r.Intn(3); i++ {
		if r.Intn(3) == 0 {
			l := []interface{}{}
			for k := 0; k < r.Intn(4); k++ {
				l = append(l, g.id())
			}
			refs = append(refs, []interface{}{g.id(), l})
		} else {
			refs = append(refs, []interface{}{g.id(), g.id()})
		}
	}
	return M{"id": g.id(), "deleted": r.Intn(6) == 0, "props": props, "refs": refs}
}

// ---- serialisation of a source tree (member order, unknown members and white space vary) ---------------

func jstr(s string) string { b, _ := json.Marshal(s); return string(b) }

func (g *c15Gen) writeValue(sb *strings.Builder, v interface{}) {
	switch x := v.(type) {
	case nil:
		sb.WriteString("null")
	case string:
		sb.WriteString(jstr(x))
	case bool:
		sb.WriteString(strconv.FormatBool(x))
	case []interface{}:
		sb.WriteString("[")
		for i, y := range x {
			if i > 0 {
				sb.WriteString(",")
			}
			g.writeValue(sb, y)
		}
		sb.WriteString("]")
	case M:
		if n, ok := x["n"]; ok {
			sb.WriteString(n.(string))
			return
		}
		g.writeEntity(sb, x)
	}
}

func (g *c15Gen) writeEntity(sb *strings.Builder, e M) {
	r := g.r
	members := []string{"id", "deleted", "props", "refs", "recorded"}
	if r.Intn(2) == 0 {
		r.Shuffle(len(members), func(i, j int) { members[i], members[j] = members[j], members[i] })
	}
	if r.Intn(4) == 0 {
		members = append(members[:1], append([]string{"unknown"}, members[1:]...)...)
	}
	sp := []string{"", "", " ", "\n  "}[r.Intn(4)]
	sb.WriteString("{")
	first := true
	for _, m := range members {
		if m == "deleted" && !e["deleted"].(bool) && r.Intn(2) == 0 {
			continue // false is the default
		}
		if m == "recorded" && r.Intn(2) == 0 {
			continue
		}
		if (m == "props" && len(e["props"].([]interface{})) == 0 || m == "refs" && len(e["refs"].([]interface{})) == 0) && r.Intn(2) == 0 {
			continue
		}
		if !first {
			sb.WriteString(",")
		}
		first = false
		sb.WriteString(sp + jstr(m) + ":" + sp)
		switch m {
		case "id":
			sb.WriteString(jstr(e["id"].(string)))
		case "deleted":
			sb.WriteString(strconv.FormatBool(e["deleted"].(bool)))
		case "recorded":
			sb.WriteString([]string{"0", "1700000000000000000", "12.5"}[r.Intn(3)])
		case "unknown":
			sb.WriteString([]string{"1", "\"x\"", "null", "[1,[2,{\"a\":[]}]]", "{\"id\":5,\"deleted\":\"yes\",\"n\":{\"m\":[{}]}}", "[]", "{}"}[r.Intn(7)])
		case "props", "refs":
			sb.WriteString("{")
			for i, kv := range e[m].([]interface{}) {
				if i > 0 {
					sb.WriteString(",")
				}
				p := kv.([]interface{})
				sb.WriteString(jstr(p[0].(string)) + ":")
				g.writeValue(sb, p[1])
			}
			sb.WriteString("}")
		}
	}
	sb.WriteString(sp + "}")
}

func (g *c15Gen) context() string {
	nsm := M{}
	for _, kv := range g.ns {
		nsm[kv[0]] = kv[1]
	}
	b, _ := json.Marshal(nsm)
	switch g.r.Intn(4) {
	case 0:
		return `{"namespaces":` + string(b) + `,"id":"@context"}`
	case 1:
		return `{"id":"@context","extra":[1,{"namespaces":3}],"namespaces":` + string(b) + `}`
	}
	return `{"id":"@context","namespaces":` + string(b) + `}`
}

func (g *c15Gen) document(es []interface{}) string {
	var sb strings.Builder
	sb.WriteString("[" + g.context())
	for _, e := range es {
		sb.WriteString(",")
		g.writeEntity(&sb, e.(M))
	}
	sb.WriteString("]")
	return sb.String()
}

func newC15Gen(r *rand.Rand) *c15Gen {
	g := &c15Gen{r: r}
	for _, p := range c15Prefixes {
		if r.Intn(4) != 0 {
			g.ns = append(g.ns, p)
		}
	}
	if len(g.ns) == 0 {
		g.ns = append(g.ns, c15Prefixes[0])
	}
	return g
}

// ---- mutations ---------------------------------------------------------------------------------------------

var c15WrongTypes = []string{
	`{"id":5}`, `{"id":null}`, `{"id":["a:1"]}`, `{"id":{"x":1}}`, `{"id":true}`, `{"id":""}`, `{"id":"nope:1"}`, `{"id":"a:1","deleted":"false"}`,
	`{"id":"a:1","deleted":0}`, `{"id":"a:1","deleted":null}`, `{"id":"a:1","recorded":"123"}`, `{"id":"a:1","recorded":true}`, `{"id":"a:1","recorded":null}`,
	`{"id":"a:1","props":[]}`, `{"id":"a:1","props":3}`, `{"id":"a:1","props":"x"}`, `{"id":"a:1","props":null}`, `{"id":"a:1","refs":[]}`, `{"id":"a:1","refs":"a:2"}`,
	`{"id":"a:1","refs":null}`, `{"id":"a:1","refs":{"a:r":{"id":"a:2"}}}`, `{"id":"a:1","refs":{"a:r":5}}`, `{"id":"a:1","refs":{"a:r":null}}`, `{"id":"a:1","refs":{"a:r":true}}`,
	`{"id":"a:1","refs":{"a:r":["a:2",5]}}`, `{"id":"a:1","refs":{"a:r":["a:2",null]}}`, `{"id":"a:1","refs":{"a:r":[["a:2"]]}}`, `{"id":"a:1","refs":{"a:r":[{"x":1}]}}`,
	`{"id":"a:1","refs":{"a:r":""}}`, `{"id":"a:1","refs":{"nope:r":"a:2"}}`, `{"id":"a:1","refs":{"a:r":"nope:2"}}`, `{"id":"a:1","props":{"a:p":[1,null]}}`,
	`{"id":"a:1","props":{"nope:p":1}}`, `{"id":"a:1","props":{"a:p":{"id":7}}}`, `{"id":"a:1","props":{"a:p":[{"id":"a:2","deleted":"x"}]}}`, `{"id":"a:1","token":"abc"}`,
	`{"token":"abc","id":"@continuation"}`, `{"id":"@continuation","token":{"a":1}}`, `{"id":"@continuation","token":[1,2]}`, `{"id":"@continuation","token":null}`,
	`{"id":"@continuation","token":"dG9rZW4="}`, `5`, `"str"`, `null`, `true`, `[]`, `[{"id":"a:9"}]`, `{}`, `{"props":{"a:p":1}}`, `{"id":"a:1","id":"a:2"}`,
	`{"id":"a:1","props":{"a:p":1},"props":{"a:q":2}}`, `{"id":"a:1","props":{"":1}}`, `{"id":"a:1","refs":{"":"a:2"}}`, `{"id":":1"}`, `{"id":"a:"}`, `{"id":"http://"}`, `{"id":"https://x"}`,
}

var c15Contexts = []string{
	`{"id":"@context","namespaces":[]}`, `{"id":"@context","namespaces":"x"}`, `{"id":"@context","namespaces":5}`, `{"id":"@context","namespaces":null}`, `{"id":"@context"}`,
	`{"id":"@context","namespaces":{"a":5}}`, `{"id":"@context","namespaces":{"a":null}}`, `{"id":"@context","namespaces":{"a":{"x":"y"}}}`, `{"id":"@context","namespaces":{"a":["http://a/"]}}`,
	`{"id":"context","namespaces":{}}`, `{"id":5}`, `{}`, `null`, `[]`, `5`, `"@context"`, `{"namespaces":{"a":"http://a.example/x/"}}`, `{"id":"@context","namespaces":{"a":"http://a.example/x/"},"id":"other"}`,
	`{"id":"other","id":"@context","namespaces":{"a":"http://a.example/x/"}}`, `{"id":"@context","namespaces":{"a":"http://zzz/"},"namespaces":{"a":"http://a.example/x/"}}`,
	`{"id":"@context","namespaces":{"a":"http://zzz/","a":"http://a.example/x/"}}`, `{"id":"@context","namespaces":{"a":""}}`, `{"id":"@context","namespaces":{"":"http://empty/"}}`,
}

func genC15(c *Ctx) {
	r := c.Rng
	n := 150
	if c.Thorough {
		n = 3000
	}
	b64 := func(s string) string { return base64.StdEncoding.EncodeToString([]byte(s)) }
	// 1. well-formed collections with their source trees (the specification is the tree's denotation)
	for i := 0; i < n; i++ {
		g := newC15Gen(r)
		es := []interface{}{}
		for k := 0; k < r.Intn(5); k++ {
			es = append(es, g.entity(0))
		}
		doc := g.document(es)
		ns := []interface{}{}
		for _, kv := range g.ns {
			ns = append(ns, []interface{}{kv[0], kv[1]})
		}
		doC15(c, M{"b64": b64(doc), "src": es, "ns": ns})
	}
	// 2. every wrongly typed member / malformed element after 0..2 good ones, and every malformed context
	good := `{"id":"a:g1","props":{"a:p":1}},{"id":"a:g2"}`
	ctx := `{"id":"@context","namespaces":{"a":"http://a.example/x/","_":"http://default.example/"}}`
	for _, w := range c15WrongTypes {
		doC15(c, M{"b64": b64("[" + ctx + "," + w + "]")})
		doC15(c, M{"b64": b64("[" + ctx + "," + good + "," + w + "," + good + "]")})
	}
	for _, x := range c15Contexts {
		doC15(c, M{"b64": b64("[" + x + "," + good + "]")})
	}
	for _, tail := range []string{"", "]", "[", "{", "}", " 1", ` {"id":"a:t"}`, ` [{"id":"a:t"}]`, ` [` + ctx + `,{"id":"a:t"}]`, "null", ",", "]]", "x"} {
		doC15(c, M{"b64": b64("[" + ctx + "," + good + "]" + tail)})
		doC15(c, M{"b64": b64("[" + ctx + "," + good + tail)})
	}
	for _, doc := range []string{"", " ", "[", "[]", "{}", "[[", "[" + ctx, "[" + ctx + ",", "[" + ctx + "]", "[" + ctx + ",[" + good + "]]", "[" + ctx + ",[[" + good + "]]]", "null", "\"[\"", "[" + ctx + " " + good + "]"} {
		doC15(c, M{"b64": b64(doc)})
	}
	// deep nesting
	for _, d := range []int{50, 300} {
		doC15(c, M{"b64": b64("[" + ctx + `,{"id":"a:deep","props":{"a:p":` + strings.Repeat("[", d) + strings.Repeat("]", d) + "}}]")})
		doC15(c, M{"b64": b64("[" + ctx + `,{"id":"a:deep","props":{"a:p":` + strings.Repeat(`{"id":"a:n","props":{"a:p":`, d) + "1" + strings.Repeat("}}", d) + "}}]")})
		doC15(c, M{"b64": b64("[" + ctx + `,{"id":"a:deep","zzz":` + strings.Repeat(`[{"k":`, d) + "1" + strings.Repeat("}]", d) + "}]")})
	}
	// 3. byte-level mutations of well-formed documents, and random bytes over the json alphabet
	alphabet := []byte(`{}[]",:0123456789.eE+-tfn aulrs\`)
	for i := 0; i < n*2; i++ {
		g := newC15Gen(r)
		es := []interface{}{}
		for k := 0; k < 1+r.Intn(3); k++ {
			es = append(es, g.entity(1))
		}
		doc := []byte(g.document(es))
		for m := 0; m < 1+r.Intn(2); m++ {
			if len(doc) == 0 {
				break
			}
			p := r.Intn(len(doc))
			switch r.Intn(6) {
			case 0:
				doc = doc[:p] // truncate
			case 1:
				doc = append(doc[:p:p], doc[p+1:]...) // drop a byte
			case 2:
				doc = append(doc[:p:p], append([]byte{alphabet[r.Intn(len(alphabet))]}, doc[p:]...)...) // insert
			case 3:
				doc[p] = alphabet[r.Intn(len(alphabet))] // replace
			case 4:
				q := p + r.Intn(len(doc)-p)
				doc = append(doc[:q:q], append(append([]byte{}, doc[p:q]...), doc[q:]...)...) // duplicate a chunk
			default:
				// retype a value: replace the token at p up to the next , } ] by another literal
				q := p
				for q < len(doc) && !strings.ContainsRune(",}]", rune(doc[q])) {
					q++
				}
				lit := []string{"null", "5", "\"s\"", "true", "[]", "{}", "[null]", "{\"id\":1}"}[r.Intn(8)]
				doc = append(doc[:p:p], append([]byte(lit), doc[q:]...)...)
			}
		}
		doC15(c, M{"b64": b64(string(doc))})
	}
	for i := 0; i < n; i++ {
		l := r.Intn(40)
		bs := make([]byte, l)
		for k := range bs {
			bs[k] = alphabet[r.Intn(len(alphabet))]
		}
		doC15(c, M{"b64": b64("[" + ctx + "," + string(bs))})
	}
}

// ---- c15.http: POST through the real handler, then GET and parse what the hub serialises ----------

var c15HTTPHub *FullHub
var c15DsN int

func runC15HTTP(c *Ctx, in M) (out interface{}) {
	if c15HTTPHub == nil {
		c15HTTPHub = OpenFullHub(filepath.Join(c.Dir, "c15http"), false)
	}
	fh := c15HTTPHub
	c15DsN++
	ds := fmt.Sprintf("c15ds%d", c15DsN)
	if _, err := fh.Dsm.CreateDataset(ds, nil); err != nil {
		return M{"err": err.Error()}
	}
	body, _ := base64.StdEncoding.DecodeString(gets(in, "b64"))
	rec := httptest.NewRecorder()
	fh.Echo.ServeHTTP(rec, httptest.NewRequest(http.MethodPost, "/datasets/"+ds+"/entities", bytes.NewReader(body)))
	status := "rejected"
	if rec.Code == 200 {
		status = "ok"
	} else if rec.Code >= 500 {
		status = fmt.Sprintf("server-error:%d:%s", rec.Code, clip(rec.Body.String(), 120))
	}
	// read back through both serialisers (entities and changes) and parse them with the hub's own parser
	res := M{"status": status}
	for _, what := range []string{"entities", "changes"} {
		rec = httptest.NewRecorder()
		fh.Echo.ServeHTTP(rec, httptest.NewRequest(http.MethodGet, "/datasets/"+ds+"/"+what, nil))
		if rec.Code != 200 {
			res[what] = fmt.Sprintf("GET failed: %d", rec.Code)
			continue
		}
		got := []*server.Entity{}
		sawCont := false
		esp := server.NewEntityStreamParser(fh.Store)
		err := esp.ParseStream(bytes.NewReader(rec.Body.Bytes()), func(e *server.Entity) error {
			if e.ID == "@continuation" {
				sawCont = true
				return nil
			}
			got = append(got, e)
			return nil
		})
		if err != nil {
			res[what] = "unparseable: " + err.Error()
			continue
		}
		cc := c15Canon{ns: fh.Store.NamespaceManager.GetPrefixToExpansionMap()}
		byID := map[string]M{}
		for _, e := range got { // the last version of an id (the feed lists every version)
			m := cc.ent(e)
			byID[m["id"].(string)] = m
		}
		ids := []string{}
		for id := range byID {
			ids = append(ids, id)
		}
		sort.Strings(ids)
		l := []interface{}{}
		for _, id := range ids {
			l = append(l, byID[id])
		}
		res[what] = l
		_ = sawCont
	}
	_ = fh.Dsm.DeleteDataset(ds)
	return res
}

func doC15HTTP(c *Ctx, in M) {
	body, _ := base64.StdEncoding.DecodeString(gets(in, "b64"))
	aug := M{}
	for k, v := range in {
		aug[k] = v
	}
	aug["toks"] = c15Tokens(body)
	aug["text"] = clip(string(body), 300)
	b, _ := json.Marshal(aug)
	var in2 M
	_ = json.Unmarshal(b, &in2)
	c.Emit("c15.http", json.RawMessage(b), runC15HTTP(c, in2))
}

func genC15HTTP(c *Ctx) {
	r := c.Rng
	n := 40
	if c.Thorough {
		n = 600
	}
	b64 := func(s string) string { return base64.StdEncoding.EncodeToString([]byte(s)) }
	for i := 0; i < n; i++ {
		g := newC15Gen(r)
		es := []interface{}{}
		cnt := r.Intn(6)
		if r.Intn(3) == 0 {
			cnt = 8 + r.Intn(30) // more than the handler's batch size
		}
		for k := 0; k < cnt; k++ {
			e := g.entity(1)
			if r.Intn(3) > 0 {
				e["id"] = fmt.Sprintf("%s:e%d", g.ns[0][0], k) // mostly distinct ids
				if g.ns[0][0] == "_" {
					e["id"] = fmt.Sprintf("e%d", k)
				}
			}
			es = append(es, e)
		}
		doc := g.document(es)
		if r.Intn(3) == 0 && cnt > 0 { // a malformed element somewhere: what was stored before it?
			var sb strings.Builder
			sb.WriteString("[" + g.context())
			at := r.Intn(cnt)
			for k, e := range es {
				sb.WriteString(",")
				if k == at {
					sb.WriteString(c15WrongTypes[r.Intn(36)])
					continue
				}
				g.writeEntity(&sb, e.(M))
			}
			sb.WriteString("]")
			doc = sb.String()
		}
		doC15HTTP(c, M{"b64": b64(doc)})
	}
}

func init() {
	register("c15", genC15)
	registerKind("c15.stream", runC15Stream)
	replayers["c15.stream"] = doC15
	register("c15http", genC15HTTP)
	registerKind("c15.http", runC15HTTP)
	replayers["c15.http"] = doC15HTTP
}
