package main

import (
	"context"
	"sync"
	jobSource "github.com/mimiro-io/datahub/internal/jobs/source"
	"encoding/base64"
	"time"
	"fmt"
	"sort"

	"github.com/mimiro-io/datahub/internal/jobs"
	"github.com/mimiro-io/datahub/internal/server"
)

var c11Hub *Hub

func raffleObs(v *jobs.VerifRaffle) M {
	tf, ti, run := v.State()
	ids := []string{}
	for k := range run {
		ids = append(ids, k)
	}
	sort.Strings(ids)
	r := [][]interface{}{}
	for _, k := range ids {
		r = append(r, []interface{}{k, run[k]})
	}
	return M{"tf": tf, "ti": ti, "running": r}
}

// c11.raffle: a sequence of borrow/return requests against the real raffle.
func runC11Raffle(c *Ctx, in M) (out interface{}) {
	defer func() {
		if r := recover(); r != nil {
			out = M{"panic": fmt.Sprint(r)}
		}
	}()
	if c11Hub == nil {
		c11Hub = NewHub(c, true)
	}
	v := jobs.NewVerifRaffle(c11Hub.Runner, geti(in, "pf"), geti(in, "pi"))
	states := []M{}
	for _, o := range getl(in, "ops") {
		op := o.([]interface{})
		kind, id, full := op[0].(string), op[1].(string), op[2].(bool)
		st := M{}
		if kind == "b" {
			granted := v.Borrow(id, full)
			st = raffleObs(v)
			st["granted"] = granted
		} else {
			v.Return(id)
			st = raffleObs(v)
		}
		states = append(states, st)
	}
	return states
}

func genC11(c *Ctx) {
	ids := []string{"a", "b", "c", "d", "e"}
	n := 400
	if c.Thorough {
		n = 6000
	}
	for i := 0; i < n; i++ {
		pf, pi := c.Rng.Intn(3), c.Rng.Intn(4)
		ops := [][]interface{}{}
		held := map[string]bool{} // id -> full (what the harness believes; the model does not use it)
		for k := 0; k < 3+c.Rng.Intn(14); k++ {
			id := ids[c.Rng.Intn(len(ids))]
			if c.Rng.Intn(5) < 3 {
				ops = append(ops, []interface{}{"b", id, c.Rng.Intn(2) == 0})
			} else {
				f, ok := held[id]
				if !ok {
					f = c.Rng.Intn(2) == 0
				}
				ops = append(ops, []interface{}{"r", id, f})
			}
			_ = held
		}
		c.Do("c11.raffle", M{"pf": pf, "pi": pi, "ops": ops})
	}
}

func init() {
	register("c11", genC11)
	registerKind("c11.raffle", runC11Raffle)
}

// ---------------------------------------------------------------------------------------------
// c11.verify: the scheduler's validation of generated job definitions (1-3 triggers; cron / onchange / unknown type,
// valid or invalid job type, schedule, monitored dataset; error handler lists with known, unknown and duplicate
// types). An accepted definition must have every per-entity handler initialised on EVERY trigger (a nil handler
// crashes the first run that meets a rejected entity — for an on-change trigger that is the hub process).
// in {"triggers":[{"type","jobType","monitored":bool,"schedule":bool,"handlers":[types]}]}  out {"accepted","ready"}

var c11VerifyN int

func runC11Verify(c *Ctx, in M) (out interface{}) {
	defer func() {
		if r := recover(); r != nil {
			out = M{"panic": fmt.Sprint(r)}
		}
	}()
	if c17Hub == nil {
		c17Hub = NewHub(c, true)
	}
	c11VerifyN++
	cfg := &jobs.JobConfiguration{ID: fmt.Sprintf("c11v-%d-%d", c.Seed, c11VerifyN), Title: fmt.Sprintf("c11v-%d-%d", c.Seed, c11VerifyN),
		Source: map[string]interface{}{"Type": "SampleSource"}, Sink: map[string]interface{}{"Type": "DevNullSink"}}
	for _, t := range getl(in, "triggers") {
		tm := t.(map[string]interface{})
		tr := jobs.JobTrigger{TriggerType: gets(tm, "type"), JobType: gets(tm, "jobType")}
		if getb(tm, "monitored") {
			tr.MonitoredDataset = "some.dataset"
		}
		if getb(tm, "schedule") {
			tr.Schedule = "@every 1h"
		} else {
			tr.Schedule = "not a schedule"
		}
		for _, h := range getl(tm, "handlers") {
			tr.ErrorHandlers = append(tr.ErrorHandlers, &jobs.ErrorHandler{Type: h.(string)})
		}
		cfg.Triggers = append(cfg.Triggers, tr)
	}
	acc, ready := jobs.VerifVerify(c17Hub.Sched, cfg)
	return M{"accepted": acc, "ready": ready}
}

func genC11Verify(c *Ctx) {
	n := 300
	if c.Thorough {
		n = 4000
	}
	types := []string{"cron", "onchange", "onchange", "cron", "weekly"}
	jts := []string{"incremental", "fullsync", "incremental", "sometimes"}
	hs := []string{"log", "reRun", "reQueue", "LOG", "bogus"}
	for i := 0; i < n; i++ {
		trs := []M{}
		for k := 0; k < 1+c.Rng.Intn(3); k++ {
			handlers := []string{}
			for j := 0; j < c.Rng.Intn(3); j++ {
				handlers = append(handlers, hs[c.Rng.Intn(len(hs))])
			}
			trs = append(trs, M{"type": types[c.Rng.Intn(len(types))], "jobType": jts[c.Rng.Intn(len(jts))],
				"monitored": c.Rng.Intn(4) != 0, "schedule": c.Rng.Intn(4) != 0, "handlers": handlers})
		}
		c.Do("c11.verify", M{"triggers": trs})
	}
}

func init() {
	register("c11verify", genC11Verify)
	registerKind("c11.verify", runC11Verify)
}

// c11.race (child process): many goroutines ask the real raffle for a ticket for the same job id at the same moment,
// round after round: never more than one ticket per round, and the pools are intact afterwards.
func runC11Race(c *Ctx, in M) (out interface{}) {
	h := NewHub(c, true)
	defer h.Destroy()
	mg, ok := jobs.VerifRaffleRace(h.Runner, geti(in, "rounds"), geti(in, "n"))
	return M{"maxGranted": mg, "poolOk": ok}
}

func genC11Race(c *Ctx) {
	rounds := 1500
	if c.Thorough {
		rounds = 20000
	}
	c.DoChild("c11.race", M{"rounds": rounds, "n": 8}, 120*time.Second)
}

func init() {
	register("c11race", genC11Race)
	registerKind("c11.race", runC11Race)
	childKinds["c11.race"] = true
}

// c11.end (child process): a job with a JavaScript transform (identity) and a log handler for failing entities is
// run through the real job.Run, incremental or full sync; afterwards its stored result is read: every accepted
// job ends with a recorded outcome, also when transform and sink are wrapped by the error handling.
// in {"full":bool,"log":bool,"transform":bool,"sinkFails":bool}  out {"found":bool,"failed":bool,"processed":n}
func runC11End(c *Ctx, in M) (out interface{}) {
	h := NewHub(c, true)
	defer h.Destroy()
	var tr jobs.Transform
	if getb(in, "transform") {
		code := base64.StdEncoding.EncodeToString([]byte("function transform_entities(entities) { return entities; }"))
		t, err := jobs.NewJavascriptTransform(quietLogger(), code, server.NewContextualStore(h.Store), h.Dsm) // as the scheduler builds it
		if err != nil {
			return M{"err": "transform: " + err.Error()}
		}
		tr = t
	}
	sink := &jobs.VerifSink{}
	if getb(in, "sinkFails") {
		sink.Fail = func(int, []*server.Entity) error { return fmt.Errorf("sink rejects everything") }
	}
	jobID := "c11end"
	vj, err := jobs.NewVerifJob(h.Runner, jobID, &restartingSource{}, tr, sink, 10, getb(in, "full"), getb(in, "log"), 0, false, 0, 0, false)
	if err != nil {
		return M{"err": err.Error()}
	}
	vj.Run()
	lastErr, processed, found := jobs.VerifLastResult(h.Runner, jobID)
	return M{"found": found, "failed": lastErr != "", "processed": processed}
}

func genC11End(c *Ctx) {
	for _, full := range []bool{false, true} {
		for _, lg := range []bool{false, true} {
			for _, tr := range []bool{false, true} {
				for _, sf := range []bool{false, true} {
					c.DoChild("c11.end", M{"full": full, "log": lg, "transform": tr, "sinkFails": sf}, 60*time.Second)
				}
			}
		}
	}
}

func init() {
	register("c11end", genC11End)
	registerKind("c11.end", runC11End)
	childKinds["c11.end"] = true
}

// c11.kill (child process): a run that is killed while it is inside a source call that ignores the cancellation and comes back
// only `holdMs` later. Until it is back the job id stays taken (a new request for the same id is skipped: never two runs of one
// id inside the pipeline at once), and when it is back the pools hold exactly what they held before — no ticket twice.
// in {"holdMs","killAtMs","againAtMs":[…]}  out {"maxInside","ticketsBack","runningAfter"}
type stubbornSource struct {
	hold   time.Duration
	mu     sync.Mutex
	inside int
	max    int
}

func (s *stubbornSource) GetConfig() map[string]interface{} {
	return map[string]interface{}{"Type": "VerifStubbornSource"}
}
func (s *stubbornSource) StartFullSync() {}
func (s *stubbornSource) EndFullSync()   {}
func (s *stubbornSource) ReadEntities(ctx context.Context, since jobSource.DatasetContinuation, batchSize int,
	processEntities func([]*server.Entity, jobSource.DatasetContinuation) error) error {
	s.mu.Lock()
	s.inside++
	if s.inside > s.max {
		s.max = s.inside
	}
	s.mu.Unlock()
	time.Sleep(s.hold) // a source call that does not look at ctx (an HTTP source waiting for a slow server)
	s.mu.Lock()
	s.inside--
	s.mu.Unlock()
	return processEntities([]*server.Entity{}, &jobSource.StringDatasetContinuation{Token: ""})
}

func runC11Kill(c *Ctx, in M) (out interface{}) {
	h := NewHub(c, true)
	defer h.Destroy()
	f0, i0, _ := jobs.VerifRaffleState(h.Runner)
	src := &stubbornSource{hold: time.Duration(geti(in, "holdMs")) * time.Millisecond}
	jobID := "c11kill"
	vj, err := jobs.NewVerifJob(h.Runner, jobID, src, nil, &jobs.VerifSink{}, 10, false, false, 0, false, 0, 0, false)
	if err != nil {
		return M{"err": err.Error()}
	}
	start := time.Now()
	at := func(ms int) {
		if d := time.Duration(ms)*time.Millisecond - time.Since(start); d > 0 {
			time.Sleep(d)
		}
	}
	var wg sync.WaitGroup
	wg.Add(1)
	go func() { defer wg.Done(); vj.Run() }()
	at(geti(in, "killAtMs"))
	jobs.VerifKillJob(h.Runner, jobID)
	for _, t := range getl(in, "againAtMs") {
		at(int(t.(float64)))
		wg.Add(1)
		go func() { defer wg.Done(); vj.Run() }()
	}
	wg.Wait()
	time.Sleep(200 * time.Millisecond)
	f1, i1, running := jobs.VerifRaffleState(h.Runner)
	src.mu.Lock()
	defer src.mu.Unlock()
	return M{"maxInside": src.max, "ticketsBack": f1 == f0 && i1 == i0, "runningAfter": len(running)}
}

func init() {
	register("c11kill", func(c *Ctx) {
		c.DoChild("c11.kill", M{"holdMs": 6500, "killAtMs": 300, "againAtMs": []int{1000, 5600, 6100}}, 60*time.Second)
		if c.Thorough {
			c.DoChild("c11.kill", M{"holdMs": 11500, "killAtMs": 100, "againAtMs": []int{5300, 10700}}, 60*time.Second)
			c.DoChild("c11.kill", M{"holdMs": 2000, "killAtMs": 1000, "againAtMs": []int{1500}}, 60*time.Second)
		}
	})
	registerKind("c11.kill", runC11Kill)
	childKinds["c11.kill"] = true
}
