package main

import (
	"fmt"
	"sort"

	"github.com/mimiro-io/datahub/internal/jobs"
)

var c11Hub *Hub

func raffleObs(v *jobs.VerifRaffle) M {
	tf, ti, run := v.State()
	ids := []string{}
	for k := range run {
		ids = append(ids, k)
	}
	sort.Strings(ids)
	r := [][]interface{}{}
	for _, k := range ids {
		r = append(r, []interface{}{k, run[k]})
	}
	return M{"tf": tf, "ti": ti, "running": r}
}

// c11.raffle: a sequence of borrow/return requests against the real raffle.
func runC11Raffle(c *Ctx, in M) (out interface{}) {
	defer func() {
		if r := recover(); r != nil {
			out = M{"panic": fmt.Sprint(r)}
		}
	}()
	if c11Hub == nil {
		c11Hub = NewHub(c, true)
	}
	v := jobs.NewVerifRaffle(c11Hub.Runner, geti(in, "pf"), geti(in, "pi"))
	states := []M{}
	for _, o := range getl(in, "ops") {
		op := o.([]interface{})
		kind, id, full := op[0].(string), op[1].(string), op[2].(bool)
		st := M{}
		if kind == "b" {
			granted := v.Borrow(id, full)
			st = raffleObs(v)
			st["granted"] = granted
		} else {
			v.Return(id)
			st = raffleObs(v)
		}
		states = append(states, st)
	}
	return states
}

func genC11(c *Ctx) {
	ids := []string{"a", "b", "c", "d", "e"}
	n := 400
	if c.Thorough {
		n = 6000
	}
	for i := 0; i < n; i++ {
		pf, pi := c.Rng.Intn(3), c.Rng.Intn(4)
		ops := [][]interface{}{}
		held := map[string]bool{} // id -> full (what the harness believes; the model does not use it)
		for k := 0; k < 3+c.Rng.Intn(14); k++ {
			id := ids[c.Rng.Intn(len(ids))]
			if c.Rng.Intn(5) < 3 {
				ops = append(ops, []interface{}{"b", id, c.Rng.Intn(2) == 0})
			} else {
				f, ok := held[id]
				if !ok {
					f = c.Rng.Intn(2) == 0
				}
				ops = append(ops, []interface{}{"r", id, f})
			}
			_ = held
		}
		c.Do("c11.raffle", M{"pf": pf, "pi": pi, "ops": ops})
	}
}

func init() {
	register("c11", genC11)
	registerKind("c11.raffle", runC11Raffle)
}
