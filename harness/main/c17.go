package main

import (
	jobSource "github.com/mimiro-io/datahub/internal/jobs/source"
	"sync"
	"context"
	"fmt"
	"strconv"
	"time"

	"github.com/mimiro-io/datahub/internal/jobs"
	"github.com/mimiro-io/datahub/internal/server"
)

var c17Hub *Hub

func intSet(l []interface{}) map[int]bool {
	m := map[int]bool{}
	for _, v := range l {
		switch x := v.(type) {
		case float64:
			m[int(x)] = true
		case int:
			m[x] = true
		}
	}
	return m
}

// c17.bisect: the real wrappedSink.processEntities against a scripted sink.
func runC17Bisect(c *Ctx, in M) (out interface{}) {
	defer func() {
		if r := recover(); r != nil {
			out = M{"panic": fmt.Sprint(r)}
		}
	}()
	if c17Hub == nil {
		c17Hub = NewHub(c, true)
	}
	bad := intSet(getl(in, "bad"))
	failCalls := intSet(getl(in, "failCalls"))
	inner := &jobs.VerifSink{}
	inner.Fail = func(call int, es []*server.Entity) error {
		if failCalls[call] {
			return fmt.Errorf("transient failure of call %d", call)
		}
		for _, e := range es {
			i, _ := strconv.Atoi(e.ID)
			if bad[i] {
				return fmt.Errorf("sink rejects %s", e.ID)
			}
		}
		return nil
	}
	w := jobs.NewVerifWrappedSink(inner, geti(in, "m"), "c17")
	if getb(in, "stale") {
		w.SetStaleError()
	}
	w.Reset()
	res := "ok"
	for _, b := range getl(in, "batches") {
		ids := b.([]interface{})
		es := make([]*server.Entity, len(ids))
		for i, v := range ids {
			es[i] = server.NewEntity(strconv.Itoa(int(v.(float64))), 0)
		}
		err := w.Process(c17Hub.Runner, es)
		if err != nil {
			if jobs.VerifIsMaxItems(err) {
				res = "max"
			} else {
				res = "err:" + err.Error()
			}
			break
		}
	}
	delivered := []int{}
	for _, b := range inner.Batches {
		delivered = append(delivered, idsOf(b)...)
	}
	reported := []int{}
	for _, s := range w.Rec.Reported {
		i, _ := strconv.Atoi(s)
		reported = append(reported, i)
	}
	return M{"delivered": delivered, "reported": reported, "res": res, "lastErr": w.LastError(), "calls": inner.CallCount}
}

func genC17(c *Ctx) {
	// exhaustive: all subsets of failing positions for one batch of size n, all maxItems in [0,n+1]
	maxN := 7
	if c.Thorough {
		maxN = 10
	}
	for n := 0; n <= maxN; n++ {
		ids := make([]int, n)
		for i := range ids {
			ids[i] = i
		}
		for mask := 0; mask < 1<<n; mask++ {
			bad := []int{}
			for i := 0; i < n; i++ {
				if mask&(1<<i) != 0 {
					bad = append(bad, i)
				}
			}
			ms := []int{0}
			if n <= 6 || c.Thorough {
				for m := 1; m <= n+1; m++ {
					ms = append(ms, m)
				}
			} else {
				ms = append(ms, 1+mask%(n+1))
			}
			for _, m := range ms {
				if n > 8 && m > 0 && (mask+m)%5 != 0 {
					continue
				}
				c.Do("c17.bisect", M{"batches": [][]int{ids}, "bad": bad, "failCalls": []int{}, "m": m, "stale": mask%3 == 0})
			}
		}
	}
	// several batches per run, transient failures, larger sizes
	samples := 600
	if c.Thorough {
		samples = 8000
	}
	for i := 0; i < samples; i++ {
		nb := 1 + c.Rng.Intn(4)
		next := 0
		batches := [][]int{}
		for b := 0; b < nb; b++ {
			sz := 1 + c.Rng.Intn(9)
			if c.Rng.Intn(10) == 0 {
				sz = 20 + c.Rng.Intn(180)
			}
			ids := make([]int, sz)
			for k := range ids {
				ids[k] = next
				next++
			}
			batches = append(batches, ids)
		}
		bad := []int{}
		pb := c.Rng.Intn(4)
		for k := 0; k < next; k++ {
			if pb > 0 && c.Rng.Intn(10) < pb {
				bad = append(bad, k)
			}
		}
		fc := []int{}
		if c.Rng.Intn(2) == 0 {
			for k := 0; k < 1+c.Rng.Intn(3); k++ {
				fc = append(fc, c.Rng.Intn(12))
			}
		}
		m := 0
		if c.Rng.Intn(2) == 0 {
			m = 1 + c.Rng.Intn(6)
		}
		c.Do("c17.bisect", M{"batches": batches, "bad": bad, "failCalls": fc, "m": m, "stale": c.Rng.Intn(3) == 0})
	}
}

// a rejected EMPTY batch (a transform that filters a whole batch away, a sink that is down): run in
// a child process, a wrong leaf test recurses forever
func genC17Empty(c *Ctx) {
	for _, m := range []int{0, 2} {
		c.DoChild("c17.bisectchild", M{"batches": [][]int{{}}, "bad": []int{}, "failCalls": []int{0}, "m": m, "stale": false}, 60*time.Second)
		c.DoChild("c17.bisectchild", M{"batches": [][]int{{1, 2}, {}, {3}}, "bad": []int{2}, "failCalls": []int{3}, "m": m, "stale": false}, 60*time.Second)
	}
}

func init() {
	register("c17", genC17)
	register("c17empty", genC17Empty)
	registerKind("c17.bisect", runC17Bisect)
	registerKind("c17.bisectchild", runC17Bisect)
	childKinds["c17.bisectchild"] = true
}

// ---------------------------------------------------------------------------------------------
// c17.overlap: the real job.Run (raffle ticket, instrumentErrorHandling, wrapped sink with the real log
// handler, handleJobError, stored result) over one batch of n entities with a rejecting sink, while ANOTHER
// trigger of the same job fires during the k-th sink call (it is turned away by the raffle). A trigger that
// does not get a ticket must not disturb the run in progress.
// in {"n","bad":[…],"m":maxItems,"triggerAt":k}   out {"delivered":[…],"calls":n,"failed":bool}

var c17JobN int

func runC17Overlap(c *Ctx, in M) (out interface{}) {
	defer func() {
		if r := recover(); r != nil {
			out = M{"panic": fmt.Sprint(r)}
		}
	}()
	if c17Hub == nil {
		c17Hub = NewHub(c, true)
	}
	c17JobN++
	jobID := fmt.Sprintf("c17o-%d-%d", c.Seed, c17JobN)
	n := geti(in, "n")
	bad := intSet(getl(in, "bad"))
	triggerAt := geti(in, "triggerAt")
	sink := &jobs.VerifSink{}
	var vj *jobs.VerifJob
	sink.Fail = func(call int, es []*server.Entity) error {
		if call == triggerAt {
			done := make(chan struct{})
			go func() { defer close(done); vj.Run() }() // a second trigger of the same job: no ticket, returns at once
			select {
			case <-done:
			case <-time.After(5 * time.Second):
			}
		}
		for _, e := range es {
			i, _ := strconv.Atoi(e.ID)
			if bad[i] {
				return fmt.Errorf("sink rejects %s", e.ID)
			}
		}
		return nil
	}
	var err error
	vj, err = jobs.NewVerifJob(c17Hub.Runner, jobID, &listSource{n: n}, nil, sink, n+1, false, true, geti(in, "m"), false, 0, 0, false)
	if err != nil {
		return M{"err": err.Error()}
	}
	vj.Run()
	delivered := []int{}
	for _, b := range sink.Batches {
		delivered = append(delivered, idsOf(b)...)
	}
	lastErr, _, found := jobs.VerifLastResult(c17Hub.Runner, jobID)
	return M{"delivered": delivered, "calls": sink.CallCount, "failed": found && lastErr != ""}
}

func genC17Overlap(c *Ctx) {
	cases := 150
	if c.Thorough {
		cases = 3000
	}
	for i := 0; i < cases; i++ {
		n := 2 + c.Rng.Intn(10)
		bad := []int{}
		for k := 0; k < n; k++ {
			if c.Rng.Intn(3) == 0 {
				bad = append(bad, k)
			}
		}
		c.Do("c17.overlap", M{"n": n, "bad": bad, "m": c.Rng.Intn(4), "triggerAt": c.Rng.Intn(2*n+2) - 1})
	}
}

func init() {
	register("c17overlap", genC17Overlap)
	registerKind("c17.overlap", runC17Overlap)
}

// ---------------------------------------------------------------------------------------------
// c17.rerun: the real job.Run with a reRun handler (maxRetries m, delay d) and real timers. The job is triggered at
// scripted offsets (well apart from each other and from the retry instants); `fail` says whether every run fails
// (sink rejects everything) or every run succeeds. After everything has settled the number of runs is observed:
// a failing job runs once per trigger plus at most m re-runs IN TOTAL; a succeeding job is never re-run.
// in {"m","delayMs","triggers":[ms offsets],"fail":bool}   out {"runs":n}

func runC17Rerun(c *Ctx, in M) (out interface{}) {
	defer func() {
		if r := recover(); r != nil {
			out = M{"panic": fmt.Sprint(r)}
		}
	}()
	if c17Hub == nil {
		c17Hub = NewHub(c, true)
	}
	c17JobN++
	jobID := fmt.Sprintf("c17r-%d-%d", c.Seed, c17JobN)
	fail := getb(in, "fail")
	delay := time.Duration(geti(in, "delayMs")) * time.Millisecond
	var mu sync.Mutex
	runs := 0
	sink := &jobs.VerifSink{}
	sink.Fail = func(call int, es []*server.Entity) error {
		mu.Lock()
		runs++
		mu.Unlock()
		if fail {
			return fmt.Errorf("sink rejects everything")
		}
		return nil
	}
	// every run reads the one entity again (the token is not stored when the sink fails; for succeeding runs a fresh
	// source is used per trigger below so that each run has something to deliver)
	vj, err := jobs.NewVerifJob(c17Hub.Runner, jobID, &restartingSource{}, nil, sink, 10, false, false, 0, true, geti(in, "m"), delay, false)
	if err != nil {
		return M{"err": err.Error()}
	}
	start := time.Now()
	last := 0
	for _, t := range getl(in, "triggers") {
		off := int(t.(float64))
		if off > last {
			last = off
		}
		d := time.Duration(off)*time.Millisecond - time.Since(start)
		if d > 0 {
			time.Sleep(d)
		}
		vj.Run()
	}
	// settle: wait until the number of runs has not changed for two retry delays (a pending re-run fires one delay
	// after the run that scheduled it), at most 20 s — robust against a busy machine
	_ = last
	stableSince := time.Now()
	seen := -1
	deadline := time.Now().Add(20 * time.Second)
	for time.Now().Before(deadline) {
		time.Sleep(50 * time.Millisecond)
		mu.Lock()
		n := runs
		mu.Unlock()
		if n != seen {
			seen = n
			stableSince = time.Now()
		} else if time.Since(stableSince) > 2*delay+500*time.Millisecond {
			break
		}
	}
	mu.Lock()
	defer mu.Unlock()
	return M{"runs": runs}
}

// restartingSource hands out one entity on every run (it ignores the token).
type restartingSource struct{}

func (s *restartingSource) GetConfig() map[string]interface{} {
	return map[string]interface{}{"Type": "VerifRestartingSource"}
}
func (s *restartingSource) StartFullSync() {}
func (s *restartingSource) EndFullSync()   {}
func (s *restartingSource) ReadEntities(ctx context.Context, since jobSource.DatasetContinuation, batchSize int,
	processEntities func([]*server.Entity, jobSource.DatasetContinuation) error) error {
	return processEntities([]*server.Entity{server.NewEntity("1", 1)}, &jobSource.StringDatasetContinuation{Token: ""})
}

func genC17Rerun(c *Ctx) {
	cases := 6
	if c.Thorough {
		cases = 40
	}
	for i := 0; i < cases; i++ {
		m := c.Rng.Intn(4)
		// triggers 150 ms apart, retry delay 400 ms: a second failing run always falls inside the delay of the first
		nt := 1 + c.Rng.Intn(3)
		trig := []int{}
		for k := 0; k < nt; k++ {
			trig = append(trig, k*150)
		}
		c.Do("c17.rerun", M{"m": m, "delayMs": 400, "triggers": trig, "fail": c.Rng.Intn(4) != 0})
	}
}

func init() {
	register("c17rerun", genC17Rerun)
	registerKind("c17.rerun", runC17Rerun)
}
