package main

import (
	"encoding/json"
	"fmt"
	"path/filepath"
	"sort"

	"github.com/mimiro-io/datahub/internal/jobs"
)

var c14N int

func c14JobConfig(id string, paused bool, retryDelay int) string {
	onErr := ""
	if retryDelay > 0 {
		onErr = fmt.Sprintf(`,"onError":[{"errorHandler":"reRun","retryDelay":%d,"maxRetries":2}]`, retryDelay)
	}
	return fmt.Sprintf(`{"id":"%s","title":"title-%s","paused":%v,"batchSize":5,
	 "source":{"Type":"DatasetSource","Name":"src"},"sink":{"Type":"DatasetSink","Name":"dst"},
	 "triggers":[{"triggerType":"cron","jobType":"incremental","schedule":"0 0 1 1 *"%s}]}`, id, id, paused, onErr)
}

// c14.jobs: job definitions, paused flags and continuation tokens across restarts of the hub.
func runC14Jobs(c *Ctx, in M) (out interface{}) {
	c14N++
	dir := filepath.Join(c.Dir, fmt.Sprintf("c14-%d", c14N))
	h := OpenHub(dir, true)
	defer func() {
		if r := recover(); r != nil {
			out = M{"panic": fmt.Sprint(r)}
		}
		h.Destroy()
	}()
	h.Dsm.CreateDataset("src", nil)
	h.Dsm.CreateDataset("dst", nil)
	res := []interface{}{}
	for _, o := range getl(in, "ops") {
		op := o.([]interface{})
		rc := "ok"
		switch op[0].(string) {
		case "add":
			cfg, err := h.Sched.Parse([]byte(c14JobConfig(op[1].(string), op[2].(bool), int(op[3].(float64)))))
			if err == nil {
				err = h.Sched.AddJob(cfg)
			}
			if err != nil {
				rc = "err"
			}
		case "pause":
			if err := h.Sched.PauseJob(op[1].(string)); err != nil {
				rc = "err"
			}
		case "resume":
			if err := h.Sched.UnpauseJob(op[1].(string)); err != nil {
				rc = "err"
			}
		case "delete":
			if err := h.Sched.DeleteJob(op[1].(string)); err != nil {
				rc = "err"
			}
		case "token":
			if err := jobs.VerifSetToken(h.Runner, op[1].(string), op[2].(string)); err != nil {
				rc = "err"
			}
		case "reset":
			if err := h.Sched.ResetJob(op[1].(string), op[2].(string)); err != nil {
				rc = "err"
			}
		case "reopen":
			h.Close()
			h = OpenHub(dir, true)
		}
		views := jobs.VerifListJobs(h.Sched)
		sort.Slice(views, func(i, j int) bool { return views[i].ID < views[j].ID })
		js := []M{}
		for _, v := range views {
			st, _ := h.Sched.GetJobState(v.ID)
			tok := ""
			if st != nil {
				tok = st.ContinuationToken
			}
			js = append(js, M{"id": v.ID, "paused": v.Paused, "retryDelaySeconds": delaysToSeconds(jobs.VerifEffectiveRetryDelays(h.Sched, v.ID)), "token": tok})
		}
		var canon interface{}
		b, _ := json.Marshal(M{"rc": rc, "jobs": js})
		_ = json.Unmarshal(b, &canon)
		res = append(res, canon)
	}
	return res
}

// what a user configured in seconds must stay that many seconds, whatever happened in between
func delaysToSeconds(ns []int64) []float64 {
	r := []float64{}
	for _, d := range ns {
		r = append(r, float64(d)/1e9)
	}
	return r
}

func genC14Jobs(c *Ctx) {
	ids := []string{"j1", "j2", "j3"}
	n := 25
	if c.Thorough {
		n = 300
	}
	for i := 0; i < n; i++ {
		ops := [][]interface{}{}
		for k := 0; k < 3+c.Rng.Intn(8); k++ {
			id := ids[c.Rng.Intn(len(ids))]
			switch r := c.Rng.Intn(10); {
			case r < 3:
				ops = append(ops, []interface{}{"add", id, c.Rng.Intn(3) == 0, []int{0, 2, 30}[c.Rng.Intn(3)]})
			case r < 4:
				ops = append(ops, []interface{}{"pause", id})
			case r < 5:
				ops = append(ops, []interface{}{"resume", id})
			case r < 6:
				ops = append(ops, []interface{}{"delete", id})
			case r < 7:
				ops = append(ops, []interface{}{[]string{"token", "reset"}[c.Rng.Intn(2)], id, fmt.Sprintf("%d", c.Rng.Intn(50))})
			default:
				ops = append(ops, []interface{}{"reopen"})
			}
		}
		c.Do("c14.jobs", M{"ops": ops})
	}
}

func init() {
	register("c14jobs", genC14Jobs)
	registerKind("c14.jobs", runC14Jobs)
}
