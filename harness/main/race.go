//go:build verif

package main

import (
	"fmt"
	"time"

	"github.com/mimiro-io/datahub/internal/server"
)

// rawWrite performs a store / txn op against the real hub and records only its outcome (rc, t); the
// harness's own bookkeeping (ids, commit times) is done afterwards by noteWrite, on one goroutine.
func (r *histRun) rawWrite(op M) {
	switch gets(op, "op") {
	case "store":
		ds := r.h.Dsm.GetDataset(gets(op, "ds"))
		if ds == nil {
			op["rc"] = "nods"
			return
		}
		ents := []*server.Entity{}
		for _, x := range getl(op, "ents") {
			ents = append(ents, toEntity(x.(map[string]interface{})))
		}
		err := ds.StoreEntities(ents)
		if err != nil {
			op["rc"] = "err"
			op["errtext"] = err.Error()
		} else if len(ents) > 0 {
			op["t"] = ents[0].Recorded
		}
	case "txn":
		txn := &server.Transaction{DatasetEntities: map[string][]*server.Entity{}}
		var first *server.Entity
		for _, p := range getl(op, "parts") {
			pm := p.(map[string]interface{})
			ents := []*server.Entity{}
			for _, x := range getl(pm, "ents") {
				ents = append(ents, toEntity(x.(map[string]interface{})))
			}
			if len(ents) > 0 && first == nil {
				first = ents[0]
			}
			txn.DatasetEntities[gets(pm, "ds")] = ents
		}
		st := r.h.Store
		if getb(op, "ctx") {
			// what a JavaScript transform's ExecuteTransaction() does: the transaction goes through the
			// job's contextual store (jobs/transform.go: server.NewContextualStore)
			st = r.contextual()
		}
		if err := st.ExecuteTransaction(txn); err != nil {
			op["rc"] = "err"
			op["errtext"] = err.Error()
		} else if first != nil {
			op["t"] = first.Recorded
		}
	}
}

func (r *histRun) noteWrite(i int, op M) {
	if t, ok := op["t"].(uint64); ok && i >= 0 {
		r.times[i] = int64(t)
	}
	if gets(op, "op") == "store" {
		if gets(op, "rc") != "nods" {
			r.noteIDs(op, getl(op, "ents"))
		}
		return
	}
	for _, p := range getl(op, "parts") {
		r.noteIDs(op, getl(p.(map[string]interface{}), "ents"))
	}
}

// storeRaced is a forced schedule of two writers (C01/C04/C05/C13): the outer write runs on this goroutine; when it
// reaches the given point of the instrumented write path (tools/instr), the inner write is started on a second
// goroutine and the outer one waits until the inner one has returned or has obviously been parked on a lock
// (300 ms), then continues. Whatever the point, both writes must end (no deadlock) and the outcome must be that
// of the two writes one after the other. `order` tells the model which one committed first.
func (r *histRun) storeRaced(i int, op M, race M) {
	inner := race["inner"].(map[string]interface{})
	if getb(inner, "ctx") || getb(op, "ctx") {
		r.contextual()
	}
	done := make(chan struct{})
	fired, innerDone := false, false
	server.VerifAtPoint(gets(race, "point"), geti(race, "hit"), func() {
		fired = true
		go func() {
			defer close(done)
			defer func() {
				if p := recover(); p != nil {
					inner["rc"] = "panic"
					inner["errtext"] = fmt.Sprint(p)
				}
			}()
			r.rawWrite(inner)
		}()
		select {
		case <-done:
			innerDone = true
		case <-time.After(300 * time.Millisecond):
		}
	})
	r.rawWrite(op)
	server.VerifAtPoint("", 0, nil)
	op["raced"] = fired
	if !fired {
		r.noteWrite(i, op)
		return
	}
	select {
	case <-done:
	case <-time.After(20 * time.Second):
		op["deadlock"] = true
		r.c.Count("race:deadlock", 1)
		return
	}
	// which write comes first in the equivalent sequential history: identifiers are drawn while a write fills its
	// transaction, and every point but the entry points lies behind that — there the outer write has drawn its identifiers
	// (and decided what is new) before the inner one started, whichever of the two commits first
	pt := gets(race, "point")
	atEntry := pt == "StoreEntities:0:begin" || pt == "ExecuteTransaction:0:begin"
	if innerDone && atEntry {
		op["order"] = "inner"
		r.noteWrite(-1, inner)
		r.noteWrite(i, op)
		r.c.Count("race:inner-first", 1)
	} else {
		op["order"] = "outer"
		r.noteWrite(i, op)
		r.noteWrite(-1, inner)
		if innerDone {
			r.c.Count("race:outer-committed-first", 1)
		} else {
			r.c.Count("race:inner-parked-on-a-lock", 1)
		}
	}
}

// racedWrite generates an outer write (batch or transaction) with a second write that is started when the outer one
// reaches one of the instrumented points of its path (after filling the transaction, inside/around the id commit,
// after the data commit, after the counter update). The two writes use the same or different datasets, share
// never-seen identifiers (as entity ids and as reference targets), and the inner one is sometimes rejected.
func (g *storeGen) racedWrite(pts crashPoints) M {
	r := g.c.Rng
	g.fresh++
	fresh := []string{fmt.Sprintf("ns3:f%d", g.fresh), fmt.Sprintf("ns3:g%d", g.fresh)}
	ent := func(id string) M {
		e := g.entity(id)
		if r.Intn(2) == 0 {
			refs, _ := e["refs"].(M)
			if refs == nil {
				refs = M{}
			}
			refs[g.preds[r.Intn(len(g.preds))]] = fresh[r.Intn(2)]
			e["refs"] = refs
		}
		return e
	}
	batch := func() []M {
		b := []M{}
		if r.Intn(3) != 0 {
			b = append(b, ent(fresh[r.Intn(2)]))
		}
		for k := r.Intn(3); k >= 0; k-- {
			b = append(b, ent(g.ids[r.Intn(len(g.ids))]))
		}
		return b
	}
	write := func(allowTxn bool) M {
		if allowTxn && r.Intn(3) == 0 {
			parts := []M{}
			for _, d := range g.dss {
				if r.Intn(2) == 0 {
					parts = append(parts, M{"ds": d, "ents": batch()})
				}
			}
			if len(parts) == 0 {
				parts = append(parts, M{"ds": g.dss[0], "ents": batch()})
			}
			return M{"op": "txn", "parts": parts}
		}
		return M{"op": "store", "ds": g.dss[r.Intn(len(g.dss))], "ents": batch()}
	}
	outer, inner := write(true), write(true)
	if inner["op"] == "txn" && r.Intn(2) == 0 {
		inner["ctx"] = true // issued by a JavaScript transform
	}
	if outer["op"] == "txn" && r.Intn(4) == 0 {
		outer["ctx"] = true
	}
	if r.Intn(5) == 0 {
		// a batch the hub rejects after it has already drawn identifiers (a null reference)
		b := batch()
		b = append(b, M{"id": fresh[1], "deleted": false, "props": M{}, "refs": M{g.preds[0]: nil}})
		inner = M{"op": "store", "ds": g.dss[r.Intn(len(g.dss))], "ents": b}
	}
	fn := "StoreEntities"
	if outer["op"] == "txn" {
		fn = "ExecuteTransaction"
	}
	cands := append(append([]string{}, pts.Points[fn]...), pts.Points["commitIDTxn"]...)
	point := "?"
	if len(cands) > 0 {
		point = cands[r.Intn(len(cands))]
	}
	after := false
	for k, p := range pts.Points[fn] {
		if p == point && k >= 3 { // the points behind txn.Commit: the outer write is committed before the inner one starts
			after = true
		}
	}
	g.ids = append(g.ids, fresh...)
	outer["race"] = M{"point": point, "hit": 1, "inner": inner, "afterCommit": after}
	return outer
}

// contextual returns the contextual store of the current hub. A job's pipeline (and with it the contextual store
// of its transform) is built when the job is loaded or triggered; here: before the raced writers start.
func (r *histRun) contextual() *server.Store {
	if r.ctxStore == nil || r.ctxOf != r.h {
		r.ctxStore, r.ctxOf = server.NewContextualStore(r.h.Store), r.h
	}
	return r.ctxStore
}
