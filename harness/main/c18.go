package main

import (
	"context"
	"encoding/base64"
	"encoding/json"
	"fmt"
	"sort"
	"strconv"

	"github.com/mimiro-io/datahub/internal/jobs"
	jobSource "github.com/mimiro-io/datahub/internal/jobs/source"
	"github.com/mimiro-io/datahub/internal/server"
)

// ---------------------------------------------------------------------------------------------
// C18: runs of a MultiSource job inside a store history. The source is built by the scheduler's own
// parseSource from its JSON configuration (declared dependencies, implicit ones added by the builder),
// lives as long as the hub, and is run through the real IncrementalPipeline.sync (which turns the first
// run into a full sync) into a collecting sink. A recording wrapper sits between source and pipeline
// and notes every callback (entities, continuation).
//
// op   {"op":"msrun","job":"j1","main":"a","deps":[{"dataset":"b","joins":[{"dataset":"a","predicate":"ns3:r1","inverse":true}]}],
//       "batch":2,"latestOnly":false,"full":false}
// obs  {"res":"ok|err:…|panic:…","deps":[effective dependency list],"dep":[ids emitted by dependency tracking, sorted, unique],
//       "main":[ids of the main dataset's changes, in order],"tok":{"main":n,"deps":{"b":n}}}

type msJob struct {
	src  jobSource.Source
	ms   *jobSource.MultiSource
	conf string
}

type recSource struct {
	inner jobSource.Source
	calls [][]string
	main  map[int]bool // callbacks that carried a page of the main dataset
}

func (r *recSource) isMain(i int) bool { return r.main[i] }

func (r *recSource) GetConfig() map[string]interface{} { return r.inner.GetConfig() }
func (r *recSource) StartFullSync()                    { r.inner.StartFullSync() }
func (r *recSource) EndFullSync()                      { r.inner.EndFullSync() }
func (r *recSource) ReadEntities(ctx context.Context, since jobSource.DatasetContinuation, batchSize int,
	processEntities func([]*server.Entity, jobSource.DatasetContinuation) error) error {
	// incrementalRead hands the main dataset's page to the callback exactly once, as the last callback of a
	// ReadEntities call; everything before it in the same call comes from dependency tracking
	start := len(r.calls)
	err := r.inner.ReadEntities(ctx, since, batchSize, func(es []*server.Entity, c jobSource.DatasetContinuation) error {
		ids := make([]string, len(es))
		for i, e := range es {
			ids[i] = e.ID
		}
		r.calls = append(r.calls, ids)
		return processEntities(es, c)
	})
	if err == nil && len(r.calls) > start {
		r.main[len(r.calls)-1] = true
	}
	return err
}

func (r *histRun) msrun(op M) (out interface{}) {
	defer func() {
		if p := recover(); p != nil {
			out = M{"res": "panic:" + fmt.Sprint(p)}
		}
	}()
	job := gets(op, "job")
	confB, _ := json.Marshal(M{"main": op["main"], "deps": op["deps"], "hops": op["hops"], "latestOnly": op["latestOnly"]})
	if r.msources == nil {
		r.msources = map[string]*msJob{}
	}
	mj := r.msources[job]
	if mj == nil || mj.conf != string(confB) {
		cfg := map[string]interface{}{"Type": "MultiSource", "Name": gets(op, "main"), "Dependencies": op["deps"], "LatestOnly": getb(op, "latestOnly")}
		// dependencies registered by the transform's track_queries function (chains of hop / iHop from the main dataset)
		var transform map[string]interface{}
		if chains := getl(op, "hops"); len(chains) > 0 {
			js := "function track_queries(start) {\n"
			for _, ch := range chains {
				js += "  start"
				for _, h := range ch.([]interface{}) {
					hm := h.(map[string]interface{})
					fn := "hop"
					if getb(hm, "inverse") {
						fn = "iHop"
					}
					js += fmt.Sprintf(".%s(%q, %q)", fn, gets(hm, "dataset"), gets(hm, "predicate"))
				}
				js += ";\n"
			}
			js += "}\nfunction transform_entities(entities) { return entities; }\n"
			transform = map[string]interface{}{"Type": "JavascriptTransform", "Code": base64.StdEncoding.EncodeToString([]byte(js))}
		}
		src, err := jobs.VerifParseSource(r.h.Sched, cfg, transform)
		if err != nil {
			return M{"res": "err:parse:" + err.Error()}
		}
		mj = &msJob{src: src, ms: src.(*jobSource.MultiSource), conf: string(confB)}
		r.msources[job] = mj
	}
	deps := []interface{}{}
	for _, d := range mj.ms.Dependencies {
		joins := []interface{}{}
		for _, j := range d.Joins {
			joins = append(joins, M{"dataset": j.Dataset, "predicate": j.Predicate, "inverse": j.Inverse})
		}
		deps = append(deps, M{"dataset": d.Dataset, "joins": joins})
	}
	rec := &recSource{inner: mj.src, main: map[int]bool{}}
	sink := &jobs.VerifSink{}
	if during := getm(op, "during"); during != nil {
		// forced schedule: a write (to a dependency dataset) lands between two pages of this run, right after the sink has
		// accepted its n-th batch
		n, after := 0, geti(during, "after")
		inner := during["inner"].(map[string]interface{})
		op["duringRan"] = false
		sink.OnAccepted = func() {
			n++
			if n == after {
				r.mutate(-1, inner)
				op["duringRan"] = true
				r.c.Count("c18:write-between-pages", 1)
			}
		}
	}
	failAt, hasFault := -1, false
	if v, ok := op["failAt"]; ok {
		failAt, hasFault = geti(op, "failAt"), true
		_ = v
		sink.Fail = func(call int, _ []*server.Entity) error {
			if call == failAt {
				return fmt.Errorf("sink rejected call %d (injected)", call)
			}
			return nil
		}
	}
	jobID := "c18-" + job
	_, err := jobs.VerifPipelineSync(r.h.Runner, jobID, rec, nil, sink, geti(op, "batch"), getb(op, "full"), context.Background())
	res := "ok"
	if err != nil {
		res = "err:" + err.Error()
	}
	depSet := map[string]bool{}
	mainIDs := []string{}
	for i, c := range rec.calls {
		if rec.isMain(i) {
			mainIDs = append(mainIDs, c...)
		} else {
			for _, id := range c {
				depSet[id] = true
			}
		}
	}
	depIDs := []string{}
	for id := range depSet {
		depIDs = append(depIDs, id)
	}
	sort.Strings(depIDs)
	// token
	tok := M{"main": -1, "deps": M{}}
	var t struct {
		MainToken        string
		DependencyTokens map[string]struct{ Token string }
	}
	if raw := jobs.VerifJobToken(r.h.Runner, jobID); raw != "" {
		if json.Unmarshal([]byte(raw), &t) == nil {
			if v, e := strconv.Atoi(t.MainToken); e == nil {
				tok["main"] = v
			}
			dm := M{}
			for k, v := range t.DependencyTokens {
				n, e := strconv.Atoi(v.Token)
				if e != nil {
					n = -1
				}
				dm[k] = n
			}
			tok["deps"] = dm
		}
	}
	r.c.Count("c18:runs", 1)
	r.c.Count("c18:dep-emitted", len(depIDs))
	if r.msOwed == nil {
		r.msOwed = map[string]bool{}
	}
	accepted := []string{}
	seen := map[string]bool{}
	for _, b := range sink.Batches {
		for _, e := range b {
			if !seen[e.ID] {
				seen[e.ID] = true
				accepted = append(accepted, e.ID)
			}
		}
	}
	sort.Strings(accepted)
	if hasFault && err != nil {
		// the sink rejected a batch: the run ends with an error; what the sink had accepted and the token that was
		// persisted are inputs of the model (the exact batching of join results is not modelled), what the model
		// says the whole run owed is checked on the next run
		op["faulted"] = true
		op["emitted"] = accepted
		op["tokAfter"] = tok
		r.msOwed[job] = true
		r.c.Count("c18:runs-interrupted", 1)
		return M{"res": "err"}
	}
	if hasFault {
		op["faulted"] = false
	}
	out = M{"res": res, "deps": deps, "dep": depIDs, "main": mainIDs, "tok": tok}
	if r.msOwed[job] {
		// the run after an interrupted one: everything the interrupted run still owed must be delivered now
		op["emittedNow"] = accepted
		out.(M)["owed_missing"] = []string{}
		delete(r.msOwed, job)
		r.c.Count("c18:runs-resumed", 1)
	}
	return out
}

// withMsRuns places runs of one or two MultiSource jobs between the operations of a generated history
// (after about a third of the writes) and three runs at the end (towards the token fixpoint).
func withMsRuns(c *Ctx, g *storeGen, ops []M) []M {
	type jobT struct {
		name string
		cfg  M
	}
	mkJob := func(name string) jobT {
		main := "a"
		others := []string{"b", "c"}
		deps := []M{}
		for d := 0; d < 1+c.Rng.Intn(2); d++ {
			nj := 1 + c.Rng.Intn(3)
			joins := []M{}
			for j := 0; j < nj; j++ {
				ds := others[c.Rng.Intn(2)]
				if j == nj-1 && c.Rng.Intn(6) != 0 {
					ds = main // the last hop normally lands in the main dataset
				}
				pred := g.preds[c.Rng.Intn(len(g.preds))]
				if c.Rng.Intn(25) == 0 {
					pred = "ns3:never" // a predicate the hub has not seen (yet)
				}
				joins = append(joins, M{"dataset": ds, "predicate": pred, "inverse": c.Rng.Intn(2) == 0})
			}
			deps = append(deps, M{"dataset": others[c.Rng.Intn(2)], "joins": joins})
		}
		cfg := M{"main": main, "deps": deps, "batch": []int{1, 2, 3, 10}[c.Rng.Intn(4)], "latestOnly": c.Rng.Intn(4) == 0}
		if c.Rng.Intn(3) == 0 {
			// queries of the transform, registered through track_queries: chains of hops starting at the main dataset
			chains := []interface{}{}
			for k := 0; k < 1+c.Rng.Intn(2); k++ {
				ch := []interface{}{}
				for h := 0; h < 1+c.Rng.Intn(3); h++ {
					ch = append(ch, M{"dataset": []string{"a", "b", "c"}[c.Rng.Intn(3)], "predicate": g.preds[c.Rng.Intn(len(g.preds))], "inverse": c.Rng.Intn(2) == 0})
				}
				chains = append(chains, ch)
			}
			cfg["hops"] = chains
			if c.Rng.Intn(2) == 0 {
				cfg["deps"] = []M{}
			}
		}
		return jobT{name, cfg}
	}
	jobsL := []jobT{mkJob("j1")}
	if c.Rng.Intn(3) == 0 {
		jobsL = append(jobsL, mkJob("j2"))
	}
	run := func(j jobT, full bool) M {
		op := M{"op": "msrun", "job": j.name, "full": full}
		for k, v := range j.cfg {
			op[k] = v
		}
		return op
	}
	out := []M{}
	for i, op := range ops {
		out = append(out, op)
		k := gets(op, "op")
		if i >= 3 && (k == "store" || k == "txn") && c.Rng.Intn(3) == 0 {
			j := jobsL[c.Rng.Intn(len(jobsL))]
			if c.Rng.Intn(4) == 0 {
				// the sink rejects the n-th batch of this run; the next run has to deliver what this one still owed
				f := run(j, false)
				f["failAt"] = c.Rng.Intn(4)
				out = append(out, f, run(j, false))
			} else {
				out = append(out, run(j, c.Rng.Intn(12) == 0))
			}
		}
	}
	for _, j := range jobsL {
		out = append(out, run(j, false), run(j, false), run(j, false))
	}
	if c.Rng.Intn(2) == 0 {
		// a link that is rewired or removed between runs: the main entity that LOST its link must be emitted as
		// well (first hop outgoing: the graph as it stood at the previous run). Link entities in b point to main
		// entities in a through ns3:r1.
		j3 := jobT{"j3", M{"main": "a", "deps": []M{{"dataset": "b", "joins": []M{{"dataset": "a", "predicate": "ns3:r1", "inverse": false}}}},
			"batch": []int{1, 2, 10}[c.Rng.Intn(3)], "latestOnly": c.Rng.Intn(2) == 0}}
		ent := func(id string, v int, refs M) M { return M{"id": id, "deleted": false, "props": M{"ns3:p0": v}, "refs": refs} }
		mains := []M{}
		for i := 1; i <= 4; i++ {
			mains = append(mains, ent(fmt.Sprintf("ns3:e%d", i), 900+i, M{}))
		}
		links := []string{"ns3:x1", "ns3:x2", "ns3:x3"}
		out = append(out, M{"op": "store", "ds": "a", "ents": mains})
		for i, l := range links {
			out = append(out, M{"op": "store", "ds": "b", "ents": []M{ent(l, 800+i, M{"ns3:r1": fmt.Sprintf("ns3:e%d", 1+c.Rng.Intn(4))})}})
		}
		out = append(out, run(j3, false), run(j3, false), run(j3, false))
		for round := 0; round < 1+c.Rng.Intn(3); round++ {
			l := links[c.Rng.Intn(len(links))]
			switch c.Rng.Intn(4) {
			case 0: // link removed
				out = append(out, M{"op": "store", "ds": "b", "ents": []M{ent(l, 700+round, M{})}})
			case 1: // link entity deleted
				out = append(out, M{"op": "store", "ds": "b", "ents": []M{{"id": l, "deleted": true, "props": M{}, "refs": M{}}}})
			default: // rewired
				out = append(out, M{"op": "store", "ds": "b", "ents": []M{ent(l, 700+round, M{"ns3:r1": fmt.Sprintf("ns3:e%d", 1+c.Rng.Intn(4))})}})
			}
			if c.Rng.Intn(3) == 0 { // an unrelated later change of another link
				out = append(out, M{"op": "store", "ds": "b", "ents": []M{ent(links[c.Rng.Intn(len(links))], 600+round, M{"ns3:r1": fmt.Sprintf("ns3:e%d", 1+c.Rng.Intn(4))})}})
			}
			out = append(out, run(j3, false), run(j3, false))
		}
	}
	if c.Rng.Intn(2) == 0 {
		// fan-out: one changed dependency entity affects more main entities than fit into a batch; the sink rejects one of
		// the batches of that run (job killed, sink down), the job resumes from the stored token
		n := 3 + c.Rng.Intn(4)
		j4 := jobT{"j4", M{"main": "a", "deps": []M{{"dataset": "b", "joins": []M{{"dataset": "a", "predicate": "ns3:r2", "inverse": true}}}},
			"batch": 1 + c.Rng.Intn(2), "latestOnly": c.Rng.Intn(2) == 0}}
		mains := []M{}
		for i := 1; i <= n; i++ {
			mains = append(mains, M{"id": fmt.Sprintf("ns3:m%d", i), "deleted": false, "props": M{"ns3:p0": 500 + i}, "refs": M{"ns3:r2": "ns3:hub"}})
		}
		out = append(out, M{"op": "store", "ds": "a", "ents": mains},
			M{"op": "store", "ds": "b", "ents": []M{{"id": "ns3:hub", "deleted": false, "props": M{"ns3:p0": 1}, "refs": M{}}}},
			run(j4, false), run(j4, false))
		for round := 0; round < 1+c.Rng.Intn(2); round++ {
			out = append(out, M{"op": "store", "ds": "b", "ents": []M{{"id": "ns3:hub", "deleted": false, "props": M{"ns3:p0": 2 + round}, "refs": M{}}}})
			if c.Rng.Intn(2) == 0 {
				out = append(out, M{"op": "store", "ds": "a", "ents": []M{{"id": "ns3:m1", "deleted": false, "props": M{"ns3:p0": 600 + round}, "refs": M{"ns3:r2": "ns3:hub"}}}})
			}
			f := run(j4, false)
			f["failAt"] = c.Rng.Intn(n)
			out = append(out, f, run(j4, false), run(j4, false))
		}
		if c.Rng.Intn(2) == 0 {
			// a full sync with a write to the dependency dataset between two of its pages: the dependency's token is the
			// watermark taken when the full sync started, so the next incremental run re-emits what the change affects
			fs := run(j4, true)
			fs["during"] = M{"after": 1 + c.Rng.Intn(2), "inner": M{"op": "store", "ds": "b", "ents": []M{{"id": "ns3:hub", "deleted": false, "props": M{"ns3:p0": 77 + c.Rng.Intn(10)}, "refs": M{}}}}}
			out = append(out, fs, run(j4, false), run(j4, false))
		}
	}
	return out
}

func init() {
	register("store-c18", func(c *Ctx) { genStore(c, "c18") })
}
