package main

import (
	"context"
	"crypto/rand"
	"crypto/rsa"
	"os"
	"path/filepath"
	"time"

	"github.com/DataDog/datadog-go/v5/statsd"
	"github.com/labstack/echo/v4"

	"github.com/mimiro-io/datahub/internal/conf"
	"github.com/mimiro-io/datahub/internal/content"
	"github.com/mimiro-io/datahub/internal/jobs"
	"github.com/mimiro-io/datahub/internal/security"
	"github.com/mimiro-io/datahub/internal/server"
	"github.com/mimiro-io/datahub/internal/web"
)

// FullHub assembles what app.go assembles (store, dataset manager, security core, providers,
// runner, scheduler, content, web service with all middlewares) without opening a socket.
type FullHub struct {
	Hub
	Core      *security.ServiceCore
	Providers *security.ProviderManager
	Tokens    *security.TokenProviders
	Web       *web.WebService
	Echo      *echo.Echo
	SecDir    string
}

var sharedKey *rsa.PrivateKey

// lease timeout used by hubs opened after it is set (0 = the hub's default of 1h)
var fullHubLeaseTimeout time.Duration

// writeNodeKey pre-seeds a 2048-bit node key (the hub would generate a 4096-bit one, which is slow).
func writeNodeKey(secDir string) {
	if _, err := os.Stat(filepath.Join(secDir, "node_key")); err == nil {
		return
	}
	if sharedKey == nil {
		sharedKey, _ = rsa.GenerateKey(rand.Reader, 2048)
	}
	_ = os.MkdirAll(secDir, 0o755)
	priv, _ := security.ExportRsaPrivateKeyAsPem(sharedKey)
	pub, _ := security.ExportRsaPublicKeyAsPem(&sharedKey.PublicKey)
	_ = os.WriteFile(filepath.Join(secDir, "node_key"), []byte(priv), 0o600)
	_ = os.WriteFile(filepath.Join(secDir, "node_key.pub"), []byte(pub), 0o600)
}

func OpenFullHub(dir string, secure bool) *FullHub {
	secDir := filepath.Join(dir, "security")
	writeNodeKey(secDir)
	mw := "noop"
	if secure {
		mw = "local"
	}
	e := &conf.Config{
		Logger:                  quietLogger(),
		StoreLocation:           filepath.Join(dir, "store"),
		SecurityStorageLocation: secDir,
		AdminUserName:           "admin",
		AdminPassword:           "adminpw",
		NodeID:                  "node1",
		Port:                    "0",
		Auth:                    &conf.AuthConfig{Middleware: mw},
		RunnerConfig:            &conf.RunnerConfig{PoolIncremental: 10, PoolFull: 5, Concurrent: 0},
		FullsyncLeaseTimeout:    fullHubLeaseTimeout,
	}
	fh := &FullHub{SecDir: secDir}
	fh.Dir = dir
	fh.Env = e
	fh.Store = server.NewStore(e, &statsd.NoOpClient{})
	fh.Dsm = server.NewDsManager(e, fh.Store, server.NoOpBus())
	fh.Providers = security.NewProviderManager(e, fh.Store, e.Logger)
	fh.Core = security.NewServiceCore(e)
	fh.Tokens = security.NewTokenProviders(e.Logger, fh.Providers, fh.Core)
	devNull, _ := os.Open(os.DevNull)
	old := os.Stdout
	os.Stdout = devNull
	fh.Runner = jobs.NewRunner(e, fh.Store, fh.Tokens, server.NoOpBus(), &statsd.NoOpClient{})
	fh.Sched = jobs.NewScheduler(e, fh.Store, fh.Dsm, fh.Runner)
	os.Stdout = old
	devNull.Close()
	cs := content.NewContentService(e, fh.Store, &statsd.NoOpClient{})
	sc := &web.ServiceContext{Env: e, Logger: e.Logger, Statsd: &statsd.NoOpClient{}, SecurityCore: fh.Core,
		ContentService: cs, DatasetManager: fh.Dsm, Store: fh.Store, EventBus: server.NoOpBus(), TokenProviders: fh.Tokens,
		JobsScheduler: fh.Sched, Port: "0"}
	ws, err := web.NewWebService(sc)
	if err != nil {
		panic(err)
	}
	fh.Web = ws
	fh.Echo = ws.VerifEcho()
	return fh
}

func (fh *FullHub) Close() {
	fh.Runner.Stop()
	_ = fh.Sched.Stop(context.Background())
	_ = fh.Store.Close()
}
