package main

import (
	"sort"
	"bytes"
	"encoding/json"
	"fmt"
	"os"
	"os/exec"
	"path/filepath"
	"strconv"
	"strings"
	"time"

	"github.com/mimiro-io/datahub/internal/server"
	dsvc "github.com/mimiro-io/datahub/internal/service/dataset"
)

// ---------------------------------------------------------------------------------------------
// C04: crash points. A `crash` operation of a store history executes its inner operation (store,
// txn, createDs, deleteDs, renameDs) in a CHILD PROCESS on the same store directory with one crash
// point armed (tools/instr inserts the points into copies of the mutating functions; the child kills
// itself with SIGKILL at the n-th hit — nothing is closed, released or flushed by the process).
// The parent then opens the store again (the restart), finds out whether the operation landed, fills
// in what the real code chose, and the history goes on: queries, more writes, more crashes.

type crashPoints struct {
	Points map[string][]string `json:"points"`
	Error  string              `json:"error"`
}

func loadCrashPoints() crashPoints {
	var cp crashPoints
	b, err := os.ReadFile(filepath.Join(filepath.Dir(os.Args[0]), "crashpoints.json"))
	if err == nil {
		_ = json.Unmarshal(b, &cp)
	}
	return cp
}

// crashchild <dir> <point> <hit> <innerJSON>
func crashChildMain() {
	dir, point := os.Args[2], os.Args[3]
	hit, _ := strconv.Atoi(os.Args[4])
	var inner M
	if err := json.Unmarshal([]byte(os.Args[5]), &inner); err != nil {
		panic(err)
	}
	h := OpenHub(dir, false)
	r := &histRun{h: h, dir: dir, rids: map[string]uint64{}, dsids: map[string]uint32{}, times: make([]int64, 1)}
	server.VerifArmCrash(point, hit)
	r.mutate(0, inner)
	server.VerifArmCrash("", 0)
	out := M{"rc": gets(inner, "rc"), "t": strconv.FormatInt(r.times[0], 10)}
	if d, ok := inner["dsid"]; ok {
		out["dsid"] = d
	}
	b, _ := json.Marshal(out)
	fmt.Printf("\nCHILDOUT %s\n", b)
	h.Close()
}

func runCrashChild(dir string, inner M, point string, hit int) (acked bool, res M, note string) {
	b, _ := json.Marshal(inner)
	cmd := exec.Command(os.Args[0], "crashchild", dir, point, strconv.Itoa(hit), string(b))
	cmd.Env = append(os.Environ(), "GOMEMLIMIT=2GiB")
	var stdout, stderr bytes.Buffer
	cmd.Stdout = &stdout
	cmd.Stderr = &stderr
	if err := cmd.Start(); err != nil {
		panic(err)
	}
	done := make(chan error, 1)
	go func() { done <- cmd.Wait() }()
	select {
	case err := <-done:
		line := stdout.String()
		if i := strings.LastIndex(line, "CHILDOUT "); i >= 0 && err == nil {
			var v M
			if json.Unmarshal([]byte(strings.TrimSpace(line[i+9:])), &v) == nil {
				return true, v, ""
			}
		}
		if err != nil && strings.Contains(err.Error(), "killed") {
			return false, nil, "killed"
		}
		tail := stderr.String()
		if len(tail) > 300 {
			tail = tail[:300]
		}
		return false, nil, "child failed: " + fmt.Sprint(err) + " " + strings.SplitN(tail, "\n", 2)[0]
	case <-time.After(60 * time.Second):
		_ = cmd.Process.Kill()
		<-done
		return false, nil, "hang"
	}
}

func (r *histRun) lastTime() int64 {
	var m int64
	for _, t := range r.times {
		if t > m {
			m = t
		}
	}
	return m
}

// newestRecorded returns the largest `recorded` in a dataset's change feed (0 when there is none).
func (r *histRun) newestRecorded(dsName string) int64 {
	ds := r.h.Dsm.GetDataset(dsName)
	if ds == nil {
		return 0
	}
	ch, err := ds.GetChanges(0, 0, false)
	if err != nil {
		return 0
	}
	var m int64
	for _, e := range ch.Entities {
		if int64(e.Recorded) > m {
			m = int64(e.Recorded)
		}
	}
	return m
}

func (r *histRun) crash(i int, op M) (extra M) {
	inner := getm(op, "inner")
	kind := gets(inner, "op")
	lastT := r.lastTime()
	existed := func(k string) bool { n := gets(inner, k); return n != "" && r.h.Dsm.GetDataset(n) != nil }
	nameBefore, toBefore := existed("name"), existed("to")
	var preProbe []interface{}
	var preFeed []string
	if kind == "compact" {
		preProbe, preFeed = r.compactProbe(gets(inner, "ds"))
	}
	r.h.Close()
	acked, res, note := runCrashChild(r.dir, inner, gets(op, "point"), geti(op, "hit"))
	r.h = OpenHub(r.dir, false) // the restart
	op["died"] = !acked
	if note != "" && note != "killed" {
		op["childError"] = note
	}
	landed := false
	var t int64
	switch {
	case acked:
		// the point was not reached: an ordinary acknowledged operation followed by a clean restart
		if rc := gets(res, "rc"); rc != "" {
			inner["rc"] = rc
		} else {
			landed = true
		}
		t, _ = strconv.ParseInt(gets(res, "t"), 10, 64)
		if d, ok := res["dsid"]; ok {
			inner["dsid"] = d
		}
	case kind == "store":
		if nt := r.newestRecorded(gets(inner, "ds")); nt > lastT {
			landed, t = true, nt
		}
	case kind == "txn":
		for _, p := range getl(inner, "parts") {
			if nt := r.newestRecorded(gets(p.(map[string]interface{}), "ds")); nt > lastT {
				landed, t = true, nt
			}
		}
	case kind == "createDs":
		if ds := r.h.Dsm.GetDataset(gets(inner, "name")); ds != nil && !nameBefore {
			landed = true
			inner["dsid"] = ds.InternalID
		}
	case kind == "compact":
		landed = true // finished below: after the restart the compaction is run again, to the end
	case kind == "deleteDs":
		landed = nameBefore && r.h.Dsm.GetDataset(gets(inner, "name")) == nil
	case kind == "renameDs":
		landed = nameBefore && !toBefore && r.h.Dsm.GetDataset(gets(inner, "to")) != nil && r.h.Dsm.GetDataset(gets(inner, "name")) == nil
	}
	if kind == "compact" && gets(inner, "rc") == "" {
		// C12: a compaction that was killed between (or before) its flushes is invisible to readers — listing, latest-only
		// feed and lookups answer as before — and the full feed is still readable and has lost nothing but duplicates;
		// running the compaction again finishes the job (the history's later queries check the final feed exactly)
		postProbe, postFeed := r.compactProbe(gets(inner, "ds"))
		extra = M{"probe_same": canonJSON(preProbe) == canonJSON(postProbe), "feed_ok": postFeed != nil && isSubsequence(postFeed, preFeed)}
		cw := dsvc.NewCompactor(r.h.Store, r.h.Dsm, quietLogger())
		if err := cw.VerifCompact(gets(inner, "ds"), geti(inner, "threshold")); err != nil {
			extra["repair"] = "err:" + err.Error()
		}
		_, finalFeed := r.compactProbe(gets(inner, "ds"))
		if finalFeed == nil || !isSubsequence(finalFeed, postFeed) {
			extra["feed_ok"] = false
		}
	}
	op["landed"] = landed
	if landed {
		if t > 0 {
			r.times[i] = t
			inner["t"] = uint64(t)
			op["t"] = uint64(t)
		}
		switch kind {
		case "createDs":
			if ds := r.h.Dsm.GetDataset(gets(inner, "name")); ds != nil {
				r.dsids[gets(inner, "name")] = ds.InternalID
				inner["dsid"] = ds.InternalID
			}
		case "renameDs":
			r.dsids[gets(inner, "to")] = r.dsids[gets(inner, "name")]
		}
	}
	// identifiers the crashed operation handed out may have been committed although its data was not
	switch kind {
	case "store":
		r.noteIDs(op, getl(inner, "ents"))
	case "txn":
		for _, p := range getl(inner, "parts") {
			r.noteIDs(op, getl(p.(map[string]interface{}), "ents"))
		}
	default:
		r.noteIDs(op, nil)
	}
	inner["newids"] = op["newids"]
	r.c.Count("c04:crash:"+kind, 1)
	if !acked {
		r.c.Count("c04:died", 1)
		r.c.Count("c04:point:"+gets(op, "point"), 1)
		if landed {
			r.c.Count("c04:died-landed", 1)
		}
	}
	return extra
}

// wrapCrashes turns some of the state-changing operations of a generated history into crash operations.
func wrapCrashes(c *Ctx, ops []M, cp crashPoints) []M {
	funcOf := map[string][]string{"store": {"StoreEntities"}, "txn": {"ExecuteTransaction"},
		"createDs": {"CreateDataset", "StoreEntities"}, "deleteDs": {"DeleteDataset", "StoreEntities"}, "renameDs": {"UpdateDataset", "StoreEntities"}}
	out := make([]M, len(ops))
	crashes := 0
	for i, op := range ops {
		out[i] = op
		fs, ok := funcOf[gets(op, "op")]
		if !ok || i < 2 || c.Rng.Intn(3) != 0 {
			continue
		}
		f := fs[c.Rng.Intn(len(fs))]
		if gets(op, "op") == "store" && c.Rng.Intn(5) == 0 {
			f = "StoreEntities"
		}
		pts := cp.Points[f]
		if len(pts) == 0 {
			continue
		}
		hit := 1
		// the nested store of the dataset's meta entity (core.Dataset) is the second store of a write that
		// brought new ids, and of a rename
		if f == "StoreEntities" && (gets(op, "op") == "store" || gets(op, "op") == "renameDs") && c.Rng.Intn(4) == 0 {
			hit = 2
		}
		if f == "ExecuteTransaction" && c.Rng.Intn(4) == 0 {
			hit = 2 // second dataset of the transaction (per-dataset steps)
		}
		out[i] = M{"op": "crash", "point": pts[c.Rng.Intn(len(pts))], "hit": hit, "inner": op}
		crashes++
	}
	// what typically follows a dataset whose creation was cut short: the next dataset is created, both are
	// written and read (a dataset id handed out twice would mix their data)
	for i := range out {
		if gets(out[i], "op") != "crash" || gets(getm(out[i], "inner"), "op") != "createDs" || c.Rng.Intn(3) == 0 {
			continue
		}
		a := gets(getm(out[i], "inner"), "name")
		b := fmt.Sprintf("z%d", i)
		ent := func(id string, v int) M {
			return M{"id": id, "deleted": false, "props": M{"ns3:p0": v}, "refs": M{}}
		}
		out = append(out, M{"op": "createDs", "name": b},
			M{"op": "store", "ds": a, "ents": []M{ent("ns3:e1", 100+i), ent("ns3:e2", 200+i)}},
			M{"op": "store", "ds": b, "ents": []M{ent("ns3:e1", 300+i), ent("ns3:e3", 400+i)}},
			M{"op": "q", "q": "list", "ds": a, "pages": []int{0}}, M{"op": "q", "q": "list", "ds": b, "pages": []int{0}},
			M{"op": "q", "q": "changes", "ds": a, "since": 0, "limits": []int{0}, "latestOnly": false},
			M{"op": "q", "q": "changes", "ds": b, "since": 0, "limits": []int{0}, "latestOnly": false},
			M{"op": "q", "q": "entity", "id": "ns3:e1", "scope": []string{b}})
		break
	}
	if crashes == 0 {
		// make sure every history has one
		for i := len(ops) - 1; i >= 2; i-- {
			if fs, ok := funcOf[gets(ops[i], "op")]; ok {
				pts := cp.Points[fs[0]]
				if len(pts) > 0 {
					out[i] = M{"op": "crash", "point": pts[c.Rng.Intn(len(pts))], "hit": 1, "inner": ops[i]}
					break
				}
			}
		}
	}
	return out
}

func init() {
	register("store-c04", func(c *Ctx) { genStore(c, "c04") })
}

// compactProbe reads what compaction must not change (listing, latest-only feed, scoped lookups of every listed id)
// and the full feed (as canonical strings; nil when it cannot be read).
func (r *histRun) compactProbe(dsName string) (probe []interface{}, feed []string) {
	defer func() {
		if p := recover(); p != nil {
			probe = append(probe, M{"panic": fmt.Sprint(p)})
			feed = nil
		}
	}()
	ds := r.h.Dsm.GetDataset(dsName)
	if ds == nil {
		return []interface{}{"nods"}, []string{}
	}
	res, err := ds.GetEntities("", 0)
	if err != nil {
		return []interface{}{"err:" + err.Error()}, nil
	}
	for _, e := range res.Entities {
		probe = append(probe, canonEntity(e))
		if one, err := r.h.Store.GetEntity(e.ID, []string{dsName}, true); err == nil {
			probe = append(probe, canonEntity(one))
		}
	}
	lo, err := ds.GetChanges(0, 0, true)
	if err != nil {
		return append(probe, "err:"+err.Error()), nil
	}
	// the latest-only feed as a multiset: removing a duplicate that was the latest version moves the entity to the
	// position of its (identical) predecessor
	los := []string{}
	for _, e := range lo.Entities {
		los = append(los, canonJSON(canonEntity(e)))
	}
	sort.Strings(los)
	probe = append(probe, los)
	all, err := ds.GetChanges(0, 0, false)
	if err != nil {
		return probe, nil
	}
	feed = []string{}
	for _, e := range all.Entities {
		feed = append(feed, canonJSON(canonEntity(e)))
	}
	return probe, feed
}

func canonJSON(v interface{}) string {
	b, _ := json.Marshal(v)
	return string(b)
}

// isSubsequence: a is obtained from b by deleting elements.
func isSubsequence(a, b []string) bool {
	i := 0
	for _, x := range b {
		if i < len(a) && a[i] == x {
			i++
		}
	}
	return i == len(a)
}
