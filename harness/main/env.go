package main

import (
	"context"
	"fmt"
	"os"
	"path/filepath"

	"github.com/DataDog/datadog-go/v5/statsd"
	"go.uber.org/zap"

	"github.com/mimiro-io/datahub/internal/conf"
	"github.com/mimiro-io/datahub/internal/jobs"
	"github.com/mimiro-io/datahub/internal/server"
)

// Hub is an in-process assembly of the real Store, DsManager, Runner and Scheduler.
type Hub struct {
	Dir    string
	Env    *conf.Config
	Store  *server.Store
	Dsm    *server.DsManager
	Runner *jobs.Runner
	Sched  *jobs.Scheduler
}

var hubCounter = 0

func quietLogger() *zap.SugaredLogger { return zap.NewNop().Sugar() }

// NewHub opens a fresh store in a new sub directory of the scratch dir.
func NewHub(c *Ctx, withJobs bool) *Hub {
	hubCounter++
	dir := filepath.Join(c.Dir, fmt.Sprintf("hub%d", hubCounter))
	return OpenHub(dir, withJobs)
}

func OpenHub(dir string, withJobs bool) *Hub {
	e := &conf.Config{
		Logger:        quietLogger(),
		StoreLocation: dir,
		RunnerConfig:  &conf.RunnerConfig{PoolIncremental: 10, PoolFull: 5, Concurrent: 0},
	}
	h := &Hub{Dir: dir, Env: e}
	h.Store = server.NewStore(e, &statsd.NoOpClient{})
	h.Dsm = server.NewDsManager(e, h.Store, server.NoOpBus())
	if withJobs {
		devNull, _ := os.Open(os.DevNull)
		old := os.Stdout
		os.Stdout = devNull
		h.Runner = jobs.NewRunner(e, h.Store, nil, server.NoOpBus(), &statsd.NoOpClient{})
		h.Sched = jobs.NewScheduler(e, h.Store, h.Dsm, h.Runner)
		os.Stdout = old
		devNull.Close()
	}
	return h
}

func (h *Hub) Close() {
	if h.Runner != nil {
		h.Runner.Stop()
		_ = h.Sched.Stop(context.Background())
	}
	_ = h.Store.Close()
}

func (h *Hub) Destroy() {
	h.Close()
	_ = os.RemoveAll(h.Dir)
}
