//go:build verif

package main

import (
	"fmt"
	"io"
	"os"
	"path/filepath"
	"syscall"
	"time"

	"github.com/mimiro-io/datahub/internal/server"
)

// C20, forced schedule "commits while a backup run is streaming": `backupStart` replaces the backup file by a
// named pipe with the smallest possible buffer and starts the real BackupManager.Run() in a goroutine; the run
// blocks in the middle of its dump as soon as the pipe is full. The operations up to `backupEnd` are executed
// while it is blocked; `backupEnd` drains the pipe into the real backup file and waits for the run to return.
// `overlap` records whether the run was really still open when the next operation started.

func (r *histRun) ensureBackupManager(op M) bool {
	if r.bm != nil {
		return true
	}
	r.backupDir = r.dir + "-backup"
	bm, err := server.VerifNewBackupManager(r.h.Store, r.backupDir, false, quietLogger())
	if err != nil {
		op["rc"] = "err"
		return false
	}
	r.bm = bm
	return true
}

// once a held-open run did not come back, later cases do not wait for one again (a seeded tree: the verdict is in already)
var c20Hung bool

func (r *histRun) backupStart(op M) {
	if c20Hung {
		op["rc"] = "hang"
		return
	}
	if !r.ensureBackupManager(op) {
		return
	}
	kv := filepath.Join(r.backupDir, "datahub-backup.kv")
	_ = os.MkdirAll(r.backupDir, 0o700)
	_ = os.Rename(kv, kv+".real")
	if err := syscall.Mkfifo(kv, 0o600); err != nil {
		_ = os.Rename(kv+".real", kv)
		op["rc"] = "err"
		return
	}
	// read end first (non-blocking open), so that the run's own open of the pipe does not wait
	pipe, err := os.OpenFile(kv, os.O_RDONLY|syscall.O_NONBLOCK, 0)
	if err != nil {
		_ = os.Remove(kv)
		_ = os.Rename(kv+".real", kv)
		op["rc"] = "err"
		return
	}
	if sc, err := pipe.SyscallConn(); err == nil {
		_ = sc.Control(func(fd uintptr) {
			_, _, _ = syscall.Syscall(syscall.SYS_FCNTL, fd, 1031 /* F_SETPIPE_SZ */, 4096)
		})
	}
	r.bkPipe = pipe
	r.bkDone = make(chan string, 1)
	bm := r.bm
	go func() {
		res := ""
		defer func() {
			if p := recover(); p != nil {
				res = "panic"
			}
			r.bkDone <- res
		}()
		bm.Run()
	}()
	select {
	case res := <-r.bkDone:
		r.bkDone <- res // the whole dump fitted into the pipe: no overlap
		op["overlap"] = false
		r.c.Count("c20.backup-held-open:fitted-into-pipe", 1)
	case <-time.After(300 * time.Millisecond):
		op["overlap"] = true
		r.c.Count("c20.backup-held-open:commits-while-streaming", 1)
	}
}

func (r *histRun) backupEnd(op M) {
	if r.bkPipe == nil {
		op["rc"] = "nostart"
		return
	}
	kv := filepath.Join(r.backupDir, "datahub-backup.kv")
	real, err := os.OpenFile(kv+".real", os.O_APPEND|os.O_WRONLY|os.O_CREATE, 0o600)
	if err != nil {
		op["rc"] = "err"
		return
	}
	copied := make(chan error, 1)
	go func() {
		_, err := io.Copy(real, r.bkPipe)
		copied <- err
	}()
	res := "hang"
	select {
	case res = <-r.bkDone:
	case <-time.After(15 * time.Second):
		c20Hung = true
		r.c.Count("c20.backup-held-open:never-returned", 1)
	}
	if res == "" {
		select {
		case err := <-copied:
			if err != nil {
				res = "copy: " + err.Error()
			}
		case <-time.After(30 * time.Second):
			res = "drain-hang"
		}
	}
	_ = r.bkPipe.Close()
	_ = real.Close()
	r.bkPipe, r.bkDone = nil, nil
	_ = os.Remove(kv)
	_ = os.Rename(kv+".real", kv)
	if res != "" {
		op["rc"] = fmt.Sprint(res)
		return
	}
	r.backupGen++
}
