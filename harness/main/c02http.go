package main

import (
	"bytes"
	"encoding/json"
	"fmt"
	"net/http"
	"net/http/httptest"
	"path/filepath"
	"strconv"
	"strings"
)

// ---------------------------------------------------------------------------------------------
// c02.http: the HTTP upload path. Each request is one POST /datasets/{ds}/entities with a JSON stream of
// entities (the handler stores them in chunks while it parses); afterwards the whole change feed is read
// through GET /datasets/{ds}/changes following the continuation tokens with a given limit.
// in  {"reqs":[[[id,c,del],…],…],"limit":n}     out {"status":[codes],"feed":[[id,c,del],…]}
// The specification is the sequential one: every entity of every request, in order, adds one feed entry
// unless it is identical to the current version of its id.

var c02HTTPHub *FullHub
var c02DsN int

func runC02HTTP(c *Ctx, in M) (out interface{}) {
	defer func() {
		if r := recover(); r != nil {
			out = M{"panic": fmt.Sprint(r)}
		}
	}()
	if c02HTTPHub == nil {
		c02HTTPHub = OpenFullHub(filepath.Join(c.Dir, "c02http"), false)
	}
	fh := c02HTTPHub
	c02DsN++
	ds := fmt.Sprintf("c02ds%d", c02DsN)
	if _, err := fh.Dsm.CreateDataset(ds, nil); err != nil {
		return M{"err": err.Error()}
	}
	status := []int{}
	for _, rq := range getl(in, "reqs") {
		var b strings.Builder
		b.WriteString(`[{"id":"@context","namespaces":{}}`)
		for _, t := range rq.([]interface{}) {
			tt := t.([]interface{})
			nested := ""
			if getb(in, "nested") {
				// a property whose value is an entity (the parser builds a nested *Entity): content follows the version's content
				nested = fmt.Sprintf(`,"http://c02/n":{"id":"http://c02/sub%d","props":{"http://c02/q":"v%d"},"refs":{}}`, int(tt[1].(float64))%3, int(tt[1].(float64)))
			}
			fmt.Fprintf(&b, `,{"id":"http://c02/e%d","deleted":%v,"props":{"http://c02/p":%d%s},"refs":{}}`, int(tt[0].(float64)), tt[2].(bool), int(tt[1].(float64)), nested)
		}
		b.WriteString("]")
		rec := httptest.NewRecorder()
		fh.Echo.ServeHTTP(rec, httptest.NewRequest(http.MethodPost, "/datasets/"+ds+"/entities", bytes.NewReader([]byte(b.String()))))
		status = append(status, rec.Code)
	}
	feed := [][]interface{}{}
	since := ""
	limit := geti(in, "limit")
	for guard := 0; guard < 10000; guard++ {
		url := "/datasets/" + ds + "/changes?limit=" + strconv.Itoa(limit)
		if limit == 0 {
			url = "/datasets/" + ds + "/changes?x=1"
		}
		if since != "" {
			url += "&since=" + since
		}
		rec := httptest.NewRecorder()
		fh.Echo.ServeHTTP(rec, httptest.NewRequest(http.MethodGet, url, nil))
		if rec.Code != 200 {
			return M{"err": fmt.Sprintf("GET changes: %d %s", rec.Code, clip(rec.Body.String(), 100))}
		}
		var arr []map[string]interface{}
		if err := json.Unmarshal(rec.Body.Bytes(), &arr); err != nil {
			return M{"err": "unparseable feed: " + err.Error()}
		}
		n := 0
		next := ""
		for _, e := range arr {
			id, _ := e["id"].(string)
			switch id {
			case "@context":
				continue
			case "@continuation":
				next, _ = e["token"].(string)
				continue
			}
			n++
			num := 0
			if i := strings.LastIndex(id, "e"); i >= 0 {
				num, _ = strconv.Atoi(id[i+1:])
			}
			cval := 0
			if props, ok := e["props"].(map[string]interface{}); ok {
				for _, v := range props {
					if f, ok := v.(float64); ok {
						cval = int(f)
					}
				}
			}
			del, _ := e["deleted"].(bool)
			feed = append(feed, []interface{}{num, cval, del})
		}
		if n == 0 || limit == 0 || next == "" || next == since {
			break
		}
		since = next
	}
	_ = fh.Dsm.DeleteDataset(ds)
	return M{"status": status, "feed": feed}
}

func genC02HTTP(c *Ctx) {
	n := 60
	if c.Thorough {
		n = 800
	}
	for i := 0; i < n; i++ {
		reqs := [][][]interface{}{}
		last := map[int][2]int{}
		content := 10
		for r := 0; r < 1+c.Rng.Intn(3); r++ {
			// sizes around the handler's chunk size (10): 1..45 entities per request
			k := []int{1, 5, 9, 10, 11, 19, 20, 21, 25, 30, 31, 45}[c.Rng.Intn(12)]
			pool := 3 + c.Rng.Intn(12)
			rq := [][]interface{}{}
			for j := 0; j < k; j++ {
				id := c.Rng.Intn(pool)
				prev, had := last[id]
				var cc, del int
				switch x := c.Rng.Intn(10); {
				case had && x == 0:
					cc, del = prev[0], prev[1]
				case had && x == 1:
					cc, del = prev[0], 1-prev[1]
				default:
					content++
					cc, del = content, 0
				}
				last[id] = [2]int{cc, del}
				rq = append(rq, []interface{}{id, cc, del == 1})
			}
			reqs = append(reqs, rq)
		}
		c.Do("c02.http", M{"reqs": reqs, "limit": []int{0, 1, 3, 7, 100}[c.Rng.Intn(5)], "nested": c.Rng.Intn(2) == 0})
	}
}

func init() {
	register("c02http", genC02HTTP)
	registerKind("c02.http", runC02HTTP)
}
