package main

import (
	"crypto/rand"
	"crypto/rsa"
	"fmt"
	"net/http"
	"net/http/httptest"
	"path/filepath"
	"sort"
	"strings"
	"time"

	"github.com/golang-jwt/jwt/v4"

	"github.com/mimiro-io/datahub/internal/security"
	"github.com/mimiro-io/datahub/internal/web/middlewares"
)

var c16 *FullHub
var c16Other *rsa.PrivateKey

func c16Hub(c *Ctx) *FullHub {
	if c16 == nil {
		c16 = OpenFullHub(filepath.Join(c.Dir, "c16"), true)
		c16Other, _ = rsa.GenerateKey(rand.Reader, 2048)
	}
	return c16
}

func toAcl(l []interface{}) []*security.AccessControl {
	acl := []*security.AccessControl{}
	for _, x := range l {
		m := x.(map[string]interface{})
		acl = append(acl, &security.AccessControl{Resource: gets(m, "r"), Action: gets(m, "a"), Deny: getb(m, "d")})
	}
	return acl
}

// c16.acl: the real doAclCheck for one (method, path, acl).
func runC16Acl(c *Ctx, in M) (out interface{}) {
	defer func() {
		if r := recover(); r != nil {
			out = "panic:" + fmt.Sprint(r)
		}
	}()
	h := c16Hub(c)
	sub := "client-acl"
	h.Core.SetClientAccessControls(sub, toAcl(getl(in, "acl")))
	roles := []string{}
	if getb(in, "admin") {
		roles = append(roles, "admin")
	}
	claims := &security.CustomClaims{Roles: roles}
	claims.Subject = sub
	tok := &jwt.Token{Claims: claims}
	if err := middlewares.VerifDoAclCheck(gets(in, "method"), gets(in, "path"), tok, h.Core); err != nil {
		return "deny"
	}
	return "allow"
}

func c16Token(h *FullHub, kind string, sub string) string {
	node := "node:" + h.Core.NodeInfo.NodeID
	claims := security.CustomClaims{}
	claims.RegisteredClaims = jwt.RegisteredClaims{
		ExpiresAt: jwt.NewNumericDate(time.Now().Add(10 * time.Minute)),
		Issuer:    node, Audience: jwt.ClaimStrings{node}, Subject: sub,
	}
	key := h.Core.GetActiveKeyPair().PrivateKey
	var method jwt.SigningMethod = jwt.SigningMethodRS256
	switch kind {
	case "absent":
		return ""
	case "malformed":
		return "Bearer abc.def.ghi"
	case "expired":
		claims.ExpiresAt = jwt.NewNumericDate(time.Now().Add(-time.Minute))
	case "wrongkey":
		key = c16Other
	case "wrongiss":
		claims.Issuer = "node:other"
	case "wrongaud":
		claims.Audience = jwt.ClaimStrings{"node:other"}
	case "rs384":
		method = jwt.SigningMethodRS384
	case "hs256pub":
		pub, _ := security.ExportRsaPublicKeyAsPem(&key.PublicKey)
		s, _ := jwt.NewWithClaims(jwt.SigningMethodHS256, claims).SignedString([]byte(pub))
		return "Bearer " + s
	case "none":
		s, _ := jwt.NewWithClaims(jwt.SigningMethodNone, claims).SignedString(jwt.UnsafeAllowNoneSignatureType)
		return "Bearer " + s
	case "admin":
		claims.Roles = []string{"admin"}
	case "client":
	}
	s, err := jwt.NewWithClaims(method, claims).SignedString(key)
	if err != nil {
		panic(err)
	}
	return "Bearer " + s
}

// c16.http: one request through the complete echo router with all middlewares.
func runC16Http(c *Ctx, in M) (out interface{}) {
	defer func() {
		if r := recover(); r != nil {
			out = "panic:" + fmt.Sprint(r)
		}
	}()
	h := c16Hub(c)
	sub := "client-http"
	h.Core.SetClientAccessControls(sub, toAcl(getl(in, "acl")))
	req := httptest.NewRequest(gets(in, "method"), gets(in, "path"), strings.NewReader(""))
	if t := c16Token(h, gets(in, "token"), sub); t != "" {
		req.Header.Set("Authorization", t)
	}
	rec := httptest.NewRecorder()
	h.Echo.ServeHTTP(rec, req)
	switch rec.Code {
	case http.StatusUnauthorized:
		return "401"
	case http.StatusForbidden:
		return "403"
	}
	return "served"
}

func c16Routes(h *FullHub) [][2]string {
	seen := map[string]bool{}
	res := [][2]string{}
	for _, r := range h.Echo.Routes() {
		p := r.Path
		parts := strings.Split(p, "/")
		for i, s := range parts {
			if strings.HasPrefix(s, ":") {
				parts[i] = "zz"
			}
			if s == "*" {
				parts[i] = "x"
			}
		}
		p = strings.Join(parts, "/")
		k := r.Method + " " + p
		if !seen[k] {
			seen[k] = true
			res = append(res, [2]string{r.Method, p})
		}
	}
	sort.Slice(res, func(i, j int) bool { return res[i][0]+res[i][1] < res[j][0]+res[j][1] })
	return res
}

func genC16(c *Ctx) {
	h := c16Hub(c)
	methods := []string{"GET", "HEAD", "OPTIONS", "POST", "PUT", "PATCH", "DELETE"}
	paths := []string{"/datasets/a", "/datasets/a/changes", "/datasets/ab", "/datasets", "/jobs", "/job/x/run", "/"}
	resources := []string{"/datasets/a", "/datasets/a*", "/datasets/a/*", "/datasets*", "/*", "/jobs", "/job/x/run", "/datasets/a/changes", "*", ""}
	entries := []M{}
	for _, r := range resources {
		for _, a := range []string{"read", "write"} {
			for _, d := range []bool{false, true} {
				entries = append(entries, M{"r": r, "a": a, "d": d})
			}
		}
	}
	// exhaustive: all ACL subsets of size <= 2 (thorough: a third entry sampled) x methods x paths
	n := 0
	for _, m := range methods {
		for _, p := range paths {
			c.Do("c16.acl", M{"method": m, "path": p, "acl": []M{}, "admin": false})
			c.Do("c16.acl", M{"method": m, "path": p, "acl": []M{}, "admin": true})
			for i := range entries {
				c.Do("c16.acl", M{"method": m, "path": p, "acl": []M{entries[i]}, "admin": false})
				for j := range entries {
					n++
					if !c.Thorough && n%7 != 0 {
						continue
					}
					c.Do("c16.acl", M{"method": m, "path": p, "acl": []M{entries[i], entries[j]}, "admin": false})
					if c.Thorough && n%5 == 0 {
						k := c.Rng.Intn(len(entries))
						c.Do("c16.acl", M{"method": m, "path": p, "acl": []M{entries[i], entries[j], entries[k]}, "admin": false})
					}
				}
			}
		}
	}
	// the registered router: every route x token defect x a few ACLs
	tokens := []string{"absent", "malformed", "expired", "wrongkey", "wrongiss", "wrongaud", "rs384", "hs256pub", "none", "admin", "client"}
	routes := c16Routes(h)
	c.Count("routes", len(routes))
	for _, r := range routes {
		for _, t := range tokens {
			acls := [][]M{{}}
			if t == "client" {
				acls = [][]M{{}, {{"r": r[1], "a": "read", "d": false}}, {{"r": r[1], "a": "write", "d": false}},
					{{"r": "/*", "a": "write", "d": false}, {"r": r[1], "a": "write", "d": true}},
					{{"r": "/*", "a": "read", "d": false}}, {{"r": "/unrelated*", "a": "write", "d": false}}}
			}
			for _, acl := range acls {
				c.Do("c16.http", M{"method": r[0], "path": r[1], "token": t, "acl": acl, "registered": true})
			}
		}
	}
	// methods the router does not register, on protected paths
	for _, m := range []string{"PATCH", "PUT", "DELETE", "POST", "GET"} {
		for _, p := range []string{"/datasets/zz", "/jobs", "/healthz", "/apix", "/security/tokenx", "/static/x", "/health"} {
			for _, t := range []string{"absent", "client", "admin"} {
				reg := false
				for _, r := range routes {
					if r[0] == m && r[1] == p {
						reg = true
					}
				}
				c.Do("c16.http", M{"method": m, "path": p, "token": t, "acl": []M{{"r": "/datasets*", "a": "read", "d": false}}, "registered": reg})
			}
		}
	}
}

var c16SeqN int

// c16.seq: a sequence of requests by ONE client through the complete router, the ACL set once before the first
// request and optionally replaced in the middle: the decision for a request must not depend on what the same
// client was served before (no grant may be remembered across methods, paths or ACL changes).
func runC16Seq(c *Ctx, in M) (out interface{}) {
	defer func() {
		if r := recover(); r != nil {
			out = "panic:" + fmt.Sprint(r)
		}
	}()
	h := c16Hub(c)
	c16SeqN++
	sub := fmt.Sprintf("client-seq-%d", c16SeqN)
	h.Core.SetClientAccessControls(sub, toAcl(getl(in, "acl")))
	tok := c16Token(h, gets(in, "token"), sub)
	res := []interface{}{}
	for i, x := range getl(in, "reqs") {
		r := x.([]interface{})
		if ch := getm(in, "change"); ch != nil && geti(ch, "at") == i {
			if getb(ch, "delete") {
				h.Core.DeleteClientAccessControls(sub)
			} else {
				h.Core.SetClientAccessControls(sub, toAcl(getl(ch, "acl")))
			}
		}
		req := httptest.NewRequest(r[0].(string), r[1].(string), strings.NewReader(""))
		if tok != "" {
			req.Header.Set("Authorization", tok)
		}
		rec := httptest.NewRecorder()
		h.Echo.ServeHTTP(rec, req)
		switch rec.Code {
		case http.StatusUnauthorized:
			res = append(res, "401")
		case http.StatusForbidden:
			res = append(res, "403")
		default:
			res = append(res, "served")
		}
	}
	h.Core.DeleteClientAccessControls(sub)
	return res
}

func genC16Seq(c *Ctx) {
	h := c16Hub(c)
	routes := c16Routes(h)
	byPath := map[string][]string{}
	paths := []string{}
	for _, r := range routes {
		if strings.HasPrefix(r[1], "/datasets") || strings.HasPrefix(r[1], "/job") || strings.HasPrefix(r[1], "/query") || strings.HasPrefix(r[1], "/namespaces") {
			if len(byPath[r[1]]) == 0 {
				paths = append(paths, r[1])
			}
			byPath[r[1]] = append(byPath[r[1]], r[0])
		}
	}
	n := map[string]int{"quick": 300, "thorough": 3000}[c.Tier]
	if n == 0 {
		n = 100
	}
	acl := func(p string) []M {
		switch c.Rng.Intn(6) {
		case 0:
			return []M{{"r": p, "a": "read", "d": false}}
		case 1:
			return []M{{"r": p, "a": "write", "d": false}}
		case 2:
			return []M{{"r": "/*", "a": "read", "d": false}}
		case 3:
			return []M{{"r": "/*", "a": "write", "d": false}, {"r": p, "a": "write", "d": true}}
		case 4:
			return []M{{"r": p + "*", "a": "read", "d": false}, {"r": "/jobs", "a": "write", "d": false}}
		}
		return []M{}
	}
	for i := 0; i < n; i++ {
		// a few paths, every registered method of each, in random order, with repeats
		ps := []string{paths[c.Rng.Intn(len(paths))], paths[c.Rng.Intn(len(paths))]}
		reqs := [][]string{}
		for k := 0; k < 4+c.Rng.Intn(8); k++ {
			p := ps[c.Rng.Intn(2)]
			ms := byPath[p]
			reqs = append(reqs, []string{ms[c.Rng.Intn(len(ms))], p})
		}
		in := M{"acl": acl(ps[0]), "token": "client", "reqs": reqs}
		if c.Rng.Intn(3) == 0 {
			ch := M{"at": 1 + c.Rng.Intn(len(reqs)-1)}
			if c.Rng.Intn(3) == 0 {
				ch["delete"] = true
			} else {
				ch["acl"] = acl(ps[c.Rng.Intn(2)])
			}
			in["change"] = ch
		}
		c.Do("c16.seq", in)
	}
}

var c16PersistN int

// c16.persist: client registrations and ACLs through ServiceCore, with restarts (a new ServiceCore
// on the same security directory).
func runC16Persist(c *Ctx, in M) (out interface{}) {
	defer func() {
		if r := recover(); r != nil {
			out = "panic:" + fmt.Sprint(r)
		}
	}()
	c16PersistN++
	dir := filepath.Join(c.Dir, fmt.Sprintf("c16p-%d", c16PersistN))
	writeNodeKey(dir)
	env := *c16Hub(c).Env
	env.SecurityStorageLocation = dir
	core := security.NewServiceCore(&env)
	res := []M{}
	for _, o := range getl(in, "ops") {
		op := o.([]interface{})
		switch op[0].(string) {
		case "register":
			core.RegisterClient(&security.ClientInfo{ClientID: op[1].(string)})
		case "unregister":
			core.RegisterClient(&security.ClientInfo{ClientID: op[1].(string), Deleted: true})
		case "setacl":
			core.SetClientAccessControls(op[1].(string), toAcl(op[2].([]interface{})))
		case "delacl":
			core.DeleteClientAccessControls(op[1].(string))
		case "restart":
			core = security.NewServiceCore(&env)
		}
		cl := []string{}
		for k := range core.GetClients() {
			cl = append(cl, k)
		}
		sort.Strings(cl)
		all := core.GetAllAccessControls()
		ks := []string{}
		for k := range all {
			ks = append(ks, k)
		}
		sort.Strings(ks)
		acls := []interface{}{}
		for _, k := range ks {
			l := []M{}
			for _, ac := range all[k] {
				l = append(l, M{"r": ac.Resource, "a": ac.Action, "d": ac.Deny})
			}
			acls = append(acls, []interface{}{k, l})
		}
		res = append(res, M{"clients": cl, "acls": acls})
	}
	return res
}

func genC16Persist(c *Ctx) {
	ids := []string{"c1", "c2", "c3"}
	n := 150
	if c.Thorough {
		n = 2500
	}
	for i := 0; i < n; i++ {
		ops := [][]interface{}{}
		for k := 0; k < 3+c.Rng.Intn(9); k++ {
			id := ids[c.Rng.Intn(len(ids))]
			switch r := c.Rng.Intn(10); {
			case r < 2:
				ops = append(ops, []interface{}{"register", id})
			case r < 4:
				ops = append(ops, []interface{}{"unregister", id})
			case r < 7:
				acl := []M{}
				for a := 0; a < 1+c.Rng.Intn(2); a++ {
					acl = append(acl, M{"r": []string{"/datasets/a", "/datasets*", "/jobs"}[c.Rng.Intn(3)], "a": []string{"read", "write"}[c.Rng.Intn(2)], "d": c.Rng.Intn(4) == 0})
				}
				ops = append(ops, []interface{}{"setacl", id, acl})
			case r < 8:
				ops = append(ops, []interface{}{"delacl", id})
			default:
				ops = append(ops, []interface{}{"restart"})
			}
		}
		c.Do("c16.persist", M{"ops": ops})
	}
}

func init() {
	register("c16p", genC16Persist)
	registerKind("c16.persist", runC16Persist)
	register("c16", genC16)
	register("c16seq", genC16Seq)
	registerKind("c16.acl", runC16Acl)
	registerKind("c16.http", runC16Http)
	registerKind("c16.seq", runC16Seq)
}
