package main

import (
	"math/rand"
	"encoding/base64"
	"encoding/json"
	"fmt"
	"os"
	"path/filepath"
	"sort"
	"strings"

	"github.com/dgraph-io/badger/v4"

	"github.com/mimiro-io/datahub/internal/server"
	dsvc "github.com/mimiro-io/datahub/internal/service/dataset"
)

// ---------------------------------------------------------------------------------------------
// store.hist: a history of writes, dataset management and queries against a fresh real hub.
// The runner fills in what the real code chose (commit times, internal ids, dataset ids) so that
// the model takes them as inputs, and records the canonicalised answer of every query.

const storeNS = "http://s/"

// restored hubs (C20): the backup location loaded into a fresh store
type restored struct {
	h   *Hub
	dir string
}

type histRun struct {
	bm        *server.BackupManager
	backupDir string
	backupGen int
	rest      *restored
	restGen   int
	c         *Ctx
	h         *Hub
	dir       string
	times     []int64 // commit time per op index (0 = none)
	rids      map[string]uint64
	dsids     map[string]uint32
	conts     map[string][]*server.RelatedFrom // saved query continuations by label
	withJobs  bool
	msources  map[string]*msJob // C18: the MultiSource of a job lives as long as the hub (like a scheduled job's pipeline)
	bkDone    chan string       // C20: a backup run that is held open on a pipe (backupStart … backupEnd)
	bkPipe    *os.File
	msOwed    map[string]bool // C18: jobs whose last run was interrupted
	ctxStore  *server.Store // the contextual store of a job with a JavaScript transform
	ctxOf     *Hub
}

func toEntity(m M) *server.Entity {
	e := server.NewEntity(gets(m, "id"), 0)
	e.IsDeleted = getb(m, "deleted")
	for k, v := range getm(m, "props") {
		e.Properties[k] = v
	}
	for k, v := range getm(m, "refs") {
		e.References[k] = v
	}
	return e
}

func canonEntity(e *server.Entity) interface{} {
	if e == nil {
		return nil
	}
	props := e.Properties
	if props == nil {
		props = map[string]interface{}{}
	}
	refs := e.References
	if refs == nil {
		refs = map[string]interface{}{}
	}
	// round trip through JSON so that []string / *Entity / ints look like what a client gets
	b, _ := json.Marshal(M{"id": e.ID, "deleted": e.IsDeleted, "props": props, "refs": refs})
	var v interface{}
	_ = json.Unmarshal(b, &v)
	stripInternal(v)
	return v
}

// stripInternal removes internalId / recorded of nested entities (never compared).
func stripInternal(v interface{}) {
	switch x := v.(type) {
	case map[string]interface{}:
		delete(x, "internalId")
		delete(x, "recorded")
		for _, c := range x {
			stripInternal(c)
		}
	case []interface{}:
		for _, c := range x {
			stripInternal(c)
		}
	}
}

func (r *histRun) noteIDs(op M, ents []interface{}) {
	newids, _ := op["newids"].(M)
	if newids == nil {
		newids = M{}
		op["newids"] = newids
	}
	// identifiers get their internal id lazily (e.g. the refs of a deleted version are only
	// asserted when the next version is diffed against it): re-check everything mentioned so far
	note := func(u string) {
		if _, ok := r.rids[u]; !ok {
			r.rids[u] = 0
		}
	}
	defer func() {
		for u, id := range r.rids {
			if id != 0 {
				continue
			}
			if nid, ok := r.h.Store.VerifIDForURI(u); ok {
				r.rids[u] = nid
				newids[u] = nid
			}
		}
	}()
	for _, x := range ents {
		m := x.(map[string]interface{})
		note(gets(m, "id"))
		for p, v := range getm(m, "refs") {
			note(p)
			switch t := v.(type) {
			case string:
				note(t)
			case []interface{}:
				for _, s := range t {
					if str, ok := s.(string); ok {
						note(str)
					}
				}
			}
		}
	}
}

func (r *histRun) at(q M) int64 {
	a := getm(q, "at")
	if a == nil {
		return 0
	}
	k := geti(a, "op")
	if k < 0 || k >= len(r.times) || r.times[k] == 0 {
		return 0
	}
	return r.times[k] + int64(geti(a, "delta"))
}

func strs(l []interface{}) []string {
	r := []string{}
	for _, v := range l {
		r = append(r, v.(string))
	}
	return r
}

func (r *histRun) query(q M, idx int) interface{} {
	st := r.h.Store
	switch gets(q, "q") {
	case "list":
		ds := r.h.Dsm.GetDataset(gets(q, "ds"))
		if ds == nil {
			return M{"err": "nods"}
		}
		pages := [][]interface{}{}
		tokens := []string{}
		from := ""
		for _, p := range getl(q, "pages") {
			res, err := ds.GetEntities(from, int(p.(float64)))
			if err != nil {
				return M{"err": err.Error()}
			}
			page := []interface{}{}
			for _, e := range res.Entities {
				page = append(page, canonEntity(e))
			}
			pages = append(pages, page)
			from = res.ContinuationToken
			tok := ""
			if from != "" {
				kb, _ := base64.StdEncoding.DecodeString(from)
				if len(kb) == 14 {
					tok = st.VerifURIForID(beUint64(kb[6:]))
				}
			}
			tokens = append(tokens, tok)
		}
		return M{"pages": pages, "tokens": tokens}
	case "changes":
		ds := r.h.Dsm.GetDataset(gets(q, "ds"))
		if ds == nil {
			return M{"err": "nods"}
		}
		since := uint64(geti(q, "since"))
		pages := [][]interface{}{}
		tokens := []uint64{}
		for _, p := range getl(q, "limits") {
			res, err := ds.GetChanges(since, int(p.(float64)), getb(q, "latestOnly"))
			if err != nil {
				return M{"err": err.Error()}
			}
			page := []interface{}{}
			for _, e := range res.Entities {
				page = append(page, canonEntity(e))
			}
			pages = append(pages, page)
			since = res.NextToken
			tok := since
			if getb(q, "rank") {
				// after a crash the sequence resumes beyond its lease: report a token as the number of
				// entries below it (what it means), not as the raw position
				all, err1 := ds.GetChanges(0, 0, false)
				rest, err2 := ds.GetChanges(since, 0, false)
				if err1 != nil || err2 != nil {
					return M{"err": "rank"}
				}
				tok = uint64(len(all.Entities) - len(rest.Entities))
			}
			tokens = append(tokens, tok)
		}
		return M{"pages": pages, "tokens": tokens}
	case "entity":
		scope := strs(getl(q, "scope"))
		at := r.at(q)
		var e *server.Entity
		var err error
		if at == 0 {
			e, err = st.GetEntity(gets(q, "id"), scope, true)
		} else {
			rid, ok := st.VerifIDForURI(gets(q, "id"))
			if !ok {
				return nil
			}
			e, err = st.GetEntityAtPointInTimeWithInternalID(rid, at, st.DatasetsToInternalIDs(scope), true)
		}
		if err != nil {
			return M{"err": err.Error()}
		}
		return canonEntity(e)
	case "context":
		ds := r.h.Dsm.GetDataset(gets(q, "ds"))
		if ds == nil {
			return M{"err": "nods"}
		}
		// the namespaces a reader of this dataset is handed: the dataset's public namespaces, or all of them
		if len(ds.PublicNamespaces) == 0 {
			return M{"public": nil}
		}
		vals := []string{}
		for _, v := range ds.GetContext().Namespaces {
			vals = append(vals, v)
		}
		sort.Strings(vals)
		return M{"public": vals}
	case "catalogue":
		names := []string{}
		for _, n := range r.h.Dsm.GetDatasetNames() {
			names = append(names, n.Name)
		}
		sort.Strings(names)
		metas := M{}
		for _, n := range strs(getl(q, "names")) {
			e, err := st.GetEntity("ns0:"+n, []string{"core.Dataset"}, true)
			if err != nil || e == nil {
				metas[n] = nil
				continue
			}
			m := M{"deleted": e.IsDeleted}
			if !e.IsDeleted {
				m["name"] = e.Properties["ns0:name"]
				m["items"] = e.Properties["ns0:items"]
				if pn, ok := e.Properties["ns0:publicNamespaces"]; ok {
					m["publicNamespaces"] = pn
				}
			}
			metas[n] = m
		}
		return M{"names": names, "meta": jsonRoundTrip(metas)}
	case "related":
		scope := strs(getl(q, "scope"))
		limit := geti(q, "limit")
		var from []*server.RelatedFrom
		var err error
		if lbl := gets(q, "cont"); lbl != "" {
			from = r.conts[lbl]
			if from == nil {
				return M{"rel": []interface{}{}, "done": true, "nocont": true}
			}
		} else {
			at := r.at(q)
			if at == 0 {
				at = 1<<62 - 1
			}
			from, err = st.ToRelatedFrom([]string{gets(q, "start")}, gets(q, "pred"), getb(q, "inverse"), scope, at)
			if err != nil || from == nil || (len(from) > 0 && from[0] == nil) {
				return M{"rel": []interface{}{}, "done": true, "unknown": true}
			}
		}
		page := func(from []*server.RelatedFrom) ([][]string, []*server.RelatedFrom, error) {
			res, err := st.GetManyRelatedEntitiesAtTime(from, limit, true)
			if err != nil {
				return nil, nil, err
			}
			rel := [][]string{}
			for _, x := range res.Relations {
				id := ""
				if x.RelatedEntity != nil {
					id = x.RelatedEntity.ID
				}
				rel = append(rel, []string{x.PredicateURI, id})
			}
			// one page keeps its order only up to map iteration: sort
			sort.Slice(rel, func(i, j int) bool { return rel[i][0]+"|"+rel[i][1] < rel[j][0]+"|"+rel[j][1] })
			return rel, res.Cont, nil
		}
		if mp := geti(q, "maxPages"); mp > 0 {
			// follow the continuations in one go
			pages := [][][]string{}
			for i := 0; i < mp; i++ {
				rel, cont, err := page(from)
				if err != nil {
					return M{"err": err.Error()}
				}
				pages = append(pages, rel)
				from = cont
				if len(cont) == 0 {
					break
				}
			}
			if getb(q, "inverse") {
				// the inverse scan emits in Go map order and its page boundaries are soft: compare what
				// all pages returned together (duplicates kept), not the page structure
				union := [][]string{}
				for _, p := range pages {
					union = append(union, p...)
				}
				sort.Slice(union, func(i, j int) bool { return union[i][0]+"|"+union[i][1] < union[j][0]+"|"+union[j][1] })
				return M{"union": union}
			}
			return M{"pages": pages, "done": len(from) == 0}
		}
		rel, cont, err := page(from)
		if err != nil {
			return M{"err": err.Error()}
		}
		if save := gets(q, "save"); save != "" {
			r.conts[save] = cont
		}
		if getb(q, "inverse") {
			return M{"rel": rel} // the continuation of the inverse scan is not an observable of the property
		}
		return M{"rel": rel, "done": len(cont) == 0}
	}
	return M{"err": "unknown query"}
}

func jsonRoundTrip(v interface{}) interface{} {
	b, _ := json.Marshal(v)
	var o interface{}
	_ = json.Unmarshal(b, &o)
	return o
}

// queryRestored answers a query on a hub restored from the backup location (badger Load of the
// backup file into an empty directory, then a normal store start).
func (r *histRun) queryRestored(q M, idx int) interface{} {
	if r.backupGen == 0 {
		return M{"err": "nobackup"}
	}
	if r.rest == nil || r.restGen != r.backupGen {
		if r.rest != nil {
			r.rest.h.Destroy()
			r.rest = nil
		}
		rdir := fmt.Sprintf("%s-restore%d", r.dir, r.backupGen)
		_ = os.RemoveAll(rdir)
		db, err := badger.Open(badger.DefaultOptions(rdir).WithLogger(nil))
		if err != nil {
			return M{"err": "open: " + err.Error()}
		}
		f, err := os.Open(filepath.Join(r.backupDir, "datahub-backup.kv"))
		if err != nil {
			db.Close()
			return M{"err": "nofile"}
		}
		err = db.Load(f, 16)
		f.Close()
		db.Close()
		if err != nil {
			return M{"err": "load: " + err.Error()}
		}
		r.rest = &restored{h: OpenHub(rdir, false), dir: rdir}
		r.restGen = r.backupGen
	}
	saved := r.h
	r.h = r.rest.h
	defer func() { r.h = saved }()
	return r.query(q, idx)
}

func beUint64(b []byte) uint64 {
	var v uint64
	for i := 0; i < 8; i++ {
		v = v<<8 | uint64(b[i])
	}
	return v
}

var storeRunN int

// cleanObserved removes what an earlier run wrote into an operation (a replayed or corpus case carries it).
func cleanObserved(o interface{}) {
	m, ok := o.(map[string]interface{})
	if !ok {
		return
	}
	for _, k := range []string{"rc", "errtext", "t", "newids", "raced", "order", "deadlock", "faulted", "emitted", "tokAfter", "emittedNow", "overlap", "landed", "died", "duringRan"} {
		delete(m, k)
	}
	if in, ok := m["inner"]; ok {
		cleanObserved(in)
	}
	if rc, ok := m["race"].(map[string]interface{}); ok {
		cleanObserved(rc["inner"])
	}
	if du, ok := m["during"].(map[string]interface{}); ok {
		cleanObserved(du["inner"])
	}
}

// runStoreHist executes the history; returns the augmented input and the observations.
func runStoreHist(c *Ctx, in M) (M, interface{}) {
	storeRunN++
	dir := filepath.Join(c.Dir, fmt.Sprintf("st%d", storeRunN))
	r := &histRun{c: c, dir: dir, rids: map[string]uint64{}, dsids: map[string]uint32{}, conts: map[string][]*server.RelatedFrom{}}
	r.withJobs = getb(in, "jobs")
	r.h = OpenHub(dir, r.withJobs)
	defer func() {
		r.h.Destroy()
		if r.rest != nil {
			r.rest.h.Destroy()
		}
		if r.backupDir != "" {
			_ = os.RemoveAll(r.backupDir)
		}
	}()
	r.h.Store.NamespaceManager.AssertPrefixMappingForExpansion(storeNS) // ns3
	r.h.Store.NamespaceManager.AssertPrefixMappingForExpansion("http://t/") // ns4, ns5: namespaces a dataset may publish
	r.h.Store.NamespaceManager.AssertPrefixMappingForExpansion("http://u/")
	ops := getl(in, "ops")
	for _, o := range ops {
		cleanObserved(o)
	}
	r.times = make([]int64, len(ops))
	obs := []interface{}{}
	var panicked interface{}
	func() {
		defer func() {
			if p := recover(); p != nil {
				panicked = fmt.Sprint(p)
			}
		}()
		for i, o := range ops {
			op := o.(map[string]interface{})
			switch gets(op, "op") {
			case "createDs", "store", "txn", "deleteDs", "renameDs", "setPublicNs", "compact":
				r.mutate(i, op)
				if _, raced := op["race"]; raced && gets(op, "op") != "compact" {
					rcOf := func(o M) string {
						if rc := gets(o, "rc"); rc != "" {
							return rc
						}
						return "ok"
					}
					ro := M{"raced": getb(op, "raced"), "deadlock": getb(op, "deadlock"), "outer": rcOf(op), "inner": "-"}
					if getb(op, "raced") && !getb(op, "deadlock") {
						ro["inner"] = rcOf(op["race"].(map[string]interface{})["inner"].(map[string]interface{}))
					}
					obs = append(obs, ro)
					if getb(op, "deadlock") {
						return // two writers are parked for good: nothing after this can be trusted to return
					}
				}
			case "msrun":
				obs = append(obs, r.msrun(op))
			case "crash":
				extra := r.crash(i, op)
				o := M{"landed": getb(op, "landed")}
				for k, v := range extra {
					o[k] = v
				}
				obs = append(obs, o)
			case "dup":
				ds := r.h.Dsm.GetDataset(gets(op, "ds"))
				if ds == nil {
					op["rc"] = "nods"
					continue
				}
				// re-post the CURRENT version of an entity unchanged, bypassing the write-time check
				cur, err := r.h.Store.GetEntity(gets(op, "id"), []string{gets(op, "ds")}, true)
				if err != nil || cur == nil || cur.Recorded == 0 {
					op["rc"] = "nover"
					continue
				}
				cur.Properties = jsonRoundTrip(cur.Properties).(map[string]interface{})
				t, err := ds.VerifInjectDuplicate(cur)
				if err != nil {
					op["rc"] = "err"
				} else {
					r.times[i] = int64(t)
					op["t"] = t
				}
			case "backup":
				if !r.ensureBackupManager(op) {
					continue
				}
				func() {
					defer func() {
						if p := recover(); p != nil {
							op["rc"] = "panic"
						}
					}()
					r.bm.Run()
				}()
				r.backupGen++
			case "backupStart":
				r.backupStart(op)
			case "backupEnd":
				r.backupEnd(op)
			case "gc":
				gc := server.NewGarbageCollector(r.h.Store, r.h.Env)
				if err := gc.Cleandeleted(); err != nil {
					op["rc"] = "err"
				}
			case "reopen":
				r.h.Close()
				r.h = OpenHub(dir, r.withJobs)
				r.msources = nil // a restarted hub builds its jobs anew
				if r.bm != nil { // a restarted hub builds a new backup manager (cursor reloaded from the location)
					bm, err := server.VerifNewBackupManager(r.h.Store, r.backupDir, false, quietLogger())
					if err == nil {
						r.bm = bm
					}
				}
			case "q":
				if gets(op, "on") == "restore" {
					obs = append(obs, r.queryRestored(op, i))
				} else {
					obs = append(obs, r.query(op, i))
				}
			}
		}
	}()
	if panicked != nil {
		obs = append(obs, M{"panic": panicked})
	}
	return in, obs
}

// mutate executes one state-changing operation (createDs, store, txn, deleteDs, renameDs) against the
// real hub and fills in what the real code chose (commit time, dataset id, result class).
func (r *histRun) mutate(i int, op M) {
	switch gets(op, "op") {
	case "createDs":
		var cfg *server.CreateDatasetConfig
		if pn := getl(op, "publicNamespaces"); len(pn) > 0 {
			cfg = &server.CreateDatasetConfig{PublicNamespaces: strs(pn)}
		}
		ds, err := r.h.Dsm.CreateDataset(gets(op, "name"), cfg)
		if err == nil {
			r.dsids[gets(op, "name")] = ds.InternalID
			op["dsid"] = ds.InternalID
		}
	case "store", "txn":
		if race, ok := op["race"].(map[string]interface{}); ok {
			r.storeRaced(i, op, race)
			return
		}
		r.rawWrite(op)
		r.noteWrite(i, op)
	case "compact":
		cw := dsvc.NewCompactor(r.h.Store, r.h.Dsm, quietLogger())
		if race, ok := op["race"].(map[string]interface{}); ok {
			// forced schedule (C12): a writer commits between the compactor's snapshot and its n-th flush
			inner := race["inner"].(map[string]interface{})
			ran := false
			server.VerifAtPoint("flushDeletes:0:begin", geti(race, "hit"), func() {
				ran = true
				r.mutate(i, inner)
			})
			defer func() {
				server.VerifAtPoint("", 0, nil)
				op["raced"] = ran
				if ran {
					if t, ok := inner["t"]; ok {
						op["t"] = t // the commit time of this history step is the writer's
					}
					r.c.Count("c12.writer-inside-compaction", 1)
				}
			}()
		}
		if err := cw.VerifCompact(gets(op, "ds"), geti(op, "threshold")); err != nil {
			op["rc"] = "err"
		}
	case "setPublicNs":
		// what a client does to change a dataset's public namespaces: re-post its entity in core.Dataset
		name := gets(op, "name")
		core := r.h.Dsm.GetDataset("core.Dataset")
		e, err := r.h.Store.GetEntity("ns0:"+name, []string{"core.Dataset"}, true)
		if r.h.Dsm.GetDataset(name) == nil || core == nil || err != nil || e == nil || e.Recorded == 0 || e.IsDeleted {
			op["rc"] = "nods"
			return
		}
		arr := []interface{}{}
		for _, n := range strs(getl(op, "ns")) {
			arr = append(arr, n)
		}
		e.Properties["ns0:publicNamespaces"] = arr
		if err := core.StoreEntities([]*server.Entity{e}); err != nil {
			op["rc"] = "err"
		}
	case "deleteDs":
		if err := r.h.Dsm.DeleteDataset(gets(op, "name")); err != nil {
			op["rc"] = "err"
		}
	case "renameDs":
		if _, err := r.h.Dsm.UpdateDataset(gets(op, "name"), &server.UpdateDatasetConfig{ID: gets(op, "to")}); err != nil {
			op["rc"] = "err"
		} else {
			r.dsids[gets(op, "to")] = r.dsids[gets(op, "name")]
		}
	}
}

// ---- generator ------------------------------------------------------------------------------

type storeGen struct {
	allNames []string // every dataset name ever used
	kinds    []int    // query kinds to draw from: 0 list, 1 changes, 2/3 entity, 4/5 related
	atOnly   bool     // pin every entity/related query to a past instant
	c        *Ctx
	ids      []string
	preds    []string
	dss      []string
	pending  []M // continuations of relation queries that are followed later
	fresh    int
}

func (g *storeGen) value() interface{} {
	r := g.c.Rng
	switch r.Intn(7) {
	case 0:
		return r.Intn(100)
	case 1:
		return r.Intn(2) == 0
	case 2:
		return []interface{}{fmt.Sprintf("s%d", r.Intn(3)), r.Intn(5)}
	case 3:
		return strings.Repeat("x", 1+r.Intn(12))
	}
	return fmt.Sprintf("v%d", r.Intn(4))
}

func (g *storeGen) entity(id string) M {
	r := g.c.Rng
	props := M{}
	for k := 0; k < r.Intn(3); k++ {
		props[fmt.Sprintf("ns3:p%d", r.Intn(3))] = g.value()
	}
	refs := M{}
	for k := 0; k < r.Intn(3); k++ {
		// now and then a target or a predicate nobody has mentioned before (its identifier is minted by
		// this write, possibly by a write that stores no new entity)
		target := ""
		if r.Intn(8) == 0 {
			g.fresh++
			target = fmt.Sprintf("ns3:x%d", g.fresh)
			g.ids = append(g.ids, target)
		}
		p := g.preds[r.Intn(len(g.preds))]
		if r.Intn(12) == 0 {
			g.fresh++
			p = fmt.Sprintf("ns3:q%d", g.fresh)
			g.preds = append(g.preds, p)
		}
		if target != "" {
			refs[p] = target
			continue
		}
		if r.Intn(3) == 0 {
			n := 1 + r.Intn(3)
			l := []interface{}{}
			for j := 0; j < n; j++ {
				l = append(l, g.ids[r.Intn(len(g.ids))])
			}
			refs[p] = l
		} else {
			refs[p] = g.ids[r.Intn(len(g.ids))]
		}
	}
	return M{"id": id, "deleted": r.Intn(5) == 0, "props": props, "refs": refs}
}

// equal-length engineering: un-delete + one property whose serialisation is as long as ,"deleted":true
func (g *storeGen) undeleteSameLength(id string) (M, M) {
	a := M{"id": id, "deleted": true, "props": M{}, "refs": M{}}
	b := M{"id": id, "deleted": false, "props": M{"ns3:p": "abcde"}, "refs": M{}}
	return a, b
}

// sameLengthID returns another known identifier with the same number of characters.
func (g *storeGen) sameLengthID(id string) (string, bool) {
	cands := []string{}
	for _, x := range g.ids {
		if x != id && len(x) == len(id) {
			cands = append(cands, x)
		}
	}
	if len(cands) == 0 {
		return "", false
	}
	return cands[g.c.Rng.Intn(len(cands))], true
}

func sameLengthValue(r *rand.Rand, v interface{}) (interface{}, bool) {
	switch x := v.(type) {
	case string:
		if len(x) == 0 {
			return nil, false
		}
		b := []byte(x)
		last := b[len(b)-1]
		switch {
		case last >= '0' && last <= '8':
			b[len(b)-1] = last + 1
		case last == '9':
			b[len(b)-1] = '0'
		case last == 'x':
			b[len(b)-1] = 'y'
		default:
			b[len(b)-1] = 'x'
		}
		return string(b), true
	case int:
		if x%10 == 9 {
			return x - 1, true
		}
		return x + 1, true
	case float64:
		return sameLengthValue(r, int(x))
	case []interface{}:
		if len(x) == 0 {
			return nil, false
		}
		i := []int{0, len(x) - 1, r.Intn(len(x))}[r.Intn(3)]
		nv, ok := sameLengthValue(r, x[i])
		if !ok {
			return nil, false
		}
		cp := append([]interface{}{}, x...)
		cp[i] = nv
		return cp, true
	}
	return nil, false
}

// mutateSameLength changes exactly one thing of an entity — one reference target (single, or the first / last /
// some member of an array), or one property value (or one member of an array value) — so that the serialised
// length stays the same: the version differs, and only a comparison that looks at every member of every value
// can tell.
func (g *storeGen) mutateSameLength(e M) (M, bool) {
	r := g.c.Rng
	props, _ := e["props"].(M)
	refs, _ := e["refs"].(M)
	np, nr := M{}, M{}
	for k, v := range props {
		np[k] = v
	}
	for k, v := range refs {
		nr[k] = v
	}
	keysOf := func(m M) []string {
		ks := []string{}
		for k := range m {
			ks = append(ks, k)
		}
		sort.Strings(ks)
		return ks
	}
	tryRefs := func() bool {
		ks := keysOf(nr)
		if len(ks) == 0 {
			return false
		}
		k := ks[r.Intn(len(ks))]
		switch x := nr[k].(type) {
		case string:
			if n, ok := g.sameLengthID(x); ok {
				nr[k] = n
				return true
			}
		case []interface{}:
			if len(x) == 0 {
				return false
			}
			i := []int{0, len(x) - 1, r.Intn(len(x))}[r.Intn(3)]
			if s, ok := x[i].(string); ok {
				if n, ok := g.sameLengthID(s); ok {
					cp := append([]interface{}{}, x...)
					cp[i] = n
					nr[k] = cp
					return true
				}
			}
		}
		return false
	}
	tryProps := func() bool {
		ks := keysOf(np)
		if len(ks) == 0 {
			return false
		}
		k := ks[r.Intn(len(ks))]
		if nv, ok := sameLengthValue(r, np[k]); ok {
			np[k] = nv
			return true
		}
		return false
	}
	ok := false
	if r.Intn(2) == 0 {
		ok = tryRefs() || tryProps()
	} else {
		ok = tryProps() || tryRefs()
	}
	if !ok {
		return nil, false
	}
	return M{"id": e["id"], "deleted": e["deleted"], "props": np, "refs": nr}, true
}

func (g *storeGen) batch() []M {
	r := g.c.Rng
	n := 1 + r.Intn(4)
	b := []M{}
	for i := 0; i < n; i++ {
		id := g.ids[r.Intn(len(g.ids))]
		e := g.entity(id)
		b = append(b, e)
		if r.Intn(5) == 0 { // in-batch repeat: identical, or changed, or delete/undelete flip
			switch r.Intn(3) {
			case 0:
				b = append(b, e)
			case 1:
				b = append(b, g.entity(id))
			default:
				f := M{"id": id, "deleted": !e["deleted"].(bool), "props": e["props"], "refs": e["refs"]}
				b = append(b, f)
			}
		}
	}
	return b
}

func (g *storeGen) queries(opIdx int, nops int) []M {
	r := g.c.Rng
	qs := []M{}
	if len(g.pending) > 0 && r.Intn(3) == 0 {
		p := g.pending[r.Intn(len(g.pending))]
		cp := M{}
		for k, v := range p {
			cp[k] = v
		}
		qs = append(qs, cp)
	}
	ds := g.dss[r.Intn(len(g.dss))]
	pick := g.kinds[r.Intn(len(g.kinds))]
	switch pick {
	case 6:
		// core.Dataset's own meta entity is asked for separately: its items counter falls under known finding D22
		// and an observation attributed to a known finding is not compared
		names := append([]string{"zz"}, g.allNames...)
		qs = append(qs, M{"op": "q", "q": "catalogue", "names": names})
		if r.Intn(4) == 0 {
			qs = append(qs, M{"op": "q", "q": "catalogue", "names": []string{"core.Dataset"}})
		}
		return qs
	case 0:
		qs = append(qs, M{"op": "q", "q": "list", "ds": ds, "pages": [][]int{{0}, {1, 1, 1, 1, 1, 1, 1}, {2, 3, 0}, {3, 2, 2, 2}}[r.Intn(4)]})
	case 1:
		qs = append(qs, M{"op": "q", "q": "changes", "ds": ds, "since": []int{0, 0, 1, 3, 1 << 40}[r.Intn(5)],
			"limits": [][]int{{0}, {1, 1, 1, 1, 1, 1, 1, 1}, {2, 0}, {3, 1, 0}, {5, 5}}[r.Intn(5)], "latestOnly": r.Intn(3) == 0})
	case 2, 3:
		scope := []string{}
		switch r.Intn(3) {
		case 0:
			scope = []string{ds}
		case 1:
			scope = []string{g.dss[0], g.dss[len(g.dss)-1]}
		}
		q := M{"op": "q", "q": "entity", "id": g.ids[r.Intn(len(g.ids))], "scope": scope}
		if (g.atOnly || r.Intn(2) == 0) && opIdx > 0 {
			q["at"] = M{"op": r.Intn(opIdx + 1), "delta": r.Intn(3) - 1}
		}
		qs = append(qs, q)
	default:
		scope := []string{}
		switch r.Intn(3) {
		case 0:
			scope = []string{ds}
		case 1:
			scope = []string{g.dss[0], g.dss[len(g.dss)-1]}
		}
		pred := "*"
		if r.Intn(2) == 0 {
			pred = g.preds[r.Intn(len(g.preds))]
		}
		q := M{"op": "q", "q": "related", "start": g.ids[r.Intn(len(g.ids))], "pred": pred, "inverse": r.Intn(2) == 0, "scope": scope, "limit": r.Intn(4)}
		if (g.atOnly || r.Intn(3) == 0) && opIdx > 0 {
			q["at"] = M{"op": r.Intn(opIdx + 1), "delta": r.Intn(3) - 1}
		}
		if q["limit"].(int) > 0 && (r.Intn(2) == 0 || q["inverse"].(bool)) {
			q["maxPages"] = 12
			qs = append(qs, q)
			return qs
		}
		if q["limit"].(int) > 0 {
			lbl := fmt.Sprintf("c%d", opIdx)
			q["save"] = lbl
			qs = append(qs, q)
			// some continuations are followed straight away, the rest after later operations (a token
			// handed to a client outlives writes, dataset deletion, garbage collection and restarts)
			for k := 0; k < r.Intn(5); k++ {
				qs = append(qs, M{"op": "q", "q": "related", "cont": lbl, "save": lbl, "limit": q["limit"], "inverse": q["inverse"]})
			}
			g.pending = append(g.pending, M{"op": "q", "q": "related", "cont": lbl, "save": lbl, "limit": q["limit"], "inverse": q["inverse"]})
			return qs
		}
		qs = append(qs, q)
	}
	return qs
}

var storeProfiles = map[string][]int{
	"c01": {0, 0, 2, 3}, "c02": {1}, "c03": {4, 5}, "c06": {2, 4, 5}, "all": {0, 1, 2, 3, 4, 5},
	"c04": {0, 1, 1, 2, 3, 4, 5}, "c18": {1, 2, 4, 5}, "c20": {0, 1, 2, 4}, "c07": {0, 1, 2, 3, 4, 5, 6}, "c19": {6, 6, 0}, "c12": {0, 1, 2, 3, 4, 5}, "c05": {0, 1, 2, 3, 4, 5}, "c14": {0, 1, 2, 4, 6},
}

// a dataset with several hundred entities, listed with small pages by following the tokens
// (continuation keys whose low byte wraps) and read through the change feed
func genStoreBig(c *Ctx, profile string) {
	if !c.Thorough || (profile != "c01" && profile != "c02" && profile != "all") {
		return
	}
	ops := []M{{"op": "createDs", "name": "big"}}
	id := 0
	for b := 0; b < 3; b++ {
		ents := []M{}
		for k := 0; k < 200; k++ {
			ents = append(ents, M{"id": fmt.Sprintf("ns3:n%d", id), "deleted": false, "props": M{"ns3:p": id}, "refs": M{}})
			id++
		}
		ops = append(ops, M{"op": "store", "ds": "big", "ents": ents})
	}
	for _, sz := range []int{1, 7, 64, 100, 256} {
		pages := []int{}
		for k := 0; k < 600/sz+3; k++ {
			pages = append(pages, sz)
		}
		if profile != "c02" {
			ops = append(ops, M{"op": "q", "q": "list", "ds": "big", "pages": pages})
		}
		if profile != "c01" {
			ops = append(ops, M{"op": "q", "q": "changes", "ds": "big", "since": 0, "limits": pages, "latestOnly": sz%2 == 0})
		}
	}
	doHist(c, M{"ops": ops})
}

func genStore(c *Ctx, profile string) {
	genStoreBig(c, profile)
	var crashPts crashPoints
	if profile == "c04" || profile == "c12" || profile == "c05" {
		crashPts = loadCrashPoints()
	}
	n := map[string]int{"quick": 200, "thorough": 900}[c.Tier]
	if n == 0 {
		n = 60
	}
	if profile == "c04" { // every crash is a child process and two store openings
		n = map[string]int{"quick": 90, "thorough": 400}[c.Tier]
	}
	if profile == "c05" { // a parked writer costs the full waiting time
		n = map[string]int{"quick": 60, "thorough": 400}[c.Tier]
	}
	if profile == "c20" && c.Tier == "thorough" { // backups and restores dominate
		n = 350
	}
	for i := 0; i < n; i++ {
		g := &storeGen{kinds: storeProfiles[profile], atOnly: profile == "c06", c: c, ids: []string{"ns3:e1", "ns3:e2", "ns3:e3", "ns3:e4", "ns3:e5"}, preds: []string{"ns3:r1", "ns3:r2", "ns3:r3"}, dss: []string{"a", "b", "c"}[:2+c.Rng.Intn(2)]}
		if profile == "c18" {
			g.dss = []string{"a", "b", "c"}
		}
		ops := []M{}
		for _, d := range g.dss {
			op := M{"op": "createDs", "name": d}
			if c.Rng.Intn(4) == 0 {
				op["publicNamespaces"] = []string{"http://s/"}
			}
			ops = append(ops, op)
		}
		g.allNames = append([]string{}, g.dss...)
		mgmt := profile == "c07" || profile == "c19" || profile == "c14" || profile == "c04"
		nops := 4 + c.Rng.Intn(12)
		for k := 0; k < nops; k++ {
			if mgmt && c.Rng.Intn(4) == 0 {
				switch m := c.Rng.Intn(8); {
				case m < 2 && len(g.dss) > 1:
					i := c.Rng.Intn(len(g.dss))
					// a paged relationship query scoped to the dataset is started before the delete and continued after it
					// (the continuation carries the dataset's internal id, the name no longer resolves)
					lbl := ""
					inv := c.Rng.Intn(3) == 0
					if c.Rng.Intn(2) == 0 {
						lbl = fmt.Sprintf("del%d", len(ops))
						ops = append(ops, M{"op": "q", "q": "related", "start": g.ids[c.Rng.Intn(len(g.ids))], "pred": "*", "inverse": inv,
							"scope": []string{g.dss[i]}, "limit": 1, "save": lbl})
					}
					ops = append(ops, M{"op": "deleteDs", "name": g.dss[i]})
					if lbl != "" {
						ops = append(ops, M{"op": "q", "q": "related", "cont": lbl, "inverse": inv, "limit": 1, "save": lbl},
							M{"op": "q", "q": "related", "cont": lbl, "inverse": inv, "limit": 2, "save": lbl})
					}
					gone := g.dss[i]
					g.dss = append(g.dss[:i:i], g.dss[i+1:]...)
					// what typically follows a delete: a restart, garbage collection, the name being reused
					switch c.Rng.Intn(6) {
					case 0:
						ops = append(ops, M{"op": "reopen"})
					case 1:
						ops = append(ops, M{"op": "gc"}, M{"op": "reopen"})
					case 2:
						ops = append(ops, M{"op": "reopen"}, M{"op": "createDs", "name": gone})
						g.dss = append(g.dss, gone)
					case 3:
						ops = append(ops, M{"op": "createDs", "name": gone})
						g.dss = append(g.dss, gone)
					}
				case m < 4:
					// create a new name or re-create one that was deleted
					name := []string{"a", "b", "c", "d"}[c.Rng.Intn(4)]
					known := false
					for _, d := range g.dss {
						known = known || d == name
					}
					op := M{"op": "createDs", "name": name}
					if c.Rng.Intn(3) == 0 {
						op["publicNamespaces"] = []string{"http://s/"}
					}
					ops = append(ops, op)
					if !known {
						g.dss = append(g.dss, name)
						g.allNames = append(g.allNames, name)
					}
				case m < 5:
					i := c.Rng.Intn(len(g.dss))
					to := []string{"e", "f", "a", "b"}[c.Rng.Intn(4)]
					taken := false
					for _, d := range g.dss {
						taken = taken || d == to
					}
					ops = append(ops, M{"op": "renameDs", "name": g.dss[i], "to": to})
					if !taken {
						g.dss[i] = to
						g.allNames = append(g.allNames, to)
					}
				case m < 6 && c.Rng.Intn(2) == 0:
					// public namespaces changed (grown, shrunk, emptied) through core.Dataset, often followed by a restart
					name := g.dss[c.Rng.Intn(len(g.dss))]
					ns := [][]string{{}, {"http://s/"}, {"http://s/", "http://t/"}, {"http://t/"}, {"http://t/", "http://u/", "http://s/"}}[c.Rng.Intn(5)]
					ops = append(ops, M{"op": "setPublicNs", "name": name, "ns": ns})
					if c.Rng.Intn(2) == 0 {
						ops = append(ops, M{"op": "reopen"})
					}
					ops = append(ops, M{"op": "q", "q": "context", "ds": name})
					if profile != "c04" { // the catalogue after a crash inside create/rename/delete is not part of C04's claim
						ops = append(ops, M{"op": "q", "q": "catalogue", "names": []string{name}})
					}
				case m < 6:
					ops = append(ops, M{"op": "gc"})
				default:
					ops = append(ops, M{"op": "reopen"})
				}
				for q := 0; q < 1+c.Rng.Intn(3); q++ {
					ops = append(ops, g.queries(len(ops), nops)...)
				}
				continue
			}
			if profile == "c20" && c.Rng.Intn(3) == 0 {
				if c.Rng.Intn(3) == 0 {
					ops = append(ops, M{"op": "reopen"})
				} else {
					ops = append(ops, M{"op": "backup"})
				}
				for q := 0; q < 1+c.Rng.Intn(3); q++ {
					for _, qq := range g.queries(len(ops), nops) {
						if _, hasAt := qq["at"]; !hasAt && qq["cont"] == nil && qq["save"] == nil {
							qq["on"] = "restore"
							ops = append(ops, qq)
						}
					}
				}
				continue
			}
			if profile == "c12" && c.Rng.Intn(3) == 0 {
				ds := g.dss[c.Rng.Intn(len(g.dss))]
				if c.Rng.Intn(2) == 0 {
					ops = append(ops, M{"op": "dup", "ds": ds, "id": g.ids[c.Rng.Intn(len(g.ids))]})
				} else {
					cop := M{"op": "compact", "ds": ds, "threshold": []int{1, 2, 3, 100000}[c.Rng.Intn(4)]}
					if c.Rng.Intn(3) == 0 {
						// a writer commits while the compactor runs (after its snapshot, before its n-th flush); often the
						// written entity is one whose newest version is a legacy duplicate (its latest pointer is re-pointed)
						id := g.ids[c.Rng.Intn(len(g.ids))]
						ents := g.batch()
						if c.Rng.Intn(3) != 0 {
							ops = append(ops, M{"op": "dup", "ds": ds, "id": id})
							ents = append([]M{g.entity(id)}, ents...)
						}
						cop["race"] = M{"hit": 1 + c.Rng.Intn(3), "inner": M{"op": "store", "ds": ds, "ents": ents}}
						ops = append(ops, cop)
						ops = append(ops, M{"op": "q", "q": "list", "ds": ds, "pages": []int{0}},
							M{"op": "q", "q": "changes", "ds": ds, "since": 0, "limits": []int{0}, "latestOnly": true},
							M{"op": "q", "q": "entity", "id": id, "scope": []string{ds}})
						for q := 0; q < 1+c.Rng.Intn(3); q++ {
							ops = append(ops, g.queries(len(ops), nops)...)
						}
						continue
					}
					if pts := crashPts.Points["flushDeletes"]; len(pts) > 1 && c.Rng.Intn(3) == 0 {
						// the compactor is killed right after its n-th flush (or right before its first)
						cop = M{"op": "crash", "point": pts[c.Rng.Intn(len(pts))], "hit": 1 + c.Rng.Intn(3), "inner": cop}
					}
					ops = append(ops, cop)
				}
				for q := 0; q < 1+c.Rng.Intn(3); q++ {
					ops = append(ops, g.queries(len(ops), nops)...)
				}
				continue
			}
			if profile == "c05" && c.Rng.Intn(2) == 0 {
				ops = append(ops, g.racedWrite(crashPts))
				for q := 0; q < 1+c.Rng.Intn(2); q++ {
					ops = append(ops, g.queries(len(ops), nops)...)
				}
				continue
			}
			switch r := c.Rng.Intn(10); {
			case r < 6:
				ds := g.dss[c.Rng.Intn(len(g.dss))]
				b := g.batch()
				ops = append(ops, M{"op": "store", "ds": ds, "ents": b})
				if c.Rng.Intn(3) == 0 {
					// a follow-up version that differs in exactly one member of one value and has the same serialised
					// length (in a batch of its own, or behind the original inside one batch)
					if m, ok := g.mutateSameLength(b[c.Rng.Intn(len(b))]); ok {
						if c.Rng.Intn(3) == 0 {
							ops[len(ops)-1] = M{"op": "store", "ds": ds, "ents": append(append([]M{}, b...), m)}
						} else {
							ops = append(ops, M{"op": "store", "ds": ds, "ents": []M{m}})
						}
					}
				}
			case r < 7:
				id := g.ids[c.Rng.Intn(len(g.ids))]
				a, b := g.undeleteSameLength(id)
				ds := g.dss[c.Rng.Intn(len(g.dss))]
				ops = append(ops, M{"op": "store", "ds": ds, "ents": []M{a}}, M{"op": "store", "ds": ds, "ents": []M{b}})
			case r < 9:
				parts := []M{}
				for _, d := range g.dss {
					if c.Rng.Intn(2) == 0 {
						parts = append(parts, M{"ds": d, "ents": g.batch()})
					}
				}
				if len(parts) > 1 && profile == "c05" && c.Rng.Intn(4) == 0 {
					// a transaction the hub refuses at its LAST dataset (a null reference): nothing of it may stay, also not the
					// parts for the datasets that came first (feed positions are compared by rank in this profile: a refused
					// write has drawn sequence numbers; it has also drawn identifiers, which the next write of any kind commits —
					// the histories of this profile have no restarts or dataset management in between)
					last := parts[len(parts)-1]
					last["ents"] = append(last["ents"].([]M), M{"id": g.ids[c.Rng.Intn(len(g.ids))], "deleted": false, "props": M{}, "refs": M{g.preds[0]: nil}})
				}
				if len(parts) > 0 {
					ops = append(ops, M{"op": "txn", "parts": parts})
				}
			default:
				ops = append(ops, M{"op": "reopen"})
			}
			for q := 0; q < 1+c.Rng.Intn(3); q++ {
				ops = append(ops, g.queries(len(ops), nops)...)
			}
		}
		if (profile == "c14" || profile == "c04") && c.Rng.Intn(2) == 0 {
			// identifiers that are handed out by a write which stores no NEW entity (an update that adds a
			// reference to a never-seen target through a never-seen predicate), then a restart, then their first use
			ds := g.dss[0]
			k := c.Rng.Intn(1000)
			fresh, pred := fmt.Sprintf("ns3:fresh%d", k), fmt.Sprintf("ns3:newp%d", k)
			upd := M{"id": "ns3:e1", "deleted": false, "props": M{"ns3:p0": 2000 + k}, "refs": M{pred: fresh}}
			ops = append(ops, M{"op": "store", "ds": ds, "ents": []M{{"id": "ns3:e1", "deleted": false, "props": M{"ns3:p0": 1000 + k}, "refs": M{}}}})
			if c.Rng.Intn(3) != 0 {
				ops = append(ops, M{"op": "txn", "parts": []M{{"ds": ds, "ents": []M{upd}}}})
			} else {
				ops = append(ops, M{"op": "store", "ds": ds, "ents": []M{upd}})
			}
			ops = append(ops, M{"op": "reopen"},
				M{"op": "q", "q": "related", "start": "ns3:e1", "pred": "*", "inverse": false, "scope": []string{}, "limit": 0},
				M{"op": "store", "ds": ds, "ents": []M{{"id": fresh, "deleted": false, "props": M{"ns3:p0": 3000 + k}, "refs": M{}}}},
				M{"op": "q", "q": "related", "start": fresh, "pred": pred, "inverse": true, "scope": []string{}, "limit": 0},
				M{"op": "q", "q": "entity", "id": fresh, "scope": []string{ds}},
				M{"op": "q", "q": "entity", "id": "ns3:e1", "scope": []string{ds}})
		}
		if (profile == "c12" || profile == "c03" || profile == "c06" || profile == "all") && c.Rng.Intn(3) == 0 {
			// one entity whose reference under one predicate is repeated and changed from version to version while a property
			// changes or not, the versions grouped into batches at random (repeats inside one batch share their reference
			// keys, repeats across batches do not); then a compaction (c12) and the relation read from both ends, now and pinned
			ds := g.dss[c.Rng.Intn(len(g.dss))]
			id := g.ids[c.Rng.Intn(len(g.ids))]
			pred := g.preds[c.Rng.Intn(len(g.preds))]
			tgts := []string{g.ids[c.Rng.Intn(len(g.ids))], g.ids[c.Rng.Intn(len(g.ids))], g.ids[c.Rng.Intn(len(g.ids))]}
			tgt, k := tgts[0], 0
			var batch []M
			first := len(ops)
			for v := 3 + c.Rng.Intn(5); v > 0; v-- {
				if c.Rng.Intn(3) == 0 {
					tgt = tgts[c.Rng.Intn(3)]
				}
				if c.Rng.Intn(3) != 0 {
					k++
				}
				var ref interface{} = tgt
				if c.Rng.Intn(4) == 0 {
					ref = []interface{}{tgt}
				}
				batch = append(batch, M{"id": id, "deleted": c.Rng.Intn(10) == 0, "props": M{"ns3:p0": k}, "refs": M{pred: ref}})
				if c.Rng.Intn(2) == 0 || v == 1 {
					ops = append(ops, M{"op": "store", "ds": ds, "ents": batch})
					batch = nil
				}
			}
			last := len(ops) - 1
			if profile == "c12" || profile == "all" {
				ops = append(ops, M{"op": "compact", "ds": ds, "threshold": []int{1, 2, 3, 100000}[c.Rng.Intn(4)]})
			}
			for _, t := range tgts {
				ops = append(ops, M{"op": "q", "q": "related", "start": t, "pred": pred, "inverse": true, "scope": []string{}, "limit": 0})
			}
			ops = append(ops, M{"op": "q", "q": "related", "start": id, "pred": pred, "inverse": false, "scope": []string{}, "limit": 0},
				M{"op": "q", "q": "related", "start": id, "pred": "*", "inverse": false, "scope": []string{ds}, "limit": 0})
			for n := 0; n < 3; n++ {
				at := M{"op": first + c.Rng.Intn(last-first+1), "delta": 0}
				ops = append(ops, M{"op": "q", "q": "related", "start": id, "pred": pred, "inverse": false, "scope": []string{}, "limit": 0, "at": at},
					M{"op": "q", "q": "related", "start": tgts[c.Rng.Intn(3)], "pred": pred, "inverse": true, "scope": []string{}, "limit": 0, "at": at})
			}
		}
		if profile == "c20" && c.Rng.Intn(2) == 0 {
			// the first write after a backup run is a single-commit metadata change (dataset deleted / created), then
			// the hub restarts, then the next run: the incremental run must pick that commit up
			ops = append(ops, M{"op": "backup"})
			victim := g.dss[c.Rng.Intn(len(g.dss))]
			fresh := fmt.Sprintf("y%d", c.Rng.Intn(100))
			switch c.Rng.Intn(3) {
			case 0:
				if len(g.dss) > 1 {
					ops = append(ops, M{"op": "deleteDs", "name": victim})
				}
			case 1:
				ops = append(ops, M{"op": "createDs", "name": fresh})
			default:
				ops = append(ops, M{"op": "renameDs", "name": victim, "to": fresh})
			}
			if c.Rng.Intn(4) != 0 {
				ops = append(ops, M{"op": "reopen"})
			}
			if c.Rng.Intn(2) == 0 {
				ops = append(ops, M{"op": "store", "ds": g.dss[0], "ents": g.batch()})
			}
			ops = append(ops, M{"op": "backup"})
			for _, n := range []string{victim, fresh} {
				ops = append(ops, M{"op": "q", "q": "list", "ds": n, "pages": []int{0}, "on": "restore"},
					M{"op": "q", "q": "changes", "ds": n, "since": 0, "limits": []int{0}, "latestOnly": false, "on": "restore"})
			}
			ops = append(ops, M{"op": "q", "q": "catalogue", "names": []string{victim, fresh}, "on": "restore"},
				M{"op": "q", "q": "entity", "id": "ns3:e1", "scope": []string{}, "on": "restore"},
				M{"op": "q", "q": "entity", "id": "ns3:e2", "scope": []string{}, "on": "restore"})
		}
		if profile == "c20" && c.Rng.Intn(2) == 0 {
			// forced schedule: commits while a backup run is streaming (the run is held open on a pipe), then a quiet
			// run; what the restored hub answers is what the source answered when the quiet run started
			ds := g.dss[c.Rng.Intn(len(g.dss))]
			bulk := []M{}
			for k := 0; k < 40+c.Rng.Intn(40); k++ { // enough bytes in the dump for the run to block on the pipe
				bulk = append(bulk, M{"id": fmt.Sprintf("ns3:bulk%d", k), "deleted": false,
					"props": M{"ns3:p0": strings.Repeat("b", 60+c.Rng.Intn(60)), "ns3:p1": c.Rng.Intn(1000)}, "refs": M{}})
			}
			if c.Rng.Intn(3) == 0 {
				ops = append(ops, M{"op": "backup"})
			}
			ops = append(ops, M{"op": "store", "ds": ds, "ents": bulk}, M{"op": "backupStart"})
			for k := 1 + c.Rng.Intn(3); k > 0; k-- {
				if c.Rng.Intn(4) == 0 {
					ops = append(ops, M{"op": "txn", "parts": []M{{"ds": ds, "ents": g.batch()}}})
				} else {
					ops = append(ops, M{"op": "store", "ds": g.dss[c.Rng.Intn(len(g.dss))], "ents": g.batch()})
				}
			}
			ops = append(ops, M{"op": "backupEnd"})
			if c.Rng.Intn(3) == 0 {
				ops = append(ops, M{"op": "reopen"})
			}
			ops = append(ops, M{"op": "backup"})
			for _, n := range g.dss {
				ops = append(ops, M{"op": "q", "q": "list", "ds": n, "pages": []int{0}, "on": "restore"},
					M{"op": "q", "q": "changes", "ds": n, "since": 0, "limits": []int{0}, "latestOnly": false, "on": "restore"})
			}
			for _, id := range g.ids {
				ops = append(ops, M{"op": "q", "q": "entity", "id": id, "scope": []string{}, "on": "restore"})
			}
		}
		if profile == "c18" {
			doHist(c, M{"ops": withMsRuns(c, g, ops), "jobs": true})
			continue
		}
		if profile == "c04" {
			if len(crashPts.Points) == 0 {
				c.Emit("c04.nopoints", M{"error": crashPts.Error}, M{"error": "tools/instr found no crash points in the source"})
				return
			}
			ops = wrapCrashes(c, ops, crashPts)
			if pts := crashPts.Points["DeleteDataset"]; len(pts) > 0 && c.Rng.Intn(3) == 0 {
				// a dataset whose deletion died half way: either it is still there with everything it held, or it is gone
				// from every read (listing, unscoped lookups, relations) — and a dataset created under the name afterwards is empty
				victim := g.dss[c.Rng.Intn(len(g.dss))]
				ops = append(ops, M{"op": "store", "ds": victim, "ents": g.batch()},
					M{"op": "crash", "point": pts[c.Rng.Intn(len(pts))], "hit": 1, "inner": M{"op": "deleteDs", "name": victim}})
				for _, id := range g.ids {
					ops = append(ops, M{"op": "q", "q": "entity", "id": id, "scope": []string{}})
				}
				ops = append(ops, M{"op": "q", "q": "list", "ds": victim, "pages": []int{0}},
					M{"op": "q", "q": "related", "start": g.ids[0], "pred": "*", "inverse": false, "scope": []string{}, "limit": 0})
				if c.Rng.Intn(2) == 0 {
					ops = append(ops, M{"op": "createDs", "name": victim}, M{"op": "q", "q": "list", "ds": victim, "pages": []int{0}},
						M{"op": "q", "q": "changes", "ds": victim, "since": 0, "limits": []int{0}, "latestOnly": false, "rank": true})
				}
			}
			if pts := crashPts.Points["CreateDataset"]; len(pts) > 0 && c.Rng.Intn(3) == 0 {
				// a dataset whose creation died half way, then everything a client may do with that name: create it again,
				// rename it, delete it, write to it — nothing of that may fail for good or take the hub down
				fresh := fmt.Sprintf("h%d", c.Rng.Intn(100))
				ops = append(ops, M{"op": "crash", "point": pts[c.Rng.Intn(len(pts))], "hit": 1, "inner": M{"op": "createDs", "name": fresh}})
				for k := 0; k < 2+c.Rng.Intn(3); k++ {
					switch c.Rng.Intn(5) {
					case 0:
						ops = append(ops, M{"op": "createDs", "name": fresh})
					case 1:
						ops = append(ops, M{"op": "renameDs", "name": fresh, "to": fresh + "r"})
					case 2:
						ops = append(ops, M{"op": "deleteDs", "name": fresh})
					case 3:
						ops = append(ops, M{"op": "store", "ds": fresh, "ents": g.batch()})
					default:
						ops = append(ops, M{"op": "deleteDs", "name": fresh + "r"})
					}
				}
				ops = append(ops, M{"op": "q", "q": "list", "ds": fresh, "pages": []int{0}}, M{"op": "q", "q": "list", "ds": fresh + "r", "pages": []int{0}},
					M{"op": "q", "q": "list", "ds": g.dss[0], "pages": []int{0}})
			}
			for _, op := range ops {
				if gets(op, "q") == "changes" {
					op["rank"] = true
					op["since"] = 0
				}
			}
		}
		if profile == "c05" {
			if len(crashPts.Points) == 0 {
				c.Emit("c05.nopoints", M{"error": crashPts.Error}, M{"error": "tools/instr found no schedule points in the source"})
				return
			}
			// a rejected batch has drawn change-log sequence numbers: feed positions are compared by rank
			for _, op := range ops {
				if gets(op, "q") == "changes" {
					op["rank"] = true
					op["since"] = 0
				}
			}
		}
		doHist(c, M{"ops": ops})
	}
}

// doHist runs one history case (input goes through JSON first, like a replay would).
func doHist(c *Ctx, in M) {
	b, _ := json.Marshal(in)
	var in2 M
	_ = json.Unmarshal(b, &in2)
	aug, out := runStoreHist(c, in2)
	c.Emit("store.hist", aug, out)
}

func init() {
	for _, p := range []string{"c01", "c02", "c03", "c06", "all", "c07", "c19", "c12", "c14", "c20", "c05"} {
		p := p
		register("store-"+p, func(c *Ctx) { genStore(c, p) })
	}
	registerKind("store.hist", func(c *Ctx, in M) interface{} { _, out := runStoreHist(c, in); return out })
	replayers["store.hist"] = func(c *Ctx, in M) {
		for _, o := range getl(in, "ops") {
			op := o.(map[string]interface{})
			delete(op, "t")
			delete(op, "rc")
			delete(op, "dsid")
			delete(op, "newids")
		}
		doHist(c, in)
	}
}
