// Harness compiled INTO the datahub module with `go build -overlay` (virtual path
// /repo/internal/verifharness). It drives the real packages in-process and writes one JSON case
// per line: {"id":n,"k":kind,"in":input,"out":observation-of-the-real-code}.
package main

import (
	"bufio"
	"bytes"
	"encoding/json"
	"fmt"
	"io"
	"math/rand"
	"os"
	"os/exec"
	"path/filepath"
	"runtime/debug"
	"sort"
	"strconv"
	"strings"
	"sync"
	"time"
)

type Ctx struct {
	Tier     string
	Seed     int64
	Rng      *rand.Rand
	Dir      string // scratch directory (removed by bin/check)
	out      *bufio.Writer
	mu       sync.Mutex
	nextID   int
	children int
	Stats    map[string]int
	Replay   string
	Thorough bool
}

type Case struct {
	ID  int         `json:"id"`
	K   string      `json:"k"`
	In  interface{} `json:"in"`
	Out interface{} `json:"out"`
}

// Emit writes one case line.
func (c *Ctx) Emit(kind string, in interface{}, out interface{}) {
	c.mu.Lock()
	defer c.mu.Unlock()
	c.nextID++
	b, err := json.Marshal(Case{ID: c.nextID, K: kind, In: in, Out: out})
	if err != nil {
		panic(err)
	}
	c.out.Write(b)
	c.out.WriteByte('\n')
	c.Stats["cases:"+kind]++
}

func (c *Ctx) Count(key string, n int) {
	c.mu.Lock()
	c.Stats[key] += n
	c.mu.Unlock()
}

type M = map[string]interface{}

var registry = map[string]func(*Ctx){}

func register(name string, f func(*Ctx)) { registry[name] = f }

// kinds: one runner per case kind; a case is self-contained (its input holds the whole
// operation sequence), so the same runner serves generation and --replay.
var kinds = map[string]func(c *Ctx, in M) interface{}{}

func registerKind(kind string, f func(c *Ctx, in M) interface{}) { kinds[kind] = f }

// Do runs one case against the real code and emits it. The input goes through a JSON round
// trip first so that generated and replayed cases take exactly the same path.
func (c *Ctx) Do(kind string, in M) {
	b, err := json.Marshal(in)
	if err != nil {
		panic(err)
	}
	var in2 M
	if err := json.Unmarshal(b, &in2); err != nil {
		panic(err)
	}
	out := kinds[kind](c, in2)
	c.Emit(kind, json.RawMessage(b), out)
}

func geti(m M, k string) int {
	switch v := m[k].(type) {
	case float64:
		return int(v)
	case int:
		return v
	case int64:
		return int(v)
	}
	return 0
}
func gets(m M, k string) string { s, _ := m[k].(string); return s }
func getb(m M, k string) bool   { b, _ := m[k].(bool); return b }
func getl(m M, k string) []interface{} {
	l, _ := m[k].([]interface{})
	return l
}
func getm(m M, k string) M { r, _ := m[k].(map[string]interface{}); return r }

func genReplay(c *Ctx) {
	b, err := os.ReadFile(c.Replay)
	if err != nil {
		panic(err)
	}
	var rf struct {
		Case struct {
			K  string `json:"k"`
			In M      `json:"in"`
		} `json:"case"`
	}
	if err := json.Unmarshal(b, &rf); err != nil {
		panic(err)
	}
	if _, ok := kinds[rf.Case.K]; !ok {
		fmt.Fprintf(os.Stderr, "replay: unknown case kind %q\n", rf.Case.K)
		os.Exit(2)
	}
	if f, ok := replayers[rf.Case.K]; ok {
		f(c, rf.Case.In)
		return
	}
	if childKinds[rf.Case.K] {
		c.DoChild(rf.Case.K, rf.Case.In, 60*time.Second)
		return
	}
	c.Do(rf.Case.K, rf.Case.In)
}

// kinds whose runner fills in parts of the input (times, ids): they emit themselves
var replayers = map[string]func(c *Ctx, in M){}

// kinds that must run in a child process
var childKinds = map[string]bool{}

func init() { register("replay", genReplay) }

// DoChild runs one case in a child process (a fatal error, stack overflow or hang of the hub is
// then an observation {"crash": …} instead of the end of the harness).
func (c *Ctx) DoChild(kind string, in M, timeout time.Duration) {
	b, _ := json.Marshal(in)
	dir := filepath.Join(c.Dir, fmt.Sprintf("child%d", c.childN()))
	_ = os.MkdirAll(dir, 0o755)
	cmd := exec.Command(os.Args[0], "child", kind, string(b), dir)
	cmd.Env = append(os.Environ(), "GOMEMLIMIT=2GiB")
	var stdout, stderr bytes.Buffer
	cmd.Stdout = &stdout
	cmd.Stderr = &stderr
	done := make(chan error, 1)
	if err := cmd.Start(); err != nil {
		panic(err)
	}
	go func() { done <- cmd.Wait() }()
	var out interface{}
	select {
	case err := <-done:
		if err != nil {
			tail := stderr.String()
			if len(tail) > 400 {
				tail = tail[:400]
			}
			first := strings.SplitN(tail, "\n", 2)[0]
			out = M{"crash": first}
		} else {
			line := stdout.String()
			if i := strings.LastIndex(line, "CHILDOUT "); i >= 0 {
				var v interface{}
				if json.Unmarshal([]byte(strings.TrimSpace(line[i+9:])), &v) == nil {
					out = v
				}
			}
			if out == nil {
				out = M{"crash": "no output"}
			}
		}
	case <-time.After(timeout):
		_ = cmd.Process.Kill()
		<-done
		out = M{"crash": "hang"}
	}
	_ = os.RemoveAll(dir)
	c.Emit(kind, json.RawMessage(b), out)
}

func (c *Ctx) childN() int {
	c.mu.Lock()
	defer c.mu.Unlock()
	c.children++
	return c.children
}

func childMain() {
	kind, dir := os.Args[2], os.Args[4]
	var in M
	if err := json.Unmarshal([]byte(os.Args[3]), &in); err != nil {
		panic(err)
	}
	debug.SetMaxStack(64 << 20) // a runaway recursion dies quickly
	ctx := &Ctx{Tier: "child", Rng: rand.New(rand.NewSource(1)), Dir: dir, out: bufio.NewWriter(io.Discard), Stats: map[string]int{}}
	out := kinds[kind](ctx, in)
	b, _ := json.Marshal(out)
	fmt.Printf("\nCHILDOUT %s\n", b)
}

func main() {
	if len(os.Args) >= 5 && os.Args[1] == "child" {
		childMain()
		return
	}
	if len(os.Args) >= 6 && os.Args[1] == "crashchild" {
		crashChildMain()
		return
	}
	if len(os.Args) < 6 {
		names := []string{}
		for k := range registry {
			names = append(names, k)
		}
		sort.Strings(names)
		fmt.Fprintf(os.Stderr, "usage: hubharness <gen> <tier> <seed> <scratchdir> <casesfile> [replayfile]\n generators: %v\n", names)
		os.Exit(2)
	}
	gen, tier := os.Args[1], os.Args[2]
	seed, _ := strconv.ParseInt(os.Args[3], 10, 64)
	f, ok := registry[gen]
	if !ok {
		fmt.Fprintf(os.Stderr, "unknown generator %s\n", gen)
		os.Exit(2)
	}
	of, err := os.Create(os.Args[5])
	if err != nil {
		panic(err)
	}
	ctx := &Ctx{Tier: tier, Seed: seed, Rng: rand.New(rand.NewSource(seed)), Dir: os.Args[4],
		out: bufio.NewWriterSize(of, 1<<20), Stats: map[string]int{}, Thorough: tier == "thorough"}
	if len(os.Args) > 6 {
		ctx.Replay = os.Args[6]
	}
	f(ctx)
	ctx.out.Flush()
	of.Close()
	sb, _ := json.Marshal(ctx.Stats)
	fmt.Printf("STATS %s\n", sb)
}
