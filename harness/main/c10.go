package main

import (
	"context"
	"fmt"
	"sort"
	"strconv"
	"time"

	"github.com/mimiro-io/datahub/internal/jobs"
	jobSource "github.com/mimiro-io/datahub/internal/jobs/source"
	"github.com/mimiro-io/datahub/internal/server"
)

// listSource hands out n synthetic entities in pages of batchSize, with a numeric token.
type listSource struct {
	n int
}

func (s *listSource) GetConfig() map[string]interface{} {
	return map[string]interface{}{"Type": "VerifListSource"}
}
func (s *listSource) StartFullSync() {}
func (s *listSource) EndFullSync()   {}
func (s *listSource) ReadEntities(ctx context.Context, since jobSource.DatasetContinuation, batchSize int,
	processEntities func([]*server.Entity, jobSource.DatasetContinuation) error) error {
	// like DatasetSource: ONE page per call; the pipeline's keepReading loop asks for the next
	from := int(since.AsIncrToken())
	if batchSize <= 0 {
		batchSize = s.n + 1
	}
	to := from + batchSize
	if to > s.n {
		to = s.n
	}
	if from > to {
		from = to
	}
	ents := make([]*server.Entity, 0, to-from)
	for i := from; i < to; i++ {
		e := server.NewEntity(strconv.Itoa(i), uint64(i+1))
		ents = append(ents, e)
	}
	return processEntities(ents, &jobSource.StringDatasetContinuation{Token: strconv.Itoa(to)})
}

func c10Transform(mode string) func([]*server.Entity) ([]*server.Entity, error) {
	return func(es []*server.Entity) ([]*server.Entity, error) {
		out := make([]*server.Entity, 0, len(es))
		for _, e := range es {
			i, _ := strconv.Atoi(e.ID)
			switch mode {
			case "drop":
				if i%2 == 1 {
					continue
				}
				out = append(out, e)
			case "dup":
				out = append(out, e, e)
			case "create", "push":
				out = append(out, e, server.NewEntity(strconv.Itoa(1000+i), 0))
			default:
				out = append(out, e)
			}
		}
		return out, nil
	}
}

func idsOf(es []*server.Entity) []int {
	r := make([]int, len(es))
	for i, e := range es {
		r[i], _ = strconv.Atoi(e.ID)
	}
	return r
}

// runC10Pipe drives the real IncrementalPipeline.sync and reports what the transform saw and
// what reached the sink. A panic is reported as {"panic": msg}.
func runC10Pipe(h *Hub, jobID string, n, batch, p int, mode string) (out interface{}) {
	defer func() {
		if r := recover(); r != nil {
			out = M{"panic": fmt.Sprint(r)}
		}
	}()
	tr := &jobs.VerifTransform{P: p, F: c10Transform(mode)}
	if mode == "push" {
		// like a javascript transform doing entities.push(...): append to the *input* slice. If the
		// chunk shares its backing array with the batch this overwrites the next worker's first entity.
		tr.Pre = func(es []*server.Entity) {
			_ = append(es, server.NewEntity("9999", 0))
			time.Sleep(2 * time.Millisecond)
		}
	}
	sink := &jobs.VerifSink{}
	_, err := jobs.VerifPipelineSync(h.Runner, jobID, &listSource{n: n}, tr, sink, batch, false, context.Background())
	if err != nil {
		return M{"err": err.Error()}
	}
	// calls of one source batch run concurrently: canonicalise by sorting calls by first id
	calls := [][]int{}
	for _, c := range tr.Calls {
		if len(c) == 0 {
			continue
		}
		ids := make([]int, len(c))
		for i, s := range c {
			ids[i], _ = strconv.Atoi(s)
		}
		calls = append(calls, ids)
	}
	sort.SliceStable(calls, func(i, j int) bool { return calls[i][0] < calls[j][0] })
	seen := []int{}
	for _, c := range calls {
		seen = append(seen, c...)
	}
	sinkB := [][]int{}
	for _, b := range sink.Batches {
		sinkB = append(sinkB, idsOf(b))
	}
	return M{"seen": seen, "sink": sinkB}
}

func genC10(c *Ctx) {
	modes := []string{"id", "drop", "dup", "create"}
	maxN, maxB, maxP := 24, 8, 12
	if c.Thorough {
		maxN, maxB, maxP = 40, 12, 14
	}
	// exhaustive box through the real pipeline
	for n := 0; n <= maxN; n++ {
		for b := 1; b <= maxB; b++ {
			for p := -1; p <= maxP; p++ {
				if c.Thorough {
					for _, mode := range modes {
						c.Do("c10.pipe", M{"n": n, "batch": b, "p": p, "mode": mode})
					}
					continue
				}
				c.Do("c10.pipe", M{"n": n, "batch": b, "p": p, "mode": modes[(n+b+p+1)%4]})
			}
		}
	}
	// sampled larger values
	samples := 150
	if c.Thorough {
		samples = 2000
	}
	for i := 0; i < samples; i++ {
		c.Do("c10.pipe", M{"n": c.Rng.Intn(400), "batch": 1 + c.Rng.Intn(120), "p": c.Rng.Intn(40) - 2, "mode": modes[c.Rng.Intn(4)]})
	}
	// transforms that push onto their input array (aliasing between chunks)
	pushes := 120
	if c.Thorough {
		pushes = 1500
	}
	for i := 0; i < pushes; i++ {
		c.Do("c10.pipe", M{"n": 2 + c.Rng.Intn(30), "batch": 1 + c.Rng.Intn(12), "p": 2 + c.Rng.Intn(6), "mode": "push"})
	}
}

var c10Hub *Hub
var c10Job int

func init() {
	register("c10", genC10)
	registerKind("c10.pipe", func(c *Ctx, in M) interface{} {
		if c10Hub == nil {
			c10Hub = NewHub(c, true)
		}
		c10Job++
		return runC10Pipe(c10Hub, fmt.Sprintf("c10-%d", c10Job), geti(in, "n"), geti(in, "batch"), geti(in, "p"), gets(in, "mode"))
	})
}
