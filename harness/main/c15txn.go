package main

import (
	"bytes"
	"encoding/base64"
	"fmt"
	"strings"

	"github.com/mimiro-io/datahub/internal/server"
)

// ---------------------------------------------------------------------------------------------
// c15.txn: POST /transactions payloads. `{"@context":{"namespaces":…},"<ds1>":[e…],"<ds2>":[e…]}` parsed by the real
// ParseTransaction must give, for every dataset, exactly the entities the real ParseStream gives for the collection
// `[{"id":"@context","namespaces":…}, e…]` of that dataset (ParseStream itself is tied to the Lean parser model by
// c15.stream). A malformed element anywhere makes the whole transaction an error (nothing is executed).
// in {"ctx":b64,"parts":[{"ds":name,"elems":[b64…]}]}   out {"err":bool,"same":bool,"counts":[n…]}

func parseStreamAll(h *Hub, doc string) ([]interface{}, bool, interface{}) {
	out := []interface{}{}
	var perr error
	var pan interface{}
	func() {
		defer func() {
			if r := recover(); r != nil {
				pan = fmt.Sprint(r)
			}
		}()
		esp := server.NewEntityStreamParser(h.Store)
		cc := c15Canon{ns: h.Store.NamespaceManager.GetPrefixToExpansionMap()}
		perr = esp.ParseStream(bytes.NewReader([]byte(doc)), func(e *server.Entity) error {
			cc = c15Canon{ns: h.Store.NamespaceManager.GetPrefixToExpansionMap()}
			out = append(out, cc.ent(e))
			return nil
		})
	}()
	return out, perr != nil, pan
}

func runC15Txn(c *Ctx, in M) (out interface{}) {
	defer func() {
		if r := recover(); r != nil {
			out = M{"panic": fmt.Sprint(r)}
		}
	}()
	h := c15TheHub(c)
	ctxB, _ := base64.StdEncoding.DecodeString(gets(in, "ctx"))
	var sb strings.Builder
	sb.WriteString(`{"@context":` + string(ctxB))
	type part struct {
		ds    string
		elems []string
	}
	parts := []part{}
	for _, p := range getl(in, "parts") {
		pm := p.(map[string]interface{})
		pt := part{ds: gets(pm, "ds")}
		for _, e := range getl(pm, "elems") {
			b, _ := base64.StdEncoding.DecodeString(e.(string))
			pt.elems = append(pt.elems, string(b))
		}
		parts = append(parts, pt)
		sb.WriteString("," + jstr(pt.ds) + ":[" + strings.Join(pt.elems, ",") + "]")
	}
	sb.WriteString("}")
	esp := server.NewEntityStreamParser(h.Store)
	txn, err := esp.ParseTransaction(bytes.NewReader([]byte(sb.String())))
	// reference: every dataset's collection through ParseStream
	anyErr := false
	same := true
	counts := []int{}
	for _, pt := range parts {
		doc := `[{"id":"@context","namespaces":` + nsOf(string(ctxB)) + `}`
		if len(pt.elems) > 0 {
			doc += "," + strings.Join(pt.elems, ",")
		}
		doc += "]"
		ref, refErr, pan := parseStreamAll(h, doc)
		if pan != nil {
			return M{"panic": pan}
		}
		anyErr = anyErr || refErr
		counts = append(counts, len(ref))
		if err == nil && !refErr {
			cc := c15Canon{ns: h.Store.NamespaceManager.GetPrefixToExpansionMap()}
			got := []interface{}{}
			for _, e := range txn.DatasetEntities[pt.ds] {
				got = append(got, cc.ent(e))
			}
			if canonJSON(got) != canonJSON(ref) {
				same = false
			}
		}
	}
	if err == nil && !anyErr && len(txn.DatasetEntities) != len(parts) {
		same = false
	}
	_ = counts
	// the transaction is refused exactly when one of its collections is
	if (err != nil) != anyErr {
		same = false
	}
	return M{"same": same, "parts": len(parts)}
}

// nsOf extracts the namespaces object text of a `{"namespaces":{…}}` context (generated here, so a plain scan does).
func nsOf(ctx string) string {
	i := strings.Index(ctx, `"namespaces":`)
	if i < 0 {
		return "{}"
	}
	rest := ctx[i+len(`"namespaces":`):]
	depth := 0
	for j, ch := range rest {
		if ch == '{' {
			depth++
		} else if ch == '}' {
			depth--
			if depth == 0 {
				return rest[:j+1]
			}
		}
	}
	return "{}"
}

func genC15Txn(c *Ctx) {
	n := 150
	if c.Thorough {
		n = 2500
	}
	for i := 0; i < n; i++ {
		g := newC15Gen(c.Rng)
		nsm := M{}
		for _, kv := range g.ns {
			nsm[kv[0]] = kv[1]
		}
		ctx := `{"namespaces":` + canonJSON(nsm) + `}`
		parts := []M{}
		names := []string{"dsa", "dsb", "dsc"}
		for p := 0; p < 1+c.Rng.Intn(3); p++ {
			elems := []string{}
			for k := 0; k < c.Rng.Intn(4); k++ {
				var sb strings.Builder
				g.writeEntity(&sb, g.entity(0))
				elems = append(elems, base64.StdEncoding.EncodeToString([]byte(sb.String())))
			}
			if c.Rng.Intn(15) == 0 { // a malformed element: the whole transaction must be refused
				elems = append(elems, base64.StdEncoding.EncodeToString([]byte(`{"id":7}`)))
			}
			parts = append(parts, M{"ds": names[p], "elems": elems})
		}
		c.Do("c15.txn", M{"ctx": base64.StdEncoding.EncodeToString([]byte(ctx)), "parts": parts})
	}
}

func init() {
	register("c15txn", genC15Txn)
	registerKind("c15.txn", runC15Txn)
}
